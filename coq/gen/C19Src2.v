(* GENERATED on every run by harness/py2coq2.py from the current source text of /repo/src/saml2 — do not edit. *)
From Coq Require Import String Ascii List Bool ZArith.
From Verif Require Import Base.Str Base.Py Base.Py2.
Import ListNotations.
Open Scope string_scope.


(* saml2/time_util.py:before, lines 265-279 *)
Definition src2_before (now_ : pyval) (parse_time : pyval -> pyval) (v_point : pyval) : pyval :=
  (match p2_branch (p2_not v_point) with
   | BTrue => (PBool true)
   | BFalse => (match p2_branch (p2_isinstance v_point ["str"] []) with
   | BTrue => (py_bind (py_bind v_point (fun a_2 => (parse_time a_2))) (fun v_point =>
   (p2_le now_ v_point)))
   | BFalse => (match p2_branch (p2_isinstance v_point ["int"] []) with
   | BTrue => (py_bind (py_bind v_point (fun a_3 => a_3)) (fun v_point =>
   (p2_le now_ v_point)))
   | BFalse => (p2_le now_ v_point)
   | BExc n_4 => (PExc n_4)
   | BErr => PErr
   end)
   | BExc n_5 => (PExc n_5)
   | BErr => PErr
   end)
   | BExc n_7 => (PExc n_7)
   | BErr => PErr
   end).

(* saml2/time_util.py:after, lines 282-287 *)
Definition src2_after (now_ : pyval) (parse_time : pyval -> pyval) (v_point : pyval) : pyval :=
  (match p2_branch (p2_not v_point) with
   | BTrue => (PBool true)
   | BFalse => (p2_not (py_bind v_point (fun a_1 => (src2_before now_ parse_time a_1))))
   | BExc n_2 => (PExc n_2)
   | BErr => PErr
   end).

(* saml2/cache.py:Cache.get, lines 92-111 *)
Definition src2_cache_get (now_ : pyval) (parse_time : pyval -> pyval) (code_ : pyval -> pyval) (decode_ : pyval -> pyval) (v_self : pyval) (v_name_id : pyval) (v_entity_id : pyval) (v_check_not_on_or_after : pyval) : pyval :=
  let v_cni := PErr in
  let v_timestamp := PErr in
  let v_info := PErr in
  (py_bind (py_bind v_name_id (fun a_1 => (code_ a_1))) (fun v_cni =>
   (py_bind (p2_getitem (p2_getitem (p2_attr v_self "_db") v_cni) v_entity_id) (fun a_2 =>
   (match p2_unpack 2 a_2 with
   | PList [v_timestamp; v_info] => (py_bind (p2_copy v_info) (fun v_info =>
   (match p2_branch (p2_and v_check_not_on_or_after (py_bind v_timestamp (fun a_8 => (src2_after now_ parse_time a_8)))) with
   | BTrue => (py_bind (p2_fconcat [PStr "past "; p2_str (p2_str v_timestamp)]) (fun _ =>
   (PExc "TooOld")))
   | BFalse => (match p2_branch (p2_and (p2_in (PStr "name_id") v_info) (p2_isinstance (p2_getitem v_info (PStr "name_id")) ["str"] [])) with
   | BTrue => (py_bind (py_bind (p2_getitem v_info (PStr "name_id")) (fun a_4 => (decode_ a_4))) (fun a_5 =>
   (py_bind (p2_setitem v_info (PStr "name_id") a_5) (fun v_info =>
   (p2_or v_info PNone)))))
   | BFalse => (p2_or v_info PNone)
   | BExc n_6 => (PExc n_6)
   | BErr => PErr
   end)
   | BExc n_9 => (PExc n_9)
   | BErr => PErr
   end)))
   | PExc n_10 => (PExc n_10)
   | _ => PErr
   end))))).

(* saml2/cache.py:Cache.active, lines 164-181 *)
Definition src2_cache_active (now_ : pyval) (parse_time : pyval -> pyval) (code_ : pyval -> pyval) (v_self : pyval) (v_name_id : pyval) (v_entity_id : pyval) : pyval :=
  let v_cni := PErr in
  let v_timestamp := PErr in
  let v_info := PErr in
  (let h_4 := fun n_4 v_cni v_timestamp v_info =>
    (if exc_matches n_4 ["KeyError"]
    then (PBool false)
    else (PExc n_4)) in
   (py_bindh (fun n_9 => (h_4 n_9 v_cni v_timestamp v_info)) (py_bind v_name_id (fun a_5 => (code_ a_5))) (fun v_cni =>
   (py_bindh (fun n_8 => (h_4 n_8 v_cni v_timestamp v_info)) (p2_getitem (p2_getitem (p2_attr v_self "_db") v_cni) v_entity_id) (fun a_6 =>
   (match p2_unpack 2 a_6 with
   | PList [v_timestamp; v_info] => (match p2_branch (p2_not v_info) with
   | BTrue => (PBool false)
   | BFalse => (py_bind v_timestamp (fun a_1 => (src2_before now_ parse_time a_1)))
   | BExc n_2 => (PExc n_2)
   | BErr => PErr
   end)
   | PExc n_7 => (h_4 n_7 v_cni v_timestamp v_info)
   | _ => PErr
   end)))))).

(* saml2/cache.py:Cache.entities, lines 149-157 *)
Definition src2_cache_entities (code_ : pyval -> pyval) (v_self : pyval) (v_name_id : pyval) : pyval :=
  let v_cni := PErr in
  (py_bind (py_bind v_name_id (fun a_1 => (code_ a_1))) (fun v_cni =>
   (p2_list (p2_keys (p2_getitem (p2_attr v_self "_db") v_cni))))).

(* saml2/cache.py:Cache.delete, lines 40-51 *)
Definition src2_cache_delete (code_ : pyval -> pyval) (sync_ : pyval -> pyval) (v_self : pyval) (v_name_id : pyval) : pyval :=
  (py_bindh (fun n_7 => (PList [(PExc n_7); v_self])) (py_bind v_name_id (fun a_1 => (code_ a_1))) (fun a_2 =>
   (py_bindh (fun n_6 => (PList [(PExc n_6); v_self])) (p2_setattr v_self "_db" (p2_delitem (p2_attr v_self "_db") a_2)) (fun v_self =>
   (match p2_branch (p2_attr v_self "_sync") with
   | BTrue => (py_bindh (fun n_4 => (if exc_matches n_4 ["AttributeError"]
   then (PList [PNone; v_self])
   else (PList [(PExc n_4); v_self]))) (sync_ (p2_attr v_self "_db")) (fun _ =>
   (PList [PNone; v_self])))
   | BFalse => (PList [PNone; v_self])
   | BExc n_5 => (PList [(PExc n_5); v_self])
   | BErr => PErr
   end))))).

(* saml2/cache.py:Cache.subjects, lines 183-188 *)
Definition src2_cache_subjects (decode_ : pyval -> pyval) (v_self : pyval) : pyval :=
  (p2_listcomp (p2_keys (p2_attr v_self "_db")) ktrue (fun v_c => (py_bind v_c (fun a_1 => (decode_ a_1))))).

(* saml2/population.py:Population.stale_sources_for_person, lines 29-41 *)
Definition src2_stale_sources (now_ : pyval) (parse_time : pyval -> pyval) (code_ : pyval -> pyval) (v_self : pyval) (v_name_id : pyval) (v_sources : pyval) : pyval :=
  (let k_5 := fun v_sources =>
    (py_bind (p2_listcomp v_sources (fun v_m => (p2_not (py_bind v_name_id (fun a_1 => (py_bind v_m (fun a_2 => (src2_cache_active now_ parse_time code_ (p2_attr v_self "cache") a_1 a_2))))))) (fun v_m => v_m)) (fun v_sources =>
    v_sources)) in
   (match p2_branch (p2_not v_sources) with
   | BTrue => (py_bind (py_bind v_name_id (fun a_4 => (src2_cache_entities code_ (p2_attr v_self "cache") a_4))) (fun v_sources =>
   (k_5 v_sources)))
   | BFalse => (k_5 v_sources)
   | BExc n_5 => (PExc n_5)
   | BErr => PErr
   end)).

(* saml2/population.py:Population.add_information_about_person, lines 19-27 *)
Definition src2_add_information (set_ : pyval -> pyval -> pyval -> pyval -> pyval -> pyval) (v_self : pyval) (v_session_info : pyval) : pyval :=
  let v_name_id := PErr in
  let v_issuer := PErr in
  (py_bind (p2_dict_copy v_session_info) (fun v_session_info =>
   (py_bind (p2_getitem v_session_info (PStr "name_id")) (fun v_name_id =>
   (py_bind (p2_pop_val1 v_session_info (PStr "issuer")) (fun a_1 =>
   (py_bind (p2_pop_rest v_session_info (PStr "issuer")) (fun v_session_info =>
   (let v_issuer := a_1 in
   (py_bind (py_bind v_name_id (fun a_2 => (py_bind v_issuer (fun a_3 => (py_bind v_session_info (fun a_4 => (py_bind (p2_getitem v_session_info (PStr "not_on_or_after")) (fun a_5 => (set_ (p2_attr v_self "cache") a_2 a_3 a_4 a_5))))))))) (fun _ =>
   v_name_id))))))))))).

(* saml2/response.py:AuthnResponse.session_info, lines 1110-1140 *)
Definition src2_session_info (issuer_ : pyval -> pyval) (authn_info_ : pyval -> pyval) (authz_info_ : pyval -> pyval) (v_self : pyval) : pyval :=
  let v_nooa := PErr in
  let v_authn_statement := PErr in
  (let k_4 := fun v_nooa =>
    (match p2_branch (p2_eq (p2_attr v_self "context") (PStr "AuthzQuery")) with
    | BTrue => (p2_mkdict [("name_id", (p2_attr v_self "name_id")); ("came_from", (p2_attr v_self "came_from")); ("issuer", (issuer_ v_self)); ("not_on_or_after", v_nooa); ("authz_decision_info", (authz_info_ v_self))])
    | BFalse => (match p2_branch (p2_getattr3 (p2_attr v_self "assertion") "authn_statement" PNone) with
    | BTrue => (py_bind (p2_getitem (p2_attr (p2_attr v_self "assertion") "authn_statement") (PInt (0)%Z)) (fun v_authn_statement =>
    (p2_mkdict [("ava", (p2_attr v_self "ava")); ("name_id", (p2_attr v_self "name_id")); ("came_from", (p2_attr v_self "came_from")); ("issuer", (issuer_ v_self)); ("not_on_or_after", v_nooa); ("authn_info", (authn_info_ v_self)); ("session_index", (p2_attr v_authn_statement "session_index"))])))
    | BFalse => (PExc "StatusInvalidAuthnResponseStatement")
    | BExc n_1 => (PExc n_1)
    | BErr => PErr
    end)
    | BExc n_2 => (PExc n_2)
    | BErr => PErr
    end) in
   (match p2_branch (p2_gt (p2_attr v_self "session_not_on_or_after") (PInt (0)%Z)) with
   | BTrue => (py_bind (p2_attr v_self "session_not_on_or_after") (fun v_nooa =>
   (k_4 v_nooa)))
   | BFalse => (py_bind (p2_attr v_self "not_on_or_after") (fun v_nooa =>
   (k_4 v_nooa)))
   | BExc n_4 => (PExc n_4)
   | BErr => PErr
   end)).

(* saml2/client.py:Saml2Client.is_logged_in, lines 405-411 *)
Definition src2_is_logged_in (get_identity_ : pyval -> pyval -> pyval) (v_self : pyval) (v_name_id : pyval) : pyval :=
  let v_identity := PErr in
  (py_bind (p2_getitem (py_bind v_name_id (fun a_1 => (get_identity_ (p2_attr v_self "users") a_1))) (PInt (0)%Z)) (fun v_identity =>
   (p2_bool v_identity))).
