(* GENERATED on every run by harness/py2coq2.py from the current source text of /repo/src/saml2 — do not edit. *)
From Coq Require Import String Ascii List Bool ZArith.
From Verif Require Import Base.Str Base.Py Base.Py2.
Import ListNotations.
Open Scope string_scope.


(* saml2/request.py:Request.sender, lines 196-197 *)
Definition src2_sender (v_self : pyval) : pyval :=
  (p2_strip (p2_attr_x (p2_attr_x (p2_attr_x v_self "message") "issuer") "text")).

(* saml2/request.py:Request._do_redirect_sig_check, lines 109-124 *)
Definition src2_redirect_sig_check (md_certs : pyval -> pyval) (verify_sig : pyval -> pyval -> pyval) (v_self : pyval) (v__saml_msg : pyval) : pyval :=
  let v_issuer := PErr in
  let v_certs := PErr in
  let v_verified := PErr in
  let v_exc := PErr in
  (py_bind (src2_sender v_self) (fun v_issuer =>
   (py_bind (py_bind v_issuer (fun a_1 => (md_certs a_1))) (fun v_certs =>
   (let v_verified := (PBool false) in
   (py_bind (p2_iter_check v_certs) (fun it_3 =>
   (match pyfor2 (py_iter2 it_3) [v_verified; v_exc] (fun st_4 x_5 => match st_4 with [v_verified; v_exc] =>
    (match p2_unpack 2 x_5 with
    | PList [v_cert_name; v_cert] => (match p2_branch (py_bind v__saml_msg (fun a_9 => (py_bind (p2_attr_x (p2_attr_x v_self "sec") "sec_backend") (fun a_10 => (py_bind v_cert (fun a_11 => (verify_sig a_9 a_11))))))) with
    | BTrue => (let v_verified := (PBool true) in
    (BrkS [v_verified; v_exc]))
    | BFalse => (NextS [v_verified; v_exc])
    | BExc n_12 => (if exc_matches n_12 ["ValueError"; "UnicodeDecodeError"; "UnicodeEncodeError"; "UnicodeError"]
    then (let v_exc := PExc n_12 in
    (let v_exc := PErr in (NextS [v_verified; v_exc])))
    else (ExcS n_12 [v_verified; v_exc]))
    | BErr => (RetS PErr)
    end)
    | PExc n_13 => (ExcS n_13 [v_verified; v_exc])
    | _ => (RetS PErr)
    end)
   | _ => RetS PErr end) with
   | NextS st_4 => match st_4 with [v_verified; v_exc] => v_verified | _ => PErr end
   | BrkS st_4 => match st_4 with [v_verified; v_exc] => v_verified | _ => PErr end
   | RetS r_6 => r_6
   | ExcS n_7 st_4 => match st_4 with [v_verified; v_exc] => (PExc n_7) | _ => PErr end
   end)))))))).

(* saml2/sigver.py:SecurityContext.correctly_signed_message, lines 1587-1617 *)
Definition src2_correctly_signed_message (parse : pyval -> pyval -> pyval) (check_sig : pyval -> pyval -> pyval -> pyval -> pyval) (v_self : pyval) (v_decoded_xml : pyval) (v_msgtype : pyval) (v_must : pyval) (v_origdoc : pyval) (v_only_valid_cert : pyval) : pyval :=
  let v_attr := PErr in
  let v__func := PErr in
  let v_msg := PErr in
  let v_err_msg := PErr in
  (py_bind (p2_fconcat [p2_str v_msgtype; PStr "_from_string"]) (fun v_attr =>
   (py_bind (py_bind v_attr (fun a_1 => PNone)) (fun v__func =>
   (py_bind (py_bind v_attr (fun a_2 => (py_bind v__func (fun a_3 => PNone)))) (fun v__func =>
   (py_bind (py_bind v_decoded_xml (fun a_4 => (parse v_attr a_4))) (fun v_msg =>
   (match p2_branch (p2_not v_msg) with
   | BTrue => (py_bind (p2_fconcat [PStr "Not a "; p2_str v_msgtype]) (fun _ =>
   (PExc "TypeError")))
   | BFalse => (match p2_branch (p2_not (p2_attr v_msg "signature")) with
   | BTrue => (match p2_branch v_must with
   | BTrue => (let v_err_msg := (PStr "Required signature missing on {type}") in
   (py_bind (py_bind v_msgtype (fun a_13 => (PStr ""))) (fun v_err_msg =>
   (py_bind v_err_msg (fun _ =>
   (PExc "SignatureError"))))))
   | BFalse => v_msg
   | BExc n_14 => (PExc n_14)
   | BErr => PErr
   end)
   | BFalse => (py_bind v_decoded_xml (fun a_6 => (py_bind v_msg (fun a_7 => (py_bind (py_bind v_msg (fun a_5 => (PStr "cls"))) (fun a_8 => (py_bind v_origdoc (fun a_9 => (py_bind v_must (fun a_10 => (py_bind v_only_valid_cert (fun a_11 => (check_sig a_6 a_7 a_10 a_11)))))))))))))
   | BExc n_15 => (PExc n_15)
   | BErr => PErr
   end)
   | BExc n_17 => (PExc n_17)
   | BErr => PErr
   end))))))))).

(* saml2/entity.py:Entity._parse_request, lines 989-1066 *)
Definition src2_parse_request (endpoint : pyval -> pyval -> pyval -> pyval) (cfg_getattr : pyval -> pyval -> pyval) (unravel : pyval -> pyval -> pyval -> pyval) (mk_request : pyval -> pyval -> pyval -> pyval) (loads : pyval -> list (string * pyval) -> pyval) (verify : pyval -> pyval) (v_self : pyval) (v_enc_request : pyval) (v_request_cls : pyval) (v_service : pyval) (v_binding : pyval) (v_relay_state : pyval) (v_sigalg : pyval) (v_signature : pyval) : pyval :=
  let v__log_debug := PErr in
  let v_receiver_addresses := PErr in
  let v_timeslack := PErr in
  let v__request := PErr in
  let v_xmlstr := PErr in
  let v_must := PErr in
  let v_only_valid_cert := PErr in
  (py_bind (p2_attr_x (PObj [("__class__", PStr "Logger"); ("debug", PNone)]) "debug") (fun v__log_debug =>
   (py_bind (py_bind v_service (fun a_1 => (py_bind v_binding (fun a_2 => (py_bind (p2_attr_x v_self "entity_type") (fun a_3 => (endpoint a_1 a_2 a_3))))))) (fun v_receiver_addresses =>
   (let k_45 := fun v_receiver_addresses =>
    (let k_33 := fun v_timeslack =>
     (py_bind (py_bind (p2_attr_x v_self "sec") (fun a_4 => (py_bind v_receiver_addresses (fun a_5 => (py_bind (p2_attr_x (p2_attr_x v_self "config") "attribute_converters") (fun a_6 => (py_bind v_timeslack (fun a_7 => (mk_request a_5 a_7 v_request_cls))))))))) (fun v__request =>
     (py_bind (py_bind v_enc_request (fun a_8 => (py_bind v_binding (fun a_9 => (py_bind (p2_attr_x v_request_cls "msgtype") (fun a_10 => (unravel a_8 a_9 a_10))))))) (fun v_xmlstr =>
     (py_bind (cfg_getattr (PStr "want_authn_requests_signed") (PStr "idp")) (fun v_must =>
     (py_bind (cfg_getattr (PStr "want_authn_requests_only_with_valid_cert") (PStr "idp")) (fun v_only_valid_cert =>
     (let k_29 := fun v_only_valid_cert =>
      (let k_27 := fun v_only_valid_cert =>
       (let k_25 := fun v_must =>
        (py_bind (py_bind v_xmlstr (fun a_11 => (py_bind v_binding (fun a_12 => (py_bind v_enc_request (fun a_13 => (py_bind v_must (fun a_14 => (py_bind v_only_valid_cert (fun a_15 => (py_bind v_relay_state (fun a_16 => (py_bind v_sigalg (fun a_17 => (py_bind v_signature (fun a_18 => (loads v__request [("xmlstr", a_11); ("binding", a_12); ("must", a_14); ("only_valid_cert", a_15); ("origdoc", a_13); ("relay_state", a_16); ("sigalg", a_17); ("signature", a_18)]))))))))))))))))) (fun v__request =>
        (let k_23 := fun (_ : unit) =>
         (match p2_branch (p2_not v__request) with
         | BTrue => PNone
         | BFalse => v__request
         | BExc n_19 => (PExc n_19)
         | BErr => PErr
         end) in
        (match p2_branch v__request with
        | BTrue => (match p2_branch (p2_not (verify v__request)) with
        | BTrue => PNone
        | BFalse => (k_23 tt)
        | BExc n_22 => (PExc n_22)
        | BErr => PErr
        end)
        | BFalse => (k_23 tt)
        | BExc n_23 => (PExc n_23)
        | BErr => PErr
        end)))) in
       (match p2_branch v_only_valid_cert with
       | BTrue => (let v_must := (PBool true) in
       (k_25 v_must))
       | BFalse => (k_25 v_must)
       | BExc n_25 => (PExc n_25)
       | BErr => PErr
       end)) in
      (match p2_branch (p2_is_none v_only_valid_cert) with
      | BTrue => (let v_only_valid_cert := (PBool false) in
      (k_27 v_only_valid_cert))
      | BFalse => (k_27 v_only_valid_cert)
      | BExc n_27 => (PExc n_27)
      | BErr => PErr
      end)) in
     (match p2_branch (p2_isinstance v_only_valid_cert ["str"] []) with
     | BTrue => (py_bind (p2_in (p2_lower (p2_strip v_only_valid_cert)) (p2_mklist [(PStr "true"); (PStr "yes"); (PStr "on"); (PStr "1")])) (fun v_only_valid_cert =>
     (k_29 v_only_valid_cert)))
     | BFalse => (k_29 v_only_valid_cert)
     | BExc n_29 => (PExc n_29)
     | BErr => PErr
     end)))))))))) in
    (let h_31 := fun n_31 v_timeslack =>
     (if exc_matches n_31 ["AttributeError"]
     then (let v_timeslack := (PInt (0)%Z) in
     (k_33 v_timeslack))
     else (PExc n_31)) in
    (py_bindh (fun n_33 => (h_31 n_33 v_timeslack)) (p2_attr_x (p2_attr_x v_self "config") "accepted_time_diff") (fun v_timeslack =>
    (match p2_branch (p2_not v_timeslack) with
    | BTrue => (let v_timeslack := (PInt (0)%Z) in
    (k_33 v_timeslack))
    | BFalse => (k_33 v_timeslack)
    | BExc n_32 => (h_31 n_32 v_timeslack)
    | BErr => PErr
    end))))) in
   (match p2_branch (p2_and (p2_not v_receiver_addresses) (p2_eq (p2_attr_x v_self "entity_type") (PStr "idp"))) with
   | BTrue => (py_bind (p2_iter_check (p2_mklist [(PStr "aa"); (PStr "aq"); (PStr "pdp")])) (fun it_35 =>
   (match pyfor2 (py_iter2 it_35) [v_receiver_addresses] (fun st_36 x_37 => match st_36 with [v_receiver_addresses] =>
    (let v_typ := x_37 in
    (py_bindS (fun n_44 => (ExcS n_44 [v_receiver_addresses])) (py_bind v_service (fun a_40 => (py_bind v_binding (fun a_41 => (py_bind v_typ (fun a_42 => (endpoint a_40 a_41 a_42))))))) (fun v_receiver_addresses =>
    (match p2_branch v_receiver_addresses with
    | BTrue => (BrkS [v_receiver_addresses])
    | BFalse => (NextS [v_receiver_addresses])
    | BExc n_43 => (ExcS n_43 [v_receiver_addresses])
    | BErr => (RetS PErr)
    end))))
   | _ => RetS PErr end) with
   | NextS st_36 => match st_36 with [v_receiver_addresses] => (k_45 v_receiver_addresses) | _ => PErr end
   | BrkS st_36 => match st_36 with [v_receiver_addresses] => (k_45 v_receiver_addresses) | _ => PErr end
   | RetS r_38 => r_38
   | ExcS n_39 st_36 => match st_36 with [v_receiver_addresses] => (PExc n_39) | _ => PErr end
   end)))
   | BFalse => (k_45 v_receiver_addresses)
   | BExc n_45 => (PExc n_45)
   | BErr => PErr
   end)))))).
