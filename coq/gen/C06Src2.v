(* GENERATED on every run by harness/py2coq2.py from the current source text of /repo/src/saml2 — do not edit. *)
From Coq Require Import String Ascii List Bool ZArith.
From Verif Require Import Base.Str Base.Py Base.Py2.
Import ListNotations.
Open Scope string_scope.


(* saml2/config.py:Config.load_special (the else block in front of self.setattr, cut out by harness/c06.py:config_slices), lines 256-260 *)
Definition src2_load_special_value (v__val : pyval) : pyval :=
  (match p2_branch (p2_eq v__val (PStr "true")) with
   | BTrue => (let v__val := (PBool true) in
   v__val)
   | BFalse => (match p2_branch (p2_eq v__val (PStr "false")) with
   | BTrue => (let v__val := (PBool false) in
   v__val)
   | BFalse => v__val
   | BExc n_2 => (PExc n_2)
   | BErr => PErr
   end)
   | BExc n_3 => (PExc n_3)
   | BErr => PErr
   end).

(* saml2/client_base.py:Base.__init__ (the body of the loop over attribute_defaults between config.getattr and setattr, cut out by harness/c06.py:config_slices), lines 171-184 *)
Definition src2_option_value (v_attr : pyval) (v_val_config : pyval) (v_val_default : pyval) : pyval :=
  let v_val := PErr in
  let v_word := PErr in
  (py_bind (p2_ifexp (p2_is_not_none v_val_config) v_val_config v_val_default) (fun v_val =>
   (match p2_branch (p2_isinstance v_val ["str"] []) with
   | BTrue => (py_bind (p2_lower (p2_strip v_val)) (fun v_word =>
   (match p2_branch (p2_in v_word (p2_mklist [(PStr "true"); (PStr "yes"); (PStr "on"); (PStr "1")])) with
   | BTrue => (let v_val := (PBool true) in
   v_val)
   | BFalse => (match p2_branch (p2_in v_word (p2_mklist [(PStr "false"); (PStr "no"); (PStr "off"); (PStr "0"); (PStr "")])) with
   | BTrue => (let v_val := (PBool false) in
   v_val)
   | BFalse => (PExc "SAMLError")
   | BExc n_2 => (PExc n_2)
   | BErr => PErr
   end)
   | BExc n_3 => (PExc n_3)
   | BErr => PErr
   end)))
   | BFalse => v_val
   | BExc n_4 => (PExc n_4)
   | BErr => PErr
   end))).

(* saml2/config.py:Config.setattr, lines 234-238 *)
Definition src2_config_setattr (v_self : pyval) (v_context : pyval) (v_attr : pyval) (v_val : pyval) : pyval :=
  (match p2_branch (p2_eq v_context (PStr "")) with
   | BTrue => (py_bindh (fun n_5 => (PList [(PExc n_5); v_self])) v_attr (fun a_1 =>
   (py_bindh (fun n_4 => (PList [(PExc n_4); v_self])) v_val (fun a_2 =>
   (py_bindh (fun n_3 => (PList [(PExc n_3); v_self])) (p2_setattr_dyn v_self a_1 a_2) (fun v_self =>
   (PList [PNone; v_self])))))))
   | BFalse => (py_bindh (fun n_10 => (PList [(PExc n_10); v_self])) (p2_fconcat [PStr "_"; p2_str v_context; PStr "_"; p2_str v_attr]) (fun a_6 =>
   (py_bindh (fun n_9 => (PList [(PExc n_9); v_self])) v_val (fun a_7 =>
   (py_bindh (fun n_8 => (PList [(PExc n_8); v_self])) (p2_setattr_dyn v_self a_6 a_7) (fun v_self =>
   (PList [PNone; v_self])))))))
   | BExc n_11 => (PList [(PExc n_11); v_self])
   | BErr => PErr
   end).

(* saml2/config.py:Config.getattr, lines 240-247 *)
Definition src2_config_getattr (v_self : pyval) (v_attr : pyval) (v_context : pyval) : pyval :=
  (let k_3 := fun v_context =>
    (match p2_branch (p2_eq v_context (PStr "")) with
    | BTrue => (p2_getattr3_dyn v_self v_attr PNone)
    | BFalse => (p2_getattr3_dyn v_self (p2_fconcat [PStr "_"; p2_str v_context; PStr "_"; p2_str v_attr]) PNone)
    | BExc n_1 => (PExc n_1)
    | BErr => PErr
    end) in
   (match p2_branch (p2_is_none v_context) with
   | BTrue => (py_bind (p2_attr v_self "context") (fun v_context =>
   (k_3 v_context)))
   | BFalse => (k_3 v_context)
   | BExc n_3 => (PExc n_3)
   | BErr => PErr
   end)).

(* saml2/client_base.py:Base.__init__, attribute_defaults["allow_unsolicited"] *)
Definition src2_allow_unsolicited_default : pyval := (PBool false).
