(* GENERATED on every run by harness/py2coq2.py from the current source text of /repo/src/saml2 — do not edit. *)
From Coq Require Import String Ascii List Bool ZArith.
From Verif Require Import Base.Str Base.Py Base.Py2.
Import ListNotations.
Open Scope string_scope.


(* saml2/config.py:Config.load_special (the else block in front of self.setattr, cut out by harness/c06.py:config_slices), lines 257-261 *)
Definition src2_load_special_value (v__val : pyval) : pyval :=
  (match p2_branch (p2_eq v__val (PStr "true")) with
   | BTrue => (let v__val := (PBool true) in
   v__val)
   | BFalse => (match p2_branch (p2_eq v__val (PStr "false")) with
   | BTrue => (let v__val := (PBool false) in
   v__val)
   | BFalse => v__val
   | BExc n_2 => (PExc n_2)
   | BErr => PErr
   end)
   | BExc n_3 => (PExc n_3)
   | BErr => PErr
   end).

(* saml2/client_base.py:Base.__init__ (the body of the loop over attribute_defaults between config.getattr and setattr, cut out by harness/c06.py:config_slices), lines 179-192 *)
Definition src2_option_value (v_attr : pyval) (v_val_config : pyval) (v_val_default : pyval) : pyval :=
  let v_val := PErr in
  let v_word := PErr in
  (py_bind (p2_ifexp (p2_is_not_none v_val_config) v_val_config v_val_default) (fun v_val =>
   (match p2_branch (p2_isinstance v_val ["str"] []) with
   | BTrue => (py_bind (p2_lower (p2_strip v_val)) (fun v_word =>
   (match p2_branch (p2_in v_word (p2_mklist [(PStr "true"); (PStr "yes"); (PStr "on"); (PStr "1")])) with
   | BTrue => (let v_val := (PBool true) in
   v_val)
   | BFalse => (match p2_branch (p2_in v_word (p2_mklist [(PStr "false"); (PStr "no"); (PStr "off"); (PStr "0"); (PStr "")])) with
   | BTrue => (let v_val := (PBool false) in
   v_val)
   | BFalse => (PExc "SAMLError")
   | BExc n_2 => (PExc n_2)
   | BErr => PErr
   end)
   | BExc n_3 => (PExc n_3)
   | BErr => PErr
   end)))
   | BFalse => v_val
   | BExc n_4 => (PExc n_4)
   | BErr => PErr
   end))).

(* saml2/config.py:Config.setattr, lines 235-239 *)
Definition src2_config_setattr (v_self : pyval) (v_context : pyval) (v_attr : pyval) (v_val : pyval) : pyval :=
  (match p2_branch (p2_eq v_context (PStr "")) with
   | BTrue => (py_bindh (fun n_5 => (PList [(PExc n_5); v_self])) v_attr (fun a_1 =>
   (py_bindh (fun n_4 => (PList [(PExc n_4); v_self])) v_val (fun a_2 =>
   (py_bindh (fun n_3 => (PList [(PExc n_3); v_self])) (p2_setattr_dyn v_self a_1 a_2) (fun v_self =>
   (PList [PNone; v_self])))))))
   | BFalse => (py_bindh (fun n_10 => (PList [(PExc n_10); v_self])) (p2_fconcat [PStr "_"; p2_str v_context; PStr "_"; p2_str v_attr]) (fun a_6 =>
   (py_bindh (fun n_9 => (PList [(PExc n_9); v_self])) v_val (fun a_7 =>
   (py_bindh (fun n_8 => (PList [(PExc n_8); v_self])) (p2_setattr_dyn v_self a_6 a_7) (fun v_self =>
   (PList [PNone; v_self])))))))
   | BExc n_11 => (PList [(PExc n_11); v_self])
   | BErr => PErr
   end).

(* saml2/config.py:Config.getattr, lines 241-248 *)
Definition src2_config_getattr (v_self : pyval) (v_attr : pyval) (v_context : pyval) : pyval :=
  (let k_3 := fun v_context =>
    (match p2_branch (p2_eq v_context (PStr "")) with
    | BTrue => (p2_getattr3_dyn v_self v_attr PNone)
    | BFalse => (p2_getattr3_dyn v_self (p2_fconcat [PStr "_"; p2_str v_context; PStr "_"; p2_str v_attr]) PNone)
    | BExc n_1 => (PExc n_1)
    | BErr => PErr
    end) in
   (match p2_branch (p2_is_none v_context) with
   | BTrue => (py_bind (p2_attr v_self "context") (fun v_context =>
   (k_3 v_context)))
   | BFalse => (k_3 v_context)
   | BExc n_3 => (PExc n_3)
   | BErr => PErr
   end)).

(* saml2/response.py:AuthnResponse.get_subject (the if statement between the attesting-entity test and the loop over the confirmations, cut out by harness/c06.py:subject_slice), lines 755-761 *)
Definition src2_subject_repeat_check (v_self : pyval) (v_subject : pyval) : pyval :=
  let v__data := PErr in
  (match p2_branch (p2_and (p2_attr v_self "asynchop") (p2_in (p2_attr v_self "in_response_to") (p2_attr v_self "outstanding_queries"))) with
   | BTrue => (py_bind (p2_iter_check (p2_attr v_subject "subject_confirmation")) (fun it_2 =>
   (match pyfor2 (py_iter2 it_2) [v__data] (fun st_3 x_4 => match st_3 with [v__data] =>
    (let v_subject_confirmation := x_4 in
    (py_bindS (fun n_9 => (ExcS n_9 [v__data])) (p2_attr v_subject_confirmation "subject_confirmation_data") (fun v__data =>
    (match p2_branch (p2_and (p2_is_not_none v__data) (p2_ne (p2_attr v__data "in_response_to") (p2_attr v_self "in_response_to"))) with
    | BTrue => (py_bindS (fun n_7 => (ExcS n_7 [v__data])) (p2_fconcat [PStr "Unsolicited response: "; p2_str (p2_attr v_self "in_response_to")]) (fun _ =>
    (ExcS "UnsolicitedResponse" [v__data])))
    | BFalse => (NextS [v__data])
    | BExc n_8 => (ExcS n_8 [v__data])
    | BErr => (RetS PErr)
    end))))
   | _ => RetS PErr end) with
   | NextS st_3 => match st_3 with [v__data] => PNone | _ => PErr end
   | BrkS _ => PErr
   | RetS r_5 => r_5
   | ExcS n_6 st_3 => match st_3 with [v__data] => (PExc n_6) | _ => PErr end
   end)))
   | BFalse => PNone
   | BExc n_10 => (PExc n_10)
   | BErr => PErr
   end).

(* saml2/response.py:StatusResponse.status_ok (the statements in front of the table lookup, cut out by harness/c06.py:status_slice), lines 379-388 *)
Definition src2_status_ok_head (v_self : pyval) : pyval :=
  let v_status := PErr in
  let v_err_code := PErr in
  let v_err_msg := PErr in
  (py_bind (p2_attr (p2_attr v_self "response") "status") (fun v_status =>
   (match p2_branch (p2_or (p2_not v_status) (p2_eq (p2_attr (p2_attr v_status "status_code") "value") (PStr "urn:oasis:names:tc:SAML:2.0:status:Success"))) with
   | BTrue => (PBool true)
   | BFalse => (py_bind (p2_ifexp (p2_attr (p2_attr v_status "status_code") "status_code") (p2_attr (p2_attr (p2_attr v_status "status_code") "status_code") "value") PNone) (fun v_err_code =>
   (py_bind (p2_ifexp (p2_attr v_status "status_message") (p2_attr (p2_attr v_status "status_message") "text") (p2_or v_err_code (PStr "Unknown error"))) (fun v_err_msg =>
   v_err_code))))
   | BExc n_2 => (PExc n_2)
   | BErr => PErr
   end))).

(* saml2/client_base.py:Base.__init__, attribute_defaults["allow_unsolicited"] *)
Definition src2_allow_unsolicited_default : pyval := (PBool false).
