(* generated from the live saml2.xmldsig / saml2.sigver *)
From Coq Require Import String List.
Import ListNotations.
Open Scope string_scope.
Definition live_allowed_transforms : list string := ["http://www.w3.org/2000/09/xmldsig#enveloped-signature"; "http://www.w3.org/2001/10/xml-exc-c14n#"; "http://www.w3.org/2001/10/xml-exc-c14n#WithComments"].
Definition live_allowed_canonicalizations : list string := ["http://www.w3.org/2001/10/xml-exc-c14n#"; "http://www.w3.org/2001/10/xml-exc-c14n#WithComments"].
Definition live_transform_enveloped : string := "http://www.w3.org/2000/09/xmldsig#enveloped-signature".
Definition live_node_name : string := "urn:oasis:names:tc:SAML:2.0:assertion:Assertion".
