(* GENERATED on every run by harness/py2coq2.py from the current source text of /repo/src/saml2 — do not edit. *)
From Coq Require Import String Ascii List Bool ZArith.
From Verif Require Import Base.Str Base.Py Base.Py2.
Import ListNotations.
Open Scope string_scope.

From VerifGen Require Import C09Src2.

(* saml2/server.py:Server.gather_authn_response_args (call shapes rewritten by harness/c09.py), lines 696-773 *)
Definition src2_gather (registration_info : pyval -> pyval -> pyval) (cfg_getattr : pyval -> pyval -> pyval -> pyval) (enc_cert_ok : pyval -> pyval) (find_nameid : pyval -> pyval -> pyval -> pyval) (construct_nameid : pyval -> pyval -> pyval -> pyval -> pyval -> pyval) (v_self : pyval) (v_sp_entity_id : pyval) (v_name_id_policy : pyval) (v_userid : pyval) (v_kwargs : pyval) : pyval :=
  let v_args := PErr in
  let v_param_defaults := PErr in
  let v_param := PErr in
  let v_val_kw := PErr in
  let v_val_config := PErr in
  let v__enc_cert := PErr in
  let v_nid_formats := PErr in
  let v_snq := PErr in
  let v_kwa := PErr in
  let v__nids := PErr in
  (py_bind (p2_get v_kwargs (PStr "release_policy")) (fun a_1 =>
   (py_bind (p2_setitem v_kwargs (PStr "policy") a_1) (fun v_kwargs =>
   (let v_args := (PObj []) in
   (py_bind (p2_mkdict [("policy", PNone); ("best_effort", (PBool false)); ("sign_assertion", (PBool false)); ("sign_response", (PBool false)); ("encrypt_assertion", (PBool false)); ("encrypt_assertion_self_contained", (PBool true)); ("encrypted_advice_attributes", (PBool false)); ("encrypt_cert_advice", PNone); ("encrypt_cert_assertion", PNone)]) (fun v_param_defaults =>
   (py_bind (p2_iter_check (p2_items v_param_defaults)) (fun it_58 =>
   (match pyfor2 (py_iter2 it_58) [v_param; v_val_kw; v_val_config; v_args] (fun st_59 x_60 => match st_59 with [v_param; v_val_kw; v_val_config; v_args] =>
    (match p2_unpack 2 x_60 with
    | PList [v_param; v_val_default] => (py_bindS (fun n_70 => (ExcS n_70 [v_param; v_val_kw; v_val_config; v_args])) (p2_get v_kwargs v_param) (fun v_val_kw =>
    (py_bindS (fun n_69 => (ExcS n_69 [v_param; v_val_kw; v_val_config; v_args])) (py_bind v_param (fun a_63 => (cfg_getattr (p2_attr_x v_self "config") a_63 (PStr "idp")))) (fun v_val_config =>
    (py_bindS (fun n_68 => (ExcS n_68 [v_param; v_val_kw; v_val_config; v_args])) (p2_ifexp (p2_is_not_none v_val_kw) v_val_kw (p2_ifexp (p2_is_not_none v_val_config) v_val_config v_val_default)) (fun a_64 =>
    (py_bindS (fun n_67 => (ExcS n_67 [v_param; v_val_kw; v_val_config; v_args])) v_param (fun a_65 =>
    (py_bindS (fun n_66 => (ExcS n_66 [v_param; v_val_kw; v_val_config; v_args])) (p2_setitem v_args a_65 a_64) (fun v_args =>
    (NextS [v_param; v_val_kw; v_val_config; v_args])))))))))))
    | PExc n_71 => (ExcS n_71 [v_param; v_val_kw; v_val_config; v_args])
    | _ => (RetS PErr)
    end)
   | _ => RetS PErr end) with
   | NextS st_59 => match st_59 with [v_param; v_val_kw; v_val_config; v_args] => (py_bind (p2_iter_check (p2_mklist [(p2_mklist [(PStr "encrypted_advice_attributes"); (PStr "verify_encrypt_cert_advice"); (PStr "encrypt_cert_advice"); (p2_getitem v_kwargs (PStr "pefim"))]); (p2_mklist [(PStr "encrypt_assertion"); (PStr "verify_encrypt_cert_assertion"); (PStr "encrypt_cert_assertion"); (PBool false)])])) (fun it_43 =>
   (match pyfor2 (py_iter2 it_43) [v__enc_cert] (fun st_44 x_45 => match st_44 with [v__enc_cert] =>
    (match p2_unpack 4 x_45 with
    | PList [v_arg; v_attr; v_eca; v_pefim] => (match p2_branch (p2_or (p2_getitem v_args v_arg) v_pefim) with
    | BTrue => (py_bindS (fun n_54 => (ExcS n_54 [v__enc_cert])) (py_bind v_attr (fun a_48 => (cfg_getattr (p2_attr_x v_self "config") a_48 (PStr "idp")))) (fun v__enc_cert =>
    (match p2_branch (p2_is_not_none v__enc_cert) with
    | BTrue => (match p2_branch (p2_is_none (p2_getitem v_kwargs v_eca)) with
    | BTrue => (ExcS "CertificateError" [v__enc_cert])
    | BFalse => (match p2_branch (p2_not (py_bind (p2_getitem v_kwargs v_eca) (fun a_49 => (enc_cert_ok a_49)))) with
    | BTrue => (ExcS "CertificateError" [v__enc_cert])
    | BFalse => (NextS [v__enc_cert])
    | BExc n_50 => (ExcS n_50 [v__enc_cert])
    | BErr => (RetS PErr)
    end)
    | BExc n_52 => (ExcS n_52 [v__enc_cert])
    | BErr => (RetS PErr)
    end)
    | BFalse => (NextS [v__enc_cert])
    | BExc n_53 => (ExcS n_53 [v__enc_cert])
    | BErr => (RetS PErr)
    end)))
    | BFalse => (NextS [v__enc_cert])
    | BExc n_55 => (ExcS n_55 [v__enc_cert])
    | BErr => (RetS PErr)
    end)
    | PExc n_56 => (ExcS n_56 [v__enc_cert])
    | _ => (RetS PErr)
    end)
   | _ => RetS PErr end) with
   | NextS st_44 => match st_44 with [v__enc_cert] => (let k_41 := fun v_nid_formats v_snq v_kwa v__nids v_args =>
    (py_bind (p2_iter_check (p2_mklist [(PStr "status"); (PStr "farg")])) (fun it_3 =>
    (match pyfor2 (py_iter2 it_3) [v_param; v_args] (fun st_4 x_5 => match st_4 with [v_param; v_args] =>
     (let v_param := x_5 in
     (let h_8 := fun n_8 v_args =>
      (if exc_matches n_8 ["KeyError"]
      then (NextS [v_param; v_args])
      else (ExcS n_8 [v_param; v_args])) in
     (py_bindS (fun n_13 => (h_8 n_13 v_args)) (p2_getitem v_kwargs v_param) (fun a_9 =>
     (py_bindS (fun n_12 => (h_8 n_12 v_args)) v_param (fun a_10 =>
     (py_bindS (fun n_11 => (h_8 n_11 v_args)) (p2_setitem v_args a_10 a_9) (fun v_args =>
     (NextS [v_param; v_args])))))))))
    | _ => RetS PErr end) with
    | NextS st_4 => match st_4 with [v_param; v_args] => v_args | _ => PErr end
    | BrkS _ => PErr
    | RetS r_6 => r_6
    | ExcS n_7 st_4 => match st_4 with [v_param; v_args] => (PExc n_7) | _ => PErr end
    end))) in
   (match p2_branch (p2_or (p2_not_in (PStr "name_id") v_kwargs) (p2_not (p2_getitem v_kwargs (PStr "name_id")))) with
   | BTrue => (let v_nid_formats := (PList []) in
   (py_bind (p2_iter_check (p2_getitem (p2_getitem (p2_attr_x v_self "metadata") v_sp_entity_id) (PStr "spsso_descriptor"))) (fun it_33 =>
   (match pyfor2 (py_iter2 it_33) [v_nid_formats] (fun st_34 x_35 => match st_34 with [v_nid_formats] =>
    (let v__sp := x_35 in
    (match p2_branch (p2_in (PStr "name_id_format") v__sp) with
    | BTrue => (py_bindS (fun n_38 => (ExcS n_38 [v_nid_formats])) (p2_extend v_nid_formats (p2_listcomp (p2_getitem v__sp (PStr "name_id_format")) ktrue (fun v_n => (p2_getitem v_n (PStr "text"))))) (fun v_nid_formats =>
    (NextS [v_nid_formats])))
    | BFalse => (NextS [v_nid_formats])
    | BExc n_39 => (ExcS n_39 [v_nid_formats])
    | BErr => (RetS PErr)
    end))
   | _ => RetS PErr end) with
   | NextS st_34 => match st_34 with [v_nid_formats] => (let k_31 := fun v_snq =>
    (let k_28 := fun v_snq =>
     (py_bind (p2_mkdict [("sp_name_qualifier", v_snq)]) (fun v_kwa =>
     (py_bind (p2_or (p2_getattr3 v_name_id_policy "format" PNone) (py_bind (p2_getitem v_args (PStr "policy")) (fun a_15 => (py_bind v_sp_entity_id (fun a_16 => (src2_get_nameid_format registration_info a_15 a_16)))))) (fun a_17 =>
     (py_bind (p2_setitem v_kwa (PStr "format") a_17) (fun v_kwa =>
     (py_bind (py_bind v_userid (fun a_18 => (py_bind v_kwa (fun a_19 => (find_nameid (p2_attr_x v_self "ident") a_18 a_19))))) (fun v__nids =>
     (match p2_branch v__nids with
     | BTrue => (py_bind (p2_getitem v__nids (PInt (0)%Z)) (fun a_20 =>
     (py_bind (p2_setitem v_args (PStr "name_id") a_20) (fun v_args =>
     (k_41 v_nid_formats v_snq v_kwa v__nids v_args)))))
     | BFalse => (py_bind (py_bind v_userid (fun a_21 => (py_bind (p2_getitem v_args (PStr "policy")) (fun a_22 => (py_bind v_sp_entity_id (fun a_23 => (py_bind v_name_id_policy (fun a_24 => (construct_nameid (p2_attr_x v_self "ident") a_21 a_22 a_23 a_24))))))))) (fun a_25 =>
     (py_bind (p2_setitem v_args (PStr "name_id") a_25) (fun v_args =>
     (k_41 v_nid_formats v_snq v_kwa v__nids v_args)))))
     | BExc n_26 => (PExc n_26)
     | BErr => PErr
     end))))))))) in
    (match p2_branch (p2_not v_snq) with
    | BTrue => (py_bind v_sp_entity_id (fun v_snq =>
    (k_28 v_snq)))
    | BFalse => (k_28 v_snq)
    | BExc n_28 => (PExc n_28)
    | BErr => PErr
    end)) in
   (py_bindh (fun n_31 => (if exc_matches n_31 ["AttributeError"]
   then (py_bind v_sp_entity_id (fun v_snq =>
   (k_31 v_snq)))
   else (PExc n_31))) (p2_attr_x v_name_id_policy "sp_name_qualifier") (fun v_snq =>
   (k_31 v_snq)))) | _ => PErr end
   | BrkS _ => PErr
   | RetS r_36 => r_36
   | ExcS n_37 st_34 => match st_34 with [v_nid_formats] => (PExc n_37) | _ => PErr end
   end))))
   | BFalse => (py_bind (p2_getitem v_kwargs (PStr "name_id")) (fun a_40 =>
   (py_bind (p2_setitem v_args (PStr "name_id") a_40) (fun v_args =>
   (k_41 v_nid_formats v_snq v_kwa v__nids v_args)))))
   | BExc n_41 => (PExc n_41)
   | BErr => PErr
   end)) | _ => PErr end
   | BrkS _ => PErr
   | RetS r_46 => r_46
   | ExcS n_47 st_44 => match st_44 with [v__enc_cert] => (PExc n_47) | _ => PErr end
   end))) | _ => PErr end
   | BrkS _ => PErr
   | RetS r_61 => r_61
   | ExcS n_62 st_59 => match st_59 with [v_param; v_val_kw; v_val_config; v_args] => (PExc n_62) | _ => PErr end
   end)))))))))).
