(* GENERATED on every run by harness/py2coq2.py from the current source text of /repo/src/saml2 — do not edit. *)
From Coq Require Import String Ascii List Bool ZArith.
From Verif Require Import Base.Str Base.Py Base.Py2.
Import ListNotations.
Open Scope string_scope.


(* saml2/attribute_converter.py:AttributeConverter.adjust, lines 238-246 *)
Definition src2_adjust (v_self : pyval) : pyval :=
  (let k_13 := fun v_self =>
    (match p2_branch (p2_and (p2_is_none (p2_attr v_self "_to")) (p2_is_not_none (p2_attr v_self "_fro"))) with
    | BTrue => (py_bindh (fun n_5 => (PList [(PExc n_5); v_self])) (p2_dictcomp (p2_items (p2_attr v_self "_fro")) ktrue (fun x_1 => match p2_unpack 2 x_1 with PList [v_key; v_value] => (p2_lower v_value) | PExc n_ => PExc n_ | _ => PErr end) (fun x_2 => match p2_unpack 2 x_2 with PList [v_key; v_value] => v_key | PExc n_ => PExc n_ | _ => PErr end)) (fun a_3 =>
    (py_bindh (fun n_4 => (PList [(PExc n_4); v_self])) (p2_setattr v_self "_to" a_3) (fun v_self =>
    (PList [PNone; v_self])))))
    | BFalse => (PList [PNone; v_self])
    | BExc n_6 => (PList [(PExc n_6); v_self])
    | BErr => PErr
    end) in
   (match p2_branch (p2_and (p2_is_none (p2_attr v_self "_fro")) (p2_is_not_none (p2_attr v_self "_to"))) with
   | BTrue => (py_bindh (fun n_12 => (PList [(PExc n_12); v_self])) (p2_dictcomp (p2_items (p2_attr v_self "_to")) ktrue (fun x_8 => match p2_unpack 2 x_8 with PList [v_key; v_value] => (p2_lower v_value) | PExc n_ => PExc n_ | _ => PErr end) (fun x_9 => match p2_unpack 2 x_9 with PList [v_key; v_value] => v_key | PExc n_ => PExc n_ | _ => PErr end)) (fun a_10 =>
   (py_bindh (fun n_11 => (PList [(PExc n_11); v_self])) (p2_setattr v_self "_fro" a_10) (fun v_self =>
   (k_13 v_self)))))
   | BFalse => (k_13 v_self)
   | BExc n_13 => (PList [(PExc n_13); v_self])
   | BErr => PErr
   end)).

(* saml2/attribute_converter.py:AttributeConverter.from_dict, lines 248-268 *)
Definition src2_from_dict (adjust : pyval -> pyval) (v_self : pyval) (v_mapdict : pyval) : pyval :=
  (py_bindh (fun n_21 => (PList [(PExc n_21); v_self])) (p2_getitem v_mapdict (PStr "identifier")) (fun a_1 =>
   (py_bindh (fun n_20 => (PList [(PExc n_20); v_self])) (p2_setattr v_self "name_format" a_1) (fun v_self =>
   (let k_19 := fun v_self =>
    (let k_12 := fun v_self =>
     (match p2_branch (p2_and (p2_is_none (p2_attr v_self "_fro")) (p2_is_none (p2_attr v_self "_to"))) with
     | BTrue => (PList [(PExc "ConverterError"); v_self])
     | BFalse => (match p2_branch (p2_or (p2_is_none (p2_attr v_self "_fro")) (p2_is_none (p2_attr v_self "_to"))) with
     | BTrue => (py_bindh (fun n_2 => (PList [(PExc n_2); v_self])) (adjust v_self) (fun _ =>
     (PList [PNone; v_self])))
     | BFalse => (PList [PNone; v_self])
     | BExc n_3 => (PList [(PExc n_3); v_self])
     | BErr => PErr
     end)
     | BExc n_5 => (PList [(PExc n_5); v_self])
     | BErr => PErr
     end) in
    (let h_7 := fun n_7 v_self =>
     (if exc_matches n_7 ["KeyError"]
     then (k_12 v_self)
     else (PList [(PExc n_7); v_self])) in
    (py_bindh (fun n_12 => (h_7 n_12 v_self)) (p2_dictcomp (p2_items (p2_getitem v_mapdict (PStr "to"))) ktrue (fun x_8 => match p2_unpack 2 x_8 with PList [v_k; v_v] => (p2_lower v_k) | PExc n_ => PExc n_ | _ => PErr end) (fun x_9 => match p2_unpack 2 x_9 with PList [v_k; v_v] => v_v | PExc n_ => PExc n_ | _ => PErr end)) (fun a_10 =>
    (py_bindh (fun n_11 => (h_7 n_11 v_self)) (p2_setattr v_self "_to" a_10) (fun v_self =>
    (k_12 v_self))))))) in
   (let h_14 := fun n_14 v_self =>
    (if exc_matches n_14 ["KeyError"]
    then (k_19 v_self)
    else (PList [(PExc n_14); v_self])) in
   (py_bindh (fun n_19 => (h_14 n_19 v_self)) (p2_dictcomp (p2_items (p2_getitem v_mapdict (PStr "fro"))) ktrue (fun x_15 => match p2_unpack 2 x_15 with PList [v_k; v_v] => (p2_lower v_k) | PExc n_ => PExc n_ | _ => PErr end) (fun x_16 => match p2_unpack 2 x_16 with PList [v_k; v_v] => v_v | PExc n_ => PExc n_ | _ => PErr end)) (fun a_17 =>
   (py_bindh (fun n_18 => (h_14 n_18 v_self)) (p2_setattr v_self "_fro" a_17) (fun v_self =>
   (k_19 v_self))))))))))).

(* saml2/attribute_converter.py:AttributeConverter.to_, lines 433-460 *)
Definition src2_to_ (do_ava : pyval -> pyval) (to_eptid_value : pyval -> pyval) (factory : pyval -> pyval -> pyval -> pyval -> pyval -> pyval) (v_self : pyval) (v_attrvals : pyval) : pyval :=
  let v_attributes := PErr in
  let v_name := PErr in
  let v_attr_value := PErr in
  (let v_attributes := (PList []) in
   (py_bind (p2_iter_check (p2_items v_attrvals)) (fun it_2 =>
   (match pyfor2 (py_iter2 it_2) [v_name; v_attr_value; v_attributes] (fun st_3 x_4 => match st_3 with [v_name; v_attr_value; v_attributes] =>
    (match p2_unpack 2 x_4 with
    | PList [v_key; v_value] => (py_bindS (fun n_23 => (ExcS n_23 [v_name; v_attr_value; v_attributes])) (p2_get (p2_attr v_self "_to") (p2_lower v_key)) (fun v_name =>
    (match p2_branch v_name with
    | BTrue => (let k_17 := fun v_attr_value =>
     (py_bindS (fun n_11 => (ExcS n_11 [v_name; v_attr_value; v_attributes])) (p2_append v_attributes (py_bind v_name (fun a_7 => (py_bind (p2_attr v_self "name_format") (fun a_8 => (py_bind v_key (fun a_9 => (py_bind v_attr_value (fun a_10 => (factory (PStr "saml.Attribute") a_7 a_8 a_9 a_10)))))))))) (fun v_attributes =>
     (NextS [v_name; v_attr_value; v_attributes]))) in
    (match p2_branch (p2_eq v_name (PStr "urn:oid:1.3.6.1.4.1.5923.1.1.1.10")) with
    | BTrue => (py_bindS (fun n_14 => (ExcS n_14 [v_name; v_attr_value; v_attributes])) (py_bind v_value (fun a_13 => (to_eptid_value a_13))) (fun v_attr_value =>
    (k_17 v_attr_value)))
    | BFalse => (py_bindS (fun n_16 => (ExcS n_16 [v_name; v_attr_value; v_attributes])) (py_bind v_value (fun a_15 => (do_ava a_15))) (fun v_attr_value =>
    (k_17 v_attr_value)))
    | BExc n_17 => (ExcS n_17 [v_name; v_attr_value; v_attributes])
    | BErr => (RetS PErr)
    end))
    | BFalse => (py_bindS (fun n_21 => (ExcS n_21 [v_name; v_attr_value; v_attributes])) (p2_append v_attributes (py_bind v_key (fun a_19 => (py_bind (py_bind v_value (fun a_18 => (do_ava a_18))) (fun a_20 => (factory (PStr "saml.Attribute") a_19 (PObj [("__class__", PStr "<absent>")]) (PObj [("__class__", PStr "<absent>")]) a_20)))))) (fun v_attributes =>
    (NextS [v_name; v_attr_value; v_attributes])))
    | BExc n_22 => (ExcS n_22 [v_name; v_attr_value; v_attributes])
    | BErr => (RetS PErr)
    end)))
    | PExc n_24 => (ExcS n_24 [v_name; v_attr_value; v_attributes])
    | _ => (RetS PErr)
    end)
   | _ => RetS PErr end) with
   | NextS st_3 => match st_3 with [v_name; v_attr_value; v_attributes] => v_attributes | _ => PErr end
   | BrkS _ => PErr
   | RetS r_5 => r_5
   | ExcS n_6 st_3 => match st_3 with [v_name; v_attr_value; v_attributes] => (PExc n_6) | _ => PErr end
   end)))).

(* saml2/attribute_converter.py:from_local, lines 165-172 *)
Definition src2_from_local (to_ : pyval -> pyval -> pyval) (v_acs : pyval) (v_ava : pyval) (v_name_format : pyval) : pyval :=
  (py_bind (p2_iter_check v_acs) (fun it_2 =>
   (match pyfor2 (py_iter2 it_2) [] (fun st_3 x_4 => match st_3 with [] =>
    (let v_aconv := x_4 in
    (match p2_branch (p2_eq (p2_attr v_aconv "name_format") v_name_format) with
    | BTrue => (py_bindS (fun n_9 => (ExcS n_9 [])) (py_bind v_ava (fun a_7 => (to_ v_aconv a_7))) (fun r_8 =>
    (RetS r_8)))
    | BFalse => (NextS [])
    | BExc n_10 => (ExcS n_10 [])
    | BErr => (RetS PErr)
    end))
   | _ => RetS PErr end) with
   | NextS st_3 => match st_3 with [] => PNone | _ => PErr end
   | BrkS _ => PErr
   | RetS r_5 => r_5
   | ExcS n_6 st_3 => match st_3 with [] => (PExc n_6) | _ => PErr end
   end))).

(* saml2/attribute_converter.py:AttributeConverter.lcd_ava_from, lines 270-279 *)
Definition src2_lcd_ava_from (v_self : pyval) (v_attribute : pyval) : pyval :=
  let v_name := PErr in
  let v_values := PErr in
  (py_bind (p2_strip (p2_attr_x v_attribute "name")) (fun v_name =>
   (py_bind (p2_listcomp (p2_attr_x v_attribute "attribute_value") ktrue (fun v_value => (p2_strip (p2_or (p2_attr_x v_value "text") (PStr ""))))) (fun v_values =>
   (p2_mklist [v_name; v_values]))))).

(* saml2/s_utils.py:do_ava, lines 307-328 *)
Definition src2_do_ava (do_ava_rec : pyval -> pyval) (set_text : pyval -> pyval -> pyval) (set_type : pyval -> pyval -> pyval) (v_val : pyval) (v_typ : pyval) : pyval :=
  let v_ava := PErr in
  let v_attrval := PErr in
  (let k_17 := fun v_ava v_attrval =>
    (match p2_branch v_typ with
    | BTrue => (py_bind (p2_iter_check v_attrval) (fun it_2 =>
    (match pyfor2 (py_iter2 it_2) [v_ava] (fun st_3 x_4 => match st_3 with [v_ava] =>
     (let v_ava := x_4 in
     (py_bindS (fun n_8 => (ExcS n_8 [v_ava])) (py_bind v_typ (fun a_7 => (set_type v_ava a_7))) (fun _ =>
     (NextS [v_ava]))))
    | _ => RetS PErr end) with
    | NextS st_3 => match st_3 with [v_ava] => v_attrval | _ => PErr end
    | BrkS _ => PErr
    | RetS r_5 => r_5
    | ExcS n_6 st_3 => match st_3 with [v_ava] => (PExc n_6) | _ => PErr end
    end)))
    | BFalse => v_attrval
    | BExc n_9 => (PExc n_9)
    | BErr => PErr
    end) in
   (match p2_branch (p2_isinstance v_val ["str"] []) with
   | BTrue => (py_bind (PObj [("__class__", PStr "AttributeValue")]) (fun v_ava =>
   (py_bind (py_bind v_val (fun a_11 => (set_text v_ava a_11))) (fun _ =>
   (py_bind (p2_mklist [v_ava]) (fun v_attrval =>
   (k_17 v_ava v_attrval)))))))
   | BFalse => (match p2_branch (p2_isinstance v_val ["list"] []) with
   | BTrue => (py_bind (p2_listcomp v_val ktrue (fun v_v => (p2_getitem (py_bind v_v (fun a_12 => (do_ava_rec a_12))) (PInt (0)%Z)))) (fun v_attrval =>
   (k_17 v_ava v_attrval)))
   | BFalse => (match p2_branch (p2_is_none v_val) with
   | BTrue => (let v_attrval := PNone in
   (k_17 v_ava v_attrval))
   | BFalse => (match p2_branch (p2_or v_val (p2_isinstance v_val ["bool"; "int"] ["float"])) with
   | BTrue => (py_bind (PObj [("__class__", PStr "AttributeValue")]) (fun v_ava =>
   (py_bind (py_bind v_val (fun a_13 => (set_text v_ava a_13))) (fun _ =>
   (py_bind (p2_mklist [v_ava]) (fun v_attrval =>
   (k_17 v_ava v_attrval)))))))
   | BFalse => (py_bind (p2_fconcat [PStr "strange value type on: "; p2_str v_val]) (fun _ =>
   (PExc "OtherError")))
   | BExc n_14 => (PExc n_14)
   | BErr => PErr
   end)
   | BExc n_15 => (PExc n_15)
   | BErr => PErr
   end)
   | BExc n_16 => (PExc n_16)
   | BErr => PErr
   end)
   | BExc n_17 => (PExc n_17)
   | BErr => PErr
   end)).
