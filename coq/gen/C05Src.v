(* GENERATED on every run by harness/py2coq.py from the current source text of /repo/src/saml2 — do not edit. *)
From Coq Require Import String Ascii List Bool ZArith.
From Verif Require Import Base.Str Base.Py.
Import ListNotations.
Open Scope string_scope.


(* saml2/validate.py:validate_on_or_after, lines 94-106 *)
Definition src_validate_on_or_after (now : pyval) (to_secs : pyval -> pyval) (v_not_on_or_after : pyval) (v_slack : pyval) : pyval :=
  (if py_truthy v_not_on_or_after
   then (let v_now := now in
   (let v_nooa := (to_secs v_not_on_or_after) in
   (if py_truthy (py_gt v_now (py_add v_nooa v_slack))
   then (let v_now_str := PNone in
   (PExc "ResponseLifetimeExceed"))
   else v_nooa)))
   else (PBool false)).

(* saml2/validate.py:validate_before, lines 109-116 *)
Definition src_validate_before (now : pyval) (to_secs : pyval -> pyval) (v_not_before : pyval) (v_slack : pyval) : pyval :=
  (if py_truthy v_not_before
   then (let v_now := now in
   (let v_nbefore := (to_secs v_not_before) in
   (if py_truthy (py_gt v_nbefore (py_add v_now v_slack))
   then (let v_now_str := PNone in
   (PExc "ToEarly"))
   else (PBool true))))
   else (PBool true)).
