(* GENERATED on every run by harness/py2coq2.py from the current source text of /repo/src/saml2 — do not edit. *)
From Coq Require Import String Ascii List Bool ZArith.
From Verif Require Import Base.Str Base.Py Base.Py2.
Import ListNotations.
Open Scope string_scope.


(* saml2/entity.py:Entity.pick_binding, lines 313-356 *)
Definition src2_pick_binding (sfunc : pyval -> pyval -> pyval -> pyval) (all_locations_ : pyval -> pyval) (next_ : pyval -> pyval -> pyval) (v_self : pyval) (v_service : pyval) (v_bindings : pyval) (v_descr_type : pyval) (v_request : pyval) (v_entity_id : pyval) : pyval :=
  let v_sfunc := PErr in
  let v__url := PErr in
  let v__index := PErr in
  let v_srvs := PErr in
  let v_srv := PErr in
  let v_destination := PErr in
  (let k_45 := fun v_entity_id =>
    (py_bind (p2_getattr_dyn true (p2_attr_x v_self "metadata") v_service) (fun v_sfunc =>
    (let k_43 := fun v_bindings =>
     (let k_40 := fun v_descr_type =>
      (py_bind (p2_getattr3_dyn v_request (p2_fconcat [p2_str v_service; PStr "_url"]) PNone) (fun v__url =>
      (py_bind (p2_getattr3_dyn v_request (p2_fconcat [p2_str v_service; PStr "_index"]) PNone) (fun v__index =>
      (py_bind (p2_iter_check v_bindings) (fun it_2 =>
      (match pyfor2 (py_iter2 it_2) [v_srvs; v_srv; v_destination] (fun st_3 x_4 => match st_3 with [v_srvs; v_srv; v_destination] =>
       (let v_binding := x_4 in
       (let h_7 := fun n_7 v_srvs v_srv v_destination =>
        (if exc_matches n_7 ["UnsupportedBinding"]
        then (NextS [v_srvs; v_srv; v_destination])
        else (ExcS n_7 [v_srvs; v_srv; v_destination])) in
       (py_bindS (fun n_37 => (h_7 n_37 v_srvs v_srv v_destination)) (py_bind v_entity_id (fun a_8 => (py_bind v_binding (fun a_9 => (py_bind v_descr_type (fun a_10 => (sfunc a_8 a_9 a_10))))))) (fun v_srvs =>
       (match p2_branch v_srvs with
       | BTrue => (match p2_branch v__url with
       | BTrue => (py_bindS (fun n_19 => (h_7 n_19 v_srvs v_srv v_destination)) (p2_iter_check v_srvs) (fun it_11 =>
       (match pyfor2 (py_iter2 it_11) [v_srv] (fun st_12 x_13 => match st_12 with [v_srv] =>
        (let v_srv := x_13 in
        (match p2_branch (p2_eq (p2_getitem v_srv (PStr "location")) v__url) with
        | BTrue => (py_bindS (fun n_17 => (ExcS n_17 [v_srv])) (p2_mklist [v_binding; v__url]) (fun r_16 =>
        (RetS r_16)))
        | BFalse => (NextS [v_srv])
        | BExc n_18 => (ExcS n_18 [v_srv])
        | BErr => (RetS PErr)
        end))
       | _ => RetS PErr end) with
       | NextS st_12 => match st_12 with [v_srv] => (NextS [v_srvs; v_srv; v_destination]) | _ => (RetS PErr) end
       | BrkS _ => (RetS PErr)
       | RetS r_14 => (RetS r_14)
       | ExcS n_15 st_12 => match st_12 with [v_srv] => (h_7 n_15 v_srvs v_srv v_destination) | _ => (RetS PErr) end
       end)))
       | BFalse => (match p2_branch v__index with
       | BTrue => (py_bindS (fun n_28 => (h_7 n_28 v_srvs v_srv v_destination)) (p2_iter_check v_srvs) (fun it_20 =>
       (match pyfor2 (py_iter2 it_20) [v_srv] (fun st_21 x_22 => match st_21 with [v_srv] =>
        (let v_srv := x_22 in
        (match p2_branch (p2_eq (p2_getitem v_srv (PStr "index")) v__index) with
        | BTrue => (py_bindS (fun n_26 => (ExcS n_26 [v_srv])) (p2_mklist [v_binding; (p2_getitem v_srv (PStr "location"))]) (fun r_25 =>
        (RetS r_25)))
        | BFalse => (NextS [v_srv])
        | BExc n_27 => (ExcS n_27 [v_srv])
        | BErr => (RetS PErr)
        end))
       | _ => RetS PErr end) with
       | NextS st_21 => match st_21 with [v_srv] => (NextS [v_srvs; v_srv; v_destination]) | _ => (RetS PErr) end
       | BrkS _ => (RetS PErr)
       | RetS r_23 => (RetS r_23)
       | ExcS n_24 st_21 => match st_21 with [v_srv] => (h_7 n_24 v_srvs v_srv v_destination) | _ => (RetS PErr) end
       end)))
       | BFalse => (py_bindS (fun n_33 => (h_7 n_33 v_srvs v_srv v_destination)) (py_bind (py_bind v_srvs (fun a_29 => (all_locations_ a_29))) (fun a_30 => (next_ a_30 PNone))) (fun v_destination =>
       (py_bindS (fun n_32 => (h_7 n_32 v_srvs v_srv v_destination)) (p2_mklist [v_binding; v_destination]) (fun r_31 =>
       (RetS r_31)))))
       | BExc n_34 => (h_7 n_34 v_srvs v_srv v_destination)
       | BErr => (RetS PErr)
       end)
       | BExc n_35 => (h_7 n_35 v_srvs v_srv v_destination)
       | BErr => (RetS PErr)
       end)
       | BFalse => (NextS [v_srvs; v_srv; v_destination])
       | BExc n_36 => (h_7 n_36 v_srvs v_srv v_destination)
       | BErr => (RetS PErr)
       end)))))
      | _ => RetS PErr end) with
      | NextS st_3 => match st_3 with [v_srvs; v_srv; v_destination] => (PExc "SAMLError") | _ => PErr end
      | BrkS _ => PErr
      | RetS r_5 => r_5
      | ExcS n_6 st_3 => match st_3 with [v_srvs; v_srv; v_destination] => (PExc n_6) | _ => PErr end
      end))))))) in
     (match p2_branch (p2_not v_descr_type) with
     | BTrue => (match p2_branch (p2_eq (p2_attr_x v_self "entity_type") (PStr "sp")) with
     | BTrue => (let v_descr_type := (PStr "idpsso") in
     (k_40 v_descr_type))
     | BFalse => (let v_descr_type := (PStr "spsso") in
     (k_40 v_descr_type))
     | BExc n_39 => (PExc n_39)
     | BErr => PErr
     end)
     | BFalse => (k_40 v_descr_type)
     | BExc n_40 => (PExc n_40)
     | BErr => PErr
     end)) in
    (match p2_branch (p2_not v_bindings) with
    | BTrue => (match p2_branch (p2_and v_request (p2_attr_x v_request "protocol_binding")) with
    | BTrue => (py_bind (p2_mklist [(p2_attr_x v_request "protocol_binding")]) (fun v_bindings =>
    (k_43 v_bindings)))
    | BFalse => (py_bind (p2_getitem (p2_attr_x (p2_attr_x v_self "config") "preferred_binding") v_service) (fun v_bindings =>
    (k_43 v_bindings)))
    | BExc n_42 => (PExc n_42)
    | BErr => PErr
    end)
    | BFalse => (k_43 v_bindings)
    | BExc n_43 => (PExc n_43)
    | BErr => PErr
    end)))) in
   (match p2_branch (p2_and v_request (p2_not v_entity_id)) with
   | BTrue => (py_bind (p2_strip (p2_attr_x (p2_attr_x v_request "issuer") "text")) (fun v_entity_id =>
   (k_45 v_entity_id)))
   | BFalse => (k_45 v_entity_id)
   | BExc n_45 => (PExc n_45)
   | BErr => PErr
   end)).

(* saml2/entity.py:Entity.response_args, lines 370-421 *)
Definition src2_response_args (pick_binding_ : pyval -> pyval -> pyval -> pyval -> pyval) (v_self : pyval) (v_message : pyval) (v_bindings : pyval) (v_descr_type : pyval) : pyval :=
  let v_info := PErr in
  let v_rsrv := PErr in
  let v_binding := PErr in
  let v_destination := PErr in
  (py_bind (p2_mkdict [("in_response_to", (p2_attr v_message "id"))]) (fun v_info =>
   (let k_27 := fun v_rsrv v_descr_type v_info =>
    (match p2_branch (p2_eq v_bindings (p2_mklist [(PStr "urn:oasis:names:tc:SAML:2.0:bindings:SOAP")])) with
    | BTrue => (py_bind (p2_setitem v_info (PStr "binding") (PStr "urn:oasis:names:tc:SAML:2.0:bindings:SOAP")) (fun v_info =>
    (py_bind (p2_setitem v_info (PStr "destination") (PStr "")) (fun v_info =>
    v_info))))
    | BFalse => (match p2_branch v_rsrv with
    | BTrue => (let k_12 := fun v_descr_type =>
     (py_bind (py_bind v_rsrv (fun a_2 => (py_bind v_bindings (fun a_3 => (py_bind v_descr_type (fun a_4 => (py_bind v_message (fun a_5 => (pick_binding_ a_2 a_3 a_4 a_5))))))))) (fun a_6 =>
     (match p2_unpack 2 a_6 with
     | PList [v_binding; v_destination] => (py_bind v_binding (fun a_7 =>
     (py_bind (p2_setitem v_info (PStr "binding") a_7) (fun v_info =>
     (py_bind v_destination (fun a_8 =>
     (py_bind (p2_setitem v_info (PStr "destination") a_8) (fun v_info =>
     v_info))))))))
     | PExc n_9 => (PExc n_9)
     | _ => PErr
     end))) in
    (match p2_branch (p2_not v_descr_type) with
    | BTrue => (match p2_branch (p2_eq (p2_attr v_self "entity_type") (PStr "sp")) with
    | BTrue => (let v_descr_type := (PStr "idpsso") in
    (k_12 v_descr_type))
    | BFalse => (let v_descr_type := (PStr "spsso") in
    (k_12 v_descr_type))
    | BExc n_11 => (PExc n_11)
    | BErr => PErr
    end)
    | BFalse => (k_12 v_descr_type)
    | BExc n_12 => (PExc n_12)
    | BErr => PErr
    end))
    | BFalse => v_info
    | BExc n_13 => (PExc n_13)
    | BErr => PErr
    end)
    | BExc n_15 => (PExc n_15)
    | BErr => PErr
    end) in
   (match p2_branch (p2_isinstance v_message [] ["AuthnRequest"]) with
   | BTrue => (let v_rsrv := (PStr "assertion_consumer_service") in
   (let v_descr_type := (PStr "spsso") in
   (py_bind (p2_attr (p2_attr v_message "issuer") "text") (fun a_17 =>
   (py_bind (p2_setitem v_info (PStr "sp_entity_id") a_17) (fun v_info =>
   (py_bind (p2_attr v_message "name_id_policy") (fun a_18 =>
   (py_bind (p2_setitem v_info (PStr "name_id_policy") a_18) (fun v_info =>
   (k_27 v_rsrv v_descr_type v_info)))))))))))
   | BFalse => (match p2_branch (p2_isinstance v_message [] ["LogoutRequest"]) with
   | BTrue => (let v_rsrv := (PStr "single_logout_service") in
   (k_27 v_rsrv v_descr_type v_info))
   | BFalse => (match p2_branch (p2_isinstance v_message [] ["AttributeQuery"]) with
   | BTrue => (py_bind (p2_attr (p2_attr v_message "issuer") "text") (fun a_19 =>
   (py_bind (p2_setitem v_info (PStr "sp_entity_id") a_19) (fun v_info =>
   (let v_rsrv := (PStr "attribute_consuming_service") in
   (let v_descr_type := (PStr "spsso") in
   (k_27 v_rsrv v_descr_type v_info)))))))
   | BFalse => (match p2_branch (p2_isinstance v_message [] ["ManageNameIDRequest"]) with
   | BTrue => (let v_rsrv := (PStr "manage_name_id_service") in
   (k_27 v_rsrv v_descr_type v_info))
   | BFalse => (match p2_branch (p2_isinstance v_message [] ["AssertionIDRequest"]) with
   | BTrue => (let v_rsrv := (PStr "") in
   (k_27 v_rsrv v_descr_type v_info))
   | BFalse => (match p2_branch (p2_isinstance v_message [] ["ArtifactResolve"]) with
   | BTrue => (let v_rsrv := (PStr "") in
   (k_27 v_rsrv v_descr_type v_info))
   | BFalse => (match p2_branch (p2_isinstance v_message [] ["AssertionIDRequest"]) with
   | BTrue => (let v_rsrv := (PStr "") in
   (k_27 v_rsrv v_descr_type v_info))
   | BFalse => (match p2_branch (p2_isinstance v_message [] ["NameIDMappingRequest"]) with
   | BTrue => (let v_rsrv := (PStr "") in
   (k_27 v_rsrv v_descr_type v_info))
   | BFalse => (PExc "SAMLError")
   | BExc n_20 => (PExc n_20)
   | BErr => PErr
   end)
   | BExc n_21 => (PExc n_21)
   | BErr => PErr
   end)
   | BExc n_22 => (PExc n_22)
   | BErr => PErr
   end)
   | BExc n_23 => (PExc n_23)
   | BErr => PErr
   end)
   | BExc n_24 => (PExc n_24)
   | BErr => PErr
   end)
   | BExc n_25 => (PExc n_25)
   | BErr => PErr
   end)
   | BExc n_26 => (PExc n_26)
   | BErr => PErr
   end)
   | BExc n_27 => (PExc n_27)
   | BErr => PErr
   end)))).

(* saml2/client_base.py:Base._sso_location, lines 225-246 *)
Definition src2_sso_location (sso_service : pyval -> pyval -> pyval) (with_descriptor_ : pyval -> pyval) (locations_ : pyval -> pyval) (next_ : pyval -> pyval -> pyval) (v_self : pyval) (v_entityid : pyval) (v_binding : pyval) : pyval :=
  let v_srvs := PErr in
  let v_eids := PErr in
  (match p2_branch v_entityid with
   | BTrue => (py_bind (py_bind v_entityid (fun a_12 => (py_bind v_binding (fun a_13 => (sso_service a_12 a_13))))) (fun v_srvs =>
   (match p2_branch v_srvs with
   | BTrue => (py_bind (py_bind v_srvs (fun a_14 => (locations_ a_14))) (fun a_15 => (next_ a_15 PNone)))
   | BFalse => (PExc "IdpUnspecified")
   | BExc n_16 => (PExc n_16)
   | BErr => PErr
   end)))
   | BFalse => (py_bind (with_descriptor_ (PStr "idpsso")) (fun v_eids =>
   (match p2_branch (p2_gt (p2_len v_eids) (PInt (1)%Z)) with
   | BTrue => (py_bind (p2_fconcat [PStr "Too many IdPs to choose from: "; p2_str v_eids]) (fun _ =>
   (PExc "IdpUnspecified")))
   | BFalse => (let h_1 := fun n_1 v_srvs =>
    (if exc_matches n_1 ["IndexError"]
    then (PExc "IdpUnspecified")
    else (PExc n_1)) in
   (py_bindh (fun n_8 => (h_1 n_8 v_srvs)) (py_bind (p2_getitem (p2_list (p2_keys v_eids)) (PInt (0)%Z)) (fun a_2 => (py_bind v_binding (fun a_3 => (sso_service a_2 a_3))))) (fun v_srvs =>
   (py_bindh (fun n_7 => (h_1 n_7 v_srvs)) (py_bind (py_bind v_srvs (fun a_4 => (locations_ a_4))) (fun a_5 => (next_ a_5 PNone))) (fun r_6 =>
   r_6)))))
   | BExc n_10 => (PExc n_10)
   | BErr => PErr
   end)))
   | BExc n_17 => (PExc n_17)
   | BErr => PErr
   end).

(* saml2/mdstore.py:MetadataStore.service, lines 1205-1226 *)
Definition src2_store_service (md_service : pyval -> pyval -> pyval -> pyval -> pyval -> pyval) (v_self : pyval) (v_entity_id : pyval) (v_typ : pyval) (v_service : pyval) (v_binding : pyval) : pyval :=
  let v_known_entity := PErr in
  let v__probe := PErr in
  let v_srvs := PErr in
  (let v_known_entity := (PBool false) in
   (let k_21 := fun v__probe v_srvs v_known_entity =>
    (match p2_branch v_known_entity with
    | BTrue => (py_bind v_binding (fun _ =>
    (PExc "UnsupportedBinding")))
    | BFalse => (py_bind v_entity_id (fun _ =>
    (PExc "UnknownSystemEntity")))
    | BExc n_1 => (PExc n_1)
    | BErr => PErr
    end) in
   (py_bind (p2_iter_check (p2_items (p2_attr v_self "metadata"))) (fun it_3 =>
   (match pyfor2 (py_iter2 it_3) [v__probe; v_srvs; v_known_entity] (fun st_4 x_5 => match st_4 with [v__probe; v_srvs; v_known_entity] =>
    (match p2_unpack 2 x_5 with
    | PList [v_key; v__md] => (py_bindS (fun n_20 => (if exc_matches n_20 ["KeyError"]
    then (NextS [v__probe; v_srvs; v_known_entity])
    else (ExcS n_20 [v__probe; v_srvs; v_known_entity]))) (p2_getitem v__md v_entity_id) (fun v__probe =>
    (py_bindS (fun n_17 => (ExcS n_17 [v__probe; v_srvs; v_known_entity])) (py_bind v_entity_id (fun a_8 => (py_bind v_typ (fun a_9 => (py_bind v_service (fun a_10 => (py_bind v_binding (fun a_11 => (md_service v__md a_8 a_9 a_10 a_11))))))))) (fun v_srvs =>
    (match p2_branch v_srvs with
    | BTrue => (py_bindS (fun n_15 => (ExcS n_15 [v__probe; v_srvs; v_known_entity])) v_srvs (fun r_14 =>
    (RetS r_14)))
    | BFalse => (py_bindS (fun n_12 => (ExcS n_12 [v__probe; v_srvs; v_known_entity])) (p2_is_not_none v_srvs) (fun v_known_entity =>
    (BrkS [v__probe; v_srvs; v_known_entity])))
    | BExc n_16 => (ExcS n_16 [v__probe; v_srvs; v_known_entity])
    | BErr => (RetS PErr)
    end)))))
    | PExc n_21 => (ExcS n_21 [v__probe; v_srvs; v_known_entity])
    | _ => (RetS PErr)
    end)
   | _ => RetS PErr end) with
   | NextS st_4 => match st_4 with [v__probe; v_srvs; v_known_entity] => (k_21 v__probe v_srvs v_known_entity) | _ => PErr end
   | BrkS st_4 => match st_4 with [v__probe; v_srvs; v_known_entity] => (k_21 v__probe v_srvs v_known_entity) | _ => PErr end
   | RetS r_6 => r_6
   | ExcS n_7 st_4 => match st_4 with [v__probe; v_srvs; v_known_entity] => (PExc n_7) | _ => PErr end
   end))))).

(* saml2/mdstore.py:MetadataStore.ext_service, lines 1245-1259 *)
Definition src2_store_ext_service (md_ext_service : pyval -> pyval -> pyval -> pyval -> pyval -> pyval) (v_self : pyval) (v_entity_id : pyval) (v_typ : pyval) (v_service : pyval) (v_binding : pyval) : pyval :=
  let v_known_entity := PErr in
  let v_srvs := PErr in
  (let v_known_entity := (PBool false) in
   (py_bind (p2_iter_check (p2_items (p2_attr v_self "metadata"))) (fun it_3 =>
   (match pyfor2 (py_iter2 it_3) [v_srvs; v_known_entity] (fun st_4 x_5 => match st_4 with [v_srvs; v_known_entity] =>
    (match p2_unpack 2 x_5 with
    | PList [v_key; v__md] => (py_bindS (fun n_16 => (ExcS n_16 [v_srvs; v_known_entity])) (py_bind v_entity_id (fun a_8 => (py_bind v_typ (fun a_9 => (py_bind v_service (fun a_10 => (py_bind v_binding (fun a_11 => (md_ext_service v__md a_8 a_9 a_10 a_11))))))))) (fun v_srvs =>
    (match p2_branch v_srvs with
    | BTrue => (py_bindS (fun n_13 => (ExcS n_13 [v_srvs; v_known_entity])) v_srvs (fun r_12 =>
    (RetS r_12)))
    | BFalse => (match p2_branch (p2_is_none v_srvs) with
    | BTrue => (NextS [v_srvs; v_known_entity])
    | BFalse => (let v_known_entity := (PBool true) in
    (NextS [v_srvs; v_known_entity]))
    | BExc n_14 => (ExcS n_14 [v_srvs; v_known_entity])
    | BErr => (RetS PErr)
    end)
    | BExc n_15 => (ExcS n_15 [v_srvs; v_known_entity])
    | BErr => (RetS PErr)
    end)))
    | PExc n_17 => (ExcS n_17 [v_srvs; v_known_entity])
    | _ => (RetS PErr)
    end)
   | _ => RetS PErr end) with
   | NextS st_4 => match st_4 with [v_srvs; v_known_entity] => (match p2_branch v_known_entity with
   | BTrue => (py_bind v_binding (fun _ =>
   (PExc "UnsupportedBinding")))
   | BFalse => (py_bind v_entity_id (fun _ =>
   (PExc "UnknownSystemEntity")))
   | BExc n_1 => (PExc n_1)
   | BErr => PErr
   end) | _ => PErr end
   | BrkS _ => PErr
   | RetS r_6 => r_6
   | ExcS n_7 st_4 => match st_4 with [v_srvs; v_known_entity] => (PExc n_7) | _ => PErr end
   end)))).
