(* GENERATED on every run by harness/py2coq2.py from the current source text of /repo/src/saml2 — do not edit. *)
From Coq Require Import String Ascii List Bool ZArith.
From Verif Require Import Base.Str Base.Py Base.Py2.
Import ListNotations.
Open Scope string_scope.


(* saml2/server.py:Server.parse_authn_request, lines 225-247 *)
Definition src2_parse_authn_request (parse_request_ext : pyval -> pyval -> pyval -> pyval -> pyval -> pyval -> pyval -> pyval -> pyval) (v_self : pyval) (v_enc_request : pyval) (v_binding : pyval) (v_relay_state : pyval) (v_sigalg : pyval) (v_signature : pyval) : pyval :=
  (py_bind v_enc_request (fun a_1 => (py_bind v_binding (fun a_2 => (py_bind v_relay_state (fun a_3 => (py_bind v_sigalg (fun a_4 => (py_bind v_signature (fun a_5 => (parse_request_ext v_self a_1 (PStr "class AuthnRequest") (PStr "single_sign_on_service") a_2 a_3 a_4 a_5))))))))))).

(* saml2/entity.py:Entity.parse_logout_request, lines 1549-1574 *)
Definition src2_parse_logout_request (parse_request_ext : pyval -> pyval -> pyval -> pyval -> pyval -> pyval -> pyval -> pyval -> pyval) (v_self : pyval) (v_xmlstr : pyval) (v_binding : pyval) (v_relay_state : pyval) (v_sigalg : pyval) (v_signature : pyval) : pyval :=
  (py_bind v_xmlstr (fun a_1 => (py_bind v_binding (fun a_2 => (py_bind v_relay_state (fun a_3 => (py_bind v_sigalg (fun a_4 => (py_bind v_signature (fun a_5 => (parse_request_ext v_self a_1 (PStr "class LogoutRequest") (PStr "single_logout_service") a_2 a_3 a_4 a_5))))))))))).

(* saml2/request.py:Request.loads, lines 147-167 *)
Definition src2_request_loads (loads_ext : pyval -> pyval -> pyval -> pyval -> pyval -> pyval -> pyval -> pyval -> pyval -> pyval) (v_self : pyval) (v_xmldata : pyval) (v_binding : pyval) (v_origdoc : pyval) (v_must : pyval) (v_only_valid_cert : pyval) (v_relay_state : pyval) (v_sigalg : pyval) (v_signature : pyval) : pyval :=
  (py_bind v_xmldata (fun a_1 => (py_bind v_binding (fun a_2 => (py_bind v_origdoc (fun a_3 => (py_bind v_must (fun a_4 => (py_bind v_only_valid_cert (fun a_5 => (py_bind v_relay_state (fun a_6 => (py_bind v_sigalg (fun a_7 => (py_bind v_signature (fun a_8 => (loads_ext v_self a_1 a_2 a_3 a_4 a_5 a_6 a_7 a_8))))))))))))))))).

(* saml2/sigver.py:RSACrypto.get_signer, lines 579-587 *)
Definition src2_get_signer (signer_algs_ext : pyval) (v_self : pyval) (v_sigalg : pyval) (v_sigkey : pyval) : pyval :=
  let v_signer := PErr in
  (py_bindh (fun n_5 => (if exc_matches n_5 ["KeyError"]
   then PNone
   else (PExc n_5))) (p2_getitem signer_algs_ext v_sigalg) (fun v_signer =>
   (py_bind (p2_attr v_signer "digest") (fun a_1 => (py_bind (p2_or v_sigkey (p2_attr v_self "key")) (fun a_2 => (PObj [("__class__", PStr "RSASigner"); ("digest", a_1); ("key", a_2)]))))))).

(* saml2/sigver.py:RSASigner.verify, lines 550-551 *)
Definition src2_signer_verify (key_verify_ext : pyval -> pyval -> pyval -> pyval -> pyval) (v_self : pyval) (v_msg : pyval) (v_sig : pyval) (v_key : pyval) : pyval :=
  (py_bind (p2_or v_key (p2_attr v_self "key")) (fun a_1 => (py_bind v_sig (fun a_2 => (py_bind v_msg (fun a_3 => (py_bind (p2_attr v_self "digest") (fun a_4 => (key_verify_ext a_1 a_2 a_3 a_4))))))))).

(* saml2/sigver.py:RSASigner.sign, lines 547-548 *)
Definition src2_signer_sign (key_sign_ext : pyval -> pyval -> pyval -> pyval) (v_self : pyval) (v_msg : pyval) (v_key : pyval) : pyval :=
  (py_bind (p2_or v_key (p2_attr v_self "key")) (fun a_1 => (py_bind v_msg (fun a_2 => (py_bind (p2_attr v_self "digest") (fun a_3 => (key_sign_ext a_1 a_2 a_3))))))).

(* saml2/request.py:Request._do_redirect_sig_check, lines 109-124 *)
Definition src2_do_redirect_sig_check (sender_ext : pyval -> pyval) (certs_ext : pyval -> pyval -> pyval) (vrs_ext : pyval -> pyval -> pyval -> pyval) (v_self : pyval) (v__saml_msg : pyval) : pyval :=
  let v_issuer := PErr in
  let v_certs := PErr in
  let v_verified := PErr in
  let v_exc := PErr in
  (py_bind (sender_ext v_self) (fun v_issuer =>
   (py_bind (py_bind v_issuer (fun a_1 => (certs_ext v_self a_1))) (fun v_certs =>
   (let v_verified := (PBool false) in
   (py_bind (p2_iter_check v_certs) (fun it_3 =>
   (match pyfor2 (py_iter2 it_3) [v_verified; v_exc] (fun st_4 x_5 => match st_4 with [v_verified; v_exc] =>
    (match p2_unpack 2 x_5 with
    | PList [v_cert_name; v_cert] => (match p2_branch (py_bind v__saml_msg (fun a_9 => (py_bind (p2_attr (p2_attr v_self "sec") "sec_backend") (fun a_10 => (py_bind v_cert (fun a_11 => (vrs_ext a_9 a_10 a_11))))))) with
    | BTrue => (let v_verified := (PBool true) in
    (BrkS [v_verified; v_exc]))
    | BFalse => (NextS [v_verified; v_exc])
    | BExc n_12 => (if exc_matches n_12 ["ValueError"; "Error"; "UnicodeDecodeError"; "UnicodeEncodeError"; "UnicodeError"]
    then (let v_exc := PExc n_12 in
    (let v_exc := PErr in (NextS [v_verified; v_exc])))
    else (ExcS n_12 [v_verified; v_exc]))
    | BErr => (RetS PErr)
    end)
    | PExc n_13 => (ExcS n_13 [v_verified; v_exc])
    | _ => (RetS PErr)
    end)
   | _ => RetS PErr end) with
   | NextS st_4 => match st_4 with [v_verified; v_exc] => v_verified | _ => PErr end
   | BrkS st_4 => match st_4 with [v_verified; v_exc] => v_verified | _ => PErr end
   | RetS r_6 => r_6
   | ExcS n_7 st_4 => match st_4 with [v_verified; v_exc] => (PExc n_7) | _ => PErr end
   end)))))))).

(* saml2/pack.py:http_redirect_message, lines 143-205 *)
Definition src2_http_redirect_message (signer_algs_ext : pyval) (req_order_ext : pyval) (resp_order_ext : pyval) (sig_allowed_alg_ext : pyval) (urlencode_ext : pyval -> pyval) (deflate_b64_ext : pyval -> pyval) (add_query_ext : pyval -> pyval -> pyval) (encode_ascii_ext : pyval -> pyval) (b64encode_ext : pyval -> pyval) (key_sign_ext : pyval -> pyval -> pyval -> pyval) (v_message : pyval) (v_location : pyval) (v_relay_state : pyval) (v_typ : pyval) (v_sigalg : pyval) (v_sign : pyval) (v_backend : pyval) : pyval :=
  let v__order := PErr in
  let v_args := PErr in
  let v_signer := PErr in
  let v_string := PErr in
  let v_string_enc := PErr in
  let v_login_url := PErr in
  let v_headers := PErr in
  let v_body := PErr in
  (let k_27 := fun v_message =>
    (let v__order := PNone in
    (let k_25 := fun v__order v_args =>
     (let k_19 := fun v_args =>
      (let k_16 := fun v_signer v_args v_string v_string_enc =>
       (py_bind (py_bind v_args (fun a_1 => (urlencode_ext a_1))) (fun v_string =>
       (py_bind (py_bind v_location (fun a_2 => (py_bind v_string (fun a_3 => (add_query_ext a_2 a_3))))) (fun v_login_url =>
       (py_bind (p2_mklist [(p2_mklist [(PStr "Location"); (p2_str v_login_url)])]) (fun v_headers =>
       (let v_body := (PList []) in
       (p2_mkdict [("headers", v_headers); ("data", v_body); ("status", (PInt (303)%Z))])))))))) in
      (match p2_branch v_sign with
      | BTrue => (match p2_branch (p2_not_in v_sigalg (p2_listcomp sig_allowed_alg_ext ktrue (fun x_14 => match p2_unpack 2 x_14 with PList [v_short_name; v_long_name] => v_long_name | PExc n_ => PExc n_ | _ => PErr end))) with
      | BTrue => (py_bind (p2_fconcat [PStr "Signature algo not in allowed list: "; p2_str v_sigalg]) (fun _ =>
      (PExc "Exception")))
      | BFalse => (py_bind (p2_ifexp (p2_and v_sign v_sigalg) (py_bind v_sigalg (fun a_5 => (src2_get_signer signer_algs_ext v_backend a_5 PNone))) PNone) (fun v_signer =>
      (match p2_branch (p2_not v_signer) with
      | BTrue => (py_bind (p2_fconcat [PStr "Could not init signer fro algo "; p2_str v_sigalg]) (fun _ =>
      (PExc "Exception")))
      | BFalse => (py_bind v_sigalg (fun a_6 =>
      (py_bind (p2_setitem v_args (PStr "SigAlg") a_6) (fun v_args =>
      (py_bind (p2_join (PStr "&") (p2_listcomp v__order (fun v_k => (p2_in v_k v_args)) (fun v_k => (py_bind (p2_setitem (PObj []) v_k (p2_getitem v_args v_k)) (fun a_7 => (urlencode_ext a_7)))))) (fun v_string =>
      (py_bind (encode_ascii_ext v_string) (fun v_string_enc =>
      (py_bind (py_bind (py_bind v_string_enc (fun a_8 => (src2_signer_sign key_sign_ext v_signer a_8 PNone))) (fun a_9 => (b64encode_ext a_9))) (fun a_10 =>
      (py_bind (p2_setitem v_args (PStr "Signature") a_10) (fun v_args =>
      (k_16 v_signer v_args v_string v_string_enc)))))))))))))
      | BExc n_12 => (PExc n_12)
      | BErr => PErr
      end)))
      | BExc n_15 => (PExc n_15)
      | BErr => PErr
      end)
      | BFalse => (k_16 v_signer v_args v_string v_string_enc)
      | BExc n_16 => (PExc n_16)
      | BErr => PErr
      end)) in
     (match p2_branch v_relay_state with
     | BTrue => (py_bind v_relay_state (fun a_18 =>
     (py_bind (p2_setitem v_args (PStr "RelayState") a_18) (fun v_args =>
     (k_19 v_args)))))
     | BFalse => (k_19 v_args)
     | BExc n_19 => (PExc n_19)
     | BErr => PErr
     end)) in
    (match p2_branch (p2_in v_typ (p2_mklist [(PStr "SAMLRequest"); (PStr "SAMLResponse")])) with
    | BTrue => (let k_23 := fun v__order =>
     (py_bind (p2_setitem (PObj []) v_typ (py_bind v_message (fun a_21 => (deflate_b64_ext a_21)))) (fun v_args =>
     (k_25 v__order v_args))) in
    (match p2_branch (p2_eq v_typ (PStr "SAMLRequest")) with
    | BTrue => (py_bind req_order_ext (fun v__order =>
    (k_23 v__order)))
    | BFalse => (py_bind resp_order_ext (fun v__order =>
    (k_23 v__order)))
    | BExc n_23 => (PExc n_23)
    | BErr => PErr
    end))
    | BFalse => (match p2_branch (p2_eq v_typ (PStr "SAMLart")) with
    | BTrue => (py_bind (p2_setitem (PObj []) v_typ v_message) (fun v_args =>
    (k_25 v__order v_args)))
    | BFalse => (py_bind (p2_fconcat [PStr "Unknown message type: "; p2_str v_typ]) (fun _ =>
    (PExc "Exception")))
    | BExc n_24 => (PExc n_24)
    | BErr => PErr
    end)
    | BExc n_25 => (PExc n_25)
    | BErr => PErr
    end))) in
   (match p2_branch (p2_not (p2_isinstance v_message ["str"] [])) with
   | BTrue => (py_bind (p2_fconcat [p2_str v_message]) (fun v_message =>
   (k_27 v_message)))
   | BFalse => (k_27 v_message)
   | BExc n_27 => (PExc n_27)
   | BErr => PErr
   end)).
