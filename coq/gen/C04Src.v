(* GENERATED on every run by harness/py2coq.py from the current source text of /repo/src/saml2 — do not edit. *)
From Coq Require Import String Ascii List Bool ZArith.
From Verif Require Import Base.Str Base.Py.
Import ListNotations.
Open Scope string_scope.


(* saml2/response.py:for_me, lines 207-223 *)
Definition src_for_me (v_conditions : pyval) (v_myself : pyval) : pyval :=
  (if py_truthy (py_not (py_attr v_conditions "audience_restriction"))
   then (PBool true)
   else (match pyfor (py_iter (py_attr v_conditions "audience_restriction")) (fun v_restriction => (match pyfor (py_iter (py_or (py_attr v_restriction "audience") (PList []))) (fun v_audience => (if py_truthy (py_and (py_attr v_audience "text") (py_eq (py_strip (py_attr v_audience "text")) v_myself))
   then Brk
   else Next)) with
   | Ret r_ => (Ret r_)
   | Brk => Next
   | Next => (Ret (PBool false))
   end)) with
   | Ret r_ => r_
   | Brk => (PBool true)
   | Next => (PBool true)
   end)).
