(* GENERATED on every run by harness/py2coq2.py from the current source text of /repo/src/saml2 — do not edit. *)
From Coq Require Import String Ascii List Bool ZArith.
From Verif Require Import Base.Str Base.Py Base.Py2.
Import ListNotations.
Open Scope string_scope.


(* saml2/sigver.py:RSACrypto.get_signer, lines 579-587 *)
Definition src2_get_signer (v_self : pyval) (v_sigalg : pyval) (v_sigkey : pyval) : pyval :=
  let v_signer := PErr in
  (py_bindh (fun n_5 => (if exc_matches n_5 ["KeyError"]
   then PNone
   else (PExc n_5))) (p2_getitem (PObj [("http://www.w3.org/2000/09/xmldsig#rsa-sha1", (PObj [("__class__", PStr "RSASigner"); ("key", PNone); ("digest", (PStr "SHA1"))])); ("http://www.w3.org/2001/04/xmldsig-more#rsa-sha224", (PObj [("__class__", PStr "RSASigner"); ("key", PNone); ("digest", (PStr "SHA224"))])); ("http://www.w3.org/2001/04/xmldsig-more#rsa-sha256", (PObj [("__class__", PStr "RSASigner"); ("key", PNone); ("digest", (PStr "SHA256"))])); ("http://www.w3.org/2001/04/xmldsig-more#rsa-sha384", (PObj [("__class__", PStr "RSASigner"); ("key", PNone); ("digest", (PStr "SHA384"))])); ("http://www.w3.org/2001/04/xmldsig-more#rsa-sha512", (PObj [("__class__", PStr "RSASigner"); ("key", PNone); ("digest", (PStr "SHA512"))]))]) v_sigalg) (fun v_signer =>
   (py_bind (p2_attr v_signer "digest") (fun a_1 => (py_bind (p2_or v_sigkey (p2_attr v_self "key")) (fun a_2 => (PObj [("__class__", PStr "RSASigner"); ("key", a_2); ("digest", a_1)]))))))).

(* saml2/sigver.py:RSASigner.sign, lines 547-548 *)
Definition src2_sign (key_sign : pyval -> pyval -> pyval -> pyval) (v_self : pyval) (v_msg : pyval) (v_key : pyval) : pyval :=
  (py_bind (p2_or v_key (p2_attr v_self "key")) (fun a_1 => (py_bind v_msg (fun a_2 => (py_bind (p2_attr v_self "digest") (fun a_3 => (key_sign a_1 a_2 a_3))))))).

(* saml2/sigver.py:RSASigner.verify, lines 550-551 *)
Definition src2_verify (key_verify : pyval -> pyval -> pyval -> pyval -> pyval) (v_self : pyval) (v_msg : pyval) (v_sig : pyval) (v_key : pyval) : pyval :=
  (py_bind (p2_or v_key (p2_attr v_self "key")) (fun a_1 => (py_bind v_sig (fun a_2 => (py_bind v_msg (fun a_3 => (py_bind (p2_attr v_self "digest") (fun a_4 => (key_verify a_1 a_2 a_3 a_4))))))))).

(* saml2/pack.py:http_redirect_message, lines 143-205 *)
Definition src2_http_redirect_message (key_sign : pyval -> pyval -> pyval -> pyval) (urlencode : pyval -> pyval) (deflate_b64 : pyval -> pyval) (add_query : pyval -> pyval -> pyval) (b64encode : pyval -> pyval) (str_encode : pyval -> pyval -> pyval) (v_message : pyval) (v_location : pyval) (v_relay_state : pyval) (v_typ : pyval) (v_sigalg : pyval) (v_sign : pyval) (v_backend : pyval) : pyval :=
  let v__order := PErr in
  let v_args := PErr in
  let v_signer := PErr in
  let v_string := PErr in
  let v_string_enc := PErr in
  let v_login_url := PErr in
  let v_headers := PErr in
  let v_body := PErr in
  (let k_27 := fun v_message =>
    (let v__order := PNone in
    (let k_25 := fun v__order v_args =>
     (let k_19 := fun v_args =>
      (let k_16 := fun v_signer v_args v_string v_string_enc =>
       (py_bind (py_bind v_args (fun a_1 => (urlencode a_1))) (fun v_string =>
       (py_bind (py_bind v_location (fun a_2 => (py_bind v_string (fun a_3 => (add_query a_2 a_3))))) (fun v_login_url =>
       (py_bind (p2_mklist [(p2_mklist [(PStr "Location"); (p2_str v_login_url)])]) (fun v_headers =>
       (let v_body := (PList []) in
       (p2_mkdict [("headers", v_headers); ("data", v_body); ("status", (PInt (303)%Z))])))))))) in
      (match p2_branch v_sign with
      | BTrue => (match p2_branch (p2_not_in v_sigalg (p2_listcomp (PList [PList [PStr "SIG_RSA_SHA1"; PStr "http://www.w3.org/2000/09/xmldsig#rsa-sha1"]; PList [PStr "SIG_RSA_SHA224"; PStr "http://www.w3.org/2001/04/xmldsig-more#rsa-sha224"]; PList [PStr "SIG_RSA_SHA256"; PStr "http://www.w3.org/2001/04/xmldsig-more#rsa-sha256"]; PList [PStr "SIG_RSA_SHA384"; PStr "http://www.w3.org/2001/04/xmldsig-more#rsa-sha384"]; PList [PStr "SIG_RSA_SHA512"; PStr "http://www.w3.org/2001/04/xmldsig-more#rsa-sha512"]]) ktrue (fun x_14 => match p2_unpack 2 x_14 with PList [v_short_name; v_long_name] => v_long_name | PExc n_ => PExc n_ | _ => PErr end))) with
      | BTrue => (py_bind (p2_fconcat [PStr "Signature algo not in allowed list: "; p2_str v_sigalg]) (fun _ =>
      (PExc "Exception")))
      | BFalse => (py_bind (p2_ifexp (p2_and v_sign v_sigalg) (py_bind v_sigalg (fun a_5 => (src2_get_signer v_backend a_5 PNone))) PNone) (fun v_signer =>
      (match p2_branch (p2_not v_signer) with
      | BTrue => (py_bind (p2_fconcat [PStr "Could not init signer fro algo "; p2_str v_sigalg]) (fun _ =>
      (PExc "Exception")))
      | BFalse => (py_bind v_sigalg (fun a_6 =>
      (py_bind (p2_setitem v_args (PStr "SigAlg") a_6) (fun v_args =>
      (py_bind (p2_join (PStr "&") (p2_listcomp v__order (fun v_k => (p2_in v_k v_args)) (fun v_k => (py_bind (p2_setitem (PObj []) v_k (p2_getitem v_args v_k)) (fun a_7 => (urlencode a_7)))))) (fun v_string =>
      (py_bind (str_encode v_string (PStr "ascii")) (fun v_string_enc =>
      (py_bind (py_bind (py_bind v_string_enc (fun a_8 => (src2_sign key_sign v_signer a_8 PNone))) (fun a_9 => (b64encode a_9))) (fun a_10 =>
      (py_bind (p2_setitem v_args (PStr "Signature") a_10) (fun v_args =>
      (k_16 v_signer v_args v_string v_string_enc)))))))))))))
      | BExc n_12 => (PExc n_12)
      | BErr => PErr
      end)))
      | BExc n_15 => (PExc n_15)
      | BErr => PErr
      end)
      | BFalse => (k_16 v_signer v_args v_string v_string_enc)
      | BExc n_16 => (PExc n_16)
      | BErr => PErr
      end)) in
     (match p2_branch v_relay_state with
     | BTrue => (py_bind v_relay_state (fun a_18 =>
     (py_bind (p2_setitem v_args (PStr "RelayState") a_18) (fun v_args =>
     (k_19 v_args)))))
     | BFalse => (k_19 v_args)
     | BExc n_19 => (PExc n_19)
     | BErr => PErr
     end)) in
    (match p2_branch (p2_in v_typ (p2_mklist [(PStr "SAMLRequest"); (PStr "SAMLResponse")])) with
    | BTrue => (let k_23 := fun v__order =>
     (py_bind (p2_setitem (PObj []) v_typ (py_bind v_message (fun a_21 => (deflate_b64 a_21)))) (fun v_args =>
     (k_25 v__order v_args))) in
    (match p2_branch (p2_eq v_typ (PStr "SAMLRequest")) with
    | BTrue => (py_bind (PList [PStr "SAMLRequest"; PStr "RelayState"; PStr "SigAlg"]) (fun v__order =>
    (k_23 v__order)))
    | BFalse => (py_bind (PList [PStr "SAMLResponse"; PStr "RelayState"; PStr "SigAlg"]) (fun v__order =>
    (k_23 v__order)))
    | BExc n_23 => (PExc n_23)
    | BErr => PErr
    end))
    | BFalse => (match p2_branch (p2_eq v_typ (PStr "SAMLart")) with
    | BTrue => (py_bind (p2_setitem (PObj []) v_typ v_message) (fun v_args =>
    (k_25 v__order v_args)))
    | BFalse => (py_bind (p2_fconcat [PStr "Unknown message type: "; p2_str v_typ]) (fun _ =>
    (PExc "Exception")))
    | BExc n_24 => (PExc n_24)
    | BErr => PErr
    end)
    | BExc n_25 => (PExc n_25)
    | BErr => PErr
    end))) in
   (match p2_branch (p2_not (p2_isinstance v_message ["str"] [])) with
   | BTrue => (py_bind (p2_fconcat [p2_str v_message]) (fun v_message =>
   (k_27 v_message)))
   | BFalse => (k_27 v_message)
   | BExc n_27 => (PExc n_27)
   | BErr => PErr
   end)).

(* saml2/config.py:Config.getattr, lines 241-248 *)
Definition src2_config_getattr (v_self : pyval) (v_attr : pyval) (v_context : pyval) : pyval :=
  (let k_3 := fun v_context =>
    (match p2_branch (p2_eq v_context (PStr "")) with
    | BTrue => (p2_getattr3_dyn v_self v_attr PNone)
    | BFalse => (p2_getattr3_dyn v_self (p2_fconcat [PStr "_"; p2_str v_context; PStr "_"; p2_str v_attr]) PNone)
    | BExc n_1 => (PExc n_1)
    | BErr => PErr
    end) in
   (match p2_branch (p2_is_none v_context) with
   | BTrue => (py_bind (p2_attr v_self "context") (fun v_context =>
   (k_3 v_context)))
   | BFalse => (k_3 v_context)
   | BExc n_3 => (PExc n_3)
   | BErr => PErr
   end)).

(* saml2/config.py:Config._load, lines 344-367 *)
Definition src2_config_load_module (path_split : pyval -> pyval) (sys_path : pyval) (path_insert : pyval -> pyval -> pyval) (import_module : pyval -> pyval -> pyval) (abspath : pyval -> pyval) (path_join : pyval -> pyval -> pyval) (isfile : pyval -> pyval) (samefile : pyval -> pyval -> pyval) (spec_from_file : pyval -> pyval -> pyval) (module_from_spec : pyval -> pyval) (exec_module : pyval -> pyval -> pyval) (v_self : pyval) (v_fil : pyval) : pyval :=
  let v_head := PErr in
  let v_tail := PErr in
  let v_mod := PErr in
  let v_wanted := PErr in
  let v_found := PErr in
  let v_spec := PErr in
  (py_bind (py_bind v_fil (fun a_1 => (path_split a_1))) (fun a_2 =>
   (match p2_unpack 2 a_2 with
   | PList [v_head; v_tail] => (let k_25 := fun (_ : unit) =>
    (py_bind (py_bind v_tail (fun a_3 => (import_module v_head a_3))) (fun v_mod =>
    (py_bind (py_bind (py_bind (p2_or v_head (PStr ".")) (fun a_4 => (abspath a_4))) (fun a_5 => (py_bind (p2_fconcat [p2_str v_tail; PStr ".py"]) (fun a_6 => (path_join a_5 a_6))))) (fun v_wanted =>
    (py_bind (py_bind v_mod (fun a_7 => (p2_getattr3 a_7 "file" PNone))) (fun v_found =>
    (match p2_branch (p2_and v_found (p2_and (py_bind v_wanted (fun a_9 => (isfile a_9))) (p2_not (py_bind v_found (fun a_10 => (py_bind v_wanted (fun a_11 => (samefile a_10 a_11)))))))) with
    | BTrue => (py_bind (py_bind v_tail (fun a_12 => (py_bind v_wanted (fun a_13 => (spec_from_file a_12 a_13))))) (fun v_spec =>
    (py_bind (py_bind v_spec (fun a_14 => (module_from_spec a_14))) (fun v_mod =>
    (py_bind (py_bind v_mod (fun a_15 => (exec_module v_spec a_15))) (fun _ =>
    v_mod))))))
    | BFalse => (match p2_branch (p2_and v_head (p2_and v_found (p2_not (py_bind v_wanted (fun a_16 => (isfile a_16)))))) with
    | BTrue => (match p2_branch (p2_not (p2_startswith (py_bind v_found (fun a_17 => (abspath a_17))) (p2_add (py_bind v_head (fun a_18 => (abspath a_18))) (PStr "/")))) with
    | BTrue => (py_bind v_tail (fun _ =>
    (PExc "ModuleNotFoundError")))
    | BFalse => v_mod
    | BExc n_19 => (PExc n_19)
    | BErr => PErr
    end)
    | BFalse => v_mod
    | BExc n_20 => (PExc n_20)
    | BErr => PErr
    end)
    | BExc n_21 => (PExc n_21)
    | BErr => PErr
    end))))))) in
   (match p2_branch (p2_eq v_head (PStr "")) with
   | BTrue => (match p2_branch (p2_ne (p2_getitem sys_path (PInt (0)%Z)) (PStr ".")) with
   | BTrue => (py_bind (path_insert (PInt (0)%Z) (PStr ".")) (fun _ =>
   (k_25 tt)))
   | BFalse => (k_25 tt)
   | BExc n_23 => (PExc n_23)
   | BErr => PErr
   end)
   | BFalse => (py_bind (py_bind v_head (fun a_24 => (path_insert (PInt (0)%Z) a_24))) (fun _ =>
   (k_25 tt)))
   | BExc n_25 => (PExc n_25)
   | BErr => PErr
   end))
   | PExc n_26 => (PExc n_26)
   | _ => PErr
   end))).

(* saml2/config.py:Config.load_file, lines 369-383 *)
Definition src2_config_load_file (load_module : pyval -> pyval -> pyval) (deepcopy : pyval -> pyval) (config_load : pyval -> pyval -> pyval) (v_self : pyval) (v_config_filename : pyval) (v_metadata_construction : pyval) : pyval :=
  let v_warn_msg := PErr in
  let v_mod := PErr in
  (let k_7 := fun v_warn_msg =>
    (let k_5 := fun v_config_filename =>
     (py_bind (py_bind v_config_filename (fun a_1 => (load_module v_self a_1))) (fun v_mod =>
     (py_bind (py_bind (p2_attr v_mod "CONFIG") (fun a_2 => (deepcopy a_2))) (fun a_3 => (config_load v_self a_3))))) in
    (match p2_branch (p2_endswith v_config_filename (PStr ".py")) with
    | BTrue => (py_bind (p2_slice v_config_filename PNone (PInt (-3)%Z)) (fun v_config_filename =>
    (k_5 v_config_filename)))
    | BFalse => (k_5 v_config_filename)
    | BExc n_5 => (PExc n_5)
    | BErr => PErr
    end)) in
   (match p2_branch (p2_is_not_none v_metadata_construction) with
   | BTrue => (py_bind (PStr "The metadata_construction parameter for saml2.config.Config.load_file is deprecated and ignored; instead, initialize the Policy object setting the mds param.") (fun v_warn_msg =>
   (k_7 v_warn_msg)))
   | BFalse => (k_7 v_warn_msg)
   | BExc n_7 => (PExc n_7)
   | BErr => PErr
   end)).

(* saml2/sigver.py:security_context, lines 980-1053 *)
Definition src2_security_context (import_key : pyval -> pyval) (read_cert : pyval -> pyval) (path_exists : pyval -> pyval) (find_xmlsec : pyval -> pyval) (xmlsec_backend : pyval -> pyval -> pyval) (v_conf : pyval) : pyval :=
  let v_metadata := PErr in
  let v_sec_backend := PErr in
  let v_xmlsec_binary := PErr in
  let v__path := PErr in
  let v_err_msg := PErr in
  let v_crypto := PErr in
  let v__file_name := PErr in
  let v_rsa_key := PErr in
  let v_err := PErr in
  let v_enc_key_files := PErr in
  (match p2_branch (p2_not v_conf) with
   | BTrue => (PList [PNone; v_conf])
   | BFalse => (let k_61 := fun v_metadata =>
    (let v_sec_backend := PNone in
    (let k_58 := fun v_xmlsec_binary v__path v_err_msg v_crypto v__file_name v_rsa_key v_err v_sec_backend =>
     (let v_enc_key_files := (PList []) in
     (let k_26 := fun v_enc_key_files =>
      (py_bindh (fun n_16 => (PList [(PExc n_16); v_conf])) (py_bind v_crypto (fun a_1 => (py_bind (p2_attr_x v_conf "key_file") (fun a_2 => (py_bind (p2_attr_x v_conf "cert_file") (fun a_3 => (py_bind v_metadata (fun a_4 => (py_bind (p2_attr_x v_conf "only_use_keys_in_metadata") (fun a_5 => (py_bind (p2_attr_x v_conf "cert_handler_extra_class") (fun a_6 => (py_bind (p2_attr_x v_conf "generate_cert_info") (fun a_7 => (py_bind (p2_attr_x v_conf "tmp_cert_file") (fun a_8 => (py_bind (p2_attr_x v_conf "tmp_key_file") (fun a_9 => (py_bind (p2_attr_x v_conf "validate_certificate") (fun a_10 => (py_bind v_enc_key_files (fun a_11 => (py_bind (p2_attr_x v_conf "encryption_keypairs") (fun a_12 => (py_bind v_sec_backend (fun a_13 => (py_bind (p2_attr_x v_conf "delete_tmpfiles") (fun a_14 => (py_bind (read_cert a_3) (fun my_cert => PObj [("__class__", PStr "SecurityContext"); ("crypto", a_1); ("sec_backend", a_13); ("key_file", a_2); ("cert_file", a_3); ("my_cert", my_cert); ("metadata", a_4); ("enc_key_files", a_11)])))))))))))))))))))))))))))))) (fun r_15 =>
      (PList [r_15; v_conf]))) in
     (match p2_branch (p2_is_not_none (p2_attr_x v_conf "encryption_keypairs")) with
     | BTrue => (py_bindh (fun n_25 => (PList [(PExc n_25); v_conf])) (p2_iter_check (p2_attr_x v_conf "encryption_keypairs")) (fun it_18 =>
     (match pyfor2 (py_iter2 it_18) [v_enc_key_files] (fun st_19 x_20 => match st_19 with [v_enc_key_files] =>
      (let v__encryption_keypair := x_20 in
      (match p2_branch (p2_in (PStr "key_file") v__encryption_keypair) with
      | BTrue => (py_bindS (fun n_23 => (ExcS n_23 [v_enc_key_files])) (p2_append v_enc_key_files (p2_getitem v__encryption_keypair (PStr "key_file"))) (fun v_enc_key_files =>
      (NextS [v_enc_key_files])))
      | BFalse => (NextS [v_enc_key_files])
      | BExc n_24 => (ExcS n_24 [v_enc_key_files])
      | BErr => (RetS PErr)
      end))
     | _ => RetS PErr end) with
     | NextS st_19 => match st_19 with [v_enc_key_files] => (k_26 v_enc_key_files) | _ => PErr end
     | BrkS _ => PErr
     | RetS r_21 => r_21
     | ExcS n_22 st_19 => match st_19 with [v_enc_key_files] => (PList [(PExc n_22); v_conf]) | _ => PErr end
     end)))
     | BFalse => (k_26 v_enc_key_files)
     | BExc n_26 => (PList [(PExc n_26); v_conf])
     | BErr => PErr
     end))) in
    (match p2_branch (p2_eq (p2_attr_x v_conf "crypto_backend") (PStr "xmlsec1")) with
    | BTrue => (py_bindh (fun n_52 => (PList [(PExc n_52); v_conf])) (p2_attr_x v_conf "xmlsec_binary") (fun v_xmlsec_binary =>
    (let k_51 := fun v__path v_xmlsec_binary =>
     (match p2_branch (p2_not (py_bind v_xmlsec_binary (fun a_40 => (path_exists a_40)))) with
     | BTrue => (let v_err_msg := (PStr "xmlsec binary not found: {binary}") in
     (py_bindh (fun n_43 => (PList [(PExc n_43); v_conf])) (py_bind v_xmlsec_binary (fun a_41 => (PStr ""))) (fun v_err_msg =>
     (py_bindh (fun n_42 => (PList [(PExc n_42); v_conf])) v_err_msg (fun _ =>
     (PList [(PExc "SigverError"); v_conf]))))))
     | BFalse => (py_bindh (fun n_38 => (PList [(PExc n_38); v_conf])) (py_bind v_xmlsec_binary (fun a_28 => (py_bind (p2_attr_x v_conf "delete_tmpfiles") (fun a_29 => (xmlsec_backend a_28 a_29))))) (fun v_crypto =>
     (py_bindh (fun n_37 => (PList [(PExc n_37); v_conf])) (src2_config_getattr v_conf (PStr "key_file") (PStr "")) (fun v__file_name =>
     (match p2_branch v__file_name with
     | BTrue => (py_bindh (fun n_35 => (let v_err := PExc n_35 in
     (PList [(PExc n_35); v_conf]))) (py_bind v__file_name (fun a_34 => (import_key a_34))) (fun v_rsa_key =>
     (py_bindh (fun n_32 => (PList [(PExc n_32); v_conf])) (py_bind v_rsa_key (fun a_31 => (PObj [("__class__", PStr "RSACrypto"); ("key", a_31)]))) (fun v_sec_backend =>
     (k_58 v_xmlsec_binary v__path v_err_msg v_crypto v__file_name v_rsa_key v_err v_sec_backend)))))
     | BFalse => (k_58 v_xmlsec_binary v__path v_err_msg v_crypto v__file_name v_rsa_key v_err v_sec_backend)
     | BExc n_36 => (PList [(PExc n_36); v_conf])
     | BErr => PErr
     end)))))
     | BExc n_44 => (PList [(PExc n_44); v_conf])
     | BErr => PErr
     end) in
    (match p2_branch (p2_not v_xmlsec_binary) with
    | BTrue => (let k_50 := fun v__path =>
     (py_bindh (fun n_47 => (PList [(PExc n_47); v_conf])) (py_bind v__path (fun a_46 => (find_xmlsec a_46))) (fun v_xmlsec_binary =>
     (k_51 v__path v_xmlsec_binary))) in
    (py_bindh (fun n_50 => (if exc_matches n_50 ["AttributeError"]
    then (let v__path := (PList []) in
    (k_50 v__path))
    else (PList [(PExc n_50); v_conf]))) (p2_attr_x v_conf "xmlsec_path") (fun v__path =>
    (k_50 v__path))))
    | BFalse => (k_51 v__path v_xmlsec_binary)
    | BExc n_51 => (PList [(PExc n_51); v_conf])
    | BErr => PErr
    end))))
    | BFalse => (match p2_branch (p2_eq (p2_attr_x v_conf "crypto_backend") (PStr "XMLSecurity")) with
    | BTrue => (py_bindh (fun n_53 => (PList [(PExc n_53); v_conf])) (PObj [("__class__", PStr "CryptoBackendXMLSecurity")]) (fun v_crypto =>
    (k_58 v_xmlsec_binary v__path v_err_msg v_crypto v__file_name v_rsa_key v_err v_sec_backend)))
    | BFalse => (let v_err_msg := (PStr "Unknown crypto_backend {backend}") in
    (py_bindh (fun n_56 => (PList [(PExc n_56); v_conf])) (py_bind (p2_attr_x v_conf "crypto_backend") (fun a_54 => (PStr ""))) (fun v_err_msg =>
    (py_bindh (fun n_55 => (PList [(PExc n_55); v_conf])) v_err_msg (fun _ =>
    (PList [(PExc "SigverError"); v_conf]))))))
    | BExc n_57 => (PList [(PExc n_57); v_conf])
    | BErr => PErr
    end)
    | BExc n_58 => (PList [(PExc n_58); v_conf])
    | BErr => PErr
    end))) in
   (py_bindh (fun n_61 => (if exc_matches n_61 ["AttributeError"]
   then (let v_metadata := PNone in
   (k_61 v_metadata))
   else (PList [(PExc n_61); v_conf]))) (p2_attr_x v_conf "metadata") (fun v_metadata =>
   (k_61 v_metadata))))
   | BExc n_63 => (PList [(PExc n_63); v_conf])
   | BErr => PErr
   end).
