(* GENERATED on every run by harness/py2coq2.py from the current source text of /repo/src/saml2 — do not edit. *)
From Coq Require Import String Ascii List Bool ZArith.
From Verif Require Import Base.Str Base.Py Base.Py2.
Import ListNotations.
Open Scope string_scope.


(* saml2/mdstore.py:InMemoryMetaData.do_entity_descriptor, lines 565-614 *)
Definition src2_do_entity_descriptor (valid : pyval -> pyval) (to_dict : pyval -> pyval) (filter_ : pyval -> pyval) (v_self : pyval) (v_entity_descr : pyval) : pyval :=
  let v__ent := PErr in
  let v_flag := PErr in
  let v__res := PErr in
  let v__items := PErr in
  let v_item := PErr in
  (let k_62 := fun v_self =>
    (match p2_branch (p2_in (p2_attr_x v_entity_descr "entity_id") (p2_attr_x v_self "entity")) with
    | BTrue => (PList [PNone; v_self])
    | BFalse => (py_bindh (fun n_54 => (PList [(PExc n_54); v_self])) (py_bind v_entity_descr (fun a_1 => (to_dict a_1))) (fun v__ent =>
    (let v_flag := (PInt (0)%Z) in
    (py_bindh (fun n_53 => (PList [(PExc n_53); v_self])) (p2_iter_check (p2_mklist [(PStr "spsso"); (PStr "idpsso"); (PStr "role"); (PStr "authn_authority"); (PStr "attribute_authority"); (PStr "pdp"); (PStr "affiliation")])) (fun it_14 =>
    (match pyfor2 (py_iter2 it_14) [v__res; v__items; v_flag; v_item; v__ent] (fun st_15 x_16 => match st_15 with [v__res; v__items; v_flag; v_item; v__ent] =>
     (let v_descr := x_16 in
     (let v__res := (PList []) in
     (py_bindS (fun n_52 => (if exc_matches n_52 ["KeyError"]
     then (NextS [v__res; v__items; v_flag; v_item; v__ent])
     else (ExcS n_52 [v__res; v__items; v_flag; v_item; v__ent]))) (p2_getitem v__ent (p2_fconcat [p2_str v_descr; PStr "_descriptor"])) (fun v__items =>
     (match p2_branch (p2_eq v_descr (PStr "affiliation")) with
     | BTrue => (py_bindS (fun n_48 => (ExcS n_48 [v__res; v__items; v_flag; v_item; v__ent])) (p2_add v_flag (PInt (1)%Z)) (fun v_flag =>
     (NextS [v__res; v__items; v_flag; v_item; v__ent])))
     | BFalse => (py_bindS (fun n_46 => (ExcS n_46 [v__res; v__items; v_flag; v_item; v__ent])) (p2_iter_check v__items) (fun it_30 =>
     (match pyfor2 (py_iter2 it_30) [v_item; v__res] (fun st_31 x_32 => match st_31 with [v_item; v__res] =>
      (let v_item := x_32 in
      (py_bindS (fun n_45 => (ExcS n_45 [v_item; v__res])) (p2_iter_check (p2_split_ws (p2_getitem v_item (PStr "protocol_support_enumeration")))) (fun it_35 =>
      (match pyfor2 (py_iter2 it_35) [v_item; v__res] (fun st_36 x_37 => match st_36 with [v_item; v__res] =>
       (let v_prot := x_37 in
       (match p2_branch (p2_eq v_prot (PStr "urn:oasis:names:tc:SAML:2.0:protocol")) with
       | BTrue => (py_bindS (fun n_43 => (ExcS n_43 [v_item; v__res])) v_prot (fun a_40 =>
       (py_bindS (fun n_42 => (ExcS n_42 [v_item; v__res])) (p2_setitem v_item (PStr "protocol_support_enumeration") a_40) (fun v_item =>
       (py_bindS (fun n_41 => (ExcS n_41 [v_item; v__res])) (p2_append v__res v_item) (fun v__res =>
       (BrkS [v_item; v__res])))))))
       | BFalse => (NextS [v_item; v__res])
       | BExc n_44 => (ExcS n_44 [v_item; v__res])
       | BErr => (RetS PErr)
       end))
      | _ => RetS PErr end) with
      | NextS st_36 => match st_36 with [v_item; v__res] => (NextS [v_item; v__res]) | _ => (RetS PErr) end
      | BrkS st_36 => match st_36 with [v_item; v__res] => (NextS [v_item; v__res]) | _ => (RetS PErr) end
      | RetS r_38 => (RetS r_38)
      | ExcS n_39 st_36 => match st_36 with [v_item; v__res] => (ExcS n_39 [v_item; v__res]) | _ => (RetS PErr) end
      end))))
     | _ => RetS PErr end) with
     | NextS st_31 => match st_31 with [v_item; v__res] => (match p2_branch (p2_not v__res) with
     | BTrue => (py_bindS (fun n_21 => (ExcS n_21 [v__res; v__items; v_flag; v_item; v__ent])) (p2_fconcat [p2_str v_descr; PStr "_descriptor"]) (fun a_19 =>
     (py_bindS (fun n_20 => (ExcS n_20 [v__res; v__items; v_flag; v_item; v__ent])) (p2_delitem v__ent a_19) (fun v__ent =>
     (NextS [v__res; v__items; v_flag; v_item; v__ent])))))
     | BFalse => (py_bindS (fun n_27 => (ExcS n_27 [v__res; v__items; v_flag; v_item; v__ent])) v__res (fun a_22 =>
     (py_bindS (fun n_26 => (ExcS n_26 [v__res; v__items; v_flag; v_item; v__ent])) (p2_fconcat [p2_str v_descr; PStr "_descriptor"]) (fun a_23 =>
     (py_bindS (fun n_25 => (ExcS n_25 [v__res; v__items; v_flag; v_item; v__ent])) (p2_setitem v__ent a_23 a_22) (fun v__ent =>
     (py_bindS (fun n_24 => (ExcS n_24 [v__res; v__items; v_flag; v_item; v__ent])) (p2_add v_flag (PInt (1)%Z)) (fun v_flag =>
     (NextS [v__res; v__items; v_flag; v_item; v__ent])))))))))
     | BExc n_28 => (ExcS n_28 [v__res; v__items; v_flag; v_item; v__ent])
     | BErr => (RetS PErr)
     end) | _ => (RetS PErr) end
     | BrkS _ => (RetS PErr)
     | RetS r_33 => (RetS r_33)
     | ExcS n_34 st_31 => match st_31 with [v_item; v__res] => (ExcS n_34 [v__res; v__items; v_flag; v_item; v__ent]) | _ => (RetS PErr) end
     end)))
     | BExc n_49 => (ExcS n_49 [v__res; v__items; v_flag; v_item; v__ent])
     | BErr => (RetS PErr)
     end)))))
    | _ => RetS PErr end) with
    | NextS st_15 => match st_15 with [v__res; v__items; v_flag; v_item; v__ent] => (let k_12 := fun v__ent v_flag =>
     (match p2_branch v_flag with
     | BTrue => (py_bindh (fun n_6 => (PList [(PExc n_6); v_self])) v__ent (fun a_2 =>
     (py_bindh (fun n_5 => (PList [(PExc n_5); v_self])) (p2_attr_x v_entity_descr "entity_id") (fun a_3 =>
     (py_bindh (fun n_4 => (PList [(PExc n_4); v_self])) (p2_setattr v_self "entity" (p2_setitem (p2_attr_x v_self "entity") a_3 a_2)) (fun v_self =>
     (PList [PNone; v_self])))))))
     | BFalse => (PList [PNone; v_self])
     | BExc n_7 => (PList [(PExc n_7); v_self])
     | BErr => PErr
     end) in
    (match p2_branch (p2_attr_x v_self "filter") with
    | BTrue => (py_bindh (fun n_11 => (PList [(PExc n_11); v_self])) (py_bind v__ent (fun a_9 => (filter_ a_9))) (fun v__ent =>
    (match p2_branch (p2_not v__ent) with
    | BTrue => (let v_flag := (PInt (0)%Z) in
    (k_12 v__ent v_flag))
    | BFalse => (k_12 v__ent v_flag)
    | BExc n_10 => (PList [(PExc n_10); v_self])
    | BErr => PErr
    end)))
    | BFalse => (k_12 v__ent v_flag)
    | BExc n_12 => (PList [(PExc n_12); v_self])
    | BErr => PErr
    end)) | _ => PErr end
    | BrkS _ => PErr
    | RetS r_17 => r_17
    | ExcS n_18 st_15 => match st_15 with [v__res; v__items; v_flag; v_item; v__ent] => (PList [(PExc n_18); v_self]) | _ => PErr end
    end))))))
    | BExc n_56 => (PList [(PExc n_56); v_self])
    | BErr => PErr
    end) in
   (match p2_branch (p2_attr_x v_self "check_validity") with
   | BTrue => (let h_58 := fun n_58 v_self =>
    (if exc_matches n_58 ["AttributeError"]
    then (k_62 v_self)
    else (PList [(PExc n_58); v_self])) in
   (match p2_branch (p2_not (py_bind (p2_attr_x v_entity_descr "valid_until") (fun a_59 => (valid a_59)))) with
   | BTrue => (py_bindh (fun n_60 => (h_58 n_60 v_self)) (p2_setattr v_self "to_old" (p2_append (p2_attr_x v_self "to_old") (p2_attr_x v_entity_descr "entity_id"))) (fun v_self =>
   (PList [PNone; v_self])))
   | BFalse => (k_62 v_self)
   | BExc n_61 => (h_58 n_61 v_self)
   | BErr => PErr
   end))
   | BFalse => (k_62 v_self)
   | BExc n_62 => (PList [(PExc n_62); v_self])
   | BErr => PErr
   end)).

(* saml2/mdstore.py:MetaData.certs.extract_certs, lines 485-504 *)
Definition src2_extract_certs (repack_cert : pyval -> pyval) (v_use : pyval) (v_srvs : pyval) : pyval :=
  let v_res := PErr in
  let v_key_use := PErr in
  let v_key_info := PErr in
  let v_key_name := PErr in
  let v_key_name_txt := PErr in
  let v_text := PErr in
  let v_cert := PErr in
  (let v_res := (PList []) in
   (py_bind (p2_iter_check v_srvs) (fun it_2 =>
   (match pyfor2 (py_iter2 it_2) [v_key_use; v_key_info; v_key_name; v_key_name_txt; v_text; v_cert; v_res] (fun st_3 x_4 => match st_3 with [v_key_use; v_key_info; v_key_name; v_key_name_txt; v_text; v_cert; v_res] =>
    (let v_srv := x_4 in
    (py_bindS (fun n_30 => (ExcS n_30 [v_key_use; v_key_info; v_key_name; v_key_name_txt; v_text; v_cert; v_res])) (p2_iter_check (p2_get3 v_srv (PStr "key_descriptor") (PList []))) (fun it_7 =>
    (match pyfor2 (py_iter2 it_7) [v_key_use; v_key_info; v_key_name; v_key_name_txt; v_text; v_cert; v_res] (fun st_8 x_9 => match st_8 with [v_key_use; v_key_info; v_key_name; v_key_name_txt; v_text; v_cert; v_res] =>
     (let v_key := x_9 in
     (py_bindS (fun n_29 => (ExcS n_29 [v_key_use; v_key_info; v_key_name; v_key_name_txt; v_text; v_cert; v_res])) (p2_get v_key (PStr "use")) (fun v_key_use =>
     (py_bindS (fun n_28 => (ExcS n_28 [v_key_use; v_key_info; v_key_name; v_key_name_txt; v_text; v_cert; v_res])) (p2_or (p2_get v_key (PStr "key_info")) (PObj [])) (fun v_key_info =>
     (py_bindS (fun n_27 => (ExcS n_27 [v_key_use; v_key_info; v_key_name; v_key_name_txt; v_text; v_cert; v_res])) (p2_getitem (p2_or (p2_get v_key_info (PStr "key_name")) (p2_mklist [(p2_mkdict [("text", PNone)])])) (PInt (0)%Z)) (fun v_key_name =>
     (py_bindS (fun n_26 => (ExcS n_26 [v_key_use; v_key_info; v_key_name; v_key_name_txt; v_text; v_cert; v_res])) (p2_get v_key_name (PStr "text")) (fun v_key_name_txt =>
     (match p2_branch (p2_or (p2_not_in (PStr "use") v_key) (p2_eq v_key_use v_use)) with
     | BTrue => (py_bindS (fun n_24 => (ExcS n_24 [v_key_use; v_key_info; v_key_name; v_key_name_txt; v_text; v_cert; v_res])) (p2_iter_check (p2_or (p2_get v_key_info (PStr "x509_data")) (PList []))) (fun it_12 =>
     (match pyfor2 (py_iter2 it_12) [v_text; v_cert; v_res] (fun st_13 x_14 => match st_13 with [v_text; v_cert; v_res] =>
      (let v_dat := x_14 in
      (py_bindS (fun n_23 => (ExcS n_23 [v_text; v_cert; v_res])) (p2_get (p2_or (p2_get v_dat (PStr "x509_certificate")) (PObj [])) (PStr "text")) (fun v_text =>
      (match p2_branch (p2_or (p2_not v_text) (p2_not (p2_strip v_text))) with
      | BTrue => (NextS [v_text; v_cert; v_res])
      | BFalse => (py_bindS (fun n_20 => (ExcS n_20 [v_text; v_cert; v_res])) (py_bind v_text (fun a_17 => (repack_cert a_17))) (fun v_cert =>
      (match p2_branch (p2_not_in v_cert v_res) with
      | BTrue => (py_bindS (fun n_18 => (ExcS n_18 [v_text; v_cert; v_res])) (p2_append v_res (p2_mklist [v_key_name_txt; v_cert])) (fun v_res =>
      (NextS [v_text; v_cert; v_res])))
      | BFalse => (NextS [v_text; v_cert; v_res])
      | BExc n_19 => (ExcS n_19 [v_text; v_cert; v_res])
      | BErr => (RetS PErr)
      end)))
      | BExc n_22 => (ExcS n_22 [v_text; v_cert; v_res])
      | BErr => (RetS PErr)
      end))))
     | _ => RetS PErr end) with
     | NextS st_13 => match st_13 with [v_text; v_cert; v_res] => (NextS [v_key_use; v_key_info; v_key_name; v_key_name_txt; v_text; v_cert; v_res]) | _ => (RetS PErr) end
     | BrkS _ => (RetS PErr)
     | RetS r_15 => (RetS r_15)
     | ExcS n_16 st_13 => match st_13 with [v_text; v_cert; v_res] => (ExcS n_16 [v_key_use; v_key_info; v_key_name; v_key_name_txt; v_text; v_cert; v_res]) | _ => (RetS PErr) end
     end)))
     | BFalse => (NextS [v_key_use; v_key_info; v_key_name; v_key_name_txt; v_text; v_cert; v_res])
     | BExc n_25 => (ExcS n_25 [v_key_use; v_key_info; v_key_name; v_key_name_txt; v_text; v_cert; v_res])
     | BErr => (RetS PErr)
     end))))))))))
    | _ => RetS PErr end) with
    | NextS st_8 => match st_8 with [v_key_use; v_key_info; v_key_name; v_key_name_txt; v_text; v_cert; v_res] => (NextS [v_key_use; v_key_info; v_key_name; v_key_name_txt; v_text; v_cert; v_res]) | _ => (RetS PErr) end
    | BrkS _ => (RetS PErr)
    | RetS r_10 => (RetS r_10)
    | ExcS n_11 st_8 => match st_8 with [v_key_use; v_key_info; v_key_name; v_key_name_txt; v_text; v_cert; v_res] => (ExcS n_11 [v_key_use; v_key_info; v_key_name; v_key_name_txt; v_text; v_cert; v_res]) | _ => (RetS PErr) end
    end))))
   | _ => RetS PErr end) with
   | NextS st_3 => match st_3 with [v_key_use; v_key_info; v_key_name; v_key_name_txt; v_text; v_cert; v_res] => v_res | _ => PErr end
   | BrkS _ => PErr
   | RetS r_5 => r_5
   | ExcS n_6 st_3 => match st_3 with [v_key_use; v_key_info; v_key_name; v_key_name_txt; v_text; v_cert; v_res] => (PExc n_6) | _ => PErr end
   end)))).

(* saml2/mdstore.py:MetaDataMDX._is_metadata_fresh, lines 1010-1011 *)
Definition src2_is_fresh (before : pyval -> pyval) (v_self : pyval) (v_item : pyval) : pyval :=
  (py_bind (p2_getitem (p2_attr v_self "expiration_date") v_item) (fun a_1 => (before a_1))).

(* saml2/mdstore.py:MetaDataMDX.__getitem__, lines 1013-1023 *)
Definition src2_mdx_getitem (fetch : pyval -> pyval -> pyval) (fresh : pyval -> pyval -> pyval) (v_self : pyval) (v_item : pyval) : pyval :=
  let v_entity := PErr in
  let v_msg := PErr in
  let v__ := PErr in
  (let k_17 := fun v_entity v_msg v__ v_self =>
    (py_bindh (fun n_2 => (PList [(PExc n_2); v_self])) v_entity (fun r_1 =>
    (PList [r_1; v_self]))) in
   (match p2_branch (p2_not_in v_item (p2_attr v_self "entity")) with
   | BTrue => (py_bindh (fun n_5 => (PList [(PExc n_5); v_self])) (py_bind v_item (fun a_4 => (fetch v_self a_4))) (fun v_entity =>
   (k_17 v_entity v_msg v__ v_self)))
   | BFalse => (match p2_branch (p2_not (py_bind v_item (fun a_6 => (fresh v_self a_6)))) with
   | BTrue => (py_bindh (fun n_14 => (PList [(PExc n_14); v_self])) (p2_fconcat [PStr "Metadata for "; p2_str v_item; PStr " have expired; refreshing metadata"]) (fun v_msg =>
   (py_bindh (fun n_13 => (PList [(PExc n_13); v_self])) v_item (fun a_8 =>
   (py_bindh (fun n_12 => (PList [(PExc n_12); v_self])) (p2_pop_val1 (p2_attr v_self "entity") a_8) (fun a_7 =>
   (py_bindh (fun n_11 => (PList [(PExc n_11); v_self])) (p2_setattr v_self "entity" (p2_pop_rest (p2_attr v_self "entity") a_8)) (fun v_self =>
   (let v__ := a_7 in
   (py_bindh (fun n_10 => (PList [(PExc n_10); v_self])) (py_bind v_item (fun a_9 => (fetch v_self a_9))) (fun v_entity =>
   (k_17 v_entity v_msg v__ v_self))))))))))))
   | BFalse => (py_bindh (fun n_15 => (PList [(PExc n_15); v_self])) (p2_getitem (p2_attr v_self "entity") v_item) (fun v_entity =>
   (k_17 v_entity v_msg v__ v_self)))
   | BExc n_16 => (PList [(PExc n_16); v_self])
   | BErr => PErr
   end)
   | BExc n_17 => (PList [(PExc n_17); v_self])
   | BErr => PErr
   end)).

(* saml2/mdstore.py:MetadataStore.__getitem__, lines 1398-1405 *)
Definition src2_store_getitem (v_self : pyval) (v_item : pyval) : pyval :=
  (py_bind (p2_iter_check (p2_values (p2_attr v_self "metadata"))) (fun it_2 =>
   (match pyfor2 (py_iter2 it_2) [] (fun st_3 x_4 => match st_3 with [] =>
    (let v__md := x_4 in
    (py_bindS (fun n_9 => (if exc_matches n_9 ["KeyError"]
    then (NextS [])
    else (ExcS n_9 []))) (p2_getitem v__md v_item) (fun r_8 =>
    (RetS r_8))))
   | _ => RetS PErr end) with
   | NextS st_3 => match st_3 with [] => (py_bind v_item (fun _ =>
   (PExc "KeyError"))) | _ => PErr end
   | BrkS _ => PErr
   | RetS r_5 => r_5
   | ExcS n_6 st_3 => match st_3 with [] => (PExc n_6) | _ => PErr end
   end))).

(* saml2/mdstore.py:MetadataStore.reload, lines 1134-1144 *)
Definition src2_reload (imp : pyval -> pyval -> pyval) (v_self : pyval) (v_spec : pyval) : pyval :=
  let v_old_metadata := PErr in
  let v_e := PErr in
  (py_bindh (fun n_8 => (PList [(PExc n_8); v_self])) (p2_attr v_self "metadata") (fun v_old_metadata =>
   (py_bindh (fun n_7 => (PList [(PExc n_7); v_self])) (p2_setattr v_self "metadata" (PObj [])) (fun v_self =>
   (py_bindh (fun n_6 => (let v_e := PExc n_6 in
   (py_bindh (fun n_4 => (PList [(PExc n_4); v_self])) v_old_metadata (fun a_2 =>
   (py_bindh (fun n_3 => (PList [(PExc n_3); v_self])) (p2_setattr v_self "metadata" a_2) (fun v_self =>
   (PList [(PExc n_6); v_self]))))))) (py_bind v_spec (fun a_5 => (imp v_self a_5))) (fun _ =>
   (PList [PNone; v_self]))))))).

(* saml2/mdstore.py:InMemoryMetaData.signed, lines 732-739 *)
Definition src2_signed (v_self : pyval) : pyval :=
  (match p2_branch (p2_and (p2_attr v_self "entities_descr") (p2_attr (p2_attr v_self "entities_descr") "signature")) with
   | BTrue => (PBool true)
   | BFalse => (match p2_branch (p2_and (p2_attr v_self "entity_descr") (p2_attr (p2_attr v_self "entity_descr") "signature")) with
   | BTrue => (PBool true)
   | BFalse => (PBool false)
   | BExc n_1 => (PExc n_1)
   | BErr => PErr
   end)
   | BExc n_3 => (PExc n_3)
   | BErr => PErr
   end).
