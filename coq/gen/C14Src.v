(* GENERATED on every run by harness/py2coq.py from the current source text of /repo/src/saml2 — do not edit. *)
From Coq Require Import String Ascii List Bool ZArith.
From Verif Require Import Base.Str Base.Py.
Import ListNotations.
Open Scope string_scope.


(* saml2/pack.py:add_query, lines 126-140 *)
Definition src_add_query (v_location : pyval) (v_query : pyval) : pyval :=
  (let '(v_base, v__hash, v_fragment) := py_partition v_location (PStr "#") in
   (let '(v__path, v__qm, v_old_query) := py_partition v_base (PStr "?") in
   (if py_truthy (py_not v__qm)
   then (let v_glue_char := (PStr "?") in
   (py_fconcat [v_base; v_glue_char; v_query; v__hash; v_fragment]))
   else (if py_truthy (py_or (py_not v_old_query) (py_endswith v_old_query (PStr "&")))
   then (let v_glue_char := (PStr "") in
   (py_fconcat [v_base; v_glue_char; v_query; v__hash; v_fragment]))
   else (let v_glue_char := (PStr "&") in
   (py_fconcat [v_base; v_glue_char; v_query; v__hash; v_fragment])))))).
