(* GENERATED on every run by harness/py2coq2.py from the current source text of /repo/src/saml2 — do not edit. *)
From Coq Require Import String Ascii List Bool ZArith.
From Verif Require Import Base.Str Base.Py Base.Py2.
Import ListNotations.
Open Scope string_scope.


(* saml2/assertion.py:Policy.get, lines 334-363 *)
Definition src2_policy_get (registration_info : pyval -> pyval -> pyval) (v_self : pyval) (v_attribute : pyval) (v_sp_entity_id : pyval) (v_default : pyval) : pyval :=
  let v_ra_info := PErr in
  let v_ra_entity_id := PErr in
  let v_sp_restrictions := PErr in
  let v_ra_restrictions := PErr in
  let v_default_restrictions := PErr in
  let v_restrictions := PErr in
  let v_attribute_restriction := PErr in
  let v_restriction := PErr in
  (match p2_branch (p2_not (p2_attr v_self "_restrictions")) with
   | BTrue => v_default
   | BFalse => (py_bind (p2_ifexp (p2_is_not_none (p2_attr v_self "metadata_store")) (p2_or (py_bind v_sp_entity_id (fun a_1 => (registration_info (p2_attr v_self "metadata_store") a_1))) (PObj [])) (PObj [])) (fun v_ra_info =>
   (py_bind (p2_get v_ra_info (PStr "registration_authority")) (fun v_ra_entity_id =>
   (py_bind (p2_get (p2_attr v_self "_restrictions") v_sp_entity_id) (fun v_sp_restrictions =>
   (py_bind (p2_get (p2_attr v_self "_restrictions") v_ra_entity_id) (fun v_ra_restrictions =>
   (py_bind (p2_or (p2_get (p2_attr v_self "_restrictions") (PStr "default")) (p2_get (p2_attr v_self "_restrictions") (PStr ""))) (fun v_default_restrictions =>
   (py_bind (p2_ifexp (p2_is_not_none v_sp_restrictions) v_sp_restrictions (p2_ifexp (p2_is_not_none v_ra_restrictions) v_ra_restrictions (p2_ifexp (p2_is_not_none v_default_restrictions) v_default_restrictions (PObj [])))) (fun v_restrictions =>
   (py_bind (p2_get v_restrictions v_attribute) (fun v_attribute_restriction =>
   (py_bind (p2_ifexp (p2_is_not_none v_attribute_restriction) v_attribute_restriction v_default) (fun v_restriction =>
   v_restriction))))))))))))))))
   | BExc n_3 => (PExc n_3)
   | BErr => PErr
   end).

(* saml2/assertion.py:Policy.get_nameid_format, lines 365-370 *)
Definition src2_get_nameid_format (registration_info : pyval -> pyval -> pyval) (v_self : pyval) (v_sp_entity_id : pyval) : pyval :=
  (py_bind v_sp_entity_id (fun a_1 => (src2_policy_get registration_info v_self (PStr "nameid_format") a_1 (PStr "urn:oasis:names:tc:SAML:2.0:nameid-format:transient")))).

(* saml2/assertion.py:Policy.get_lifetime, lines 380-386 *)
Definition src2_get_lifetime (registration_info : pyval -> pyval -> pyval) (v_self : pyval) (v_sp_entity_id : pyval) : pyval :=
  (py_bind v_sp_entity_id (fun a_1 => (py_bind (p2_mkdict [("hours", (PInt (1)%Z))]) (fun a_2 => (src2_policy_get registration_info v_self (PStr "lifetime") a_1 a_2))))).

(* saml2/assertion.py:Policy.conditions, lines 586-603 *)
Definition src2_conditions (factory : pyval -> list (string * pyval) -> pyval) (instant : pyval) (not_on_or_after : pyval -> pyval -> pyval) (v_self : pyval) (v_sp_entity_id : pyval) : pyval :=
  (py_bind instant (fun a_4 => (py_bind (py_bind v_sp_entity_id (fun a_1 => (not_on_or_after v_self a_1))) (fun a_5 => (py_bind (p2_mklist [(py_bind (p2_mklist [(py_bind v_sp_entity_id (fun a_2 => (factory (PStr "Audience") [("text", a_2)])))]) (fun a_3 => (factory (PStr "AudienceRestriction") [("audience", a_3)])))]) (fun a_6 => (factory (PStr "Conditions") [("audience_restriction", a_6); ("not_before", a_4); ("not_on_or_after", a_5)]))))))).

(* saml2/entity.py:Entity._issuer, lines 225-233 *)
Definition src2_issuer (mk_issuer : list (string * pyval) -> pyval) (v_self : pyval) (v_entityid : pyval) : pyval :=
  (match p2_branch v_entityid with
   | BTrue => (match p2_branch (p2_isinstance v_entityid [] ["Issuer"]) with
   | BTrue => v_entityid
   | BFalse => (py_bind v_entityid (fun a_1 => (mk_issuer [("format", (PStr "urn:oasis:names:tc:SAML:2.0:nameid-format:entity")); ("text", a_1)])))
   | BExc n_2 => (PExc n_2)
   | BErr => PErr
   end)
   | BFalse => (py_bind (p2_attr (p2_attr v_self "config") "entityid") (fun a_3 => (mk_issuer [("format", (PStr "urn:oasis:names:tc:SAML:2.0:nameid-format:entity")); ("text", a_3)])))
   | BExc n_4 => (PExc n_4)
   | BErr => PErr
   end).

(* saml2/entity.py:Entity.sign, lines 492-524 *)
Definition src2_sign (pre_signature_part : pyval -> pyval -> pyval -> pyval -> pyval -> pyval) (class_name : pyval -> pyval) (signed_instance_factory : pyval -> pyval -> pyval -> pyval) (v_self : pyval) (v_msg : pyval) (v_mid : pyval) (v_to_sign : pyval) (v_sign_prepare : pyval) (v_sign_alg : pyval) (v_digest_alg : pyval) : pyval :=
  (py_bind (p2_or v_sign_alg (p2_attr v_self "signing_algorithm")) (fun v_sign_alg =>
   (py_bind (p2_or v_digest_alg (p2_attr v_self "digest_algorithm")) (fun v_digest_alg =>
   (match p2_branch (p2_not_in v_sign_alg (p2_listcomp (PList [PList [PStr "SIG_RSA_SHA1"; PStr "http://www.w3.org/2000/09/xmldsig#rsa-sha1"]; PList [PStr "SIG_RSA_SHA224"; PStr "http://www.w3.org/2001/04/xmldsig-more#rsa-sha224"]; PList [PStr "SIG_RSA_SHA256"; PStr "http://www.w3.org/2001/04/xmldsig-more#rsa-sha256"]; PList [PStr "SIG_RSA_SHA384"; PStr "http://www.w3.org/2001/04/xmldsig-more#rsa-sha384"]; PList [PStr "SIG_RSA_SHA512"; PStr "http://www.w3.org/2001/04/xmldsig-more#rsa-sha512"]]) ktrue (fun x_24 => match p2_unpack 2 x_24 with PList [v_short_name; v_long_name] => v_long_name | PExc n_ => PExc n_ | _ => PErr end))) with
   | BTrue => (py_bind (p2_fconcat [PStr "Signature algo not in allowed list: "; p2_str v_sign_alg]) (fun _ =>
   (PExc "Exception")))
   | BFalse => (match p2_branch (p2_not_in v_digest_alg (p2_listcomp (PList [PList [PStr "DIGEST_SHA1"; PStr "http://www.w3.org/2000/09/xmldsig#sha1"]; PList [PStr "DIGEST_SHA224"; PStr "http://www.w3.org/2001/04/xmldsig-more#sha224"]; PList [PStr "DIGEST_SHA256"; PStr "http://www.w3.org/2001/04/xmlenc#sha256"]; PList [PStr "DIGEST_SHA384"; PStr "http://www.w3.org/2001/04/xmldsig-more#sha384"]; PList [PStr "DIGEST_SHA512"; PStr "http://www.w3.org/2001/04/xmlenc#sha512"]; PList [PStr "DIGEST_RIPEMD160"; PStr "http://www.w3.org/2001/04/xmlenc#ripemd160"]]) ktrue (fun x_21 => match p2_unpack 2 x_21 with PList [v_short_name; v_long_name] => v_long_name | PExc n_ => PExc n_ | _ => PErr end))) with
   | BTrue => (py_bind (p2_fconcat [PStr "Digest algo not in allowed list: "; p2_str v_digest_alg]) (fun _ =>
   (PExc "Exception")))
   | BFalse => (let k_19 := fun v_msg =>
    (match p2_branch v_sign_prepare with
    | BTrue => v_msg
    | BFalse => (let k_10 := fun v_mid =>
     (let k_8 := fun v_to_sign =>
      (py_bind v_msg (fun a_1 => (py_bind (p2_attr v_self "sec") (fun a_2 => (py_bind v_to_sign (fun a_3 => (signed_instance_factory a_1 a_2 a_3))))))) in
     (py_bindh (fun n_8 => (if exc_matches n_8 ["AttributeError"; "TypeError"]
     then (py_bind (p2_mklist [(p2_mklist [(py_bind v_msg (fun a_6 => (class_name a_6))); v_mid])]) (fun v_to_sign =>
     (k_8 v_to_sign)))
     else (PExc n_8))) (p2_add v_to_sign (p2_mklist [(p2_mklist [(py_bind v_msg (fun a_7 => (class_name a_7))); v_mid])])) (fun v_to_sign =>
     (k_8 v_to_sign)))) in
    (match p2_branch (p2_is_none v_mid) with
    | BTrue => (py_bind (p2_attr v_msg "id") (fun v_mid =>
    (k_10 v_mid)))
    | BFalse => (k_10 v_mid)
    | BExc n_10 => (PExc n_10)
    | BErr => PErr
    end))
    | BExc n_12 => (PExc n_12)
    | BErr => PErr
    end) in
   (match p2_branch (p2_is_none (p2_attr v_msg "signature")) with
   | BTrue => (py_bind (py_bind (p2_attr v_msg "id") (fun a_14 => (py_bind (p2_attr (p2_attr v_self "sec") "my_cert") (fun a_15 => (py_bind v_sign_alg (fun a_16 => (py_bind v_digest_alg (fun a_17 => (pre_signature_part a_14 a_15 (PInt (1)%Z) a_16 a_17))))))))) (fun a_18 =>
   (py_bind (p2_setattr v_msg "signature" a_18) (fun v_msg =>
   (k_19 v_msg)))))
   | BFalse => (k_19 v_msg)
   | BExc n_19 => (PExc n_19)
   | BErr => PErr
   end))
   | BExc n_22 => (PExc n_22)
   | BErr => PErr
   end)
   | BExc n_25 => (PExc n_25)
   | BErr => PErr
   end))))).

(* saml2/ident.py:IdentDB.nim_args, lines 213-241 *)
Definition src2_nim_args (registration_info : pyval -> pyval -> pyval) (v_self : pyval) (v_local_policy : pyval) (v_sp_name_qualifier : pyval) (v_name_id_policy : pyval) (v_name_qualifier : pyval) : pyval :=
  let v_requester := PErr in
  let v_nameid_format := PErr in
  (py_bind v_sp_name_qualifier (fun v_requester =>
   (let k_8 := fun v_sp_name_qualifier =>
    (let k_6 := fun v_nameid_format =>
     (let k_2 := fun v_name_qualifier =>
      (p2_mkdict [("nformat", v_nameid_format); ("sp_name_qualifier", v_sp_name_qualifier); ("name_qualifier", v_name_qualifier)]) in
     (match p2_branch (p2_not v_name_qualifier) with
     | BTrue => (py_bind (p2_attr v_self "name_qualifier") (fun v_name_qualifier =>
     (k_2 v_name_qualifier)))
     | BFalse => (k_2 v_name_qualifier)
     | BExc n_2 => (PExc n_2)
     | BErr => PErr
     end)) in
    (match p2_branch (p2_and v_name_id_policy (p2_attr v_name_id_policy "format")) with
    | BTrue => (py_bind (p2_attr v_name_id_policy "format") (fun v_nameid_format =>
    (k_6 v_nameid_format)))
    | BFalse => (match p2_branch v_local_policy with
    | BTrue => (py_bind (py_bind v_requester (fun a_4 => (src2_get_nameid_format registration_info v_local_policy a_4))) (fun v_nameid_format =>
    (k_6 v_nameid_format)))
    | BFalse => (PExc "SAMLError")
    | BExc n_5 => (PExc n_5)
    | BErr => PErr
    end)
    | BExc n_6 => (PExc n_6)
    | BErr => PErr
    end)) in
   (match p2_branch (p2_and v_name_id_policy (p2_attr v_name_id_policy "sp_name_qualifier")) with
   | BTrue => (py_bind (p2_attr v_name_id_policy "sp_name_qualifier") (fun v_sp_name_qualifier =>
   (k_8 v_sp_name_qualifier)))
   | BFalse => (k_8 v_sp_name_qualifier)
   | BExc n_8 => (PExc n_8)
   | BErr => PErr
   end)))).

(* saml2/ident.py:IdentDB.get_nameid, lines 160-183 *)
Definition src2_get_nameid (match_local_id : pyval -> pyval -> pyval -> pyval -> pyval) (create_id : pyval -> pyval -> pyval -> pyval) (store : pyval -> pyval -> pyval) (mk_nameid : list (string * pyval) -> pyval) (v_self : pyval) (v_userid : pyval) (v_nformat : pyval) (v_sp_name_qualifier : pyval) (v_name_qualifier : pyval) : pyval :=
  let v_nameid := PErr in
  let v__id := PErr in
  (let k_19 := fun v_nameid =>
    (py_bind (py_bind v_nformat (fun a_1 => (py_bind v_name_qualifier (fun a_2 => (py_bind v_sp_name_qualifier (fun a_3 => (create_id a_1 a_2 a_3))))))) (fun v__id =>
    (let k_13 := fun v__id =>
     (py_bind (py_bind v_nformat (fun a_4 => (py_bind v_sp_name_qualifier (fun a_5 => (py_bind v_name_qualifier (fun a_6 => (py_bind v__id (fun a_7 => (mk_nameid [("format", a_4); ("name_qualifier", a_6); ("sp_name_qualifier", a_5); ("text", a_7)]))))))))) (fun v_nameid =>
     (py_bind (py_bind v_userid (fun a_8 => (py_bind v_nameid (fun a_9 => (store a_8 a_9))))) (fun _ =>
     v_nameid)))) in
    (match p2_branch (p2_eq v_nformat (PStr "urn:oasis:names:tc:SAML:1.1:nameid-format:emailAddress")) with
    | BTrue => (match p2_branch (p2_not (p2_attr v_self "domain")) with
    | BTrue => (PExc "SAMLError")
    | BFalse => (py_bind (p2_fconcat [p2_str v__id; PStr "@"; p2_str (p2_attr v_self "domain")]) (fun v__id =>
    (k_13 v__id)))
    | BExc n_12 => (PExc n_12)
    | BErr => PErr
    end)
    | BFalse => (k_13 v__id)
    | BExc n_13 => (PExc n_13)
    | BErr => PErr
    end)))) in
   (match p2_branch (p2_eq v_nformat (PStr "urn:oasis:names:tc:SAML:2.0:nameid-format:persistent")) with
   | BTrue => (py_bind (py_bind v_userid (fun a_15 => (py_bind v_sp_name_qualifier (fun a_16 => (py_bind v_name_qualifier (fun a_17 => (match_local_id v_self a_15 a_16 a_17))))))) (fun v_nameid =>
   (match p2_branch v_nameid with
   | BTrue => v_nameid
   | BFalse => (k_19 v_nameid)
   | BExc n_18 => (PExc n_18)
   | BErr => PErr
   end)))
   | BFalse => (k_19 v_nameid)
   | BExc n_19 => (PExc n_19)
   | BErr => PErr
   end)).

(* saml2/argtree.py:is_set, lines 97-114 *)
Definition src2_is_set (v_tdict : pyval) (v_path : pyval) : pyval :=
  let v_t := PErr in
  (py_bind v_tdict (fun v_t =>
   (py_bind (p2_iter_check v_path) (fun it_4 =>
   (match pyfor2 (py_iter2 it_4) [v_t] (fun st_5 x_6 => match st_5 with [v_t] =>
    (let v_step := x_6 in
    (py_bindS (fun n_10 => (if exc_matches n_10 ["KeyError"]
    then (RetS (PBool false))
    else (ExcS n_10 [v_t]))) (p2_getitem v_t v_step) (fun v_t =>
    (NextS [v_t]))))
   | _ => RetS PErr end) with
   | NextS st_5 => match st_5 with [v_t] => (match p2_branch (p2_is_not_none v_t) with
   | BTrue => (PBool true)
   | BFalse => (PBool false)
   | BExc n_2 => (PExc n_2)
   | BErr => PErr
   end) | _ => PErr end
   | BrkS _ => PErr
   | RetS r_7 => r_7
   | ExcS n_8 st_5 => match st_5 with [v_t] => (PExc n_8) | _ => PErr end
   end))))).
