(* GENERATED on every run by harness/py2coq2.py from the current source text of /repo/src/saml2 — do not edit. *)
From Coq Require Import String Ascii List Bool ZArith.
From Verif Require Import Base.Str Base.Py Base.Py2.
Import ListNotations.
Open Scope string_scope.


(* saml2/response.py:for_me, lines 207-223 *)
Definition src2_for_me (v_conditions : pyval) (v_myself : pyval) : pyval :=
  (match p2_branch (p2_not (p2_attr v_conditions "audience_restriction")) with
   | BTrue => (PBool true)
   | BFalse => (py_bind (p2_iter_check (p2_attr v_conditions "audience_restriction")) (fun it_2 =>
   (match pyfor2 (py_iter2 it_2) [] (fun st_3 x_4 => match st_3 with [] =>
    (let v_restriction := x_4 in
    (py_bindS (fun n_13 => (ExcS n_13 [])) (p2_iter_check (p2_or (p2_attr v_restriction "audience") (PList []))) (fun it_7 =>
    (match pyfor2 (py_iter2 it_7) [] (fun st_8 x_9 => match st_8 with [] =>
     (let v_audience := x_9 in
     (match p2_branch (p2_and (p2_attr v_audience "text") (p2_eq (p2_strip (p2_attr v_audience "text")) v_myself)) with
     | BTrue => (BrkS [])
     | BFalse => (NextS [])
     | BExc n_12 => (ExcS n_12 [])
     | BErr => (RetS PErr)
     end))
    | _ => RetS PErr end) with
    | NextS st_8 => match st_8 with [] => (RetS (PBool false)) | _ => (RetS PErr) end
    | BrkS st_8 => match st_8 with [] => (NextS []) | _ => (RetS PErr) end
    | RetS r_10 => (RetS r_10)
    | ExcS n_11 st_8 => match st_8 with [] => (ExcS n_11 []) | _ => (RetS PErr) end
    end))))
   | _ => RetS PErr end) with
   | NextS st_3 => match st_3 with [] => (PBool true) | _ => PErr end
   | BrkS _ => PErr
   | RetS r_5 => r_5
   | ExcS n_6 st_3 => match st_3 with [] => (PExc n_6) | _ => PErr end
   end)))
   | BExc n_15 => (PExc n_15)
   | BErr => PErr
   end).

(* saml2/response.py:AuthnResponse.verify_recipient, lines 1145-1170 *)
Definition src2_verify_recipient (v_self : pyval) (v_recipient : pyval) : pyval :=
  let v__info := PErr in
  (match p2_branch (p2_not (p2_attr v_self "conv_info")) with
   | BTrue => (PBool true)
   | BFalse => (py_bind (p2_attr v_self "conv_info") (fun v__info =>
   (let k_6 := fun (_ : unit) =>
    (match p2_branch (p2_in v_recipient (p2_attr v_self "return_addrs")) with
    | BTrue => (PBool true)
    | BFalse => (PBool false)
    | BExc n_3 => (if exc_matches n_3 ["KeyError"]
    then (PBool false)
    else (PExc n_3))
    | BErr => PErr
    end) in
   (match p2_branch (p2_eq v_recipient (p2_getitem v__info (PStr "entity_id"))) with
   | BTrue => (PBool true)
   | BFalse => (k_6 tt)
   | BExc n_6 => (if exc_matches n_6 ["KeyError"]
   then (k_6 tt)
   else (PExc n_6))
   | BErr => PErr
   end))))
   | BExc n_8 => (PExc n_8)
   | BErr => PErr
   end).

(* saml2/response.py:AuthnResponse.get_subject, lines 741-799 *)
Definition src2_get_subject (attesting_ext : pyval -> pyval -> pyval) (bearer_ext : pyval -> pyval -> pyval) (hok_ext : pyval -> pyval -> pyval) (decrypt_ext : pyval -> pyval -> pyval -> pyval) (nameid_ext : pyval -> pyval) (to_string_ext : pyval -> pyval) (v_self : pyval) (v_keys : pyval) : pyval :=
  let v_subject := PErr in
  let v_subjconf := PErr in
  let v_subject_confirmation := PErr in
  let v__data := PErr in
  let v__recip := PErr in
  let v__name_id_str := PErr in
  let v__name_id := PErr in
  (match p2_branch (p2_not (p2_attr_x v_self "assertion")) with
   | BTrue => (PList [(PExc "ValueError"); v_self])
   | BFalse => (match p2_branch (p2_not (p2_attr_x (p2_attr_x v_self "assertion") "subject")) with
   | BTrue => (py_bindh (fun n_60 => (PList [(PExc n_60); v_self])) (p2_fconcat [PStr "Invalid assertion subject: "; p2_str (p2_attr_x (p2_attr_x v_self "assertion") "subject")]) (fun _ =>
   (PList [(PExc "ValueError"); v_self])))
   | BFalse => (py_bindh (fun n_58 => (PList [(PExc n_58); v_self])) (p2_attr_x (p2_attr_x v_self "assertion") "subject") (fun v_subject =>
   (let v_subjconf := (PList []) in
   (match p2_branch (p2_not (py_bind (p2_attr_x v_subject "subject_confirmation") (fun a_56 => (attesting_ext v_self a_56)))) with
   | BTrue => (PList [(PExc "VerificationError"); v_self])
   | BFalse => (let k_54 := fun v_subject_confirmation v__data =>
    (py_bindh (fun n_43 => (PList [(PExc n_43); v_self])) (p2_iter_check (p2_attr_x v_subject "subject_confirmation")) (fun it_23 =>
    (match pyfor2 (py_iter2 it_23) [v_subject_confirmation; v__data; v__recip; v_subjconf] (fun st_24 x_25 => match st_24 with [v_subject_confirmation; v__data; v__recip; v_subjconf] =>
     (let v_subject_confirmation := x_25 in
     (py_bindS (fun n_42 => (ExcS n_42 [v_subject_confirmation; v__data; v__recip; v_subjconf])) (p2_attr_x v_subject_confirmation "subject_confirmation_data") (fun v__data =>
     (let k_41 := fun (_ : unit) =>
      (py_bindS (fun n_32 => (ExcS n_32 [v_subject_confirmation; v__data; v__recip; v_subjconf])) (p2_attr_x v__data "recipient") (fun v__recip =>
      (match p2_branch (p2_or (p2_not v__recip) (p2_not (py_bind v__recip (fun a_30 => (src2_verify_recipient v_self a_30))))) with
      | BTrue => (ExcS "VerificationError" [v_subject_confirmation; v__data; v__recip; v_subjconf])
      | BFalse => (py_bindS (fun n_28 => (ExcS n_28 [v_subject_confirmation; v__data; v__recip; v_subjconf])) (p2_append v_subjconf v_subject_confirmation) (fun v_subjconf =>
      (NextS [v_subject_confirmation; v__data; v__recip; v_subjconf])))
      | BExc n_31 => (ExcS n_31 [v_subject_confirmation; v__data; v__recip; v_subjconf])
      | BErr => (RetS PErr)
      end))) in
     (match p2_branch (p2_eq (p2_attr_x v_subject_confirmation "method") (PStr "urn:oasis:names:tc:SAML:2.0:cm:bearer")) with
     | BTrue => (match p2_branch (p2_not (py_bind v__data (fun a_34 => (bearer_ext v_self a_34)))) with
     | BTrue => (NextS [v_subject_confirmation; v__data; v__recip; v_subjconf])
     | BFalse => (k_41 tt)
     | BExc n_35 => (ExcS n_35 [v_subject_confirmation; v__data; v__recip; v_subjconf])
     | BErr => (RetS PErr)
     end)
     | BFalse => (match p2_branch (p2_eq (p2_attr_x v_subject_confirmation "method") (PStr "urn:oasis:names:tc:SAML:2.0:cm:holder-of-key")) with
     | BTrue => (match p2_branch (p2_not (py_bind v__data (fun a_36 => (hok_ext v_self a_36)))) with
     | BTrue => (NextS [v_subject_confirmation; v__data; v__recip; v_subjconf])
     | BFalse => (k_41 tt)
     | BExc n_37 => (ExcS n_37 [v_subject_confirmation; v__data; v__recip; v_subjconf])
     | BErr => (RetS PErr)
     end)
     | BFalse => (match p2_branch (p2_eq (p2_attr_x v_subject_confirmation "method") (PStr "urn:oasis:names:tc:SAML:2.0:cm:sender-vouches")) with
     | BTrue => (k_41 tt)
     | BFalse => (py_bindS (fun n_38 => (ExcS n_38 [v_subject_confirmation; v__data; v__recip; v_subjconf])) (p2_fconcat [PStr "Unknown subject confirmation method: "; p2_str (p2_attr_x v_subject_confirmation "method")]) (fun _ =>
     (ExcS "ValueError" [v_subject_confirmation; v__data; v__recip; v_subjconf])))
     | BExc n_39 => (ExcS n_39 [v_subject_confirmation; v__data; v__recip; v_subjconf])
     | BErr => (RetS PErr)
     end)
     | BExc n_40 => (ExcS n_40 [v_subject_confirmation; v__data; v__recip; v_subjconf])
     | BErr => (RetS PErr)
     end)
     | BExc n_41 => (ExcS n_41 [v_subject_confirmation; v__data; v__recip; v_subjconf])
     | BErr => (RetS PErr)
     end)))))
    | _ => RetS PErr end) with
    | NextS st_24 => match st_24 with [v_subject_confirmation; v__data; v__recip; v_subjconf] => (match p2_branch (p2_not v_subjconf) with
    | BTrue => (PList [(PExc "VerificationError"); v_self])
    | BFalse => (py_bindh (fun n_19 => (PList [(PExc n_19); v_self])) v_subjconf (fun a_1 =>
    (py_bindh (fun n_18 => (PList [(PExc n_18); v_self])) (p2_setattr v_subject "subject_confirmation" a_1) (fun v_subject =>
    (let k_17 := fun v_self v__name_id_str v__name_id =>
     (py_bindh (fun n_3 => (PList [(PExc n_3); v_self])) (p2_attr_x v_self "name_id") (fun r_2 =>
     (PList [r_2; v_self]))) in
    (match p2_branch (p2_attr_x v_subject "name_id") with
    | BTrue => (py_bindh (fun n_7 => (PList [(PExc n_7); v_self])) (p2_attr_x v_subject "name_id") (fun a_5 =>
    (py_bindh (fun n_6 => (PList [(PExc n_6); v_self])) (p2_setattr v_self "name_id" a_5) (fun v_self =>
    (k_17 v_self v__name_id_str v__name_id)))))
    | BFalse => (match p2_branch (p2_attr_x v_subject "encrypted_id") with
    | BTrue => (py_bindh (fun n_15 => (PList [(PExc n_15); v_self])) (py_bind (to_string_ext v_subject) (fun a_8 => (py_bind v_keys (fun a_9 => (decrypt_ext v_self a_8 a_9))))) (fun v__name_id_str =>
    (py_bindh (fun n_14 => (PList [(PExc n_14); v_self])) (py_bind v__name_id_str (fun a_10 => (nameid_ext a_10))) (fun v__name_id =>
    (py_bindh (fun n_13 => (PList [(PExc n_13); v_self])) v__name_id (fun a_11 =>
    (py_bindh (fun n_12 => (PList [(PExc n_12); v_self])) (p2_setattr v_self "name_id" a_11) (fun v_self =>
    (k_17 v_self v__name_id_str v__name_id)))))))))
    | BFalse => (k_17 v_self v__name_id_str v__name_id)
    | BExc n_16 => (PList [(PExc n_16); v_self])
    | BErr => PErr
    end)
    | BExc n_17 => (PList [(PExc n_17); v_self])
    | BErr => PErr
    end))))))
    | BExc n_21 => (PList [(PExc n_21); v_self])
    | BErr => PErr
    end) | _ => PErr end
    | BrkS _ => PErr
    | RetS r_26 => r_26
    | ExcS n_27 st_24 => match st_24 with [v_subject_confirmation; v__data; v__recip; v_subjconf] => (PList [(PExc n_27); v_self]) | _ => PErr end
    end))) in
   (match p2_branch (p2_and (p2_attr_x v_self "asynchop") (p2_in (p2_attr_x v_self "in_response_to") (p2_attr_x v_self "outstanding_queries"))) with
   | BTrue => (py_bindh (fun n_53 => (PList [(PExc n_53); v_self])) (p2_iter_check (p2_attr_x v_subject "subject_confirmation")) (fun it_45 =>
   (match pyfor2 (py_iter2 it_45) [v_subject_confirmation; v__data] (fun st_46 x_47 => match st_46 with [v_subject_confirmation; v__data] =>
    (let v_subject_confirmation := x_47 in
    (py_bindS (fun n_52 => (ExcS n_52 [v_subject_confirmation; v__data])) (p2_attr_x v_subject_confirmation "subject_confirmation_data") (fun v__data =>
    (match p2_branch (p2_and (p2_is_not_none v__data) (p2_ne (p2_attr_x v__data "in_response_to") (p2_attr_x v_self "in_response_to"))) with
    | BTrue => (py_bindS (fun n_50 => (ExcS n_50 [v_subject_confirmation; v__data])) (p2_fconcat [PStr "Unsolicited response: "; p2_str (p2_attr_x v_self "in_response_to")]) (fun _ =>
    (ExcS "UnsolicitedResponse" [v_subject_confirmation; v__data])))
    | BFalse => (NextS [v_subject_confirmation; v__data])
    | BExc n_51 => (ExcS n_51 [v_subject_confirmation; v__data])
    | BErr => (RetS PErr)
    end))))
   | _ => RetS PErr end) with
   | NextS st_46 => match st_46 with [v_subject_confirmation; v__data] => (k_54 v_subject_confirmation v__data) | _ => PErr end
   | BrkS _ => PErr
   | RetS r_48 => r_48
   | ExcS n_49 st_46 => match st_46 with [v_subject_confirmation; v__data] => (PList [(PExc n_49); v_self]) | _ => PErr end
   end)))
   | BFalse => (k_54 v_subject_confirmation v__data)
   | BExc n_54 => (PList [(PExc n_54); v_self])
   | BErr => PErr
   end))
   | BExc n_57 => (PList [(PExc n_57); v_self])
   | BErr => PErr
   end))))
   | BExc n_61 => (PList [(PExc n_61); v_self])
   | BErr => PErr
   end)
   | BExc n_63 => (PList [(PExc n_63); v_self])
   | BErr => PErr
   end).

(* saml2/response.py:StatusResponse._verify, lines 403-423 *)
Definition src2_verify (issue_instant_ok_ext : pyval -> pyval) (status_ok_ext : pyval -> pyval) (float_ext : pyval -> pyval) (float_two : pyval) (v_self : pyval) : pyval :=
  let v__ver := PErr in
  let v_valid := PErr in
  (match p2_branch (p2_and (p2_attr v_self "request_id") (p2_and (p2_attr v_self "in_response_to") (p2_ne (p2_attr v_self "in_response_to") (p2_attr v_self "request_id")))) with
   | BTrue => PNone
   | BFalse => (match p2_branch (p2_ne (p2_attr (p2_attr v_self "response") "version") (PStr "2.0")) with
   | BTrue => (py_bind (py_bind (p2_attr (p2_attr v_self "response") "version") (fun a_5 => (float_ext a_5))) (fun v__ver =>
   (match p2_branch (p2_lt v__ver float_two) with
   | BTrue => (PExc "RequestVersionTooLow")
   | BFalse => (PExc "RequestVersionTooHigh")
   | BExc n_6 => (PExc n_6)
   | BErr => PErr
   end)))
   | BFalse => (let k_3 := fun (_ : unit) =>
    (py_bind (p2_and (issue_instant_ok_ext v_self) (status_ok_ext v_self)) (fun v_valid =>
    v_valid)) in
   (match p2_branch (p2_attr v_self "asynchop") with
   | BTrue => (match p2_branch (p2_and (p2_attr (p2_attr v_self "response") "destination") (p2_not_in (p2_attr (p2_attr v_self "response") "destination") (p2_attr v_self "return_addrs"))) with
   | BTrue => PNone
   | BFalse => (k_3 tt)
   | BExc n_2 => (PExc n_2)
   | BErr => PErr
   end)
   | BFalse => (k_3 tt)
   | BExc n_3 => (PExc n_3)
   | BErr => PErr
   end))
   | BExc n_7 => (PExc n_7)
   | BErr => PErr
   end)
   | BExc n_9 => (PExc n_9)
   | BErr => PErr
   end).

(* saml2/response.py:AuthnResponse.condition_ok, lines 578-627 *)
Definition src2_condition_ok (later_than_ext : pyval -> pyval -> pyval) (validate_nooa_ext : pyval -> pyval -> pyval) (validate_nb_ext : pyval -> pyval -> pyval) (keyswv_ext : pyval -> pyval) (v_self : pyval) (v_lax : pyval) : pyval :=
  let v_conditions := PErr in
  let v_excp := PErr in
  (match p2_branch (p2_not (p2_attr (p2_attr v_self "assertion") "conditions")) with
   | BTrue => (PList [(PBool true); v_self])
   | BFalse => (let k_41 := fun v_lax =>
    (py_bindh (fun n_39 => (PList [(PExc n_39); v_self])) (p2_attr (p2_attr v_self "assertion") "conditions") (fun v_conditions =>
    (match p2_branch (p2_not (keyswv_ext v_conditions)) with
    | BTrue => (PList [(PBool true); v_self])
    | BFalse => (let k_36 := fun (_ : unit) =>
     (let k_31 := fun v_self v_excp =>
      (let k_16 := fun (_ : unit) =>
       (match p2_branch (p2_attr v_conditions "condition") with
       | BTrue => (py_bindh (fun n_9 => (PList [(PExc n_9); v_self])) (p2_iter_check (p2_attr v_conditions "condition")) (fun it_2 =>
       (match pyfor2 (py_iter2 it_2) [] (fun st_3 x_4 => match st_3 with [] =>
        (let v_cond := x_4 in
        (let h_7 := fun n_7 =>
         (if exc_matches n_7 ["KeyError"]
         then (ExcS "Exception" [])
         else (ExcS n_7 [])) in
        (match p2_branch (p2_in (p2_getitem (p2_attr v_cond "extension_attributes") (PStr "{http://www.w3.org/2001/XMLSchema-instance}type")) (p2_attr v_self "extension_schema")) with
        | BTrue => (NextS [])
        | BFalse => (h_7 "Exception")
        | BExc n_8 => (h_7 n_8)
        | BErr => (RetS PErr)
        end)))
       | _ => RetS PErr end) with
       | NextS st_3 => match st_3 with [] => (PList [(PBool true); v_self]) | _ => PErr end
       | BrkS _ => PErr
       | RetS r_5 => r_5
       | ExcS n_6 st_3 => match st_3 with [] => (PList [(PExc n_6); v_self]) | _ => PErr end
       end)))
       | BFalse => (PList [(PBool true); v_self])
       | BExc n_10 => (PList [(PExc n_10); v_self])
       | BErr => PErr
       end) in
      (match p2_branch (p2_not (py_bind v_conditions (fun a_12 => (py_bind (p2_attr v_self "entity_id") (fun a_13 => (src2_for_me a_12 a_13)))))) with
      | BTrue => (match p2_branch (p2_not v_lax) with
      | BTrue => (py_bindh (fun n_14 => (PList [(PExc n_14); v_self])) (p2_fconcat [PStr "AudienceRestrictions conditions not satisfied! (Local entity_id="; p2_str (p2_attr v_self "entity_id"); PStr ")"]) (fun _ =>
      (PList [(PExc "Exception"); v_self])))
      | BFalse => (k_16 tt)
      | BExc n_15 => (PList [(PExc n_15); v_self])
      | BErr => PErr
      end)
      | BFalse => (k_16 tt)
      | BExc n_16 => (PList [(PExc n_16); v_self])
      | BErr => PErr
      end)) in
     (let h_18 := fun n_18 v_self =>
      (let v_excp := PExc n_18 in
      (match p2_branch (p2_not v_lax) with
      | BTrue => (PList [(PExc n_18); v_self])
      | BFalse => (py_bindh (fun n_19 => (PList [(PExc n_19); v_self])) (p2_setattr v_self "not_on_or_after" (PInt (0)%Z)) (fun v_self =>
      (let v_excp := PErr in (k_31 v_self v_excp))))
      | BExc n_20 => (PList [(PExc n_20); v_self])
      | BErr => PErr
      end)) in
     (let k_31 := fun v_self =>
      (match p2_branch (p2_attr v_conditions "not_before") with
      | BTrue => (py_bindh (fun n_23 => (h_18 n_23 v_self)) (py_bind (p2_attr v_conditions "not_before") (fun a_21 => (py_bind (p2_attr v_self "timeslack") (fun a_22 => (validate_nb_ext a_21 a_22))))) (fun _ =>
      (k_31 v_self v_excp)))
      | BFalse => (k_31 v_self v_excp)
      | BExc n_24 => (h_18 n_24 v_self)
      | BErr => PErr
      end) in
     (match p2_branch (p2_attr v_conditions "not_on_or_after") with
     | BTrue => (py_bindh (fun n_30 => (h_18 n_30 v_self)) (py_bind (p2_attr v_conditions "not_on_or_after") (fun a_26 => (py_bind (p2_attr v_self "timeslack") (fun a_27 => (validate_nooa_ext a_26 a_27))))) (fun a_28 =>
     (py_bindh (fun n_29 => (h_18 n_29 v_self)) (p2_setattr v_self "not_on_or_after" a_28) (fun v_self =>
     (k_31 v_self)))))
     | BFalse => (k_31 v_self)
     | BExc n_31 => (h_18 n_31 v_self)
     | BErr => PErr
     end)))) in
    (match p2_branch (p2_and (p2_attr v_conditions "not_before") (p2_attr v_conditions "not_on_or_after")) with
    | BTrue => (match p2_branch (p2_not (py_bind (p2_attr v_conditions "not_on_or_after") (fun a_33 => (py_bind (p2_attr v_conditions "not_before") (fun a_34 => (later_than_ext a_33 a_34)))))) with
    | BTrue => (PList [(PBool false); v_self])
    | BFalse => (k_36 tt)
    | BExc n_35 => (PList [(PExc n_35); v_self])
    | BErr => PErr
    end)
    | BFalse => (k_36 tt)
    | BExc n_36 => (PList [(PExc n_36); v_self])
    | BErr => PErr
    end))
    | BExc n_38 => (PList [(PExc n_38); v_self])
    | BErr => PErr
    end))) in
   (match p2_branch (p2_attr v_self "test") with
   | BTrue => (let v_lax := (PBool true) in
   (k_41 v_lax))
   | BFalse => (k_41 v_lax)
   | BExc n_41 => (PList [(PExc n_41); v_self])
   | BErr => PErr
   end))
   | BExc n_43 => (PList [(PExc n_43); v_self])
   | BErr => PErr
   end).

(* saml2/config.py:Config.endpoint, lines 411-441 *)
Definition src2_endpoint (getattr_ext : pyval -> pyval -> pyval -> pyval) (type_ext : pyval -> pyval) (v_self : pyval) (v_service : pyval) (v_binding : pyval) (v_context : pyval) : pyval :=
  let v_spec := PErr in
  let v_unspec := PErr in
  let v_endps := PErr in
  let v_endp := PErr in
  let v_bind := PErr in
  (let v_spec := (PList []) in
   (let v_unspec := (PList []) in
   (py_bind (py_bind v_context (fun a_1 => (getattr_ext v_self (PStr "endpoints") a_1))) (fun v_endps =>
   (let k_22 := fun v_endp v_bind v_spec v_unspec =>
    (match p2_branch v_spec with
    | BTrue => v_spec
    | BFalse => v_unspec
    | BExc n_2 => (PExc n_2)
    | BErr => PErr
    end) in
   (match p2_branch (p2_and v_endps (p2_in v_service v_endps)) with
   | BTrue => (py_bind (p2_iter_check (p2_getitem v_endps v_service)) (fun it_4 =>
   (match pyfor2 (py_iter2 it_4) [v_endp; v_bind; v_spec; v_unspec] (fun st_5 x_6 => match st_5 with [v_endp; v_bind; v_spec; v_unspec] =>
    (let v_endpspec := x_6 in
    (let h_9 := fun n_9 v_endp v_bind v_spec =>
     (if exc_matches n_9 ["ValueError"; "UnicodeDecodeError"; "UnicodeEncodeError"; "UnicodeError"]
     then (py_bindS (fun n_10 => (ExcS n_10 [v_endp; v_bind; v_spec; v_unspec])) (p2_append v_unspec v_endpspec) (fun v_unspec =>
     (NextS [v_endp; v_bind; v_spec; v_unspec])))
     else (ExcS n_9 [v_endp; v_bind; v_spec; v_unspec])) in
    (let k_21 := fun v_endp v_bind =>
     (match p2_branch (p2_or (p2_is_none v_binding) (p2_eq v_bind v_binding)) with
     | BTrue => (py_bindS (fun n_11 => (h_9 n_11 v_endp v_bind v_spec)) (p2_append v_spec v_endp) (fun v_spec =>
     (NextS [v_endp; v_bind; v_spec; v_unspec])))
     | BFalse => (NextS [v_endp; v_bind; v_spec; v_unspec])
     | BExc n_12 => (h_9 n_12 v_endp v_bind v_spec)
     | BErr => (RetS PErr)
     end) in
    (match p2_branch (p2_in (py_bind v_endpspec (fun a_14 => (type_ext a_14))) (p2_mklist [(PStr "tuple"); (PStr "list")])) with
    | BTrue => (py_bindS (fun n_17 => (h_9 n_17 v_endp v_bind v_spec)) (p2_slice v_endpspec (PInt (0)%Z) (PInt (2)%Z)) (fun a_15 =>
    (match p2_unpack 2 a_15 with
    | PList [v_endp; v_bind] => (k_21 v_endp v_bind)
    | PExc n_16 => (h_9 n_16 v_endp v_bind v_spec)
    | _ => (RetS PErr)
    end)))
    | BFalse => (py_bindS (fun n_20 => (h_9 n_20 v_endp v_bind v_spec)) v_endpspec (fun a_18 =>
    (match p2_unpack 2 a_18 with
    | PList [v_endp; v_bind] => (k_21 v_endp v_bind)
    | PExc n_19 => (h_9 n_19 v_endp v_bind v_spec)
    | _ => (RetS PErr)
    end)))
    | BExc n_21 => (h_9 n_21 v_endp v_bind v_spec)
    | BErr => (RetS PErr)
    end))))
   | _ => RetS PErr end) with
   | NextS st_5 => match st_5 with [v_endp; v_bind; v_spec; v_unspec] => (k_22 v_endp v_bind v_spec v_unspec) | _ => PErr end
   | BrkS _ => PErr
   | RetS r_7 => r_7
   | ExcS n_8 st_5 => match st_5 with [v_endp; v_bind; v_spec; v_unspec] => (PExc n_8) | _ => PErr end
   end)))
   | BFalse => (k_22 v_endp v_bind v_spec v_unspec)
   | BExc n_22 => (PExc n_22)
   | BErr => PErr
   end)))))).

(* saml2/client_base.py:Base.service_urls, lines 285-290 *)
Definition src2_service_urls (getattr_ext : pyval -> pyval -> pyval -> pyval) (type_ext : pyval -> pyval) (v_self : pyval) (v_binding : pyval) : pyval :=
  let v__res := PErr in
  (py_bind (py_bind v_binding (fun a_1 => (src2_endpoint getattr_ext type_ext (p2_attr v_self "config") (PStr "assertion_consumer_service") a_1 (PStr "sp")))) (fun v__res =>
   (match p2_branch v__res with
   | BTrue => v__res
   | BFalse => PNone
   | BExc n_2 => (PExc n_2)
   | BErr => PErr
   end))).
