(* GENERATED on every run by harness/py2coq.py from the current source text of /repo/src/saml2 — do not edit. *)
From Coq Require Import String Ascii List Bool ZArith.
From Verif Require Import Base.Str Base.Py.
Import ListNotations.
Open Scope string_scope.


(* saml2/assertion.py:Policy.get, lines 334-363 *)
Definition src_policy_get (registration_info : pyval -> pyval) (v_self : pyval) (v_attribute : pyval) (v_sp_entity_id : pyval) (v_default : pyval) : pyval :=
  (if py_truthy (py_not (py_attr v_self "_restrictions"))
   then v_default
   else (let v_ra_info := (if py_truthy (py_is_not_none (py_attr v_self "metadata_store")) then (py_or (registration_info v_sp_entity_id) (PObj [])) else (PObj [])) in
   (let v_ra_entity_id := (py_get v_ra_info (PStr "registration_authority")) in
   (let v_sp_restrictions := (py_get (py_attr v_self "_restrictions") v_sp_entity_id) in
   (let v_ra_restrictions := (py_get (py_attr v_self "_restrictions") v_ra_entity_id) in
   (let v_default_restrictions := (py_or (py_get (py_attr v_self "_restrictions") (PStr "default")) (py_get (py_attr v_self "_restrictions") (PStr ""))) in
   (let v_restrictions := (if py_truthy (py_is_not_none v_sp_restrictions) then v_sp_restrictions else (if py_truthy (py_is_not_none v_ra_restrictions) then v_ra_restrictions else (if py_truthy (py_is_not_none v_default_restrictions) then v_default_restrictions else (PObj [])))) in
   (let v_attribute_restriction := (py_get v_restrictions v_attribute) in
   (let v_restriction := (if py_truthy (py_is_not_none v_attribute_restriction) then v_attribute_restriction else v_default) in
   v_restriction))))))))).
