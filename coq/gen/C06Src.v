(* GENERATED on every run by harness/py2coq.py from the current source text of /repo/src/saml2 — do not edit. *)
From Coq Require Import String Ascii List Bool ZArith.
From Verif Require Import Base.Str Base.Py.
Import ListNotations.
Open Scope string_scope.


(* saml2/response.py:AuthnResponse.check_subject_confirmation_in_response_to, lines 522-530 *)
Definition src_check_sc_irt (v_self : pyval) (v_irp : pyval) : pyval :=
  (match pyfor (py_iter (py_attr (py_attr v_self "response") "assertion")) (fun v_assertion => (match pyfor (py_iter (py_attr (py_attr v_assertion "subject") "subject_confirmation")) (fun v__sc => (let v__data := (py_attr v__sc "subject_confirmation_data") in
   (if py_truthy (py_and (py_is_not_none v__data) (py_ne (py_attr v__data "in_response_to") v_irp))
   then (Ret (PBool false))
   else Next))) with
   | Ret r_ => (Ret r_)
   | Brk => Next
   | Next => Next
   end)) with
   | Ret r_ => r_
   | Brk => (PBool true)
   | Next => (PBool true)
   end).
