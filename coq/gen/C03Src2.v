(* GENERATED on every run by harness/py2coq2.py from the current source text of /repo/src/saml2 — do not edit. *)
From Coq Require Import String Ascii List Bool ZArith.
From Verif Require Import Base.Str Base.Py Base.Py2.
Import ListNotations.
Open Scope string_scope.


(* saml2/mdstore.py:MetaData.certs.extract_certs, lines 485-504 *)
Definition src2_extract_certs (repack : pyval -> pyval) (v_use : pyval) (v_srvs : pyval) : pyval :=
  let v_res := PErr in
  let v_key_use := PErr in
  let v_key_info := PErr in
  let v_key_name := PErr in
  let v_key_name_txt := PErr in
  let v_text := PErr in
  let v_cert := PErr in
  (let v_res := (PList []) in
   (py_bind (p2_iter_check v_srvs) (fun it_2 =>
   (match pyfor2 (py_iter2 it_2) [v_key_use; v_key_info; v_key_name; v_key_name_txt; v_text; v_cert; v_res] (fun st_3 x_4 => match st_3 with [v_key_use; v_key_info; v_key_name; v_key_name_txt; v_text; v_cert; v_res] =>
    (let v_srv := x_4 in
    (py_bindS (fun n_30 => (ExcS n_30 [v_key_use; v_key_info; v_key_name; v_key_name_txt; v_text; v_cert; v_res])) (p2_iter_check (p2_get3 v_srv (PStr "key_descriptor") (PList []))) (fun it_7 =>
    (match pyfor2 (py_iter2 it_7) [v_key_use; v_key_info; v_key_name; v_key_name_txt; v_text; v_cert; v_res] (fun st_8 x_9 => match st_8 with [v_key_use; v_key_info; v_key_name; v_key_name_txt; v_text; v_cert; v_res] =>
     (let v_key := x_9 in
     (py_bindS (fun n_29 => (ExcS n_29 [v_key_use; v_key_info; v_key_name; v_key_name_txt; v_text; v_cert; v_res])) (p2_get v_key (PStr "use")) (fun v_key_use =>
     (py_bindS (fun n_28 => (ExcS n_28 [v_key_use; v_key_info; v_key_name; v_key_name_txt; v_text; v_cert; v_res])) (p2_or (p2_get v_key (PStr "key_info")) (PObj [])) (fun v_key_info =>
     (py_bindS (fun n_27 => (ExcS n_27 [v_key_use; v_key_info; v_key_name; v_key_name_txt; v_text; v_cert; v_res])) (p2_getitem (p2_or (p2_get v_key_info (PStr "key_name")) (p2_mklist [(p2_mkdict [("text", PNone)])])) (PInt (0)%Z)) (fun v_key_name =>
     (py_bindS (fun n_26 => (ExcS n_26 [v_key_use; v_key_info; v_key_name; v_key_name_txt; v_text; v_cert; v_res])) (p2_get v_key_name (PStr "text")) (fun v_key_name_txt =>
     (match p2_branch (p2_or (p2_not_in (PStr "use") v_key) (p2_eq v_key_use v_use)) with
     | BTrue => (py_bindS (fun n_24 => (ExcS n_24 [v_key_use; v_key_info; v_key_name; v_key_name_txt; v_text; v_cert; v_res])) (p2_iter_check (p2_or (p2_get v_key_info (PStr "x509_data")) (PList []))) (fun it_12 =>
     (match pyfor2 (py_iter2 it_12) [v_text; v_cert; v_res] (fun st_13 x_14 => match st_13 with [v_text; v_cert; v_res] =>
      (let v_dat := x_14 in
      (py_bindS (fun n_23 => (ExcS n_23 [v_text; v_cert; v_res])) (p2_get (p2_or (p2_get v_dat (PStr "x509_certificate")) (PObj [])) (PStr "text")) (fun v_text =>
      (match p2_branch (p2_or (p2_not v_text) (p2_not (p2_strip v_text))) with
      | BTrue => (NextS [v_text; v_cert; v_res])
      | BFalse => (py_bindS (fun n_20 => (ExcS n_20 [v_text; v_cert; v_res])) (py_bind v_text (fun a_17 => (repack a_17))) (fun v_cert =>
      (match p2_branch (p2_not_in v_cert v_res) with
      | BTrue => (py_bindS (fun n_18 => (ExcS n_18 [v_text; v_cert; v_res])) (p2_append v_res (p2_mklist [v_key_name_txt; v_cert])) (fun v_res =>
      (NextS [v_text; v_cert; v_res])))
      | BFalse => (NextS [v_text; v_cert; v_res])
      | BExc n_19 => (ExcS n_19 [v_text; v_cert; v_res])
      | BErr => (RetS PErr)
      end)))
      | BExc n_22 => (ExcS n_22 [v_text; v_cert; v_res])
      | BErr => (RetS PErr)
      end))))
     | _ => RetS PErr end) with
     | NextS st_13 => match st_13 with [v_text; v_cert; v_res] => (NextS [v_key_use; v_key_info; v_key_name; v_key_name_txt; v_text; v_cert; v_res]) | _ => (RetS PErr) end
     | BrkS _ => (RetS PErr)
     | RetS r_15 => (RetS r_15)
     | ExcS n_16 st_13 => match st_13 with [v_text; v_cert; v_res] => (ExcS n_16 [v_key_use; v_key_info; v_key_name; v_key_name_txt; v_text; v_cert; v_res]) | _ => (RetS PErr) end
     end)))
     | BFalse => (NextS [v_key_use; v_key_info; v_key_name; v_key_name_txt; v_text; v_cert; v_res])
     | BExc n_25 => (ExcS n_25 [v_key_use; v_key_info; v_key_name; v_key_name_txt; v_text; v_cert; v_res])
     | BErr => (RetS PErr)
     end))))))))))
    | _ => RetS PErr end) with
    | NextS st_8 => match st_8 with [v_key_use; v_key_info; v_key_name; v_key_name_txt; v_text; v_cert; v_res] => (NextS [v_key_use; v_key_info; v_key_name; v_key_name_txt; v_text; v_cert; v_res]) | _ => (RetS PErr) end
    | BrkS _ => (RetS PErr)
    | RetS r_10 => (RetS r_10)
    | ExcS n_11 st_8 => match st_8 with [v_key_use; v_key_info; v_key_name; v_key_name_txt; v_text; v_cert; v_res] => (ExcS n_11 [v_key_use; v_key_info; v_key_name; v_key_name_txt; v_text; v_cert; v_res]) | _ => (RetS PErr) end
    end))))
   | _ => RetS PErr end) with
   | NextS st_3 => match st_3 with [v_key_use; v_key_info; v_key_name; v_key_name_txt; v_text; v_cert; v_res] => v_res | _ => PErr end
   | BrkS _ => PErr
   | RetS r_5 => r_5
   | ExcS n_6 st_3 => match st_3 with [v_key_use; v_key_info; v_key_name; v_key_name_txt; v_text; v_cert; v_res] => (PExc n_6) | _ => PErr end
   end)))).

(* /verif/work/C03/slices/mdstore_certs_outer.py:certs__outer, lines 2-17 *)
Definition src2_certs_outer (repack : pyval -> pyval) (v_self : pyval) (v_entity_id : pyval) (v_descriptor : pyval) (v_use : pyval) : pyval :=
  let v_ent := PErr in
  let v_res := PErr in
  let v_srvs := PErr in
  (py_bind (p2_getitem v_self v_entity_id) (fun v_ent =>
   (match p2_branch (p2_eq v_descriptor (PStr "any")) with
   | BTrue => (let v_res := (PList []) in
   (py_bind (p2_iter_check (p2_mklist [(PStr "spsso"); (PStr "idpsso"); (PStr "role"); (PStr "authn_authority"); (PStr "attribute_authority"); (PStr "pdp")])) (fun it_2 =>
   (match pyfor2 (py_iter2 it_2) [v_srvs; v_res] (fun st_3 x_4 => match st_3 with [v_srvs; v_res] =>
    (let v_descr := x_4 in
    (py_bindS (fun n_11 => (if exc_matches n_11 ["KeyError"]
    then (NextS [v_srvs; v_res])
    else (ExcS n_11 [v_srvs; v_res]))) (p2_getitem v_ent (p2_fconcat [p2_str v_descr; PStr "_descriptor"])) (fun v_srvs =>
    (py_bindS (fun n_8 => (ExcS n_8 [v_srvs; v_res])) (p2_extend v_res (py_bind v_srvs (fun a_7 => (src2_extract_certs repack v_use a_7)))) (fun v_res =>
    (NextS [v_srvs; v_res]))))))
   | _ => RetS PErr end) with
   | NextS st_3 => match st_3 with [v_srvs; v_res] => v_res | _ => PErr end
   | BrkS _ => PErr
   | RetS r_5 => r_5
   | ExcS n_6 st_3 => match st_3 with [v_srvs; v_res] => (PExc n_6) | _ => PErr end
   end))))
   | BFalse => (py_bind (p2_getitem v_ent (p2_fconcat [p2_str v_descriptor; PStr "_descriptor"])) (fun v_srvs =>
   (py_bind (py_bind v_srvs (fun a_12 => (src2_extract_certs repack v_use a_12))) (fun v_res =>
   v_res))))
   | BExc n_13 => (PExc n_13)
   | BErr => PErr
   end))).

(* /verif/work/C03/slices/sigver_check_signature_select.py:_check_signature__select, lines 2-43 *)
Definition src2_select (md_certs : pyval -> pyval) (pem : pyval -> pyval) (mk_temp : pyval -> pyval) (instance_certs : pyval -> pyval) (v_self : pyval) (v_item : pyval) (v_issuer : pyval) : pyval :=
  let v__issuer := PErr in
  let v__certs := PErr in
  let v_certs := PErr in
  let v_cert := PErr in
  let v_content := PErr in
  let v_tmp := PErr in
  (let k_35 := fun v__issuer =>
    (let k_32 := fun v__issuer =>
     (let k_28 := fun v__certs v_certs v_cert v_content v_tmp =>
      (let k_8 := fun v_certs =>
       (match p2_branch (p2_not v_certs) with
       | BTrue => (py_bind v__issuer (fun _ =>
       (PExc "MissingKey")))
       | BFalse => v_certs
       | BExc n_2 => (PExc n_2)
       | BErr => PErr
       end) in
      (match p2_branch (p2_and (p2_not v_certs) (p2_not (p2_attr_x v_self "only_use_keys_in_metadata"))) with
      | BTrue => (py_bind (p2_listcomp (py_bind v_item (fun a_4 => (instance_certs a_4))) ktrue (fun v_cert => (py_bind (py_bind v_cert (fun a_5 => (pem a_5))) (fun a_6 => (py_bind (p2_attr_x v_self "delete_tmpfiles") (fun a_7 => (mk_temp a_6))))))) (fun v_certs =>
      (k_8 v_certs)))
      | BFalse => (k_8 v_certs)
      | BExc n_8 => (PExc n_8)
      | BErr => PErr
      end)) in
     (match p2_branch (p2_attr_x v_self "metadata") with
     | BTrue => (let k_27 := fun v__certs =>
      (let v_certs := (PList []) in
      (py_bind (p2_iter_check v__certs) (fun it_10 =>
      (match pyfor2 (py_iter2 it_10) [v_cert; v_content; v_tmp; v_certs] (fun st_11 x_12 => match st_11 with [v_cert; v_content; v_tmp; v_certs] =>
       (match p2_unpack 2 x_12 with
       | PList [v_cert_name; v_cert] => (match p2_branch (p2_isinstance v_cert ["str"] []) with
       | BTrue => (py_bindS (fun n_20 => (ExcS n_20 [v_cert; v_content; v_tmp; v_certs])) (py_bind v_cert (fun a_15 => (pem a_15))) (fun v_content =>
       (py_bindS (fun n_19 => (ExcS n_19 [v_cert; v_content; v_tmp; v_certs])) (py_bind v_content (fun a_16 => (py_bind (p2_attr_x v_self "delete_tmpfiles") (fun a_17 => (mk_temp a_16))))) (fun v_tmp =>
       (py_bindS (fun n_18 => (ExcS n_18 [v_cert; v_content; v_tmp; v_certs])) (p2_append v_certs v_tmp) (fun v_certs =>
       (NextS [v_cert; v_content; v_tmp; v_certs])))))))
       | BFalse => (py_bindS (fun n_21 => (ExcS n_21 [v_cert; v_content; v_tmp; v_certs])) (p2_append v_certs v_cert) (fun v_certs =>
       (NextS [v_cert; v_content; v_tmp; v_certs])))
       | BExc n_22 => (ExcS n_22 [v_cert; v_content; v_tmp; v_certs])
       | BErr => (RetS PErr)
       end)
       | PExc n_23 => (ExcS n_23 [v_cert; v_content; v_tmp; v_certs])
       | _ => (RetS PErr)
       end)
      | _ => RetS PErr end) with
      | NextS st_11 => match st_11 with [v_cert; v_content; v_tmp; v_certs] => (k_28 v__certs v_certs v_cert v_content v_tmp) | _ => PErr end
      | BrkS _ => PErr
      | RetS r_13 => r_13
      | ExcS n_14 st_11 => match st_11 with [v_cert; v_content; v_tmp; v_certs] => (PExc n_14) | _ => PErr end
      end)))) in
     (py_bindh (fun n_27 => (if exc_matches n_27 ["KeyError"]
     then (let v__certs := (PList []) in
     (k_27 v__certs))
     else (PExc n_27))) (py_bind v__issuer (fun a_26 => (md_certs a_26))) (fun v__certs =>
     (k_27 v__certs))))
     | BFalse => (let v_certs := (PList []) in
     (k_28 v__certs v_certs v_cert v_content v_tmp))
     | BExc n_28 => (PExc n_28)
     | BErr => PErr
     end)) in
    (match p2_branch (p2_is_none v__issuer) with
    | BTrue => (py_bindh (fun n_31 => (if exc_matches n_31 ["AttributeError"]
    then (let v__issuer := PNone in
    (k_32 v__issuer))
    else (PExc n_31))) (p2_strip (p2_attr_x v_issuer "text")) (fun v__issuer =>
    (k_32 v__issuer)))
    | BFalse => (k_32 v__issuer)
    | BExc n_32 => (PExc n_32)
    | BErr => PErr
    end)) in
   (py_bindh (fun n_35 => (if exc_matches n_35 ["AttributeError"]
   then (let v__issuer := PNone in
   (k_35 v__issuer))
   else (PExc n_35))) (p2_strip (p2_attr_x (p2_attr_x v_item "issuer") "text")) (fun v__issuer =>
   (k_35 v__issuer)))).

(* /verif/work/C03/slices/sigver_check_signature_verify.py:_check_signature__verify, lines 2-29 *)
Definition src2_verify_loop (verify_sig : pyval -> pyval -> pyval -> pyval -> pyval) (verify_cert : pyval -> pyval) (v_self : pyval) (v_decoded_xml : pyval) (v_item : pyval) (v_node_name : pyval) (v_certs : pyval) (v_only_valid_cert : pyval) : pyval :=
  let v_verified := PErr in
  let v_last_pem_file := PErr in
  let v_exc := PErr in
  (let v_verified := (PBool false) in
   (let v_last_pem_file := PNone in
   (let k_17 := fun v_last_pem_file v_verified v_exc =>
    (match p2_branch (p2_or v_verified v_only_valid_cert) with
    | BTrue => (match p2_branch (p2_not (py_bind v_last_pem_file (fun a_2 => (verify_cert a_2)))) with
    | BTrue => (PExc "CertificateError")
    | BFalse => v_item
    | BExc n_3 => (PExc n_3)
    | BErr => PErr
    end)
    | BFalse => (PExc "SignatureError")
    | BExc n_4 => (PExc n_4)
    | BErr => PErr
    end) in
   (py_bind (p2_iter_check v_certs) (fun it_6 =>
   (match pyfor2 (py_iter2 it_6) [v_last_pem_file; v_verified; v_exc] (fun st_7 x_8 => match st_7 with [v_last_pem_file; v_verified; v_exc] =>
    (let v_pem_fd := x_8 in
    (let h_11 := fun n_11 v_last_pem_file v_verified =>
     (if exc_matches n_11 ["XmlsecError"]
     then (let v_exc := PExc n_11 in
     (let v_exc := PErr in (NextS [v_last_pem_file; v_verified; v_exc])))
     else (let v_exc := PExc n_11 in
     (ExcS n_11 [v_last_pem_file; v_verified; v_exc]))) in
    (py_bindS (fun n_17 => (h_11 n_17 v_last_pem_file v_verified)) (p2_attr_x v_pem_fd "name") (fun v_last_pem_file =>
    (match p2_branch (py_bind v_decoded_xml (fun a_12 => (py_bind (p2_attr_x v_pem_fd "name") (fun a_13 => (py_bind v_node_name (fun a_14 => (py_bind (p2_attr_x v_item "id") (fun a_15 => (verify_sig a_12 a_13 a_14 a_15))))))))) with
    | BTrue => (let v_verified := (PBool true) in
    (BrkS [v_last_pem_file; v_verified; v_exc]))
    | BFalse => (NextS [v_last_pem_file; v_verified; v_exc])
    | BExc n_16 => (h_11 n_16 v_last_pem_file v_verified)
    | BErr => (RetS PErr)
    end)))))
   | _ => RetS PErr end) with
   | NextS st_7 => match st_7 with [v_last_pem_file; v_verified; v_exc] => (k_17 v_last_pem_file v_verified v_exc) | _ => PErr end
   | BrkS st_7 => match st_7 with [v_last_pem_file; v_verified; v_exc] => (k_17 v_last_pem_file v_verified v_exc) | _ => PErr end
   | RetS r_9 => r_9
   | ExcS n_10 st_7 => match st_7 with [v_last_pem_file; v_verified; v_exc] => (PExc n_10) | _ => PErr end
   end)))))).

(* saml2/request.py:Request._do_redirect_sig_check, lines 109-124 *)
Definition src2_redirect_sig_check (sender : pyval -> pyval) (md_certs : pyval -> pyval) (verify_sig : pyval -> pyval -> pyval) (v_self : pyval) (v__saml_msg : pyval) : pyval :=
  let v_issuer := PErr in
  let v_certs := PErr in
  let v_verified := PErr in
  let v_exc := PErr in
  (py_bind (sender v_self) (fun v_issuer =>
   (py_bind (py_bind v_issuer (fun a_1 => (md_certs a_1))) (fun v_certs =>
   (let v_verified := (PBool false) in
   (py_bind (p2_iter_check v_certs) (fun it_3 =>
   (match pyfor2 (py_iter2 it_3) [v_verified; v_exc] (fun st_4 x_5 => match st_4 with [v_verified; v_exc] =>
    (match p2_unpack 2 x_5 with
    | PList [v_cert_name; v_cert] => (match p2_branch (py_bind v__saml_msg (fun a_9 => (py_bind (p2_attr_x (p2_attr_x v_self "sec") "sec_backend") (fun a_10 => (py_bind v_cert (fun a_11 => (verify_sig a_9 a_11))))))) with
    | BTrue => (let v_verified := (PBool true) in
    (BrkS [v_verified; v_exc]))
    | BFalse => (NextS [v_verified; v_exc])
    | BExc n_12 => (if exc_matches n_12 ["ValueError"; "UnicodeDecodeError"; "UnicodeEncodeError"; "UnicodeError"]
    then (let v_exc := PExc n_12 in
    (let v_exc := PErr in (NextS [v_verified; v_exc])))
    else (ExcS n_12 [v_verified; v_exc]))
    | BErr => (RetS PErr)
    end)
    | PExc n_13 => (ExcS n_13 [v_verified; v_exc])
    | _ => (RetS PErr)
    end)
   | _ => RetS PErr end) with
   | NextS st_4 => match st_4 with [v_verified; v_exc] => v_verified | _ => PErr end
   | BrkS st_4 => match st_4 with [v_verified; v_exc] => v_verified | _ => PErr end
   | RetS r_6 => r_6
   | ExcS n_7 st_4 => match st_4 with [v_verified; v_exc] => (PExc n_7) | _ => PErr end
   end)))))))).

(* /verif/work/C03/slices/response_assertion_sig.py:_assertion__sig, lines 2-16 *)
Definition src2_assertion_sig (check_sig : pyval -> pyval -> pyval -> pyval) (v_self : pyval) (v_assertion : pyval) (v_verified : pyval) : pyval :=
  let v_exc := PErr in
  (match p2_branch (p2_or (p2_not (p2_hasattr v_assertion "signature")) (p2_not (p2_attr_x v_assertion "signature"))) with
   | BTrue => (match p2_branch (p2_attr_x v_self "require_signature") with
   | BTrue => (PExc "SignatureError")
   | BFalse => (PBool true)
   | BExc n_2 => (PExc n_2)
   | BErr => PErr
   end)
   | BFalse => (match p2_branch (p2_and (p2_not v_verified) (p2_is_bool false (p2_attr_x v_self "do_not_verify"))) with
   | BTrue => (py_bindh (fun n_8 => (let v_exc := PExc n_8 in
   (PExc n_8))) (py_bind v_assertion (fun a_5 => (py_bind (py_bind v_assertion (fun a_4 => (p2_attr_x a_4 "c_node_name"))) (fun a_6 => (py_bind (p2_attr_x v_self "xmlstr") (fun a_7 => (check_sig a_5 a_6 a_7))))))) (fun _ =>
   (PBool true)))
   | BFalse => (PBool true)
   | BExc n_9 => (PExc n_9)
   | BErr => PErr
   end)
   | BExc n_10 => (PExc n_10)
   | BErr => PErr
   end).

(* /verif/work/C03/slices/sigver_validate_signature_cmdline.py:validate_signature__cmdline, lines 2-18 *)
Definition src2_verify_cmdline (v_self : pyval) (v_cert_file : pyval) (v_cert_type : pyval) (v_node_name : pyval) (v_node_id : pyval) (v_tmp : pyval) : pyval :=
  let v_com_list := PErr in
  (py_bind (p2_mklist [(p2_attr_x v_self "xmlsec"); (PStr "--verify"); (PStr "--enabled-reference-uris"); (PStr "empty,same-doc"); (PStr "--enabled-key-data"); (PStr "raw-x509-cert"); (p2_fconcat [PStr "--pubkey-cert-"; p2_str v_cert_type]); v_cert_file; (PStr "--id-attr:ID"); v_node_name]) (fun v_com_list =>
   (match p2_branch v_node_id with
   | BTrue => (py_bind (p2_extend v_com_list (p2_mklist [(PStr "--node-id"); v_node_id])) (fun v_com_list =>
   v_com_list))
   | BFalse => v_com_list
   | BExc n_2 => (PExc n_2)
   | BErr => PErr
   end))).

(* /verif/work/C03/slices/response_parse_assertion_plain.py:parse_assertion__plain, lines 2-8 *)
Definition src2_plain_assertions (assertion_ok : pyval -> pyval -> pyval) (v_self : pyval) (v_keys : pyval) : pyval :=
  (match p2_branch (p2_attr_x (p2_attr_x v_self "response") "assertion") with
   | BTrue => (py_bind (p2_iter_check (p2_attr_x (p2_attr_x v_self "response") "assertion")) (fun it_2 =>
   (match pyfor2 (py_iter2 it_2) [] (fun st_3 x_4 => match st_3 with [] =>
    (let v_assertion := x_4 in
    (match p2_branch (p2_not (py_bind v_assertion (fun a_7 => (assertion_ok a_7 (PBool false))))) with
    | BTrue => (RetS (PBool false))
    | BFalse => (NextS [])
    | BExc n_8 => (ExcS n_8 [])
    | BErr => (RetS PErr)
    end))
   | _ => RetS PErr end) with
   | NextS st_3 => match st_3 with [] => (PBool true) | _ => PErr end
   | BrkS _ => PErr
   | RetS r_5 => r_5
   | ExcS n_6 st_3 => match st_3 with [] => (PExc n_6) | _ => PErr end
   end)))
   | BFalse => (PBool true)
   | BExc n_9 => (PExc n_9)
   | BErr => PErr
   end).
