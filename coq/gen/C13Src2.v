(* GENERATED on every run by harness/py2coq2.py from the current source text of /repo/src/saml2 — do not edit. *)
From Coq Require Import String Ascii List Bool ZArith.
From Verif Require Import Base.Str Base.Py Base.Py2.
Import ListNotations.
Open Scope string_scope.


(* saml2/client_base.py:create_requested_attribute_node, lines 93-144 *)
Definition src2_create_requested_attribute_node (v_requested_attrs : pyval) (v_attribute_converters : pyval) : pyval :=
  let v_items := PErr in
  let v_friendly_name := PErr in
  let v_name := PErr in
  let v_name_format := PErr in
  let v_is_required := PErr in
  let v_converter := PErr in
  let v_node := PErr in
  (let v_items := (PList []) in
   (py_bind (p2_iter_check v_requested_attrs) (fun it_3 =>
   (match pyfor2 (py_iter2 it_3) [v_friendly_name; v_name; v_name_format; v_is_required; v_converter; v_items] (fun st_4 x_5 => match st_4 with [v_friendly_name; v_name; v_name_format; v_is_required; v_converter; v_items] =>
    (let v_attr := x_5 in
    (py_bindS (fun n_56 => (ExcS n_56 [v_friendly_name; v_name; v_name_format; v_is_required; v_converter; v_items])) (p2_get v_attr (PStr "friendly_name")) (fun v_friendly_name =>
    (py_bindS (fun n_55 => (ExcS n_55 [v_friendly_name; v_name; v_name_format; v_is_required; v_converter; v_items])) (p2_get v_attr (PStr "name")) (fun v_name =>
    (py_bindS (fun n_54 => (ExcS n_54 [v_friendly_name; v_name; v_name_format; v_is_required; v_converter; v_items])) (p2_get v_attr (PStr "name_format")) (fun v_name_format =>
    (py_bindS (fun n_53 => (ExcS n_53 [v_friendly_name; v_name; v_name_format; v_is_required; v_converter; v_items])) (p2_lower (p2_str (p2_get3 v_attr (PStr "required") (PBool false)))) (fun v_is_required =>
    (match p2_branch (p2_and (p2_not v_name) (p2_not v_friendly_name)) with
    | BTrue => (ExcS "ValueError" [v_friendly_name; v_name; v_name_format; v_is_required; v_converter; v_items])
    | BFalse => (let k_50 := fun v_converter v_name v_name_format =>
     (let k_36 := fun v_converter v_friendly_name v_name_format =>
      (let k_22 := fun v_converter v_name_format =>
       (py_bindS (fun n_12 => (ExcS n_12 [v_friendly_name; v_name; v_name_format; v_is_required; v_converter; v_items])) (p2_append v_items (py_bind v_is_required (fun a_8 => (py_bind v_name_format (fun a_9 => (py_bind v_friendly_name (fun a_10 => (py_bind v_name (fun a_11 => (PObj [("__class__", PStr "RequestedAttribute"); ("name", a_11); ("name_format", a_9); ("friendly_name", a_10); ("is_required", a_8)])))))))))) (fun v_items =>
       (NextS [v_friendly_name; v_name; v_name_format; v_is_required; v_converter; v_items]))) in
      (match p2_branch (p2_and v_name (p2_not v_name_format)) with
      | BTrue => (py_bindS (fun n_21 => (ExcS n_21 [v_friendly_name; v_name; v_name_format; v_is_required; v_converter; v_items])) (p2_iter_check v_attribute_converters) (fun it_14 =>
      (match pyfor2 (py_iter2 it_14) [v_converter; v_name_format] (fun st_15 x_16 => match st_15 with [v_converter; v_name_format] =>
       (let v_converter := x_16 in
       (match p2_branch (p2_in (p2_lower v_name) (p2_or (p2_attr v_converter "_fro") (PObj []))) with
       | BTrue => (py_bindS (fun n_19 => (ExcS n_19 [v_converter; v_name_format])) (p2_attr v_converter "name_format") (fun v_name_format =>
       (BrkS [v_converter; v_name_format])))
       | BFalse => (NextS [v_converter; v_name_format])
       | BExc n_20 => (ExcS n_20 [v_converter; v_name_format])
       | BErr => (RetS PErr)
       end))
      | _ => RetS PErr end) with
      | NextS st_15 => match st_15 with [v_converter; v_name_format] => (k_22 v_converter v_name_format) | _ => (RetS PErr) end
      | BrkS st_15 => match st_15 with [v_converter; v_name_format] => (k_22 v_converter v_name_format) | _ => (RetS PErr) end
      | RetS r_17 => (RetS r_17)
      | ExcS n_18 st_15 => match st_15 with [v_converter; v_name_format] => (ExcS n_18 [v_friendly_name; v_name; v_name_format; v_is_required; v_converter; v_items]) | _ => (RetS PErr) end
      end)))
      | BFalse => (k_22 v_converter v_name_format)
      | BExc n_22 => (ExcS n_22 [v_friendly_name; v_name; v_name_format; v_is_required; v_converter; v_items])
      | BErr => (RetS PErr)
      end)) in
     (match p2_branch (p2_not v_friendly_name) with
     | BTrue => (py_bindS (fun n_35 => (ExcS n_35 [v_friendly_name; v_name; v_name_format; v_is_required; v_converter; v_items])) (p2_iter_check v_attribute_converters) (fun it_24 =>
     (match pyfor2 (py_iter2 it_24) [v_converter; v_friendly_name; v_name_format] (fun st_25 x_26 => match st_25 with [v_converter; v_friendly_name; v_name_format] =>
      (let v_converter := x_26 in
      (py_bindS (fun n_34 => (if exc_matches n_34 ["KeyError"]
      then (NextS [v_converter; v_friendly_name; v_name_format])
      else (ExcS n_34 [v_converter; v_friendly_name; v_name_format]))) (p2_getitem (p2_attr v_converter "_fro") (p2_lower v_name)) (fun v_friendly_name =>
      (let k_32 := fun v_name_format =>
       (BrkS [v_converter; v_friendly_name; v_name_format]) in
      (match p2_branch (p2_not v_name_format) with
      | BTrue => (py_bindS (fun n_31 => (ExcS n_31 [v_converter; v_friendly_name; v_name_format])) (p2_attr v_converter "name_format") (fun v_name_format =>
      (k_32 v_name_format)))
      | BFalse => (k_32 v_name_format)
      | BExc n_32 => (ExcS n_32 [v_converter; v_friendly_name; v_name_format])
      | BErr => (RetS PErr)
      end)))))
     | _ => RetS PErr end) with
     | NextS st_25 => match st_25 with [v_converter; v_friendly_name; v_name_format] => (k_36 v_converter v_friendly_name v_name_format) | _ => (RetS PErr) end
     | BrkS st_25 => match st_25 with [v_converter; v_friendly_name; v_name_format] => (k_36 v_converter v_friendly_name v_name_format) | _ => (RetS PErr) end
     | RetS r_27 => (RetS r_27)
     | ExcS n_28 st_25 => match st_25 with [v_converter; v_friendly_name; v_name_format] => (ExcS n_28 [v_friendly_name; v_name; v_name_format; v_is_required; v_converter; v_items]) | _ => (RetS PErr) end
     end)))
     | BFalse => (k_36 v_converter v_friendly_name v_name_format)
     | BExc n_36 => (ExcS n_36 [v_friendly_name; v_name; v_name_format; v_is_required; v_converter; v_items])
     | BErr => (RetS PErr)
     end)) in
    (match p2_branch (p2_not v_name) with
    | BTrue => (py_bindS (fun n_49 => (ExcS n_49 [v_friendly_name; v_name; v_name_format; v_is_required; v_converter; v_items])) (p2_iter_check v_attribute_converters) (fun it_38 =>
    (match pyfor2 (py_iter2 it_38) [v_converter; v_name; v_name_format] (fun st_39 x_40 => match st_39 with [v_converter; v_name; v_name_format] =>
     (let v_converter := x_40 in
     (py_bindS (fun n_48 => (if exc_matches n_48 ["KeyError"]
     then (NextS [v_converter; v_name; v_name_format])
     else (ExcS n_48 [v_converter; v_name; v_name_format]))) (p2_getitem (p2_attr v_converter "_to") (p2_lower v_friendly_name)) (fun v_name =>
     (let k_46 := fun v_name_format =>
      (BrkS [v_converter; v_name; v_name_format]) in
     (match p2_branch (p2_not v_name_format) with
     | BTrue => (py_bindS (fun n_45 => (ExcS n_45 [v_converter; v_name; v_name_format])) (p2_attr v_converter "name_format") (fun v_name_format =>
     (k_46 v_name_format)))
     | BFalse => (k_46 v_name_format)
     | BExc n_46 => (ExcS n_46 [v_converter; v_name; v_name_format])
     | BErr => (RetS PErr)
     end)))))
    | _ => RetS PErr end) with
    | NextS st_39 => match st_39 with [v_converter; v_name; v_name_format] => (k_50 v_converter v_name v_name_format) | _ => (RetS PErr) end
    | BrkS st_39 => match st_39 with [v_converter; v_name; v_name_format] => (k_50 v_converter v_name v_name_format) | _ => (RetS PErr) end
    | RetS r_41 => (RetS r_41)
    | ExcS n_42 st_39 => match st_39 with [v_converter; v_name; v_name_format] => (ExcS n_42 [v_friendly_name; v_name; v_name_format; v_is_required; v_converter; v_items]) | _ => (RetS PErr) end
    end)))
    | BFalse => (k_50 v_converter v_name v_name_format)
    | BExc n_50 => (ExcS n_50 [v_friendly_name; v_name; v_name_format; v_is_required; v_converter; v_items])
    | BErr => (RetS PErr)
    end))
    | BExc n_52 => (ExcS n_52 [v_friendly_name; v_name; v_name_format; v_is_required; v_converter; v_items])
    | BErr => (RetS PErr)
    end))))))))))
   | _ => RetS PErr end) with
   | NextS st_4 => match st_4 with [v_friendly_name; v_name; v_name_format; v_is_required; v_converter; v_items] => (py_bind (py_bind v_items (fun a_1 => (PObj [("__class__", PStr "RequestedAttributes"); ("extension_elements", a_1)]))) (fun v_node =>
   v_node)) | _ => PErr end
   | BrkS _ => PErr
   | RetS r_6 => r_6
   | ExcS n_7 st_4 => match st_4 with [v_friendly_name; v_name; v_name_format; v_is_required; v_converter; v_items] => (PExc n_7) | _ => PErr end
   end)))).
