(* GENERATED on every run by harness/py2coq2.py from the current source text of /repo/src/saml2 — do not edit. *)
From Coq Require Import String Ascii List Bool ZArith.
From Verif Require Import Base.Str Base.Py Base.Py2.
Import ListNotations.
Open Scope string_scope.


(* saml2/client_base.py:create_requested_attribute_node, lines 93-136 *)
Definition src2_create_requested_attribute_node (v_requested_attrs : pyval) (v_attribute_converters : pyval) : pyval :=
  let v_items := PErr in
  let v_friendly_name := PErr in
  let v_name := PErr in
  let v_name_format := PErr in
  let v_is_required := PErr in
  let v_converter := PErr in
  let v_node := PErr in
  (let v_items := (PList []) in
   (py_bind (p2_iter_check v_requested_attrs) (fun it_3 =>
   (match pyfor2 (py_iter2 it_3) [v_friendly_name; v_name; v_name_format; v_is_required; v_converter; v_items] (fun st_4 x_5 => match st_4 with [v_friendly_name; v_name; v_name_format; v_is_required; v_converter; v_items] =>
    (let v_attr := x_5 in
    (py_bindS (fun n_46 => (ExcS n_46 [v_friendly_name; v_name; v_name_format; v_is_required; v_converter; v_items])) (p2_get v_attr (PStr "friendly_name")) (fun v_friendly_name =>
    (py_bindS (fun n_45 => (ExcS n_45 [v_friendly_name; v_name; v_name_format; v_is_required; v_converter; v_items])) (p2_get v_attr (PStr "name")) (fun v_name =>
    (py_bindS (fun n_44 => (ExcS n_44 [v_friendly_name; v_name; v_name_format; v_is_required; v_converter; v_items])) (p2_get v_attr (PStr "name_format")) (fun v_name_format =>
    (py_bindS (fun n_43 => (ExcS n_43 [v_friendly_name; v_name; v_name_format; v_is_required; v_converter; v_items])) (p2_lower (p2_str (p2_get3 v_attr (PStr "required") (PBool false)))) (fun v_is_required =>
    (match p2_branch (p2_and (p2_not v_name) (p2_not v_friendly_name)) with
    | BTrue => (ExcS "ValueError" [v_friendly_name; v_name; v_name_format; v_is_required; v_converter; v_items])
    | BFalse => (let k_40 := fun v_converter v_name v_name_format =>
     (let k_26 := fun v_converter v_friendly_name v_name_format =>
      (py_bindS (fun n_12 => (ExcS n_12 [v_friendly_name; v_name; v_name_format; v_is_required; v_converter; v_items])) (p2_append v_items (py_bind v_is_required (fun a_8 => (py_bind v_name_format (fun a_9 => (py_bind v_friendly_name (fun a_10 => (py_bind v_name (fun a_11 => (PObj [("__class__", PStr "RequestedAttribute"); ("name", a_11); ("name_format", a_9); ("friendly_name", a_10); ("is_required", a_8)])))))))))) (fun v_items =>
      (NextS [v_friendly_name; v_name; v_name_format; v_is_required; v_converter; v_items]))) in
     (match p2_branch (p2_not v_friendly_name) with
     | BTrue => (py_bindS (fun n_25 => (ExcS n_25 [v_friendly_name; v_name; v_name_format; v_is_required; v_converter; v_items])) (p2_iter_check v_attribute_converters) (fun it_14 =>
     (match pyfor2 (py_iter2 it_14) [v_converter; v_friendly_name; v_name_format] (fun st_15 x_16 => match st_15 with [v_converter; v_friendly_name; v_name_format] =>
      (let v_converter := x_16 in
      (py_bindS (fun n_24 => (if exc_matches n_24 ["KeyError"]
      then (NextS [v_converter; v_friendly_name; v_name_format])
      else (ExcS n_24 [v_converter; v_friendly_name; v_name_format]))) (p2_getitem (p2_attr v_converter "_fro") (p2_lower v_name)) (fun v_friendly_name =>
      (let k_22 := fun v_name_format =>
       (BrkS [v_converter; v_friendly_name; v_name_format]) in
      (match p2_branch (p2_not v_name_format) with
      | BTrue => (py_bindS (fun n_21 => (ExcS n_21 [v_converter; v_friendly_name; v_name_format])) (p2_attr v_converter "name_format") (fun v_name_format =>
      (k_22 v_name_format)))
      | BFalse => (k_22 v_name_format)
      | BExc n_22 => (ExcS n_22 [v_converter; v_friendly_name; v_name_format])
      | BErr => (RetS PErr)
      end)))))
     | _ => RetS PErr end) with
     | NextS st_15 => match st_15 with [v_converter; v_friendly_name; v_name_format] => (k_26 v_converter v_friendly_name v_name_format) | _ => (RetS PErr) end
     | BrkS st_15 => match st_15 with [v_converter; v_friendly_name; v_name_format] => (k_26 v_converter v_friendly_name v_name_format) | _ => (RetS PErr) end
     | RetS r_17 => (RetS r_17)
     | ExcS n_18 st_15 => match st_15 with [v_converter; v_friendly_name; v_name_format] => (ExcS n_18 [v_friendly_name; v_name; v_name_format; v_is_required; v_converter; v_items]) | _ => (RetS PErr) end
     end)))
     | BFalse => (k_26 v_converter v_friendly_name v_name_format)
     | BExc n_26 => (ExcS n_26 [v_friendly_name; v_name; v_name_format; v_is_required; v_converter; v_items])
     | BErr => (RetS PErr)
     end)) in
    (match p2_branch (p2_not v_name) with
    | BTrue => (py_bindS (fun n_39 => (ExcS n_39 [v_friendly_name; v_name; v_name_format; v_is_required; v_converter; v_items])) (p2_iter_check v_attribute_converters) (fun it_28 =>
    (match pyfor2 (py_iter2 it_28) [v_converter; v_name; v_name_format] (fun st_29 x_30 => match st_29 with [v_converter; v_name; v_name_format] =>
     (let v_converter := x_30 in
     (py_bindS (fun n_38 => (if exc_matches n_38 ["KeyError"]
     then (NextS [v_converter; v_name; v_name_format])
     else (ExcS n_38 [v_converter; v_name; v_name_format]))) (p2_getitem (p2_attr v_converter "_to") (p2_lower v_friendly_name)) (fun v_name =>
     (let k_36 := fun v_name_format =>
      (BrkS [v_converter; v_name; v_name_format]) in
     (match p2_branch (p2_not v_name_format) with
     | BTrue => (py_bindS (fun n_35 => (ExcS n_35 [v_converter; v_name; v_name_format])) (p2_attr v_converter "name_format") (fun v_name_format =>
     (k_36 v_name_format)))
     | BFalse => (k_36 v_name_format)
     | BExc n_36 => (ExcS n_36 [v_converter; v_name; v_name_format])
     | BErr => (RetS PErr)
     end)))))
    | _ => RetS PErr end) with
    | NextS st_29 => match st_29 with [v_converter; v_name; v_name_format] => (k_40 v_converter v_name v_name_format) | _ => (RetS PErr) end
    | BrkS st_29 => match st_29 with [v_converter; v_name; v_name_format] => (k_40 v_converter v_name v_name_format) | _ => (RetS PErr) end
    | RetS r_31 => (RetS r_31)
    | ExcS n_32 st_29 => match st_29 with [v_converter; v_name; v_name_format] => (ExcS n_32 [v_friendly_name; v_name; v_name_format; v_is_required; v_converter; v_items]) | _ => (RetS PErr) end
    end)))
    | BFalse => (k_40 v_converter v_name v_name_format)
    | BExc n_40 => (ExcS n_40 [v_friendly_name; v_name; v_name_format; v_is_required; v_converter; v_items])
    | BErr => (RetS PErr)
    end))
    | BExc n_42 => (ExcS n_42 [v_friendly_name; v_name; v_name_format; v_is_required; v_converter; v_items])
    | BErr => (RetS PErr)
    end))))))))))
   | _ => RetS PErr end) with
   | NextS st_4 => match st_4 with [v_friendly_name; v_name; v_name_format; v_is_required; v_converter; v_items] => (py_bind (py_bind v_items (fun a_1 => (PObj [("__class__", PStr "RequestedAttributes"); ("extension_elements", a_1)]))) (fun v_node =>
   v_node)) | _ => PErr end
   | BrkS _ => PErr
   | RetS r_6 => r_6
   | ExcS n_7 st_4 => match st_4 with [v_friendly_name; v_name; v_name_format; v_is_required; v_converter; v_items] => (PExc n_7) | _ => PErr end
   end)))).
