(* GENERATED on every run by harness/py2coq2.py from the current source text of /repo/src/saml2 — do not edit. *)
From Coq Require Import String Ascii List Bool ZArith.
From Verif Require Import Base.Str Base.Py Base.Py2.
Import ListNotations.
Open Scope string_scope.


(* saml2/__init__.py:create_class_from_element_tree, lines 91-120 *)
Definition src2_create_class_from_element_tree (construct : pyval -> pyval) (harvest : pyval -> pyval -> pyval) (v_target_class : pyval) (v_tree : pyval) (v_namespace : pyval) (v_tag : pyval) : pyval :=
  let v_target := PErr in
  (let k_6 := fun v_namespace =>
    (let k_4 := fun v_tag =>
     (match p2_branch (p2_eq (p2_attr v_tree "tag") (p2_fconcat [PStr "{"; p2_str v_namespace; PStr "}"; p2_str v_tag])) with
     | BTrue => (py_bind (construct v_target_class) (fun v_target =>
     (py_bind (py_bind v_tree (fun a_1 => (harvest v_target a_1))) (fun _ =>
     v_target))))
     | BFalse => PNone
     | BExc n_2 => (PExc n_2)
     | BErr => PErr
     end) in
    (match p2_branch (p2_is_none v_tag) with
    | BTrue => (py_bind (p2_attr v_target_class "c_tag") (fun v_tag =>
    (k_4 v_tag)))
    | BFalse => (k_4 v_tag)
    | BExc n_4 => (PExc n_4)
    | BErr => PErr
    end)) in
   (match p2_branch (p2_is_none v_namespace) with
   | BTrue => (py_bind (p2_attr v_target_class "c_namespace") (fun v_namespace =>
   (k_6 v_namespace)))
   | BFalse => (k_6 v_namespace)
   | BExc n_6 => (PExc n_6)
   | BErr => PErr
   end)).

(* saml2/__init__.py:ExtensionContainer._convert_element_attribute_to_member, lines 310-311 *)
Definition src2_ec_convert_attribute (v_self : pyval) (v_attribute : pyval) (v_value : pyval) : pyval :=
  (py_bindh (fun n_5 => (PList [(PExc n_5); v_self])) v_value (fun a_1 =>
   (py_bindh (fun n_4 => (PList [(PExc n_4); v_self])) v_attribute (fun a_2 =>
   (py_bindh (fun n_3 => (PList [(PExc n_3); v_self])) (p2_setattr v_self "extension_attributes" (p2_setitem (p2_attr v_self "extension_attributes") a_2 a_1)) (fun v_self =>
   (PList [PNone; v_self]))))))).

(* saml2/__init__.py:SamlBase._convert_element_attribute_to_member, lines 473-482 *)
Definition src2_convert_attribute (c_attributes : pyval) (ec_convert : pyval -> pyval -> pyval -> pyval) (v_self : pyval) (v_attribute : pyval) (v_value : pyval) : pyval :=
  (match p2_branch (p2_in v_attribute c_attributes) with
   | BTrue => (py_bindh (fun n_5 => (PList [(PExc n_5); v_self])) (p2_getitem (p2_getitem c_attributes v_attribute) (PInt (0)%Z)) (fun a_1 =>
   (py_bindh (fun n_4 => (PList [(PExc n_4); v_self])) v_value (fun a_2 =>
   (py_bindh (fun n_3 => (PList [(PExc n_3); v_self])) (p2_setattr_dyn v_self a_1 a_2) (fun v_self =>
   (PList [PNone; v_self])))))))
   | BFalse => (py_bindh (fun n_9 => (PList [(PExc n_9); v_self])) (py_bind v_self (fun a_6 => (py_bind v_attribute (fun a_7 => (py_bind v_value (fun a_8 => (ec_convert a_6 a_7 a_8))))))) (fun _ =>
   (PList [PNone; v_self])))
   | BExc n_10 => (PList [(PExc n_10); v_self])
   | BErr => PErr
   end).

(* saml2/saml.py:AttributeValueBase.set_type, lines 183-204 *)
Definition src2_set_type (v_self : pyval) (v_typ : pyval) : pyval :=
  (let k_20 := fun v_self =>
    (let k_17 := fun v_self =>
     (let k_9 := fun v_self =>
      (match p2_branch (p2_startswith v_typ (PStr "xsd:")) with
      | BTrue => (py_bindh (fun n_3 => (if exc_matches n_3 ["AttributeError"]
      then (py_bindh (fun n_2 => (PList [(PExc n_2); v_self])) (p2_setattr v_self "_extatt" (p2_setitem (p2_attr_x v_self "_extatt") (PStr "xmlns:xsd") (PStr "http://www.w3.org/2001/XMLSchema"))) (fun v_self =>
      (PList [PNone; v_self])))
      else (PList [(PExc n_3); v_self]))) (p2_setattr v_self "extension_attributes" (p2_setitem (p2_attr_x v_self "extension_attributes") (PStr "xmlns:xsd") (PStr "http://www.w3.org/2001/XMLSchema"))) (fun v_self =>
      (PList [PNone; v_self])))
      | BFalse => (PList [PNone; v_self])
      | BExc n_4 => (PList [(PExc n_4); v_self])
      | BErr => PErr
      end) in
     (match p2_branch (p2_startswith v_typ (PStr "xs:")) with
     | BTrue => (py_bindh (fun n_8 => (if exc_matches n_8 ["AttributeError"]
     then (py_bindh (fun n_7 => (PList [(PExc n_7); v_self])) (p2_setattr v_self "_extatt" (p2_setitem (p2_attr_x v_self "_extatt") (PStr "xmlns:xs") (PStr "http://www.w3.org/2001/XMLSchema"))) (fun v_self =>
     (k_9 v_self)))
     else (PList [(PExc n_8); v_self]))) (p2_setattr v_self "extension_attributes" (p2_setitem (p2_attr_x v_self "extension_attributes") (PStr "xmlns:xs") (PStr "http://www.w3.org/2001/XMLSchema"))) (fun v_self =>
     (k_9 v_self)))
     | BFalse => (k_9 v_self)
     | BExc n_9 => (PList [(PExc n_9); v_self])
     | BErr => PErr
     end)) in
    (let h_11 := fun n_11 v_self =>
     (if exc_matches n_11 ["AttributeError"]
     then (py_bindh (fun n_14 => (PList [(PExc n_14); v_self])) v_typ (fun a_12 =>
     (py_bindh (fun n_13 => (PList [(PExc n_13); v_self])) (p2_setattr v_self "_extatt" (p2_setitem (p2_attr_x v_self "_extatt") (PStr "{http://www.w3.org/2001/XMLSchema-instance}type") a_12)) (fun v_self =>
     (k_17 v_self)))))
     else (PList [(PExc n_11); v_self])) in
    (py_bindh (fun n_17 => (h_11 n_17 v_self)) v_typ (fun a_15 =>
    (py_bindh (fun n_16 => (h_11 n_16 v_self)) (p2_setattr v_self "extension_attributes" (p2_setitem (p2_attr_x v_self "extension_attributes") (PStr "{http://www.w3.org/2001/XMLSchema-instance}type") a_15)) (fun v_self =>
    (k_17 v_self))))))) in
   (py_bindh (fun n_20 => (if exc_matches n_20 ["AttributeError"; "KeyError"]
   then (k_20 v_self)
   else (PList [(PExc n_20); v_self]))) (p2_setattr v_self "extension_attributes" (p2_delitem (p2_attr_x v_self "extension_attributes") (PStr "{http://www.w3.org/2001/XMLSchema-instance}nil"))) (fun v_self =>
   (k_20 v_self)))).

(* saml2/saml.py:AttributeValueBase.get_type, lines 206-213 *)
Definition src2_get_type (v_self : pyval) : pyval :=
  (py_bindh (fun n_6 => (if exc_matches n_6 ["KeyError"; "AttributeError"]
   then (py_bindh (fun n_4 => (if exc_matches n_4 ["KeyError"]
   then (PStr "")
   else (PExc n_4))) (p2_getitem (p2_attr_x v_self "_extatt") (PStr "{http://www.w3.org/2001/XMLSchema-instance}type")) (fun r_3 =>
   r_3))
   else (PExc n_6))) (p2_getitem (p2_attr_x v_self "extension_attributes") (PStr "{http://www.w3.org/2001/XMLSchema-instance}type")) (fun r_5 =>
   r_5)).

(* saml2/__init__.py:ExtensionElement.transfer_to_element_tree, lines 164-183 *)
Definition src2_transfer_to_element_tree (new_element : pyval -> pyval) (become_child : pyval -> pyval -> pyval) (v_self : pyval) : pyval :=
  let v_element_tree := PErr in
  (match p2_branch (p2_is_none (p2_attr v_self "tag")) with
   | BTrue => PNone
   | BFalse => (py_bind (new_element (PStr "")) (fun v_element_tree =>
   (let k_26 := fun v_element_tree =>
    (py_bind (p2_iter_check (py_bind (p2_items (p2_attr v_self "attributes")) (fun a_22 => a_22))) (fun it_11 =>
    (match pyfor2 (py_iter2 it_11) [v_element_tree] (fun st_12 x_13 => match st_12 with [v_element_tree] =>
     (match p2_unpack 2 x_13 with
     | PList [v_key; v_value] => (py_bindS (fun n_20 => (ExcS n_20 [v_element_tree])) v_value (fun a_16 =>
     (py_bindS (fun n_19 => (ExcS n_19 [v_element_tree])) v_key (fun a_17 =>
     (py_bindS (fun n_18 => (ExcS n_18 [v_element_tree])) (p2_setattr v_element_tree "attrib" (p2_setitem (p2_attr v_element_tree "attrib") a_17 a_16)) (fun v_element_tree =>
     (NextS [v_element_tree])))))))
     | PExc n_21 => (ExcS n_21 [v_element_tree])
     | _ => (RetS PErr)
     end)
    | _ => RetS PErr end) with
    | NextS st_12 => match st_12 with [v_element_tree] => (py_bind (p2_iter_check (p2_attr v_self "children")) (fun it_3 =>
    (match pyfor2 (py_iter2 it_3) [] (fun st_4 x_5 => match st_4 with [] =>
     (let v_child := x_5 in
     (py_bindS (fun n_9 => (ExcS n_9 [])) (py_bind v_element_tree (fun a_8 => (become_child v_child a_8))) (fun _ =>
     (NextS []))))
    | _ => RetS PErr end) with
    | NextS st_4 => match st_4 with [] => (py_bind (p2_attr v_self "text") (fun a_1 =>
    (py_bind (p2_setattr v_element_tree "text" a_1) (fun v_element_tree =>
    v_element_tree)))) | _ => PErr end
    | BrkS _ => PErr
    | RetS r_6 => r_6
    | ExcS n_7 st_4 => match st_4 with [] => (PExc n_7) | _ => PErr end
    end))) | _ => PErr end
    | BrkS _ => PErr
    | RetS r_14 => r_14
    | ExcS n_15 st_12 => match st_12 with [v_element_tree] => (PExc n_15) | _ => PErr end
    end))) in
   (match p2_branch (p2_is_not_none (p2_attr v_self "namespace")) with
   | BTrue => (py_bind (p2_fconcat [PStr "{"; p2_str (p2_attr v_self "namespace"); PStr "}"; p2_str (p2_attr v_self "tag")]) (fun a_24 =>
   (py_bind (p2_setattr v_element_tree "tag" a_24) (fun v_element_tree =>
   (k_26 v_element_tree)))))
   | BFalse => (py_bind (p2_attr v_self "tag") (fun a_25 =>
   (py_bind (p2_setattr v_element_tree "tag" a_25) (fun v_element_tree =>
   (k_26 v_element_tree)))))
   | BExc n_26 => (PExc n_26)
   | BErr => PErr
   end))))
   | BExc n_28 => (PExc n_28)
   | BErr => PErr
   end).

(* saml2/__init__.py:SamlBase._add_members_to_element_tree, lines 485-507 *)
Definition src2_add_members (c_attributes : pyval) (child_order : pyval -> pyval) (become_child : pyval -> pyval -> pyval) (ec_add : pyval -> pyval -> pyval) (v_self : pyval) (v_tree : pyval) : pyval :=
  let v_member_name := PErr in
  let v_member := PErr in
  let v_member_type := PErr in
  let v_required := PErr in
  (py_bindh (fun n_42 => (PList [(PExc n_42); v_tree])) (p2_iter_check (child_order v_self)) (fun it_24 =>
   (match pyfor2 (py_iter2 it_24) [v_member_name; v_member] (fun st_25 x_26 => match st_25 with [v_member_name; v_member] =>
    (let v_member_name := x_26 in
    (py_bindS (fun n_41 => (ExcS n_41 [v_member_name; v_member])) (p2_getattr_dyn false v_self v_member_name) (fun v_member =>
    (match p2_branch (p2_is_none v_member) with
    | BTrue => (NextS [v_member_name; v_member])
    | BFalse => (match p2_branch (p2_isinstance v_member ["list"] []) with
    | BTrue => (py_bindS (fun n_36 => (ExcS n_36 [v_member_name; v_member])) (p2_iter_check v_member) (fun it_29 =>
    (match pyfor2 (py_iter2 it_29) [] (fun st_30 x_31 => match st_30 with [] =>
     (let v_instance := x_31 in
     (py_bindS (fun n_35 => (ExcS n_35 [])) (py_bind v_tree (fun a_34 => (become_child v_instance a_34))) (fun _ =>
     (NextS []))))
    | _ => RetS PErr end) with
    | NextS st_30 => match st_30 with [] => (NextS [v_member_name; v_member]) | _ => (RetS PErr) end
    | BrkS _ => (RetS PErr)
    | RetS r_32 => (RetS r_32)
    | ExcS n_33 st_30 => match st_30 with [] => (ExcS n_33 [v_member_name; v_member]) | _ => (RetS PErr) end
    end)))
    | BFalse => (py_bindS (fun n_38 => (ExcS n_38 [v_member_name; v_member])) (py_bind v_tree (fun a_37 => (become_child v_member a_37))) (fun _ =>
    (NextS [v_member_name; v_member])))
    | BExc n_39 => (ExcS n_39 [v_member_name; v_member])
    | BErr => (RetS PErr)
    end)
    | BExc n_40 => (ExcS n_40 [v_member_name; v_member])
    | BErr => (RetS PErr)
    end))))
   | _ => RetS PErr end) with
   | NextS st_25 => match st_25 with [v_member_name; v_member] => (py_bindh (fun n_22 => (PList [(PExc n_22); v_tree])) (p2_iter_check (py_bind (p2_items c_attributes) (fun a_21 => a_21))) (fun it_5 =>
   (match pyfor2 (py_iter2 it_5) [v_member_name; v_member_type; v_required; v_member; v_tree] (fun st_6 x_7 => match st_6 with [v_member_name; v_member_type; v_required; v_member; v_tree] =>
    (match p2_unpack 2 x_7 with
    | PList [v_xml_attribute; v_attribute_info] => (py_bindS (fun n_19 => (ExcS n_19 [v_member_name; v_member_type; v_required; v_member; v_tree])) v_attribute_info (fun a_10 =>
    (match p2_unpack 3 a_10 with
    | PList [v_member_name; v_member_type; v_required] => (py_bindS (fun n_17 => (ExcS n_17 [v_member_name; v_member_type; v_required; v_member; v_tree])) (p2_getattr_dyn false v_self v_member_name) (fun v_member =>
    (match p2_branch (p2_is_not_none v_member) with
    | BTrue => (py_bindS (fun n_15 => (ExcS n_15 [v_member_name; v_member_type; v_required; v_member; v_tree])) v_member (fun a_11 =>
    (py_bindS (fun n_14 => (ExcS n_14 [v_member_name; v_member_type; v_required; v_member; v_tree])) v_xml_attribute (fun a_12 =>
    (py_bindS (fun n_13 => (ExcS n_13 [v_member_name; v_member_type; v_required; v_member; v_tree])) (p2_setattr v_tree "attrib" (p2_setitem (p2_attr v_tree "attrib") a_12 a_11)) (fun v_tree =>
    (NextS [v_member_name; v_member_type; v_required; v_member; v_tree])))))))
    | BFalse => (NextS [v_member_name; v_member_type; v_required; v_member; v_tree])
    | BExc n_16 => (ExcS n_16 [v_member_name; v_member_type; v_required; v_member; v_tree])
    | BErr => (RetS PErr)
    end)))
    | PExc n_18 => (ExcS n_18 [v_member_name; v_member_type; v_required; v_member; v_tree])
    | _ => (RetS PErr)
    end)))
    | PExc n_20 => (ExcS n_20 [v_member_name; v_member_type; v_required; v_member; v_tree])
    | _ => (RetS PErr)
    end)
   | _ => RetS PErr end) with
   | NextS st_6 => match st_6 with [v_member_name; v_member_type; v_required; v_member; v_tree] => (py_bindh (fun n_3 => (PList [(PExc n_3); v_tree])) (py_bind v_self (fun a_1 => (py_bind v_tree (fun a_2 => (ec_add a_1 a_2))))) (fun _ =>
   (PList [PNone; v_tree]))) | _ => PErr end
   | BrkS _ => PErr
   | RetS r_8 => r_8
   | ExcS n_9 st_6 => match st_6 with [v_member_name; v_member_type; v_required; v_member; v_tree] => (PList [(PExc n_9); v_tree]) | _ => PErr end
   end))) | _ => PErr end
   | BrkS _ => PErr
   | RetS r_27 => r_27
   | ExcS n_28 st_25 => match st_25 with [v_member_name; v_member] => (PList [(PExc n_28); v_tree]) | _ => PErr end
   end))).
