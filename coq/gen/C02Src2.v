(* GENERATED on every run by harness/py2coq2.py from the current source text of /repo/src/saml2 — do not edit. *)
From Coq Require Import String Ascii List Bool ZArith.
From Verif Require Import Base.Str Base.Py Base.Py2.
Import ListNotations.
Open Scope string_scope.


(* saml2/response.py:StatusResponse.issuer, lines 440-442 *)
Definition src2_issuer (v_self : pyval) : pyval :=
  let v_issuer_value := PErr in
  (py_bind (p2_strip (p2_ifexp (p2_is_not_none (p2_attr_x (p2_attr_x v_self "response") "issuer")) (p2_attr_x (p2_attr_x (p2_attr_x v_self "response") "issuer") "text") (PStr ""))) (fun v_issuer_value =>
   v_issuer_value)).

(* saml2/sigver.py:SecurityContext.correctly_signed_response, lines 1684-1711 *)
Definition src2_correctly_signed_response (parse_resp : pyval -> pyval) (check_sig : pyval -> pyval -> pyval -> pyval -> pyval) (v_self : pyval) (v_decoded_xml : pyval) (v_must : pyval) (v_origdoc : pyval) (v_only_valid_cert : pyval) (v_require_response_signature : pyval) (v_kwargs : pyval) : pyval :=
  let v_response := PErr in
  (py_bind (py_bind v_decoded_xml (fun a_1 => (parse_resp a_1))) (fun v_response =>
   (match p2_branch (p2_not v_response) with
   | BTrue => (PExc "TypeError")
   | BFalse => (match p2_branch (p2_attr_x v_response "signature") with
   | BTrue => (match p2_branch (p2_in (PStr "do_not_verify") v_kwargs) with
   | BTrue => v_response
   | BFalse => (py_bind (py_bind v_decoded_xml (fun a_4 => (py_bind v_response (fun a_5 => (py_bind (py_bind v_response (fun a_3 => (p2_attr_x a_3 "c_node_name"))) (fun a_6 => (py_bind v_origdoc (fun a_7 => (check_sig a_4 a_5 a_6 a_7))))))))) (fun _ =>
   v_response))
   | BExc n_8 => (PExc n_8)
   | BErr => PErr
   end)
   | BFalse => (match p2_branch v_require_response_signature with
   | BTrue => (PExc "SignatureError")
   | BFalse => v_response
   | BExc n_9 => (PExc n_9)
   | BErr => PErr
   end)
   | BExc n_10 => (PExc n_10)
   | BErr => PErr
   end)
   | BExc n_12 => (PExc n_12)
   | BErr => PErr
   end))).

(* saml2/sigver.py:CryptoBackendXmlSec1.validate_signature, lines 838-875 *)
Definition src2_validate_signature (run_xmlsec : pyval -> pyval -> pyval) (parse_out : pyval -> pyval -> pyval) (v_self : pyval) (v_signedtext : pyval) (v_cert_file : pyval) (v_cert_type : pyval) (v_node_name : pyval) (v_node_id : pyval) : pyval :=
  let v_tmp := PErr in
  let v_com_list := PErr in
  let v__stdout := PErr in
  let v_stderr := PErr in
  let v__output := PErr in
  let v_e := PErr in
  (let k_15 := fun v_signedtext =>
    (py_bind (py_bind v_signedtext (fun a_1 => (py_bind (p2_attr_x v_self "delete_tmpfiles") (fun a_2 => (PObj [("__class__", PStr "tmpfile"); ("name", a_1)]))))) (fun v_tmp =>
    (py_bind (p2_mklist [(p2_attr_x v_self "xmlsec"); (PStr "--verify"); (PStr "--enabled-reference-uris"); (PStr "empty,same-doc"); (PStr "--enabled-key-data"); (PStr "raw-x509-cert"); (p2_fconcat [PStr "--pubkey-cert-"; p2_str v_cert_type]); v_cert_file; (PStr "--id-attr:ID"); v_node_name]) (fun v_com_list =>
    (let k_13 := fun v_com_list =>
     (let h_6 := fun n_6 v__stdout v_stderr v__output =>
      (if exc_matches n_6 ["XmlsecError"]
      then (let v_e := PExc n_6 in
      (py_bind v_com_list (fun _ =>
      (PExc "SignatureError"))))
      else (PExc n_6)) in
     (py_bindh (fun n_11 => (h_6 n_11 v__stdout v_stderr v__output)) (py_bind v_com_list (fun a_7 => (py_bind (p2_mklist [(p2_attr_x v_tmp "name")]) (fun a_8 => (run_xmlsec a_7 a_8))))) (fun a_9 =>
     (match p2_unpack 3 a_9 with
     | PList [v__stdout; v_stderr; v__output] => (py_bind v_stderr (fun a_3 => (py_bind (p2_attr_x v_self "version_nums") (fun a_4 => (parse_out a_3 a_4)))))
     | PExc n_10 => (h_6 n_10 v__stdout v_stderr v__output)
     | _ => PErr
     end)))) in
    (match p2_branch v_node_id with
    | BTrue => (py_bind (p2_extend v_com_list (p2_mklist [(PStr "--node-id"); v_node_id])) (fun v_com_list =>
    (k_13 v_com_list)))
    | BFalse => (k_13 v_com_list)
    | BExc n_13 => (PExc n_13)
    | BErr => PErr
    end)))))) in
   (match p2_branch (p2_not (p2_isinstance v_signedtext [] ["bytes"])) with
   | BTrue => (py_bind v_signedtext (fun v_signedtext =>
   (k_15 v_signedtext)))
   | BFalse => (k_15 v_signedtext)
   | BExc n_15 => (PExc n_15)
   | BErr => PErr
   end)).

(* saml2/response.py:AuthnResponse._assertion, lines 801-861 *)
Definition src2_assertion (check_sig : pyval -> pyval -> pyval -> pyval) (authn_ok : pyval -> pyval) (cond_ok : pyval -> pyval) (get_subject : pyval -> pyval) (v_self : pyval) (v_assertion : pyval) (v_verified : pyval) : pyval :=
  let v_exc := PErr in
  let v__resp_issuer := PErr in
  let v__ass_issuer := PErr in
  (let k_29 := fun v_exc =>
    (py_bindh (fun n_19 => (PList [(PExc n_19); v_self])) (src2_issuer v_self) (fun v__resp_issuer =>
    (py_bindh (fun n_18 => (PList [(PExc n_18); v_self])) (p2_ifexp (p2_is_not_none (p2_attr_x v_assertion "issuer")) (p2_strip (p2_or (p2_attr_x (p2_attr_x v_assertion "issuer") "text") (PStr ""))) (PStr "")) (fun v__ass_issuer =>
    (match p2_branch (p2_and v__resp_issuer (p2_ne v__resp_issuer v__ass_issuer)) with
    | BTrue => (py_bindh (fun n_16 => (PList [(PExc n_16); v_self])) (p2_fconcat [PStr "Issuer mismatch: response issuer '"; p2_str v__resp_issuer; PStr "', assertion issuer '"; p2_str v__ass_issuer; PStr "'"]) (fun _ =>
    (PList [(PExc "VerificationError"); v_self])))
    | BFalse => (py_bindh (fun n_14 => (PList [(PExc n_14); v_self])) v_assertion (fun a_1 =>
    (py_bindh (fun n_13 => (PList [(PExc n_13); v_self])) (p2_setattr v_self "assertion" a_1) (fun v_self =>
    (let k_12 := fun (_ : unit) =>
     (match p2_branch (p2_not (cond_ok v_self)) with
     | BTrue => (PList [(PExc "VerificationError"); v_self])
     | BFalse => (let h_2 := fun n_2 =>
      (PList [(PExc n_2); v_self]) in
     (py_bindh (fun n_7 => (h_2 n_7)) (get_subject v_self) (fun _ =>
     (match p2_branch (p2_attr_x v_self "asynchop") with
     | BTrue => (match p2_branch (p2_attr_x v_self "allow_unsolicited") with
     | BTrue => (PList [(PBool true); v_self])
     | BFalse => (match p2_branch (p2_is_none (p2_attr_x v_self "came_from")) with
     | BTrue => (h_2 "VerificationError")
     | BFalse => (PList [(PBool true); v_self])
     | BExc n_4 => (h_2 n_4)
     | BErr => PErr
     end)
     | BExc n_5 => (h_2 n_5)
     | BErr => PErr
     end)
     | BFalse => (PList [(PBool true); v_self])
     | BExc n_6 => (h_2 n_6)
     | BErr => PErr
     end))))
     | BExc n_9 => (PList [(PExc n_9); v_self])
     | BErr => PErr
     end) in
    (match p2_branch (p2_eq (p2_attr_x v_self "context") (PStr "AuthnReq")) with
    | BTrue => (py_bindh (fun n_11 => (PList [(PExc n_11); v_self])) (authn_ok v_self) (fun _ =>
    (k_12 tt)))
    | BFalse => (k_12 tt)
    | BExc n_12 => (PList [(PExc n_12); v_self])
    | BErr => PErr
    end))))))
    | BExc n_17 => (PList [(PExc n_17); v_self])
    | BErr => PErr
    end))))) in
   (match p2_branch (p2_or (p2_not (p2_hasattr v_assertion "signature")) (p2_not (p2_attr_x v_assertion "signature"))) with
   | BTrue => (match p2_branch (p2_attr_x v_self "require_signature") with
   | BTrue => (PList [(PExc "SignatureError"); v_self])
   | BFalse => (k_29 v_exc)
   | BExc n_21 => (PList [(PExc n_21); v_self])
   | BErr => PErr
   end)
   | BFalse => (match p2_branch (p2_and (p2_not v_verified) (p2_is_bool false (p2_attr_x v_self "do_not_verify"))) with
   | BTrue => (py_bindh (fun n_27 => (let v_exc := PExc n_27 in
   (PList [(PExc n_27); v_self]))) (py_bind v_assertion (fun a_24 => (py_bind (py_bind v_assertion (fun a_23 => (p2_attr_x a_23 "c_node_name"))) (fun a_25 => (py_bind (p2_attr_x v_self "xmlstr") (fun a_26 => (check_sig a_24 a_25 a_26))))))) (fun _ =>
   (k_29 v_exc)))
   | BFalse => (k_29 v_exc)
   | BExc n_28 => (PList [(PExc n_28); v_self])
   | BErr => PErr
   end)
   | BExc n_29 => (PList [(PExc n_29); v_self])
   | BErr => PErr
   end)).

(* /verif/work/C02/slices/sigver_check_signature_validators.py:_check_signature__validators, lines 2-72 *)
Definition src2_validators (allowed_c14n : pyval) (allowed_transforms : pyval) (transform_enveloped : pyval) (v_item : pyval) (v_decoded_xml : pyval) (v_node_name : pyval) (v__issuer : pyval) : pyval :=
  let v_signed_info := PErr in
  let v_references := PErr in
  let v_signatures_must_have_a_single_reference_element := PErr in
  let v_the_Reference_element_must_have_a_URI_attribute := PErr in
  let v_the_URI_attribute_contains_an_anchor := PErr in
  let v_the_anchor_points_to_the_enclosing_element_ID_attribute := PErr in
  let v_canonicalization_method_is_c14n := PErr in
  let v_transform_algos := PErr in
  let v_tranform_algos_valid := PErr in
  let v_transform_algos_n := PErr in
  let v_tranform_algos_valid_n := PErr in
  let v_the_number_of_transforms_is_one_or_two := PErr in
  let v_all_transform_algs_are_allowed := PErr in
  let v_the_enveloped_signature_transform_is_defined := PErr in
  let v_object_element_is_not_present := PErr in
  let v_validators := PErr in
  let v_error_context := PErr in
  (py_bind (p2_attr_x (p2_attr_x v_item "signature") "signed_info") (fun v_signed_info =>
   (py_bind (p2_attr_x v_signed_info "reference") (fun v_references =>
   (py_bind (p2_eq (p2_len v_references) (PInt (1)%Z)) (fun v_signatures_must_have_a_single_reference_element =>
   (py_bind (p2_and v_signatures_must_have_a_single_reference_element (p2_hasattr (p2_getitem v_references (PInt (0)%Z)) "uri")) (fun v_the_Reference_element_must_have_a_URI_attribute =>
   (py_bind (p2_and v_the_Reference_element_must_have_a_URI_attribute (p2_and (p2_startswith (p2_attr_x (p2_getitem v_references (PInt (0)%Z)) "uri") (PStr "#")) (p2_gt (p2_len (p2_attr_x (p2_getitem v_references (PInt (0)%Z)) "uri")) (PInt (1)%Z)))) (fun v_the_URI_attribute_contains_an_anchor =>
   (py_bind (p2_and v_the_URI_attribute_contains_an_anchor (p2_eq (p2_attr_x (p2_getitem v_references (PInt (0)%Z)) "uri") (p2_fconcat [PStr "#"; p2_str (p2_attr_x v_item "id")]))) (fun v_the_anchor_points_to_the_enclosing_element_ID_attribute =>
   (py_bind (p2_in (p2_attr_x (p2_attr_x v_signed_info "canonicalization_method") "algorithm") allowed_c14n) (fun v_canonicalization_method_is_c14n =>
   (py_bind (p2_listcomp (p2_attr_x (p2_attr_x (p2_getitem v_references (PInt (0)%Z)) "transforms") "transform") ktrue (fun v_transform => (p2_attr_x v_transform "algorithm"))) (fun v_transform_algos =>
   (py_bind (py_bind v_transform_algos (fun a_1 => (p2_listcomp allowed_transforms (fun x_ => p2_in x_ a_1) (fun x_ => x_)))) (fun v_tranform_algos_valid =>
   (py_bind (p2_len v_transform_algos) (fun v_transform_algos_n =>
   (py_bind (p2_len v_tranform_algos_valid) (fun v_tranform_algos_valid_n =>
   (py_bind (p2_and v_signatures_must_have_a_single_reference_element (py_bind (PInt (1)%Z) (fun a_2 => (py_bind v_transform_algos_n (fun a_3 => (p2_and (p2_le a_2 a_3) (py_bind (PInt (2)%Z) (fun a_4 => (p2_le a_3 a_4))))))))) (fun v_the_number_of_transforms_is_one_or_two =>
   (py_bind (p2_and v_the_number_of_transforms_is_one_or_two (p2_eq v_transform_algos_n v_tranform_algos_valid_n)) (fun v_all_transform_algs_are_allowed =>
   (py_bind (p2_and v_the_number_of_transforms_is_one_or_two (p2_in transform_enveloped v_transform_algos)) (fun v_the_enveloped_signature_transform_is_defined =>
   (py_bind (p2_not (p2_attr_x (p2_attr_x v_item "signature") "object")) (fun v_object_element_is_not_present =>
   (py_bind (p2_mkdict [("signatures must have a single reference element", v_signatures_must_have_a_single_reference_element); ("the Reference element must have a URI attribute", v_the_Reference_element_must_have_a_URI_attribute); ("the URI attribute contains an anchor", v_the_URI_attribute_contains_an_anchor); ("the anchor points to the enclosing element ID attribute", v_the_anchor_points_to_the_enclosing_element_ID_attribute); ("canonicalization method is c14n", v_canonicalization_method_is_c14n); ("the number of transforms is one or two", v_the_number_of_transforms_is_one_or_two); ("all transform algs are allowed", v_all_transform_algs_are_allowed); ("the enveloped signature transform is defined", v_the_enveloped_signature_transform_is_defined); ("object element is not present", v_object_element_is_not_present)]) (fun v_validators =>
   (match p2_branch (p2_not (p2_all (p2_values v_validators) ktrue kid)) with
   | BTrue => (py_bind (p2_mkdict [("message", (PStr "Signature failed to meet constraints on xmldsig")); ("validators", v_validators); ("item ID", (p2_attr_x v_item "id")); ("reference URI", (p2_attr_x (p2_getitem (p2_attr_x (p2_attr_x (p2_attr_x v_item "signature") "signed_info") "reference") (PInt (0)%Z)) "uri")); ("issuer", v__issuer); ("node name", v_node_name); ("xml document", v_decoded_xml)]) (fun v_error_context =>
   (py_bind v_error_context (fun _ =>
   (PExc "SignatureError")))))
   | BFalse => PNone
   | BExc n_5 => (PExc n_5)
   | BErr => PErr
   end))))))))))))))))))))))))))))))))).

(* /verif/work/C02/slices/response_parse_assertion_count.py:parse_assertion__count, lines 2-11 *)
Definition src2_count (v_self : pyval) : pyval :=
  let v_n_assertions := PErr in
  let v_n_assertions_enc := PErr in
  (match p2_branch (p2_eq (p2_attr_x v_self "context") (PStr "AuthnQuery")) with
   | BTrue => PNone
   | BFalse => (py_bind (p2_len (p2_attr_x (p2_attr_x v_self "response") "assertion")) (fun v_n_assertions =>
   (py_bind (p2_len (p2_attr_x (p2_attr_x v_self "response") "encrypted_assertion")) (fun v_n_assertions_enc =>
   (match p2_branch (p2_and (p2_ne v_n_assertions (PInt (1)%Z)) (p2_and (p2_ne v_n_assertions_enc (PInt (1)%Z)) (p2_is_none (p2_attr_x v_self "assertion")))) with
   | BTrue => (py_bind (p2_fconcat [PStr "Invalid number of assertions in Response: "; p2_str (p2_add v_n_assertions v_n_assertions_enc)]) (fun _ =>
   (PExc "InvalidAssertion")))
   | BFalse => PNone
   | BExc n_1 => (PExc n_1)
   | BErr => PErr
   end)))))
   | BExc n_2 => (PExc n_2)
   | BErr => PErr
   end).

(* /verif/work/C02/slices/response_parse_assertion_one.py:parse_assertion__one, lines 2-4 *)
Definition src2_one (v_self : pyval) : pyval :=
  (match p2_branch (p2_and (p2_ne (p2_attr_x v_self "context") (PStr "AuthnQuery")) (p2_and (p2_gt (p2_len (p2_attr_x v_self "assertions")) (PInt (1)%Z)) (p2_not (p2_attr_x (p2_attr_x v_self "response") "signature")))) with
   | BTrue => (py_bind (p2_fconcat [PStr "Invalid number of assertions in Response: "; p2_str (p2_len (p2_attr_x v_self "assertions"))]) (fun _ =>
   (PExc "InvalidAssertion")))
   | BFalse => PNone
   | BExc n_1 => (PExc n_1)
   | BErr => PErr
   end).
