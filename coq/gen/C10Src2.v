(* GENERATED on every run by harness/py2coq2.py from the current source text of /repo/src/saml2 — do not edit. *)
From Coq Require Import String Ascii List Bool ZArith.
From Verif Require Import Base.Str Base.Py Base.Py2.
Import ListNotations.
Open Scope string_scope.


(* saml2/assertion.py:_filter_values, lines 27-58 *)
Definition src2_filter_values (v_vals : pyval) (v_vlist : pyval) (v_must : pyval) : pyval :=
  let v_res := PErr in
  (match p2_branch (p2_not v_vlist) with
   | BTrue => v_vals
   | BFalse => (match p2_branch (p2_is_none v_vals) with
   | BTrue => v_vals
   | BFalse => (let k_12 := fun v_vlist =>
    (let v_res := (PList []) in
    (py_bind (p2_iter_check v_vlist) (fun it_4 =>
    (match pyfor2 (py_iter2 it_4) [v_res] (fun st_5 x_6 => match st_5 with [v_res] =>
     (let v_val := x_6 in
     (match p2_branch (p2_and (p2_in v_val v_vals) (p2_not_in v_val v_res)) with
     | BTrue => (py_bindS (fun n_9 => (ExcS n_9 [v_res])) (p2_append v_res v_val) (fun v_res =>
     (NextS [v_res])))
     | BFalse => (NextS [v_res])
     | BExc n_10 => (ExcS n_10 [v_res])
     | BErr => (RetS PErr)
     end))
    | _ => RetS PErr end) with
    | NextS st_5 => match st_5 with [v_res] => (match p2_branch v_must with
    | BTrue => (match p2_branch v_res with
    | BTrue => v_res
    | BFalse => (PExc "MissingValue")
    | BExc n_1 => (PExc n_1)
    | BErr => PErr
    end)
    | BFalse => v_res
    | BExc n_2 => (PExc n_2)
    | BErr => PErr
    end) | _ => PErr end
    | BrkS _ => PErr
    | RetS r_7 => r_7
    | ExcS n_8 st_5 => match st_5 with [v_res] => (PExc n_8) | _ => PErr end
    end)))) in
   (match p2_branch (p2_isinstance v_vlist ["str"] []) with
   | BTrue => (py_bind (p2_mklist [v_vlist]) (fun v_vlist =>
   (k_12 v_vlist)))
   | BFalse => (k_12 v_vlist)
   | BExc n_12 => (PExc n_12)
   | BErr => PErr
   end))
   | BExc n_14 => (PExc n_14)
   | BErr => PErr
   end)
   | BExc n_16 => (PExc n_16)
   | BErr => PErr
   end).

(* saml2/assertion.py:_match, lines 61-73 *)
Definition src2_match (v_attr : pyval) (v_ava : pyval) : pyval :=
  let v__la := PErr in
  (match p2_branch (p2_in v_attr v_ava) with
   | BTrue => v_attr
   | BFalse => (py_bind (p2_lower v_attr) (fun v__la =>
   (match p2_branch (p2_in v__la v_ava) with
   | BTrue => v__la
   | BFalse => (py_bind (p2_iter_check (p2_keys v_ava)) (fun it_2 =>
   (match pyfor2 (py_iter2 it_2) [] (fun st_3 x_4 => match st_3 with [] =>
    (let v__at := x_4 in
    (match p2_branch (p2_eq (p2_lower v__at) v__la) with
    | BTrue => (py_bindS (fun n_8 => (ExcS n_8 [])) v__at (fun r_7 =>
    (RetS r_7)))
    | BFalse => (NextS [])
    | BExc n_9 => (ExcS n_9 [])
    | BErr => (RetS PErr)
    end))
   | _ => RetS PErr end) with
   | NextS st_3 => match st_3 with [] => PNone | _ => PErr end
   | BrkS _ => PErr
   | RetS r_5 => r_5
   | ExcS n_6 st_3 => match st_3 with [] => (PExc n_6) | _ => PErr end
   end)))
   | BExc n_11 => (PExc n_11)
   | BErr => PErr
   end)))
   | BExc n_13 => (PExc n_13)
   | BErr => PErr
   end).

(* saml2/assertion.py:filter_on_attributes._match_attr_name, lines 89-99 *)
Definition src2_match_attr_name (get_local_name : pyval -> pyval -> pyval) (match_ : pyval -> pyval -> pyval) (v_attr : pyval) (v_ava : pyval) : pyval :=
  let v_name := PErr in
  let v_name_format := PErr in
  let v_friendly_name := PErr in
  let v_local_name := PErr in
  let v__fn := PErr in
  (py_bind (p2_lower (p2_getitem v_attr (PStr "name"))) (fun v_name =>
   (py_bind (p2_get v_attr (PStr "name_format")) (fun v_name_format =>
   (py_bind (p2_get v_attr (PStr "friendly_name")) (fun v_friendly_name =>
   (py_bind (p2_or (py_bind v_name (fun a_1 => (py_bind v_name_format (fun a_2 => (get_local_name a_1 a_2))))) (p2_or v_friendly_name (PStr ""))) (fun v_local_name =>
   (py_bind (p2_or (py_bind v_local_name (fun a_3 => (py_bind v_ava (fun a_4 => (match_ a_3 a_4))))) (py_bind v_name (fun a_5 => (py_bind v_ava (fun a_6 => (match_ a_5 a_6)))))) (fun v__fn =>
   v__fn)))))))))).

(* saml2/assertion.py:filter_attribute_value_assertions, lines 224-259 *)
Definition src2_fava (re_match : pyval -> pyval -> pyval) (v_ava : pyval) (v_attribute_restrictions : pyval) : pyval :=
  let v_vals := PErr in
  let v__attr := PErr in
  let v__rests := PErr in
  let v_rvals := PErr in
  (match p2_branch (p2_not v_attribute_restrictions) with
   | BTrue => v_ava
   | BFalse => (py_bind (p2_iter_check (p2_list (p2_items v_ava))) (fun it_2 =>
   (match pyfor2 (py_iter2 it_2) [v__attr; v__rests; v_ava; v_vals; v_rvals] (fun st_3 x_4 => match st_3 with [v__attr; v__rests; v_ava; v_vals; v_rvals] =>
    (match p2_unpack 2 x_4 with
    | PList [v_attr; v_vals] => (py_bindS (fun n_43 => (ExcS n_43 [v__attr; v__rests; v_ava; v_vals; v_rvals])) (p2_lower v_attr) (fun v__attr =>
    (py_bindS (fun n_42 => (if exc_matches n_42 ["KeyError"]
    then (py_bindS (fun n_10 => (ExcS n_10 [v__attr; v__rests; v_ava; v_vals; v_rvals])) v_attr (fun a_8 =>
    (py_bindS (fun n_9 => (ExcS n_9 [v__attr; v__rests; v_ava; v_vals; v_rvals])) (p2_delitem v_ava a_8) (fun v_ava =>
    (NextS [v__attr; v__rests; v_ava; v_vals; v_rvals])))))
    else (ExcS n_42 [v__attr; v__rests; v_ava; v_vals; v_rvals]))) (p2_getitem v_attribute_restrictions v__attr) (fun v__rests =>
    (match p2_branch (p2_is_none v__rests) with
    | BTrue => (NextS [v__attr; v__rests; v_ava; v_vals; v_rvals])
    | BFalse => (let k_38 := fun v_vals =>
     (let v_rvals := (PList []) in
     (py_bindS (fun n_35 => (ExcS n_35 [v__attr; v__rests; v_ava; v_vals; v_rvals])) (p2_iter_check v__rests) (fun it_21 =>
     (match pyfor2 (py_iter2 it_21) [v_rvals] (fun st_22 x_23 => match st_22 with [v_rvals] =>
      (let v_restr := x_23 in
      (py_bindS (fun n_34 => (ExcS n_34 [v_rvals])) (p2_iter_check v_vals) (fun it_26 =>
      (match pyfor2 (py_iter2 it_26) [v_rvals] (fun st_27 x_28 => match st_27 with [v_rvals] =>
       (let v_val := x_28 in
       (match p2_branch (py_bind v_val (fun a_31 => (re_match v_restr a_31))) with
       | BTrue => (py_bindS (fun n_32 => (ExcS n_32 [v_rvals])) (p2_append v_rvals v_val) (fun v_rvals =>
       (NextS [v_rvals])))
       | BFalse => (NextS [v_rvals])
       | BExc n_33 => (ExcS n_33 [v_rvals])
       | BErr => (RetS PErr)
       end))
      | _ => RetS PErr end) with
      | NextS st_27 => match st_27 with [v_rvals] => (NextS [v_rvals]) | _ => (RetS PErr) end
      | BrkS _ => (RetS PErr)
      | RetS r_29 => (RetS r_29)
      | ExcS n_30 st_27 => match st_27 with [v_rvals] => (ExcS n_30 [v_rvals]) | _ => (RetS PErr) end
      end))))
     | _ => RetS PErr end) with
     | NextS st_22 => match st_22 with [v_rvals] => (match p2_branch v_rvals with
     | BTrue => (py_bindS (fun n_15 => (ExcS n_15 [v__attr; v__rests; v_ava; v_vals; v_rvals])) (p2_list (p2_set v_rvals)) (fun a_11 =>
     (py_bindS (fun n_14 => (ExcS n_14 [v__attr; v__rests; v_ava; v_vals; v_rvals])) v_attr (fun a_12 =>
     (py_bindS (fun n_13 => (ExcS n_13 [v__attr; v__rests; v_ava; v_vals; v_rvals])) (p2_setitem v_ava a_12 a_11) (fun v_ava =>
     (NextS [v__attr; v__rests; v_ava; v_vals; v_rvals])))))))
     | BFalse => (py_bindS (fun n_18 => (ExcS n_18 [v__attr; v__rests; v_ava; v_vals; v_rvals])) v_attr (fun a_16 =>
     (py_bindS (fun n_17 => (ExcS n_17 [v__attr; v__rests; v_ava; v_vals; v_rvals])) (p2_delitem v_ava a_16) (fun v_ava =>
     (NextS [v__attr; v__rests; v_ava; v_vals; v_rvals])))))
     | BExc n_19 => (ExcS n_19 [v__attr; v__rests; v_ava; v_vals; v_rvals])
     | BErr => (RetS PErr)
     end) | _ => (RetS PErr) end
     | BrkS _ => (RetS PErr)
     | RetS r_24 => (RetS r_24)
     | ExcS n_25 st_22 => match st_22 with [v_rvals] => (ExcS n_25 [v__attr; v__rests; v_ava; v_vals; v_rvals]) | _ => (RetS PErr) end
     end)))) in
    (match p2_branch (p2_isinstance v_vals ["str"] []) with
    | BTrue => (py_bindS (fun n_37 => (ExcS n_37 [v__attr; v__rests; v_ava; v_vals; v_rvals])) (p2_mklist [v_vals]) (fun v_vals =>
    (k_38 v_vals)))
    | BFalse => (k_38 v_vals)
    | BExc n_38 => (ExcS n_38 [v__attr; v__rests; v_ava; v_vals; v_rvals])
    | BErr => (RetS PErr)
    end))
    | BExc n_40 => (ExcS n_40 [v__attr; v__rests; v_ava; v_vals; v_rvals])
    | BErr => (RetS PErr)
    end)))))
    | PExc n_44 => (ExcS n_44 [v__attr; v__rests; v_ava; v_vals; v_rvals])
    | _ => (RetS PErr)
    end)
   | _ => RetS PErr end) with
   | NextS st_3 => match st_3 with [v__attr; v__rests; v_ava; v_vals; v_rvals] => v_ava | _ => PErr end
   | BrkS _ => PErr
   | RetS r_5 => r_5
   | ExcS n_6 st_3 => match st_3 with [v__attr; v__rests; v_ava; v_vals; v_rvals] => (PExc n_6) | _ => PErr end
   end)))
   | BExc n_46 => (PExc n_46)
   | BErr => PErr
   end).

(* saml2/assertion.py:Policy.filter, lines 504-552 *)
Definition src2_policy_filter (ac_factory : pyval) (get_entity_categories : pyval -> pyval -> pyval -> pyval -> pyval) (fava : pyval -> pyval -> pyval) (foa : pyval -> pyval -> pyval -> pyval -> pyval -> pyval) (get_fail : pyval -> pyval -> pyval) (get_ar : pyval -> pyval -> pyval) (v_self : pyval) (v_ava : pyval) (v_sp_entity_id : pyval) (v_mdstore : pyval) (v_required : pyval) (v_optional : pyval) (v_fail_on_missing : pyval) : pyval :=
  let v_warn_msg := PErr in
  let v_subject_ava := PErr in
  let v__ent_rest := PErr in
  let v__attr_rest := PErr in
  (let k_22 := fun v_warn_msg =>
    (let k_20 := fun v_self =>
     (py_bind (p2_copy v_ava) (fun v_subject_ava =>
     (py_bind (py_bind v_sp_entity_id (fun a_1 => (py_bind v_mdstore (fun a_2 => (py_bind v_required (fun a_3 => (get_entity_categories v_self a_1 a_2 a_3))))))) (fun v__ent_rest =>
     (let k_17 := fun v_subject_ava =>
      (py_bind (py_bind v_sp_entity_id (fun a_4 => (get_ar v_self a_4))) (fun v__attr_rest =>
      (py_bind (py_bind v_subject_ava (fun a_5 => (py_bind v__attr_rest (fun a_6 => (fava a_5 a_6))))) (fun v_subject_ava =>
      (p2_or v_subject_ava (PObj [])))))) in
     (match p2_branch v__ent_rest with
     | BTrue => (py_bind (py_bind v_subject_ava (fun a_8 => (py_bind v__ent_rest (fun a_9 => (fava a_8 a_9))))) (fun v_subject_ava =>
     (k_17 v_subject_ava)))
     | BFalse => (match p2_branch (p2_or v_required v_optional) with
     | BTrue => (py_bind (py_bind v_subject_ava (fun a_11 => (py_bind v_required (fun a_12 => (py_bind v_optional (fun a_13 => (py_bind (p2_attr v_self "acs") (fun a_14 => (py_bind (p2_ifexp (p2_is_none v_fail_on_missing) (py_bind v_sp_entity_id (fun a_10 => (get_fail v_self a_10))) v_fail_on_missing) (fun a_15 => (foa a_11 a_12 a_13 a_14 a_15))))))))))) (fun v_subject_ava =>
     (k_17 v_subject_ava)))
     | BFalse => (k_17 v_subject_ava)
     | BExc n_16 => (PExc n_16)
     | BErr => PErr
     end)
     | BExc n_17 => (PExc n_17)
     | BErr => PErr
     end)))))) in
    (match p2_branch (p2_not (p2_attr v_self "acs")) with
    | BTrue => (py_bind ac_factory (fun a_19 =>
    (py_bind (p2_setattr v_self "acs" a_19) (fun v_self =>
    (k_20 v_self)))))
    | BFalse => (k_20 v_self)
    | BExc n_20 => (PExc n_20)
    | BErr => PErr
    end)) in
   (match p2_branch (p2_is_not_none v_mdstore) with
   | BTrue => (let v_warn_msg := (PStr "The mdstore parameter for saml2.assertion.Policy.filter is deprecated; instead, initialize the Policy object setting the mds param.") in
   (k_22 v_warn_msg))
   | BFalse => (k_22 v_warn_msg)
   | BExc n_22 => (PExc n_22)
   | BErr => PErr
   end)).

(* saml2/assertion.py:Policy.restrict, lines 554-584 *)
Definition src2_policy_restrict (attribute_requirement : pyval -> pyval -> pyval) (subject_id_requirement : pyval -> pyval -> pyval) (policy_filter : pyval -> pyval -> pyval -> pyval -> pyval -> pyval -> pyval) (v_self : pyval) (v_ava : pyval) (v_sp_entity_id : pyval) (v_metadata : pyval) (v_fail_on_missing : pyval) : pyval :=
  let v_warn_msg := PErr in
  let v_metadata_store := PErr in
  let v_spec := PErr in
  let v_required_attributes := PErr in
  let v_optional_attributes := PErr in
  let v_requirements_subject_id := PErr in
  (let k_17 := fun v_warn_msg =>
    (py_bind (p2_or v_metadata (p2_attr v_self "metadata_store")) (fun v_metadata_store =>
    (py_bind (p2_ifexp v_metadata_store (p2_or (py_bind v_sp_entity_id (fun a_1 => (attribute_requirement v_metadata_store a_1))) (PObj [])) (PObj [])) (fun v_spec =>
    (py_bind (p2_or (p2_get v_spec (PStr "required")) (PList [])) (fun v_required_attributes =>
    (py_bind (p2_or (p2_get v_spec (PStr "optional")) (PList [])) (fun v_optional_attributes =>
    (py_bind (p2_ifexp v_metadata_store (py_bind v_sp_entity_id (fun a_2 => (subject_id_requirement v_metadata_store a_2))) (PList [])) (fun v_requirements_subject_id =>
    (py_bind (p2_iter_check v_requirements_subject_id) (fun it_9 =>
    (match pyfor2 (py_iter2 it_9) [v_required_attributes] (fun st_10 x_11 => match st_10 with [v_required_attributes] =>
     (let v_r := x_11 in
     (match p2_branch (p2_not_in v_r v_required_attributes) with
     | BTrue => (py_bindS (fun n_14 => (ExcS n_14 [v_required_attributes])) (p2_append v_required_attributes v_r) (fun v_required_attributes =>
     (NextS [v_required_attributes])))
     | BFalse => (NextS [v_required_attributes])
     | BExc n_15 => (ExcS n_15 [v_required_attributes])
     | BErr => (RetS PErr)
     end))
    | _ => RetS PErr end) with
    | NextS st_10 => match st_10 with [v_required_attributes] => (py_bind v_ava (fun a_3 => (py_bind v_sp_entity_id (fun a_4 => (py_bind (p2_or v_required_attributes PNone) (fun a_5 => (py_bind (p2_or v_optional_attributes PNone) (fun a_6 => (py_bind v_fail_on_missing (fun a_7 => (policy_filter v_self a_3 a_4 a_5 a_6 a_7))))))))))) | _ => PErr end
    | BrkS _ => PErr
    | RetS r_12 => r_12
    | ExcS n_13 st_10 => match st_10 with [v_required_attributes] => (PExc n_13) | _ => PErr end
    end))))))))))))) in
   (match p2_branch (p2_is_not_none v_metadata) with
   | BTrue => (let v_warn_msg := (PStr "The metadata parameter for saml2.assertion.Policy.restrict is deprecated and ignored; instead, initialize the Policy object setting the mds param.") in
   (k_17 v_warn_msg))
   | BFalse => (k_17 v_warn_msg)
   | BExc n_17 => (PExc n_17)
   | BErr => PErr
   end)).

(* saml2/assertion.py:Policy.get_fail_on_missing_requested, lines 397-405 *)
Definition src2_get_fail (policy_get : pyval -> pyval -> pyval -> pyval -> pyval) (v_self : pyval) (v_sp_entity_id : pyval) : pyval :=
  (py_bind v_sp_entity_id (fun a_1 => (policy_get v_self (PStr "fail_on_missing_requested") a_1 (PBool true)))).
