(* GENERATED on every run by harness/py2coq2.py from the current source text of /repo/src/saml2 — do not edit. *)
From Coq Require Import String Ascii List Bool ZArith.
From Verif Require Import Base.Str Base.Py Base.Py2.
Import ListNotations.
Open Scope string_scope.


(* saml2/entity.py:Entity._parse_response (try/finally, f(.., **kwargs) and the logging-only test on the exception text rewritten by harness/c01.py:_Desugar), lines 1404-1540 *)
Definition src2_parse_response (endpoint : pyval -> pyval -> pyval -> pyval -> pyval) (mk_response : pyval -> pyval -> pyval -> pyval) (unravel : pyval -> pyval -> pyval -> pyval -> pyval) (loads : pyval -> pyval -> pyval -> pyval -> pyval) (verify : pyval -> pyval -> pyval) (v_self : pyval) (v_xmlstr : pyval) (v_response_cls : pyval) (v_service : pyval) (v_binding : pyval) (v_outstanding_certs : pyval) (v_kwargs : pyval) : pyval :=
  let v_response := PErr in
  let v_bindings := PErr in
  let v_exc := PErr in
  let v_response_is_signed := PErr in
  let v_require_response_signature := PErr in
  let v_err := PErr in
  let v_keys := PErr in
  let v_cert := PErr in
  let v_assertions_are_signed := PErr in
  let v_require_signature := PErr in
  let v_msg := PErr in
  (let k_77 := fun v_kwargs =>
    (let k_74 := fun v_kwargs =>
     (let v_response := PNone in
     (match p2_branch (p2_not v_xmlstr) with
     | BTrue => v_response
     | BFalse => (let k_69 := fun v_bindings v_kwargs =>
      (py_bindh (fun n_62 => (let v_exc := PExc n_62 in
      (PExc n_62))) (py_bind (p2_attr v_self "sec") (fun a_60 => (py_bind v_kwargs (fun a_61 => (mk_response v_response_cls a_60 a_61))))) (fun v_response =>
      (py_bind (py_bind v_xmlstr (fun a_1 => (py_bind v_binding (fun a_2 => (py_bind (p2_attr v_response_cls "msgtype") (fun a_3 => (unravel v_self a_1 a_2 a_3))))))) (fun v_xmlstr =>
      (match p2_branch (p2_not v_xmlstr) with
      | BTrue => PNone
      | BFalse => (let k_55 := fun v_response_is_signed v_require_response_signature v_response v_err =>
       (py_bind v_require_response_signature (fun a_4 =>
       (py_bind (p2_setattr v_response "require_response_signature" a_4) (fun v_response =>
       (match p2_branch (p2_not v_response) with
       | BTrue => v_response
       | BFalse => (let v_keys := PNone in
       (let k_36 := fun v_cert v_keys =>
        (let k_23 := fun v_assertions_are_signed v_require_signature v_response v_err =>
         (py_bind v_require_signature (fun a_5 =>
         (py_bind (p2_setattr v_response "require_signature" a_5) (fun v_response =>
         (match p2_branch (p2_attr v_response "require_signature_or_response_signature") with
         | BTrue => (match p2_branch (p2_and (p2_not v_response_is_signed) (p2_not v_assertions_are_signed)) with
         | BTrue => (let v_msg := (PStr "Neither the response nor the assertions are signed") in
         (py_bind v_msg (fun _ =>
         (PExc "SigverError"))))
         | BFalse => v_response
         | BExc n_7 => (PExc n_7)
         | BErr => PErr
         end)
         | BFalse => v_response
         | BExc n_8 => (PExc n_8)
         | BErr => PErr
         end))))) in
        (let h_10 := fun n_10 v_assertions_are_signed v_require_signature v_response v_err =>
         (py_bind v_require_signature (fun a_11 =>
         (py_bind (p2_setattr v_response "require_signature" a_11) (fun v_response =>
         (PExc n_10))))) in
        (let h_12 := fun n_12 v_assertions_are_signed v_require_signature v_response =>
         (if exc_matches n_12 ["SignatureError"]
         then (let v_err := PExc n_12 in
         (match p2_branch v_require_signature with
         | BTrue => (h_10 n_12 v_assertions_are_signed v_require_signature v_response v_err)
         | BFalse => (py_bindh (fun n_17 => (h_10 n_17 v_assertions_are_signed v_require_signature v_response v_err)) v_require_signature (fun a_13 =>
         (py_bindh (fun n_16 => (h_10 n_16 v_assertions_are_signed v_require_signature v_response v_err)) (p2_setattr v_response "require_signature" a_13) (fun v_response =>
         (py_bindh (fun n_15 => (h_10 n_15 v_assertions_are_signed v_require_signature v_response v_err)) (py_bind v_keys (fun a_14 => (verify v_response a_14))) (fun _ =>
         (let v_err := PErr in (k_23 v_assertions_are_signed v_require_signature v_response v_err))))))))
         | BExc n_18 => (h_10 n_18 v_assertions_are_signed v_require_signature v_response v_err)
         | BErr => PErr
         end))
         else (h_10 n_12 v_assertions_are_signed v_require_signature v_response v_err)) in
        (let v_assertions_are_signed := (PBool false) in
        (py_bindh (fun n_23 => (h_12 n_23 v_assertions_are_signed v_require_signature v_response)) (p2_attr v_response "require_signature") (fun v_require_signature =>
        (py_bindh (fun n_22 => (h_12 n_22 v_assertions_are_signed v_require_signature v_response)) (p2_setattr v_response "require_signature" (PBool true)) (fun v_response =>
        (py_bindh (fun n_21 => (h_12 n_21 v_assertions_are_signed v_require_signature v_response)) (py_bind v_keys (fun a_20 => (verify v_response a_20))) (fun _ =>
        (let v_assertions_are_signed := (PBool true) in
        (k_23 v_assertions_are_signed v_require_signature v_response v_err)))))))))))) in
       (match p2_branch v_outstanding_certs with
       | BTrue => (py_bindh (fun n_35 => (if exc_matches n_35 ["KeyError"]
       then (let v_keys := PNone in
       (k_36 v_cert v_keys))
       else (PExc n_35))) (p2_getitem v_outstanding_certs (p2_attr v_response "in_response_to")) (fun v_cert =>
       (let k_33 := fun v_cert =>
        (let v_keys := (PList []) in
        (py_bind (p2_iter_check v_cert) (fun it_26 =>
        (match pyfor2 (py_iter2 it_26) [v_keys] (fun st_27 x_28 => match st_27 with [v_keys] =>
         (let v__cert := x_28 in
         (py_bindS (fun n_31 => (ExcS n_31 [v_keys])) (p2_append v_keys (p2_getitem v__cert (PStr "key"))) (fun v_keys =>
         (NextS [v_keys]))))
        | _ => RetS PErr end) with
        | NextS st_27 => match st_27 with [v_keys] => (k_36 v_cert v_keys) | _ => PErr end
        | BrkS _ => PErr
        | RetS r_29 => r_29
        | ExcS n_30 st_27 => match st_27 with [v_keys] => (PExc n_30) | _ => PErr end
        end)))) in
       (match p2_branch (p2_not (p2_isinstance v_cert ["list"] [])) with
       | BTrue => (py_bind (p2_mklist [v_cert]) (fun v_cert =>
       (k_33 v_cert)))
       | BFalse => (k_33 v_cert)
       | BExc n_33 => (PExc n_33)
       | BErr => PErr
       end))))
       | BFalse => (k_36 v_cert v_keys)
       | BExc n_36 => (PExc n_36)
       | BErr => PErr
       end)))
       | BExc n_38 => (PExc n_38)
       | BErr => PErr
       end))))) in
      (let h_40 := fun n_40 v_response_is_signed v_require_response_signature v_response v_err =>
       (py_bind v_require_response_signature (fun a_41 =>
       (py_bind (p2_setattr v_response "require_response_signature" a_41) (fun v_response =>
       (PExc n_40))))) in
      (let h_42 := fun n_42 v_response_is_signed v_require_response_signature v_response =>
       (if exc_matches n_42 ["SigverError"; "MissingKey"; "SignatureError"]
       then (let v_err := PExc n_42 in
       (match p2_branch v_require_response_signature with
       | BTrue => (h_40 n_42 v_response_is_signed v_require_response_signature v_response v_err)
       | BFalse => (py_bindh (fun n_48 => (h_40 n_48 v_response_is_signed v_require_response_signature v_response v_err)) v_require_response_signature (fun a_43 =>
       (py_bindh (fun n_47 => (h_40 n_47 v_response_is_signed v_require_response_signature v_response v_err)) (p2_setattr v_response "require_response_signature" a_43) (fun v_response =>
       (py_bindh (fun n_46 => (h_40 n_46 v_response_is_signed v_require_response_signature v_response v_err)) (py_bind v_xmlstr (fun a_44 => (py_bind v_xmlstr (fun a_45 => (loads v_response a_44 (PBool false) a_45))))) (fun v_response =>
       (let v_err := PErr in (k_55 v_response_is_signed v_require_response_signature v_response v_err))))))))
       | BExc n_49 => (h_40 n_49 v_response_is_signed v_require_response_signature v_response v_err)
       | BErr => PErr
       end))
       else (if exc_matches n_42 ["UnsolicitedResponse"]
       then (h_40 n_42 v_response_is_signed v_require_response_signature v_response v_err)
       else (let v_err := PExc n_42 in
       (h_40 n_42 v_response_is_signed v_require_response_signature v_response v_err)))) in
      (let v_response_is_signed := (PBool false) in
      (py_bindh (fun n_55 => (h_42 n_55 v_response_is_signed v_require_response_signature v_response)) (p2_attr v_response "require_response_signature") (fun v_require_response_signature =>
      (py_bindh (fun n_54 => (h_42 n_54 v_response_is_signed v_require_response_signature v_response)) (p2_setattr v_response "require_response_signature" (PBool true)) (fun v_response =>
      (py_bindh (fun n_53 => (h_42 n_53 v_response_is_signed v_require_response_signature v_response)) (py_bind v_xmlstr (fun a_51 => (py_bind v_xmlstr (fun a_52 => (loads v_response a_51 (PBool false) a_52))))) (fun v_response =>
      (let v_response_is_signed := (PBool true) in
      (k_55 v_response_is_signed v_require_response_signature v_response v_err))))))))))))
      | BExc n_57 => (PExc n_57)
      | BErr => PErr
      end))))) in
     (match p2_branch (p2_not_in (PStr "return_addrs") v_kwargs) with
     | BTrue => (py_bind (p2_mkset [(PStr "urn:oasis:names:tc:SAML:2.0:bindings:SOAP"); (PStr "urn:oasis:names:tc:SAML:2.0:bindings:HTTP-Redirect"); (PStr "urn:oasis:names:tc:SAML:2.0:bindings:HTTP-POST")]) (fun v_bindings =>
     (match p2_branch (p2_in v_binding v_bindings) with
     | BTrue => (py_bind (py_bind v_service (fun a_64 => (py_bind v_binding (fun a_65 => (py_bind (p2_attr v_self "entity_type") (fun a_66 => (endpoint v_self a_64 a_65 a_66))))))) (fun a_67 =>
     (py_bind (p2_setitem v_kwargs (PStr "return_addrs") a_67) (fun v_kwargs =>
     (k_69 v_bindings v_kwargs)))))
     | BFalse => (k_69 v_bindings v_kwargs)
     | BExc n_68 => (PExc n_68)
     | BErr => PErr
     end)))
     | BFalse => (k_69 v_bindings v_kwargs)
     | BExc n_69 => (PExc n_69)
     | BErr => PErr
     end))
     | BExc n_71 => (PExc n_71)
     | BErr => PErr
     end)) in
    (match p2_branch (p2_not_in (PStr "asynchop") v_kwargs) with
    | BTrue => (match p2_branch (p2_in v_binding (p2_mklist [(PStr "urn:oasis:names:tc:SAML:2.0:bindings:SOAP"); (PStr "urn:oasis:names:tc:SAML:2.0:bindings:PAOS")])) with
    | BTrue => (py_bind (p2_setitem v_kwargs (PStr "asynchop") (PBool false)) (fun v_kwargs =>
    (k_74 v_kwargs)))
    | BFalse => (py_bind (p2_setitem v_kwargs (PStr "asynchop") (PBool true)) (fun v_kwargs =>
    (k_74 v_kwargs)))
    | BExc n_73 => (PExc n_73)
    | BErr => PErr
    end)
    | BFalse => (k_74 v_kwargs)
    | BExc n_74 => (PExc n_74)
    | BErr => PErr
    end)) in
   (match p2_branch (p2_attr (p2_attr v_self "config") "accepted_time_diff") with
   | BTrue => (py_bind (p2_attr (p2_attr v_self "config") "accepted_time_diff") (fun a_76 =>
   (py_bind (p2_setitem v_kwargs (PStr "timeslack") a_76) (fun v_kwargs =>
   (k_77 v_kwargs)))))
   | BFalse => (k_77 v_kwargs)
   | BExc n_77 => (PExc n_77)
   | BErr => PErr
   end)).

(* saml2/client_base.py:Base.parse_authn_request_response (try/finally, f(.., **kwargs) and the logging-only test on the exception text rewritten by harness/c01.py:_Desugar), lines 776-828 *)
Definition src2_parse_authn_request_response (service_urls : pyval -> pyval -> pyval) (parse_response_ext : pyval -> pyval -> pyval -> pyval -> pyval -> pyval -> pyval) (add_info : pyval -> pyval -> pyval) (session_info : pyval -> pyval) (v_self : pyval) (v_xmlstr : pyval) (v_binding : pyval) (v_outstanding : pyval) (v_outstanding_certs : pyval) (v_conv_info : pyval) : pyval :=
  let v_kwargs := PErr in
  let v_resp := PErr in
  let v_err := PErr in
  (match p2_branch (p2_not (p2_getattr3 (p2_attr v_self "config") "entityid" PNone)) with
   | BTrue => (PExc "SAMLError")
   | BFalse => (match p2_branch (p2_not v_xmlstr) with
   | BTrue => PNone
   | BFalse => (py_bind (p2_mkdict [("outstanding_queries", v_outstanding); ("outstanding_certs", v_outstanding_certs); ("allow_unsolicited", (p2_attr v_self "allow_unsolicited")); ("want_assertions_signed", (p2_attr v_self "want_assertions_signed")); ("want_assertions_or_response_signed", (p2_attr v_self "want_assertions_or_response_signed")); ("want_response_signed", (p2_attr v_self "want_response_signed")); ("return_addrs", (py_bind v_binding (fun a_1 => (service_urls v_self a_1)))); ("entity_id", (p2_attr (p2_attr v_self "config") "entityid")); ("attribute_converters", (p2_attr (p2_attr v_self "config") "attribute_converters")); ("allow_unknown_attributes", (p2_attr (p2_attr v_self "config") "allow_unknown_attributes")); ("conv_info", v_conv_info)]) (fun v_kwargs =>
   (py_bindh (fun n_13 => (if exc_matches n_13 ["StatusError"]
   then (let v_err := PExc n_13 in
   (PExc n_13))
   else (if exc_matches n_13 ["UnravelError"]
   then PNone
   else (let v_err := PExc n_13 in
   (PExc n_13))))) (py_bind v_xmlstr (fun a_9 => (py_bind (PObj [("__class__", PStr "type"); ("msgtype", PStr "authn_response")]) (fun a_10 => (py_bind v_binding (fun a_11 => (py_bind v_kwargs (fun a_12 => (parse_response_ext v_self a_9 a_10 (PStr "assertion_consumer_service") a_11 a_12))))))))) (fun v_resp =>
   (match p2_branch (p2_not (p2_isinstance v_resp [] ["AuthnResponse"])) with
   | BTrue => PNone
   | BFalse => (match p2_branch (p2_and (p2_attr v_resp "assertion") (p2_and (p2_eq (p2_len (p2_attr (p2_attr v_resp "response") "encrypted_assertion")) (PInt (0)%Z)) (p2_attr v_resp "name_id"))) with
   | BTrue => (py_bind (py_bind (session_info v_resp) (fun a_3 => (add_info v_self a_3))) (fun _ =>
   v_resp))
   | BFalse => v_resp
   | BExc n_4 => (PExc n_4)
   | BErr => PErr
   end)
   | BExc n_6 => (PExc n_6)
   | BErr => PErr
   end)))))
   | BExc n_15 => (PExc n_15)
   | BErr => PErr
   end)
   | BExc n_17 => (PExc n_17)
   | BErr => PErr
   end).
