(* GENERATED on every run by harness/py2coq2.py from the current source text of /repo/src/saml2 — do not edit. *)
From Coq Require Import String Ascii List Bool ZArith.
From Verif Require Import Base.Str Base.Py Base.Py2.
Import ListNotations.
Open Scope string_scope.

(* saml2/config.py:Config.load_special (the else block in front of self.setattr, cut out by harness/c07.py:load_special_slice), lines 257-261 *)
Definition src2_load_special_value (v__val : pyval) : pyval :=
  (match p2_branch (p2_eq v__val (PStr "true")) with
   | BTrue => (let v__val := (PBool true) in
   v__val)
   | BFalse => (match p2_branch (p2_eq v__val (PStr "false")) with
   | BTrue => (let v__val := (PBool false) in
   v__val)
   | BFalse => v__val
   | BExc n_2 => (PExc n_2)
   | BErr => PErr
   end)
   | BExc n_3 => (PExc n_3)
   | BErr => PErr
   end).
