(* GENERATED on every run by harness/py2coq2.py from the current source text of /repo/src/saml2 — do not edit. *)
From Coq Require Import String Ascii List Bool ZArith.
From Verif Require Import Base.Str Base.Py Base.Py2.
Import ListNotations.
Open Scope string_scope.


(* saml2/pack.py:add_query, lines 126-140 *)
Definition src2_add_query (v_location : pyval) (v_query : pyval) : pyval :=
  let v_base := PErr in
  let v__hash := PErr in
  let v_fragment := PErr in
  let v__path := PErr in
  let v__qm := PErr in
  let v_old_query := PErr in
  let v_glue_char := PErr in
  (py_bind (p2_partition v_location (PStr "#")) (fun a_1 =>
   (match p2_unpack 3 a_1 with
   | PList [v_base; v__hash; v_fragment] => (py_bind (p2_partition v_base (PStr "?")) (fun a_2 =>
   (match p2_unpack 3 a_2 with
   | PList [v__path; v__qm; v_old_query] => (let k_5 := fun v_glue_char =>
    (p2_fconcat [p2_str v_base; p2_str v_glue_char; p2_str v_query; p2_str v__hash; p2_str v_fragment]) in
   (match p2_branch (p2_not v__qm) with
   | BTrue => (let v_glue_char := (PStr "?") in
   (k_5 v_glue_char))
   | BFalse => (match p2_branch (p2_or (p2_not v_old_query) (p2_endswith v_old_query (PStr "&"))) with
   | BTrue => (let v_glue_char := (PStr "") in
   (k_5 v_glue_char))
   | BFalse => (let v_glue_char := (PStr "&") in
   (k_5 v_glue_char))
   | BExc n_4 => (PExc n_4)
   | BErr => PErr
   end)
   | BExc n_5 => (PExc n_5)
   | BErr => PErr
   end))
   | PExc n_6 => (PExc n_6)
   | _ => PErr
   end)))
   | PExc n_7 => (PExc n_7)
   | _ => PErr
   end))).

(* saml2/pack.py:_html_escape, lines 61-62 *)
Definition src2_html_escape (html_escape : pyval -> pyval -> pyval) (v_payload : pyval) : pyval :=
  (py_bind v_payload (fun a_1 => (html_escape a_1 (PBool true)))).

(* saml2/s_utils.py:decode_base64_and_inflate, lines 144-151 *)
Definition src2_decode_base64_and_inflate (b64decode : pyval -> pyval) (zlib_decompress : pyval -> pyval -> pyval) (v_string : pyval) : pyval :=
  (py_bind (py_bind v_string (fun a_1 => (b64decode a_1))) (fun a_2 => (zlib_decompress a_2 (PInt (-15)%Z)))).

(* saml2/pack.py:http_form_post_message, lines 65-98 *)
Definition src2_http_form_post_message (html_escape : pyval -> pyval -> pyval) (b64encode : pyval -> pyval) (str_encode : pyval -> pyval -> pyval) (bytes_decode : pyval -> pyval -> pyval) (v_message : pyval) (v_location : pyval) (v_relay_state : pyval) (v_typ : pyval) (v_kwargs : pyval) : pyval :=
  let v__msg := PErr in
  let v_saml_response_input := PErr in
  let v_relay_state_input := PErr in
  let v_response := PErr in
  (let k_19 := fun v_message =>
    (let k_17 := fun v_message =>
     (let k_15 := fun v__msg =>
      (py_bind (bytes_decode v__msg (PStr "ascii")) (fun v__msg =>
      (py_bind (py_bind (py_bind v_typ (fun a_1 => (src2_html_escape html_escape a_1))) (fun a_3 => (py_bind (py_bind v__msg (fun a_2 => (src2_html_escape html_escape a_2))) (fun a_4 => (p2_fconcat [PStr "<input type="""; p2_str (PStr "hidden"); PStr """ name="""; p2_str a_3; PStr """ value="""; p2_str a_4; PStr """/>"]))))) (fun v_saml_response_input =>
      (let v_relay_state_input := (PStr "") in
      (let k_12 := fun v_relay_state_input =>
       (py_bind (py_bind v_saml_response_input (fun a_6 => (py_bind v_relay_state_input (fun a_7 => (py_bind (py_bind v_location (fun a_5 => (src2_html_escape html_escape a_5))) (fun a_8 => (p2_fconcat [PStr (sb [60;33;68;79;67;84;89;80;69;32;104;116;109;108;62;10;60;104;116;109;108;62;10;32;32;60;104;101;97;100;62;10;32;32;32;32;60;109;101;116;97;32;99;104;97;114;115;101;116;61;34;117;116;102;45;56;34;32;47;62;10;32;32;60;47;104;101;97;100;62;10;32;32;60;98;111;100;121;32;111;110;108;111;97;100;61;34;100;111;99;117;109;101;110;116;46;102;111;114;109;115;91;48;93;46;115;117;98;109;105;116;40;41;34;62;10;32;32;32;32;60;110;111;115;99;114;105;112;116;62;10;32;32;32;32;32;32;60;112;62;10;32;32;32;32;32;32;32;32;60;115;116;114;111;110;103;62;78;111;116;101;58;60;47;115;116;114;111;110;103;62;10;32;32;32;32;32;32;32;32;83;105;110;99;101;32;121;111;117;114;32;98;114;111;119;115;101;114;32;100;111;101;115;32;110;111;116;32;115;117;112;112;111;114;116;32;74;97;118;97;83;99;114;105;112;116;44;10;32;32;32;32;32;32;32;32;121;111;117;32;109;117;115;116;32;112;114;101;115;115;32;116;104;101;32;67;111;110;116;105;110;117;101;32;98;117;116;116;111;110;32;111;110;99;101;32;116;111;32;112;114;111;99;101;101;100;46;10;32;32;32;32;32;32;60;47;112;62;10;32;32;32;32;60;47;110;111;115;99;114;105;112;116;62;10;32;32;32;32;60;102;111;114;109;32;97;99;116;105;111;110;61;34]%N); p2_str a_8; PStr (sb [34;32;109;101;116;104;111;100;61;34;112;111;115;116;34;62;10;32;32;32;32;32;32]%N); p2_str a_6; PStr (sb [10;32;32;32;32;32;32]%N); p2_str a_7; PStr (sb [10;32;32;32;32;32;32;60;110;111;115;99;114;105;112;116;62;10;32;32;32;32;32;32;32;32;60;105;110;112;117;116;32;116;121;112;101;61;34;115;117;98;109;105;116;34;32;118;97;108;117;101;61;34;67;111;110;116;105;110;117;101;34;47;62;10;32;32;32;32;32;32;60;47;110;111;115;99;114;105;112;116;62;10;32;32;32;32;60;47;102;111;114;109;62;10;32;32;60;47;98;111;100;121;62;10;60;47;104;116;109;108;62]%N)]))))))) (fun v_response =>
       (p2_mkdict [("headers", (p2_mklist [(p2_mklist [(PStr "Content-type"); (PStr "text/html")])])); ("data", v_response); ("status", (PInt (200)%Z))]))) in
      (match p2_branch v_relay_state with
      | BTrue => (py_bind (py_bind (py_bind v_relay_state (fun a_10 => (src2_html_escape html_escape a_10))) (fun a_11 => (p2_fconcat [PStr "<input type="""; p2_str (PStr "hidden"); PStr """ name="""; p2_str (PStr "RelayState"); PStr """ value="""; p2_str a_11; PStr """/>"]))) (fun v_relay_state_input =>
      (k_12 v_relay_state_input)))
      | BFalse => (k_12 v_relay_state_input)
      | BExc n_12 => (PExc n_12)
      | BErr => PErr
      end))))))) in
     (match p2_branch (p2_or (p2_eq v_typ (PStr "SAMLRequest")) (p2_eq v_typ (PStr "SAMLResponse"))) with
     | BTrue => (py_bind (py_bind v_message (fun a_14 => (b64encode a_14))) (fun v__msg =>
     (k_15 v__msg)))
     | BFalse => (py_bind v_message (fun v__msg =>
     (k_15 v__msg)))
     | BExc n_15 => (PExc n_15)
     | BErr => PErr
     end)) in
    (match p2_branch (p2_not (p2_isinstance v_message [] ["bytes"])) with
    | BTrue => (py_bind (str_encode v_message (PStr "utf-8")) (fun v_message =>
    (k_17 v_message)))
    | BFalse => (k_17 v_message)
    | BExc n_17 => (PExc n_17)
    | BErr => PErr
    end)) in
   (match p2_branch (p2_not (p2_isinstance v_message ["str"] [])) with
   | BTrue => (py_bind (p2_str v_message) (fun v_message =>
   (k_19 v_message)))
   | BFalse => (k_19 v_message)
   | BExc n_19 => (PExc n_19)
   | BErr => PErr
   end)).

(* saml2/pack.py:http_redirect_message, lines 143-205 *)
Definition src2_http_redirect_message (urlencode : pyval -> pyval) (deflate_b64 : pyval -> pyval) (sig_allowed_alg : pyval) (ext : string -> list pyval -> pyval) (v_message : pyval) (v_location : pyval) (v_relay_state : pyval) (v_typ : pyval) (v_sigalg : pyval) (v_sign : pyval) (v_backend : pyval) : pyval :=
  let v__order := PErr in
  let v_args := PErr in
  let v_signer := PErr in
  let v_string := PErr in
  let v_string_enc := PErr in
  let v_login_url := PErr in
  let v_headers := PErr in
  let v_body := PErr in
  (let k_27 := fun v_message =>
    (let v__order := PNone in
    (let k_25 := fun v__order v_args =>
     (let k_19 := fun v_args =>
      (let k_16 := fun v_signer v_args v_string v_string_enc =>
       (py_bind (py_bind v_args (fun a_1 => (urlencode a_1))) (fun v_string =>
       (py_bind (py_bind v_location (fun a_2 => (py_bind v_string (fun a_3 => (src2_add_query a_2 a_3))))) (fun v_login_url =>
       (py_bind (p2_mklist [(p2_mklist [(PStr "Location"); (p2_str v_login_url)])]) (fun v_headers =>
       (let v_body := (PList []) in
       (p2_mkdict [("headers", v_headers); ("data", v_body); ("status", (PInt (303)%Z))])))))))) in
      (match p2_branch v_sign with
      | BTrue => (match p2_branch (p2_not_in v_sigalg (p2_listcomp sig_allowed_alg ktrue (fun x_14 => match p2_unpack 2 x_14 with PList [v_short_name; v_long_name] => v_long_name | PExc n_ => PExc n_ | _ => PErr end))) with
      | BTrue => (py_bind (p2_fconcat [PStr "Signature algo not in allowed list: "; p2_str v_sigalg]) (fun _ =>
      (PExc "Exception")))
      | BFalse => (py_bind (p2_ifexp (p2_and v_sign v_sigalg) (py_bind v_sigalg (fun a_5 => (ext "get_signer" [v_backend; a_5]))) PNone) (fun v_signer =>
      (match p2_branch (p2_not v_signer) with
      | BTrue => (py_bind (p2_fconcat [PStr "Could not init signer fro algo "; p2_str v_sigalg]) (fun _ =>
      (PExc "Exception")))
      | BFalse => (py_bind v_sigalg (fun a_6 =>
      (py_bind (p2_setitem v_args (PStr "SigAlg") a_6) (fun v_args =>
      (py_bind (p2_join (PStr "&") (p2_listcomp v__order (fun v_k => (p2_in v_k v_args)) (fun v_k => (py_bind (p2_setitem (PObj []) v_k (p2_getitem v_args v_k)) (fun a_7 => (urlencode a_7)))))) (fun v_string =>
      (py_bind (ext "encode" [v_string; (PStr "ascii")]) (fun v_string_enc =>
      (py_bind (py_bind (py_bind v_string_enc (fun a_8 => (ext "sign" [v_signer; a_8]))) (fun a_9 => (ext "b64encode" [a_9]))) (fun a_10 =>
      (py_bind (p2_setitem v_args (PStr "Signature") a_10) (fun v_args =>
      (k_16 v_signer v_args v_string v_string_enc)))))))))))))
      | BExc n_12 => (PExc n_12)
      | BErr => PErr
      end)))
      | BExc n_15 => (PExc n_15)
      | BErr => PErr
      end)
      | BFalse => (k_16 v_signer v_args v_string v_string_enc)
      | BExc n_16 => (PExc n_16)
      | BErr => PErr
      end)) in
     (match p2_branch v_relay_state with
     | BTrue => (py_bind v_relay_state (fun a_18 =>
     (py_bind (p2_setitem v_args (PStr "RelayState") a_18) (fun v_args =>
     (k_19 v_args)))))
     | BFalse => (k_19 v_args)
     | BExc n_19 => (PExc n_19)
     | BErr => PErr
     end)) in
    (match p2_branch (p2_in v_typ (p2_mklist [(PStr "SAMLRequest"); (PStr "SAMLResponse")])) with
    | BTrue => (let k_23 := fun v__order =>
     (py_bind (p2_setitem (PObj []) v_typ (py_bind v_message (fun a_21 => (deflate_b64 a_21)))) (fun v_args =>
     (k_25 v__order v_args))) in
    (match p2_branch (p2_eq v_typ (PStr "SAMLRequest")) with
    | BTrue => (py_bind (PList [(PStr "SAMLRequest"); (PStr "RelayState"); (PStr "SigAlg")]) (fun v__order =>
    (k_23 v__order)))
    | BFalse => (py_bind (PList [(PStr "SAMLResponse"); (PStr "RelayState"); (PStr "SigAlg")]) (fun v__order =>
    (k_23 v__order)))
    | BExc n_23 => (PExc n_23)
    | BErr => PErr
    end))
    | BFalse => (match p2_branch (p2_eq v_typ (PStr "SAMLart")) with
    | BTrue => (py_bind (p2_setitem (PObj []) v_typ v_message) (fun v_args =>
    (k_25 v__order v_args)))
    | BFalse => (py_bind (p2_fconcat [PStr "Unknown message type: "; p2_str v_typ]) (fun _ =>
    (PExc "Exception")))
    | BExc n_24 => (PExc n_24)
    | BErr => PErr
    end)
    | BExc n_25 => (PExc n_25)
    | BErr => PErr
    end))) in
   (match p2_branch (p2_not (p2_isinstance v_message ["str"] [])) with
   | BTrue => (py_bind (p2_fconcat [p2_str v_message]) (fun v_message =>
   (k_27 v_message)))
   | BFalse => (k_27 v_message)
   | BExc n_27 => (PExc n_27)
   | BErr => PErr
   end)).

(* saml2/httpbase.py:HTTPBase.use_http_artifact, lines 249-255 *)
Definition src2_use_http_artifact (urlencode : pyval -> pyval) (v_message : pyval) (v_destination : pyval) (v_relay_state : pyval) : pyval :=
  let v_query := PErr in
  let v_info := PErr in
  (let k_6 := fun v_query =>
    (py_bind (p2_mkdict [("data", (PStr "")); ("url", (py_bind v_destination (fun a_1 => (py_bind v_query (fun a_2 => (src2_add_query a_1 a_2))))))]) (fun v_info =>
    v_info)) in
   (match p2_branch v_relay_state with
   | BTrue => (py_bind (py_bind (p2_mkdict [("SAMLart", v_message); ("RelayState", v_relay_state)]) (fun a_4 => (urlencode a_4))) (fun v_query =>
   (k_6 v_query)))
   | BFalse => (py_bind (py_bind (p2_mkdict [("SAMLart", v_message)]) (fun a_5 => (urlencode a_5))) (fun v_query =>
   (k_6 v_query)))
   | BExc n_6 => (PExc n_6)
   | BErr => PErr
   end)).

(* saml2/httpbase.py:HTTPBase.use_http_uri, lines 258-282 *)
Definition src2_use_http_uri (urlencode : pyval -> pyval) (v_message : pyval) (v_typ : pyval) (v_destination : pyval) (v_relay_state : pyval) : pyval :=
  let v_data := PErr in
  let v_info := PErr in
  let v_query := PErr in
  (let k_11 := fun v_data =>
    (match p2_branch (p2_eq v_typ (PStr "SAMLResponse")) with
    | BTrue => (py_bind (p2_mkdict [("data", v_data); ("headers", (p2_mklist [(p2_mklist [(PStr "Content-Type"); (PStr "application/samlassertion+xml")]); (p2_mklist [(PStr "Cache-Control"); (PStr "no-cache, no-store")]); (p2_mklist [(PStr "Pragma"); (PStr "no-cache")])]))]) (fun v_info =>
    v_info))
    | BFalse => (match p2_branch (p2_eq v_typ (PStr "SAMLRequest")) with
    | BTrue => (let k_7 := fun v_query =>
     (py_bind (p2_mkdict [("data", (PStr "")); ("url", (py_bind v_destination (fun a_2 => (py_bind v_query (fun a_3 => (src2_add_query a_2 a_3))))))]) (fun v_info =>
     v_info)) in
    (match p2_branch v_relay_state with
    | BTrue => (py_bind (py_bind (p2_mkdict [("ID", v_message); ("RelayState", v_relay_state)]) (fun a_5 => (urlencode a_5))) (fun v_query =>
    (k_7 v_query)))
    | BFalse => (py_bind (py_bind (p2_mkdict [("ID", v_message)]) (fun a_6 => (urlencode a_6))) (fun v_query =>
    (k_7 v_query)))
    | BExc n_7 => (PExc n_7)
    | BErr => PErr
    end))
    | BFalse => (PExc "NotImplementedError")
    | BExc n_8 => (PExc n_8)
    | BErr => PErr
    end)
    | BExc n_9 => (PExc n_9)
    | BErr => PErr
    end) in
   (match p2_branch (p2_in (PStr (sb [10]%N)) v_message) with
   | BTrue => (py_bind (p2_getitem (p2_split v_message (PStr (sb [10]%N))) (PInt (1)%Z)) (fun v_data =>
   (k_11 v_data)))
   | BFalse => (py_bind (p2_strip v_message) (fun v_data =>
   (k_11 v_data)))
   | BExc n_11 => (PExc n_11)
   | BErr => PErr
   end)).

(* saml2/entity.py:Entity.unravel, lines 424-462 *)
Definition src2_unravel (b64decode : pyval -> pyval) (zlib_decompress : pyval -> pyval -> pyval) (soap_mod : pyval) (call_fn : pyval -> pyval -> pyval) (v_txt : pyval) (v_binding : pyval) (v_msgtype : pyval) : pyval :=
  let v_xmlstr := PErr in
  let v_func := PErr in
  (match p2_branch (p2_not_in v_binding (p2_mklist [(PStr "urn:oasis:names:tc:SAML:2.0:bindings:HTTP-Redirect"); (PStr "urn:oasis:names:tc:SAML:2.0:bindings:HTTP-POST"); (PStr "urn:oasis:names:tc:SAML:2.0:bindings:SOAP"); (PStr "urn:oasis:names:tc:SAML:2.0:bindings:URI"); (PStr "urn:oasis:names:tc:SAML:2.0:bindings:HTTP-Artifact"); PNone])) with
   | BTrue => (py_bind (p2_fconcat [PStr "Don't know how to handle '"; p2_str v_binding; PStr "'"]) (fun _ =>
   (PExc "UnknownBinding")))
   | BFalse => (let h_2 := fun n_2 v_xmlstr v_func =>
    (py_bind (p2_fconcat [PStr "Unravelling binding '"; p2_str v_binding; PStr "' failed"]) (fun _ =>
    (PExc "UnravelError"))) in
   (match p2_branch (p2_eq v_binding (PStr "urn:oasis:names:tc:SAML:2.0:bindings:HTTP-Redirect")) with
   | BTrue => (py_bindh (fun n_4 => (h_2 n_4 v_xmlstr v_func)) (py_bind v_txt (fun a_3 => (src2_decode_base64_and_inflate b64decode zlib_decompress a_3))) (fun v_xmlstr =>
   v_xmlstr))
   | BFalse => (match p2_branch (p2_eq v_binding (PStr "urn:oasis:names:tc:SAML:2.0:bindings:HTTP-POST")) with
   | BTrue => (py_bindh (fun n_9 => (if exc_matches n_9 ["error"]
   then (py_bindh (fun n_7 => (h_2 n_7 v_xmlstr v_func)) (py_bind v_txt (fun a_6 => (b64decode a_6))) (fun v_xmlstr =>
   v_xmlstr))
   else (h_2 n_9 v_xmlstr v_func))) (py_bind v_txt (fun a_8 => (src2_decode_base64_and_inflate b64decode zlib_decompress a_8))) (fun v_xmlstr =>
   v_xmlstr))
   | BFalse => (match p2_branch (p2_eq v_binding (PStr "urn:oasis:names:tc:SAML:2.0:bindings:SOAP")) with
   | BTrue => (py_bindh (fun n_12 => (h_2 n_12 v_xmlstr v_func)) (p2_getattr_dyn false soap_mod (p2_fconcat [PStr "parse_soap_enveloped_saml_"; p2_str v_msgtype])) (fun v_func =>
   (py_bindh (fun n_11 => (h_2 n_11 v_xmlstr v_func)) (py_bind v_txt (fun a_10 => (call_fn v_func a_10))) (fun v_xmlstr =>
   v_xmlstr))))
   | BFalse => (match p2_branch (p2_eq v_binding (PStr "urn:oasis:names:tc:SAML:2.0:bindings:HTTP-Artifact")) with
   | BTrue => (py_bindh (fun n_14 => (h_2 n_14 v_xmlstr v_func)) (py_bind v_txt (fun a_13 => (b64decode a_13))) (fun v_xmlstr =>
   v_xmlstr))
   | BFalse => (py_bindh (fun n_15 => (h_2 n_15 v_xmlstr v_func)) v_txt (fun v_xmlstr =>
   v_xmlstr))
   | BExc n_16 => (h_2 n_16 v_xmlstr v_func)
   | BErr => PErr
   end)
   | BExc n_17 => (h_2 n_17 v_xmlstr v_func)
   | BErr => PErr
   end)
   | BExc n_18 => (h_2 n_18 v_xmlstr v_func)
   | BErr => PErr
   end)
   | BExc n_19 => (h_2 n_19 v_xmlstr v_func)
   | BErr => PErr
   end))
   | BExc n_21 => (PExc n_21)
   | BErr => PErr
   end).

(* saml2/entity.py:Entity.artifact2destination, lines 1590-1617 *)
Definition src2_artifact2destination (b64decode : pyval -> pyval) (int_base : pyval -> pyval -> pyval) (int_dec : pyval -> pyval) (str_isascii : pyval -> pyval) (str_isdigit : pyval -> pyval) (v_self : pyval) (v_artifact : pyval) (v_descriptor : pyval) : pyval :=
  let v__art := PErr in
  let v_typecode := PErr in
  let v_endpoint_index := PErr in
  let v_entity := PErr in
  let v_destination := PErr in
  let v__index := PErr in
  (py_bind (py_bind v_artifact (fun a_1 => (b64decode a_1))) (fun v__art =>
   (py_bind (p2_slice v__art PNone (PInt (2)%Z)) (fun v_typecode =>
   (match p2_branch (p2_ne v_typecode (PStr (sb [0;4]%N))) with
   | BTrue => (PExc "ValueError")
   | BFalse => (py_bind (py_bind (p2_slice v__art (PInt (2)%Z) (PInt (4)%Z)) (fun a_2 => (int_base a_2 (PInt (16)%Z)))) (fun v_endpoint_index =>
   (py_bind (p2_getitem (p2_attr v_self "sourceid") (p2_slice v__art (PInt (4)%Z) (PInt (24)%Z))) (fun v_entity =>
   (let v_destination := PNone in
   (py_bind (p2_iter_check (p2_getitem v_entity (p2_fconcat [p2_str v_descriptor; PStr "_descriptor"]))) (fun it_4 =>
   (match pyfor2 (py_iter2 it_4) [v__index; v_destination] (fun st_5 x_6 => match st_5 with [v__index; v_destination] =>
    (let v_desc := x_6 in
    (py_bindS (fun n_18 => (ExcS n_18 [v__index; v_destination])) (p2_iter_check (p2_getitem v_desc (PStr "artifact_resolution_service"))) (fun it_9 =>
    (match pyfor2 (py_iter2 it_9) [v__index; v_destination] (fun st_10 x_11 => match st_10 with [v__index; v_destination] =>
     (let v_srv := x_11 in
     (py_bindS (fun n_17 => (ExcS n_17 [v__index; v_destination])) (p2_getitem v_srv (PStr "index")) (fun v__index =>
     (match p2_branch (p2_and (str_isascii v__index) (p2_and (str_isdigit v__index) (p2_eq (py_bind v__index (fun a_14 => (int_dec a_14))) v_endpoint_index))) with
     | BTrue => (py_bindS (fun n_15 => (ExcS n_15 [v__index; v_destination])) (p2_getitem v_srv (PStr "location")) (fun v_destination =>
     (BrkS [v__index; v_destination])))
     | BFalse => (NextS [v__index; v_destination])
     | BExc n_16 => (ExcS n_16 [v__index; v_destination])
     | BErr => (RetS PErr)
     end))))
    | _ => RetS PErr end) with
    | NextS st_10 => match st_10 with [v__index; v_destination] => (NextS [v__index; v_destination]) | _ => (RetS PErr) end
    | BrkS st_10 => match st_10 with [v__index; v_destination] => (NextS [v__index; v_destination]) | _ => (RetS PErr) end
    | RetS r_12 => (RetS r_12)
    | ExcS n_13 st_10 => match st_10 with [v__index; v_destination] => (ExcS n_13 [v__index; v_destination]) | _ => (RetS PErr) end
    end))))
   | _ => RetS PErr end) with
   | NextS st_5 => match st_5 with [v__index; v_destination] => v_destination | _ => PErr end
   | BrkS _ => PErr
   | RetS r_7 => r_7
   | ExcS n_8 st_5 => match st_5 with [v__index; v_destination] => (PExc n_8) | _ => PErr end
   end))))))))
   | BExc n_20 => (PExc n_20)
   | BErr => PErr
   end))))).

(* saml2/mdstore.py:MetadataStore.construct_source_id, lines 1757-1761 *)
Definition src2_store_construct_source_id (md_csi : pyval -> pyval) (v_self : pyval) : pyval :=
  let v_res := PErr in
  (let v_res := (PObj []) in
   (py_bind (p2_iter_check (p2_values (p2_attr v_self "metadata"))) (fun it_2 =>
   (match pyfor2 (py_iter2 it_2) [v_res] (fun st_3 x_4 => match st_3 with [v_res] =>
    (let v__md := x_4 in
    (py_bindS (fun n_7 => (ExcS n_7 [v_res])) (p2_update v_res (md_csi v__md)) (fun v_res =>
    (NextS [v_res]))))
   | _ => RetS PErr end) with
   | NextS st_3 => match st_3 with [v_res] => v_res | _ => PErr end
   | BrkS _ => PErr
   | RetS r_5 => r_5
   | ExcS n_6 st_3 => match st_3 with [v_res] => (PExc n_6) | _ => PErr end
   end)))).
