(* GENERATED on every run by harness/py2coq.py from the current source text of /repo/src/saml2 — do not edit. *)
From Coq Require Import String Ascii List Bool ZArith.
From Verif Require Import Base.Str Base.Py.
Import ListNotations.
Open Scope string_scope.


(* saml2/discovery.py:DiscoveryServer.verify_return, lines 94-98 *)
Definition src_verify_return (discovery_response : pyval -> pyval) (v_self : pyval) (v_entity_id : pyval) (v_return_url : pyval) : pyval :=
  (match pyfor (py_iter (discovery_response v_entity_id)) (fun v_endp => (if py_truthy (py_startswith v_return_url (py_item v_endp (PStr "location")))
   then (Ret (PBool true))
   else Next)) with
   | Ret r_ => r_
   | Brk => (PBool false)
   | Next => (PBool false)
   end).
