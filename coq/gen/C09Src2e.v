(* GENERATED on every run by harness/py2coq2.py from the current source text of /repo/src/saml2 — do not edit. *)
From Coq Require Import String Ascii List Bool ZArith.
From Verif Require Import Base.Str Base.Py Base.Py2.
Import ListNotations.
Open Scope string_scope.


(* saml2/config.py:Config.endpoint, lines 411-441 *)
Definition src2_endpoint (getattr_ext : pyval -> pyval -> pyval -> pyval) (type_ext : pyval -> pyval) (v_self : pyval) (v_service : pyval) (v_binding : pyval) (v_context : pyval) : pyval :=
  let v_spec := PErr in
  let v_unspec := PErr in
  let v_endps := PErr in
  let v_endp := PErr in
  let v_bind := PErr in
  (let v_spec := (PList []) in
   (let v_unspec := (PList []) in
   (py_bind (py_bind v_context (fun a_1 => (getattr_ext v_self (PStr "endpoints") a_1))) (fun v_endps =>
   (let k_22 := fun v_endp v_bind v_spec v_unspec =>
    (match p2_branch v_spec with
    | BTrue => v_spec
    | BFalse => v_unspec
    | BExc n_2 => (PExc n_2)
    | BErr => PErr
    end) in
   (match p2_branch (p2_and v_endps (p2_in v_service v_endps)) with
   | BTrue => (py_bind (p2_iter_check (p2_getitem v_endps v_service)) (fun it_4 =>
   (match pyfor2 (py_iter2 it_4) [v_endp; v_bind; v_spec; v_unspec] (fun st_5 x_6 => match st_5 with [v_endp; v_bind; v_spec; v_unspec] =>
    (let v_endpspec := x_6 in
    (let h_9 := fun n_9 v_endp v_bind v_spec =>
     (if exc_matches n_9 ["ValueError"; "UnicodeDecodeError"; "UnicodeEncodeError"; "UnicodeError"]
     then (py_bindS (fun n_10 => (ExcS n_10 [v_endp; v_bind; v_spec; v_unspec])) (p2_append v_unspec v_endpspec) (fun v_unspec =>
     (NextS [v_endp; v_bind; v_spec; v_unspec])))
     else (ExcS n_9 [v_endp; v_bind; v_spec; v_unspec])) in
    (let k_21 := fun v_endp v_bind =>
     (match p2_branch (p2_or (p2_is_none v_binding) (p2_eq v_bind v_binding)) with
     | BTrue => (py_bindS (fun n_11 => (h_9 n_11 v_endp v_bind v_spec)) (p2_append v_spec v_endp) (fun v_spec =>
     (NextS [v_endp; v_bind; v_spec; v_unspec])))
     | BFalse => (NextS [v_endp; v_bind; v_spec; v_unspec])
     | BExc n_12 => (h_9 n_12 v_endp v_bind v_spec)
     | BErr => (RetS PErr)
     end) in
    (match p2_branch (p2_in (py_bind v_endpspec (fun a_14 => (type_ext a_14))) (p2_mklist [(PStr "tuple"); (PStr "list")])) with
    | BTrue => (py_bindS (fun n_17 => (h_9 n_17 v_endp v_bind v_spec)) (p2_slice v_endpspec (PInt (0)%Z) (PInt (2)%Z)) (fun a_15 =>
    (match p2_unpack 2 a_15 with
    | PList [v_endp; v_bind] => (k_21 v_endp v_bind)
    | PExc n_16 => (h_9 n_16 v_endp v_bind v_spec)
    | _ => (RetS PErr)
    end)))
    | BFalse => (py_bindS (fun n_20 => (h_9 n_20 v_endp v_bind v_spec)) v_endpspec (fun a_18 =>
    (match p2_unpack 2 a_18 with
    | PList [v_endp; v_bind] => (k_21 v_endp v_bind)
    | PExc n_19 => (h_9 n_19 v_endp v_bind v_spec)
    | _ => (RetS PErr)
    end)))
    | BExc n_21 => (h_9 n_21 v_endp v_bind v_spec)
    | BErr => (RetS PErr)
    end))))
   | _ => RetS PErr end) with
   | NextS st_5 => match st_5 with [v_endp; v_bind; v_spec; v_unspec] => (k_22 v_endp v_bind v_spec v_unspec) | _ => PErr end
   | BrkS _ => PErr
   | RetS r_7 => r_7
   | ExcS n_8 st_5 => match st_5 with [v_endp; v_bind; v_spec; v_unspec] => (PExc n_8) | _ => PErr end
   end)))
   | BFalse => (k_22 v_endp v_bind v_spec v_unspec)
   | BExc n_22 => (PExc n_22)
   | BErr => PErr
   end)))))).

(* saml2/client_base.py:Base.service_urls, lines 285-290 *)
Definition src2_service_urls (getattr_ext : pyval -> pyval -> pyval -> pyval) (type_ext : pyval -> pyval) (v_self : pyval) (v_binding : pyval) : pyval :=
  let v__res := PErr in
  (py_bind (py_bind v_binding (fun a_1 => (src2_endpoint getattr_ext type_ext (p2_attr v_self "config") (PStr "assertion_consumer_service") a_1 (PStr "sp")))) (fun v__res =>
   (match p2_branch v__res with
   | BTrue => v__res
   | BFalse => PNone
   | BExc n_2 => (PExc n_2)
   | BErr => PErr
   end))).
