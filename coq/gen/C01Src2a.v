(* GENERATED on every run by harness/py2coq2.py from the current source text of /repo/src/saml2 — do not edit. *)
From Coq Require Import String Ascii List Bool ZArith.
From Verif Require Import Base.Str Base.Py Base.Py2.
Import ListNotations.
Open Scope string_scope.


(* saml2/response.py:AuthnResponse.parse_assertion (the bytes/str block dropped, the saml:Advice block cut out, nested attribute assignments split by harness/c01.py:_DesugarPA), lines 933-1039 *)
Definition src2_parse_assertion (fuel : nat) (assertion_ext : pyval -> pyval -> pyval -> pyval) (find_encrypt_data : pyval -> pyval -> pyval) (find_list : pyval -> pyval -> pyval) (decrypt_keys : pyval -> pyval -> pyval -> pyval) (response_from_string : pyval -> pyval) (decrypt_assertions : pyval -> pyval -> pyval -> pyval -> pyval -> pyval) (get_identity : pyval -> pyval) (str_ext : pyval -> pyval) (v_self : pyval) (v_keys : pyval) : pyval :=
  let v_n_assertions := PErr in
  let v_n_assertions_enc := PErr in
  let v_assertion := PErr in
  let v__enc_assertions := PErr in
  let v_resp := PErr in
  let v_decr_text := PErr in
  let v_decr_text_old := PErr in
  let v_all_assertions := PErr in
  let v_self_response := PErr in
  (let k_113 := fun v_n_assertions v_n_assertions_enc =>
    (let k_107 := fun v_assertion =>
     (let k_97 := fun v__enc_assertions v_resp v_decr_text v_decr_text_old v_all_assertions v_self_response v_self v_assertion =>
      (let k_19 := fun v_assertion v_self =>
       (let k_10 := fun v_self =>
        (match p2_branch (p2_or (p2_eq (p2_attr v_self "context") (PStr "AuthnReq")) (p2_eq (p2_attr v_self "context") (PStr "AttrQuery"))) with
        | BTrue => (py_bindh (fun n_4 => (PList [(PExc n_4); v_self])) (get_identity v_self) (fun a_2 =>
        (py_bindh (fun n_3 => (PList [(PExc n_3); v_self])) (p2_setattr v_self "ava" a_2) (fun v_self =>
        (PList [(PBool true); v_self])))))
        | BFalse => (PList [(PBool true); v_self])
        | BExc n_5 => (PList [(PExc n_5); v_self])
        | BErr => PErr
        end) in
       (match p2_branch (p2_and (p2_attr v_self "assertions") (p2_gt (p2_len (p2_attr v_self "assertions")) (PInt (0)%Z))) with
       | BTrue => (py_bindh (fun n_9 => (PList [(PExc n_9); v_self])) (p2_getitem (p2_attr v_self "assertions") (PInt (0)%Z)) (fun a_7 =>
       (py_bindh (fun n_8 => (PList [(PExc n_8); v_self])) (p2_setattr v_self "assertion" a_7) (fun v_self =>
       (k_10 v_self)))))
       | BFalse => (k_10 v_self)
       | BExc n_10 => (PList [(PExc n_10); v_self])
       | BErr => PErr
       end)) in
      (match p2_branch (p2_attr (p2_attr v_self "response") "assertion") with
      | BTrue => (py_bindh (fun n_18 => (PList [(PExc n_18); v_self])) (p2_iter_check (p2_attr (p2_attr v_self "response") "assertion")) (fun it_12 =>
      (match pyfor2 (py_iter2 it_12) [v_assertion; v_self] (fun st_13 x_14 => match st_13 with [v_assertion; v_self] =>
       (let v_assertion := x_14 in
       (py_bindS (fun n_17 => (ExcS n_17 [v_assertion; v_self])) (p2_setattr v_self "assertions" (p2_append (p2_attr v_self "assertions") v_assertion)) (fun v_self =>
       (NextS [v_assertion; v_self]))))
      | _ => RetS PErr end) with
      | NextS st_13 => match st_13 with [v_assertion; v_self] => (k_19 v_assertion v_self) | _ => PErr end
      | BrkS _ => PErr
      | RetS r_15 => r_15
      | ExcS n_16 st_13 => match st_13 with [v_assertion; v_self] => (PList [(PExc n_16); v_self]) | _ => PErr end
      end)))
      | BFalse => (k_19 v_assertion v_self)
      | BExc n_19 => (PList [(PExc n_19); v_self])
      | BErr => PErr
      end)) in
     (match p2_branch (py_bind (p2_attr v_self "response") (fun a_21 => (find_encrypt_data v_self a_21))) with
     | BTrue => (let v__enc_assertions := (PList []) in
     (py_bindh (fun n_96 => (PList [(PExc n_96); v_self])) (p2_attr v_self "response") (fun v_resp =>
     (py_bindh (fun n_95 => (PList [(PExc n_95); v_self])) (py_bind (p2_attr v_self "response") (fun a_22 => (str_ext a_22))) (fun v_decr_text =>
     (let v_decr_text_old := PNone in
     (match pywhile2 fuel [v_decr_text_old; v_decr_text; v_resp] (fun st_83 => match st_83 with [v_decr_text_old; v_decr_text; v_resp] => (p2_and (py_bind v_resp (fun a_94 => (find_encrypt_data v_self a_94))) (p2_ne v_decr_text_old v_decr_text)) | _ => PErr end)
     (fun st_83 => match st_83 with [v_decr_text_old; v_decr_text; v_resp] =>
      (py_bindS (fun n_93 => (ExcS n_93 [v_decr_text_old; v_decr_text; v_resp])) v_decr_text (fun v_decr_text_old =>
      (py_bindS (fun n_92 => (if exc_matches n_92 ["DecryptError"]
      then (NextS [v_decr_text_old; v_decr_text; v_resp])
      else (ExcS n_92 [v_decr_text_old; v_decr_text; v_resp]))) (py_bind v_decr_text (fun a_90 => (py_bind v_keys (fun a_91 => (decrypt_keys v_self a_90 a_91))))) (fun v_decr_text =>
      (py_bindS (fun n_88 => (ExcS n_88 [v_decr_text_old; v_decr_text; v_resp])) (py_bind v_decr_text (fun a_87 => (response_from_string a_87))) (fun v_resp =>
      (NextS [v_decr_text_old; v_decr_text; v_resp])))))))
     | _ => RetS PErr end) with
     | NextS st_83 => match st_83 with [v_decr_text_old; v_decr_text; v_resp] => (py_bindh (fun n_81 => (PList [(PExc n_81); v_self])) (py_bind (p2_attr v_resp "encrypted_assertion") (fun a_23 => (py_bind v_decr_text (fun a_24 => (decrypt_assertions v_self a_23 a_24 PNone (PBool false)))))) (fun v__enc_assertions =>
     (let v_decr_text_old := PNone in
     (match pywhile2 fuel [v_decr_text_old; v_decr_text; v_resp; v__enc_assertions] (fun st_65 => match st_65 with [v_decr_text_old; v_decr_text; v_resp; v__enc_assertions] => (p2_and (p2_or (py_bind v_resp (fun a_79 => (find_encrypt_data v_self a_79))) (py_bind v__enc_assertions (fun a_80 => (find_list v_self a_80)))) (p2_ne v_decr_text_old v_decr_text)) | _ => PErr end)
     (fun st_65 => match st_65 with [v_decr_text_old; v_decr_text; v_resp; v__enc_assertions] =>
      (py_bindS (fun n_78 => (ExcS n_78 [v_decr_text_old; v_decr_text; v_resp; v__enc_assertions])) v_decr_text (fun v_decr_text_old =>
      (py_bindS (fun n_77 => (if exc_matches n_77 ["DecryptError"]
      then (NextS [v_decr_text_old; v_decr_text; v_resp; v__enc_assertions])
      else (ExcS n_77 [v_decr_text_old; v_decr_text; v_resp; v__enc_assertions]))) (py_bind v_decr_text (fun a_75 => (py_bind v_keys (fun a_76 => (decrypt_keys v_self a_75 a_76))))) (fun v_decr_text =>
      (py_bindS (fun n_73 => (ExcS n_73 [v_decr_text_old; v_decr_text; v_resp; v__enc_assertions])) (py_bind v_decr_text (fun a_69 => (response_from_string a_69))) (fun v_resp =>
      (py_bindS (fun n_72 => (ExcS n_72 [v_decr_text_old; v_decr_text; v_resp; v__enc_assertions])) (py_bind (p2_attr v_resp "encrypted_assertion") (fun a_70 => (py_bind v_decr_text (fun a_71 => (decrypt_assertions v_self a_70 a_71 PNone (PBool true)))))) (fun v__enc_assertions =>
      (NextS [v_decr_text_old; v_decr_text; v_resp; v__enc_assertions])))))))))
     | _ => RetS PErr end) with
     | NextS st_65 => match st_65 with [v_decr_text_old; v_decr_text; v_resp; v__enc_assertions] => (py_bindh (fun n_63 => (PList [(PExc n_63); v_self])) v__enc_assertions (fun v_all_assertions =>
     (let k_62 := fun v_all_assertions =>
      (let k_59 := fun (_ : unit) =>
       (py_bindh (fun n_50 => (PList [(PExc n_50); v_self])) (p2_attr v_self "response") (fun v_self_response =>
       (py_bindh (fun n_49 => (PList [(PExc n_49); v_self])) (p2_attr v_resp "assertion") (fun a_25 =>
       (py_bindh (fun n_48 => (PList [(PExc n_48); v_self])) (p2_setattr v_self_response "assertion" a_25) (fun v_self_response =>
       (py_bindh (fun n_47 => (PList [(PExc n_47); v_self])) v_self_response (fun a_26 =>
       (py_bindh (fun n_46 => (PList [(PExc n_46); v_self])) (p2_setattr v_self "response" a_26) (fun v_self =>
       (py_bindh (fun n_45 => (PList [(PExc n_45); v_self])) (p2_iter_check v__enc_assertions) (fun it_37 =>
       (match pyfor2 (py_iter2 it_37) [v_assertion; v_self] (fun st_38 x_39 => match st_38 with [v_assertion; v_self] =>
        (let v_assertion := x_39 in
        (match p2_branch (p2_not (py_bind v_assertion (fun a_42 => (assertion_ext v_self a_42 (PBool true))))) with
        | BTrue => (RetS (PList [(PBool false); v_self]))
        | BFalse => (py_bindS (fun n_43 => (ExcS n_43 [v_assertion; v_self])) (p2_setattr v_self "assertions" (p2_append (p2_attr v_self "assertions") v_assertion)) (fun v_self =>
        (NextS [v_assertion; v_self])))
        | BExc n_44 => (ExcS n_44 [v_assertion; v_self])
        | BErr => (RetS PErr)
        end))
       | _ => RetS PErr end) with
       | NextS st_38 => match st_38 with [v_assertion; v_self] => (py_bindh (fun n_35 => (PList [(PExc n_35); v_self])) v_decr_text (fun a_27 =>
       (py_bindh (fun n_34 => (PList [(PExc n_34); v_self])) (p2_setattr v_self "xmlstr" a_27) (fun v_self =>
       (match p2_branch (p2_gt (p2_len v__enc_assertions) (PInt (0)%Z)) with
       | BTrue => (py_bindh (fun n_32 => (PList [(PExc n_32); v_self])) (p2_attr v_self "response") (fun v_self_response =>
       (py_bindh (fun n_31 => (PList [(PExc n_31); v_self])) (p2_setattr v_self_response "encrypted_assertion" (PList [])) (fun v_self_response =>
       (py_bindh (fun n_30 => (PList [(PExc n_30); v_self])) v_self_response (fun a_28 =>
       (py_bindh (fun n_29 => (PList [(PExc n_29); v_self])) (p2_setattr v_self "response" a_28) (fun v_self =>
       (k_97 v__enc_assertions v_resp v_decr_text v_decr_text_old v_all_assertions v_self_response v_self v_assertion)))))))))
       | BFalse => (k_97 v__enc_assertions v_resp v_decr_text v_decr_text_old v_all_assertions v_self_response v_self v_assertion)
       | BExc n_33 => (PList [(PExc n_33); v_self])
       | BErr => PErr
       end))))) | _ => PErr end
       | BrkS _ => PErr
       | RetS r_40 => r_40
       | ExcS n_41 st_38 => match st_38 with [v_assertion; v_self] => (PList [(PExc n_41); v_self]) | _ => PErr end
       end))))))))))))) in
      (match p2_branch (p2_gt (p2_len v_all_assertions) (PInt (0)%Z)) with
      | BTrue => (py_bindh (fun n_58 => (PList [(PExc n_58); v_self])) (p2_iter_check v_all_assertions) (fun it_52 =>
      (match pyfor2 (py_iter2 it_52) [] (fun st_53 x_54 => match st_53 with [] =>
       (let v_tmp_ass := x_54 in
       (match p2_branch (p2_and (p2_attr v_tmp_ass "advice") (p2_attr (p2_attr v_tmp_ass "advice") "encrypted_assertion")) with
       | BTrue => (ExcS "AdviceNotTied" [])
       | BFalse => (NextS [])
       | BExc n_57 => (ExcS n_57 [])
       | BErr => (RetS PErr)
       end))
      | _ => RetS PErr end) with
      | NextS st_53 => match st_53 with [] => (k_59 tt) | _ => PErr end
      | BrkS _ => PErr
      | RetS r_55 => r_55
      | ExcS n_56 st_53 => match st_53 with [] => (PList [(PExc n_56); v_self]) | _ => PErr end
      end)))
      | BFalse => (k_59 tt)
      | BExc n_59 => (PList [(PExc n_59); v_self])
      | BErr => PErr
      end)) in
     (match p2_branch (p2_attr v_resp "assertion") with
     | BTrue => (py_bindh (fun n_61 => (PList [(PExc n_61); v_self])) (p2_add v_all_assertions (p2_attr v_resp "assertion")) (fun v_all_assertions =>
     (k_62 v_all_assertions)))
     | BFalse => (k_62 v_all_assertions)
     | BExc n_62 => (PList [(PExc n_62); v_self])
     | BErr => PErr
     end)))) | _ => PErr end
     | BrkS _ => PErr
     | RetS r_66 => r_66
     | ExcS n_67 st_65 => match st_65 with [v_decr_text_old; v_decr_text; v_resp; v__enc_assertions] => (PList [(PExc n_67); v_self]) | _ => PErr end
     end)))) | _ => PErr end
     | BrkS _ => PErr
     | RetS r_84 => r_84
     | ExcS n_85 st_83 => match st_83 with [v_decr_text_old; v_decr_text; v_resp] => (PList [(PExc n_85); v_self]) | _ => PErr end
     end)))))))
     | BFalse => (k_97 v__enc_assertions v_resp v_decr_text v_decr_text_old v_all_assertions v_self_response v_self v_assertion)
     | BExc n_97 => (PList [(PExc n_97); v_self])
     | BErr => PErr
     end)) in
    (match p2_branch (p2_attr (p2_attr v_self "response") "assertion") with
    | BTrue => (py_bindh (fun n_106 => (PList [(PExc n_106); v_self])) (p2_iter_check (p2_attr (p2_attr v_self "response") "assertion")) (fun it_99 =>
    (match pyfor2 (py_iter2 it_99) [v_assertion] (fun st_100 x_101 => match st_100 with [v_assertion] =>
     (let v_assertion := x_101 in
     (match p2_branch (p2_not (py_bind v_assertion (fun a_104 => (assertion_ext v_self a_104 (PBool false))))) with
     | BTrue => (RetS (PList [(PBool false); v_self]))
     | BFalse => (NextS [v_assertion])
     | BExc n_105 => (ExcS n_105 [v_assertion])
     | BErr => (RetS PErr)
     end))
    | _ => RetS PErr end) with
    | NextS st_100 => match st_100 with [v_assertion] => (k_107 v_assertion) | _ => PErr end
    | BrkS _ => PErr
    | RetS r_102 => r_102
    | ExcS n_103 st_100 => match st_100 with [v_assertion] => (PList [(PExc n_103); v_self]) | _ => PErr end
    end)))
    | BFalse => (k_107 v_assertion)
    | BExc n_107 => (PList [(PExc n_107); v_self])
    | BErr => PErr
    end)) in
   (match p2_branch (p2_eq (p2_attr v_self "context") (PStr "AuthnQuery")) with
   | BTrue => (k_113 v_n_assertions v_n_assertions_enc)
   | BFalse => (py_bindh (fun n_112 => (PList [(PExc n_112); v_self])) (p2_len (p2_attr (p2_attr v_self "response") "assertion")) (fun v_n_assertions =>
   (py_bindh (fun n_111 => (PList [(PExc n_111); v_self])) (p2_len (p2_attr (p2_attr v_self "response") "encrypted_assertion")) (fun v_n_assertions_enc =>
   (match p2_branch (p2_and (p2_ne v_n_assertions (PInt (1)%Z)) (p2_and (p2_ne v_n_assertions_enc (PInt (1)%Z)) (p2_is_none (p2_attr v_self "assertion")))) with
   | BTrue => (py_bindh (fun n_109 => (PList [(PExc n_109); v_self])) (p2_fconcat [PStr "Invalid number of assertions in Response: "; p2_str (p2_add v_n_assertions v_n_assertions_enc)]) (fun _ =>
   (PList [(PExc "InvalidAssertion"); v_self])))
   | BFalse => (k_113 v_n_assertions v_n_assertions_enc)
   | BExc n_110 => (PList [(PExc n_110); v_self])
   | BErr => PErr
   end)))))
   | BExc n_113 => (PList [(PExc n_113); v_self])
   | BErr => PErr
   end)).
