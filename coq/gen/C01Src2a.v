(* GENERATED on every run by harness/py2coq2.py from the current source text of /repo/src/saml2 — do not edit. *)
From Coq Require Import String Ascii List Bool ZArith.
From Verif Require Import Base.Str Base.Py Base.Py2.
Import ListNotations.
Open Scope string_scope.


(* saml2/response.py:AuthnResponse.parse_assertion (the bytes/str block dropped, the saml:Advice block cut out, nested attribute assignments split by harness/c01.py:_DesugarPA), lines 933-1046 *)
Definition src2_parse_assertion (fuel : nat) (assertion_ext : pyval -> pyval -> pyval -> pyval) (find_encrypt_data : pyval -> pyval -> pyval) (find_list : pyval -> pyval -> pyval) (decrypt_keys : pyval -> pyval -> pyval -> pyval) (response_from_string : pyval -> pyval) (decrypt_assertions : pyval -> pyval -> pyval -> pyval -> pyval -> pyval) (get_identity : pyval -> pyval) (str_ext : pyval -> pyval) (v_self : pyval) (v_keys : pyval) : pyval :=
  let v_n_assertions := PErr in
  let v_n_assertions_enc := PErr in
  let v_assertion := PErr in
  let v__enc_assertions := PErr in
  let v_resp := PErr in
  let v_decr_text := PErr in
  let v_decr_text_old := PErr in
  let v_all_assertions := PErr in
  let v_self_response := PErr in
  (let k_116 := fun v_n_assertions v_n_assertions_enc =>
    (let k_110 := fun v_assertion =>
     (let k_100 := fun v__enc_assertions v_resp v_decr_text v_decr_text_old v_all_assertions v_self_response v_self v_assertion =>
      (let k_22 := fun v_assertion v_self =>
       (let k_13 := fun v_self =>
        (match p2_branch (p2_or (p2_eq (p2_attr v_self "context") (PStr "AuthnReq")) (p2_eq (p2_attr v_self "context") (PStr "AttrQuery"))) with
        | BTrue => (py_bindh (fun n_4 => (PList [(PExc n_4); v_self])) (get_identity v_self) (fun a_2 =>
        (py_bindh (fun n_3 => (PList [(PExc n_3); v_self])) (p2_setattr v_self "ava" a_2) (fun v_self =>
        (PList [(PBool true); v_self])))))
        | BFalse => (PList [(PBool true); v_self])
        | BExc n_5 => (PList [(PExc n_5); v_self])
        | BErr => PErr
        end) in
       (match p2_branch (p2_and (p2_attr v_self "assertions") (p2_gt (p2_len (p2_attr v_self "assertions")) (PInt (0)%Z))) with
       | BTrue => (match p2_branch (p2_and (p2_ne (p2_attr v_self "context") (PStr "AuthnQuery")) (p2_and (p2_gt (p2_len (p2_attr v_self "assertions")) (PInt (1)%Z)) (p2_not (p2_attr (p2_attr v_self "response") "signature")))) with
       | BTrue => (py_bindh (fun n_11 => (PList [(PExc n_11); v_self])) (p2_fconcat [PStr "Invalid number of assertions in Response: "; p2_str (p2_len (p2_attr v_self "assertions"))]) (fun _ =>
       (PList [(PExc "InvalidAssertion"); v_self])))
       | BFalse => (py_bindh (fun n_9 => (PList [(PExc n_9); v_self])) (p2_getitem (p2_attr v_self "assertions") (PInt (0)%Z)) (fun a_7 =>
       (py_bindh (fun n_8 => (PList [(PExc n_8); v_self])) (p2_setattr v_self "assertion" a_7) (fun v_self =>
       (k_13 v_self)))))
       | BExc n_12 => (PList [(PExc n_12); v_self])
       | BErr => PErr
       end)
       | BFalse => (k_13 v_self)
       | BExc n_13 => (PList [(PExc n_13); v_self])
       | BErr => PErr
       end)) in
      (match p2_branch (p2_attr (p2_attr v_self "response") "assertion") with
      | BTrue => (py_bindh (fun n_21 => (PList [(PExc n_21); v_self])) (p2_iter_check (p2_attr (p2_attr v_self "response") "assertion")) (fun it_15 =>
      (match pyfor2 (py_iter2 it_15) [v_assertion; v_self] (fun st_16 x_17 => match st_16 with [v_assertion; v_self] =>
       (let v_assertion := x_17 in
       (py_bindS (fun n_20 => (ExcS n_20 [v_assertion; v_self])) (p2_setattr v_self "assertions" (p2_append (p2_attr v_self "assertions") v_assertion)) (fun v_self =>
       (NextS [v_assertion; v_self]))))
      | _ => RetS PErr end) with
      | NextS st_16 => match st_16 with [v_assertion; v_self] => (k_22 v_assertion v_self) | _ => PErr end
      | BrkS _ => PErr
      | RetS r_18 => r_18
      | ExcS n_19 st_16 => match st_16 with [v_assertion; v_self] => (PList [(PExc n_19); v_self]) | _ => PErr end
      end)))
      | BFalse => (k_22 v_assertion v_self)
      | BExc n_22 => (PList [(PExc n_22); v_self])
      | BErr => PErr
      end)) in
     (match p2_branch (py_bind (p2_attr v_self "response") (fun a_24 => (find_encrypt_data v_self a_24))) with
     | BTrue => (let v__enc_assertions := (PList []) in
     (py_bindh (fun n_99 => (PList [(PExc n_99); v_self])) (p2_attr v_self "response") (fun v_resp =>
     (py_bindh (fun n_98 => (PList [(PExc n_98); v_self])) (py_bind (p2_attr v_self "response") (fun a_25 => (str_ext a_25))) (fun v_decr_text =>
     (let v_decr_text_old := PNone in
     (match pywhile2 fuel [v_decr_text_old; v_decr_text; v_resp] (fun st_86 => match st_86 with [v_decr_text_old; v_decr_text; v_resp] => (p2_and (py_bind v_resp (fun a_97 => (find_encrypt_data v_self a_97))) (p2_ne v_decr_text_old v_decr_text)) | _ => PErr end)
     (fun st_86 => match st_86 with [v_decr_text_old; v_decr_text; v_resp] =>
      (py_bindS (fun n_96 => (ExcS n_96 [v_decr_text_old; v_decr_text; v_resp])) v_decr_text (fun v_decr_text_old =>
      (py_bindS (fun n_95 => (if exc_matches n_95 ["DecryptError"]
      then (NextS [v_decr_text_old; v_decr_text; v_resp])
      else (ExcS n_95 [v_decr_text_old; v_decr_text; v_resp]))) (py_bind v_decr_text (fun a_93 => (py_bind v_keys (fun a_94 => (decrypt_keys v_self a_93 a_94))))) (fun v_decr_text =>
      (py_bindS (fun n_91 => (ExcS n_91 [v_decr_text_old; v_decr_text; v_resp])) (py_bind v_decr_text (fun a_90 => (response_from_string a_90))) (fun v_resp =>
      (NextS [v_decr_text_old; v_decr_text; v_resp])))))))
     | _ => RetS PErr end) with
     | NextS st_86 => match st_86 with [v_decr_text_old; v_decr_text; v_resp] => (py_bindh (fun n_84 => (PList [(PExc n_84); v_self])) (py_bind (p2_attr v_resp "encrypted_assertion") (fun a_26 => (py_bind v_decr_text (fun a_27 => (decrypt_assertions v_self a_26 a_27 PNone (PBool false)))))) (fun v__enc_assertions =>
     (let v_decr_text_old := PNone in
     (match pywhile2 fuel [v_decr_text_old; v_decr_text; v_resp; v__enc_assertions] (fun st_68 => match st_68 with [v_decr_text_old; v_decr_text; v_resp; v__enc_assertions] => (p2_and (p2_or (py_bind v_resp (fun a_82 => (find_encrypt_data v_self a_82))) (py_bind v__enc_assertions (fun a_83 => (find_list v_self a_83)))) (p2_ne v_decr_text_old v_decr_text)) | _ => PErr end)
     (fun st_68 => match st_68 with [v_decr_text_old; v_decr_text; v_resp; v__enc_assertions] =>
      (py_bindS (fun n_81 => (ExcS n_81 [v_decr_text_old; v_decr_text; v_resp; v__enc_assertions])) v_decr_text (fun v_decr_text_old =>
      (py_bindS (fun n_80 => (if exc_matches n_80 ["DecryptError"]
      then (NextS [v_decr_text_old; v_decr_text; v_resp; v__enc_assertions])
      else (ExcS n_80 [v_decr_text_old; v_decr_text; v_resp; v__enc_assertions]))) (py_bind v_decr_text (fun a_78 => (py_bind v_keys (fun a_79 => (decrypt_keys v_self a_78 a_79))))) (fun v_decr_text =>
      (py_bindS (fun n_76 => (ExcS n_76 [v_decr_text_old; v_decr_text; v_resp; v__enc_assertions])) (py_bind v_decr_text (fun a_72 => (response_from_string a_72))) (fun v_resp =>
      (py_bindS (fun n_75 => (ExcS n_75 [v_decr_text_old; v_decr_text; v_resp; v__enc_assertions])) (py_bind (p2_attr v_resp "encrypted_assertion") (fun a_73 => (py_bind v_decr_text (fun a_74 => (decrypt_assertions v_self a_73 a_74 PNone (PBool true)))))) (fun v__enc_assertions =>
      (NextS [v_decr_text_old; v_decr_text; v_resp; v__enc_assertions])))))))))
     | _ => RetS PErr end) with
     | NextS st_68 => match st_68 with [v_decr_text_old; v_decr_text; v_resp; v__enc_assertions] => (py_bindh (fun n_66 => (PList [(PExc n_66); v_self])) v__enc_assertions (fun v_all_assertions =>
     (let k_65 := fun v_all_assertions =>
      (let k_62 := fun (_ : unit) =>
       (py_bindh (fun n_53 => (PList [(PExc n_53); v_self])) (p2_attr v_self "response") (fun v_self_response =>
       (py_bindh (fun n_52 => (PList [(PExc n_52); v_self])) (p2_attr v_resp "assertion") (fun a_28 =>
       (py_bindh (fun n_51 => (PList [(PExc n_51); v_self])) (p2_setattr v_self_response "assertion" a_28) (fun v_self_response =>
       (py_bindh (fun n_50 => (PList [(PExc n_50); v_self])) v_self_response (fun a_29 =>
       (py_bindh (fun n_49 => (PList [(PExc n_49); v_self])) (p2_setattr v_self "response" a_29) (fun v_self =>
       (py_bindh (fun n_48 => (PList [(PExc n_48); v_self])) (p2_iter_check v__enc_assertions) (fun it_40 =>
       (match pyfor2 (py_iter2 it_40) [v_assertion; v_self] (fun st_41 x_42 => match st_41 with [v_assertion; v_self] =>
        (let v_assertion := x_42 in
        (match p2_branch (p2_not (py_bind v_assertion (fun a_45 => (assertion_ext v_self a_45 (PBool true))))) with
        | BTrue => (RetS (PList [(PBool false); v_self]))
        | BFalse => (py_bindS (fun n_46 => (ExcS n_46 [v_assertion; v_self])) (p2_setattr v_self "assertions" (p2_append (p2_attr v_self "assertions") v_assertion)) (fun v_self =>
        (NextS [v_assertion; v_self])))
        | BExc n_47 => (ExcS n_47 [v_assertion; v_self])
        | BErr => (RetS PErr)
        end))
       | _ => RetS PErr end) with
       | NextS st_41 => match st_41 with [v_assertion; v_self] => (py_bindh (fun n_38 => (PList [(PExc n_38); v_self])) v_decr_text (fun a_30 =>
       (py_bindh (fun n_37 => (PList [(PExc n_37); v_self])) (p2_setattr v_self "xmlstr" a_30) (fun v_self =>
       (match p2_branch (p2_gt (p2_len v__enc_assertions) (PInt (0)%Z)) with
       | BTrue => (py_bindh (fun n_35 => (PList [(PExc n_35); v_self])) (p2_attr v_self "response") (fun v_self_response =>
       (py_bindh (fun n_34 => (PList [(PExc n_34); v_self])) (p2_setattr v_self_response "encrypted_assertion" (PList [])) (fun v_self_response =>
       (py_bindh (fun n_33 => (PList [(PExc n_33); v_self])) v_self_response (fun a_31 =>
       (py_bindh (fun n_32 => (PList [(PExc n_32); v_self])) (p2_setattr v_self "response" a_31) (fun v_self =>
       (k_100 v__enc_assertions v_resp v_decr_text v_decr_text_old v_all_assertions v_self_response v_self v_assertion)))))))))
       | BFalse => (k_100 v__enc_assertions v_resp v_decr_text v_decr_text_old v_all_assertions v_self_response v_self v_assertion)
       | BExc n_36 => (PList [(PExc n_36); v_self])
       | BErr => PErr
       end))))) | _ => PErr end
       | BrkS _ => PErr
       | RetS r_43 => r_43
       | ExcS n_44 st_41 => match st_41 with [v_assertion; v_self] => (PList [(PExc n_44); v_self]) | _ => PErr end
       end))))))))))))) in
      (match p2_branch (p2_gt (p2_len v_all_assertions) (PInt (0)%Z)) with
      | BTrue => (py_bindh (fun n_61 => (PList [(PExc n_61); v_self])) (p2_iter_check v_all_assertions) (fun it_55 =>
      (match pyfor2 (py_iter2 it_55) [] (fun st_56 x_57 => match st_56 with [] =>
       (let v_tmp_ass := x_57 in
       (match p2_branch (p2_and (p2_attr v_tmp_ass "advice") (p2_attr (p2_attr v_tmp_ass "advice") "encrypted_assertion")) with
       | BTrue => (ExcS "AdviceNotTied" [])
       | BFalse => (NextS [])
       | BExc n_60 => (ExcS n_60 [])
       | BErr => (RetS PErr)
       end))
      | _ => RetS PErr end) with
      | NextS st_56 => match st_56 with [] => (k_62 tt) | _ => PErr end
      | BrkS _ => PErr
      | RetS r_58 => r_58
      | ExcS n_59 st_56 => match st_56 with [] => (PList [(PExc n_59); v_self]) | _ => PErr end
      end)))
      | BFalse => (k_62 tt)
      | BExc n_62 => (PList [(PExc n_62); v_self])
      | BErr => PErr
      end)) in
     (match p2_branch (p2_attr v_resp "assertion") with
     | BTrue => (py_bindh (fun n_64 => (PList [(PExc n_64); v_self])) (p2_add v_all_assertions (p2_attr v_resp "assertion")) (fun v_all_assertions =>
     (k_65 v_all_assertions)))
     | BFalse => (k_65 v_all_assertions)
     | BExc n_65 => (PList [(PExc n_65); v_self])
     | BErr => PErr
     end)))) | _ => PErr end
     | BrkS _ => PErr
     | RetS r_69 => r_69
     | ExcS n_70 st_68 => match st_68 with [v_decr_text_old; v_decr_text; v_resp; v__enc_assertions] => (PList [(PExc n_70); v_self]) | _ => PErr end
     end)))) | _ => PErr end
     | BrkS _ => PErr
     | RetS r_87 => r_87
     | ExcS n_88 st_86 => match st_86 with [v_decr_text_old; v_decr_text; v_resp] => (PList [(PExc n_88); v_self]) | _ => PErr end
     end)))))))
     | BFalse => (k_100 v__enc_assertions v_resp v_decr_text v_decr_text_old v_all_assertions v_self_response v_self v_assertion)
     | BExc n_100 => (PList [(PExc n_100); v_self])
     | BErr => PErr
     end)) in
    (match p2_branch (p2_attr (p2_attr v_self "response") "assertion") with
    | BTrue => (py_bindh (fun n_109 => (PList [(PExc n_109); v_self])) (p2_iter_check (p2_attr (p2_attr v_self "response") "assertion")) (fun it_102 =>
    (match pyfor2 (py_iter2 it_102) [v_assertion] (fun st_103 x_104 => match st_103 with [v_assertion] =>
     (let v_assertion := x_104 in
     (match p2_branch (p2_not (py_bind v_assertion (fun a_107 => (assertion_ext v_self a_107 (PBool false))))) with
     | BTrue => (RetS (PList [(PBool false); v_self]))
     | BFalse => (NextS [v_assertion])
     | BExc n_108 => (ExcS n_108 [v_assertion])
     | BErr => (RetS PErr)
     end))
    | _ => RetS PErr end) with
    | NextS st_103 => match st_103 with [v_assertion] => (k_110 v_assertion) | _ => PErr end
    | BrkS _ => PErr
    | RetS r_105 => r_105
    | ExcS n_106 st_103 => match st_103 with [v_assertion] => (PList [(PExc n_106); v_self]) | _ => PErr end
    end)))
    | BFalse => (k_110 v_assertion)
    | BExc n_110 => (PList [(PExc n_110); v_self])
    | BErr => PErr
    end)) in
   (match p2_branch (p2_eq (p2_attr v_self "context") (PStr "AuthnQuery")) with
   | BTrue => (k_116 v_n_assertions v_n_assertions_enc)
   | BFalse => (py_bindh (fun n_115 => (PList [(PExc n_115); v_self])) (p2_len (p2_attr (p2_attr v_self "response") "assertion")) (fun v_n_assertions =>
   (py_bindh (fun n_114 => (PList [(PExc n_114); v_self])) (p2_len (p2_attr (p2_attr v_self "response") "encrypted_assertion")) (fun v_n_assertions_enc =>
   (match p2_branch (p2_and (p2_ne v_n_assertions (PInt (1)%Z)) (p2_and (p2_ne v_n_assertions_enc (PInt (1)%Z)) (p2_is_none (p2_attr v_self "assertion")))) with
   | BTrue => (py_bindh (fun n_112 => (PList [(PExc n_112); v_self])) (p2_fconcat [PStr "Invalid number of assertions in Response: "; p2_str (p2_add v_n_assertions v_n_assertions_enc)]) (fun _ =>
   (PList [(PExc "InvalidAssertion"); v_self])))
   | BFalse => (k_116 v_n_assertions v_n_assertions_enc)
   | BExc n_113 => (PList [(PExc n_113); v_self])
   | BErr => PErr
   end)))))
   | BExc n_116 => (PList [(PExc n_116); v_self])
   | BErr => PErr
   end)).
