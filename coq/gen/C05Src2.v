(* GENERATED on every run by harness/py2coq2.py from the current source text of /repo/src/saml2 — do not edit. *)
From Coq Require Import String Ascii List Bool ZArith.
From Verif Require Import Base.Str Base.Py Base.Py2.
Import ListNotations.
Open Scope string_scope.


(* saml2/validate.py:validate_on_or_after, lines 94-106 *)
Definition src2_validate_on_or_after (now : pyval) (to_secs : pyval -> pyval) (v_not_on_or_after : pyval) (v_slack : pyval) : pyval :=
  let v_now := PErr in
  let v_nooa := PErr in
  let v_now_str := PErr in
  (match p2_branch v_not_on_or_after with
   | BTrue => (py_bind now (fun v_now =>
   (py_bind (py_bind (py_bind v_not_on_or_after (fun a_1 => a_1)) (fun a_2 => (to_secs a_2))) (fun v_nooa =>
   (match p2_branch (p2_gt v_now (p2_add v_nooa v_slack)) with
   | BTrue => (py_bind (py_bind (py_bind v_now (fun a_4 => PNone)) (fun a_5 => PNone)) (fun v_now_str =>
   (py_bind (py_bind (PStr "Can't use response, too old (now=%s + slack=%d > not_on_or_after=%s") (fun a_6 => (py_bind (p2_mklist [v_now_str; v_slack; v_not_on_or_after]) (fun a_7 => PNone)))) (fun _ =>
   (PExc "ResponseLifetimeExceed")))))
   | BFalse => v_nooa
   | BExc n_8 => (PExc n_8)
   | BErr => PErr
   end)))))
   | BFalse => (PBool false)
   | BExc n_9 => (PExc n_9)
   | BErr => PErr
   end).

(* saml2/validate.py:validate_before, lines 109-116 *)
Definition src2_validate_before (now : pyval) (to_secs : pyval -> pyval) (v_not_before : pyval) (v_slack : pyval) : pyval :=
  let v_now := PErr in
  let v_nbefore := PErr in
  let v_now_str := PErr in
  (match p2_branch v_not_before with
   | BTrue => (py_bind now (fun v_now =>
   (py_bind (py_bind (py_bind v_not_before (fun a_2 => a_2)) (fun a_3 => (to_secs a_3))) (fun v_nbefore =>
   (match p2_branch (p2_gt v_nbefore (p2_add v_now v_slack)) with
   | BTrue => (py_bind (py_bind (py_bind v_now (fun a_4 => PNone)) (fun a_5 => PNone)) (fun v_now_str =>
   (py_bind (p2_fconcat [PStr "Can't use response yet: (now="; p2_str v_now_str; PStr " + slack="; p2_str (p2_int v_slack); PStr ") <= notbefore="; p2_str v_not_before]) (fun _ =>
   (PExc "ToEarly")))))
   | BFalse => (PBool true)
   | BExc n_6 => (PExc n_6)
   | BErr => PErr
   end)))))
   | BFalse => (PBool true)
   | BExc n_7 => (PExc n_7)
   | BErr => PErr
   end).

(* saml2/time_util.py:later_than, lines 304-320 *)
Definition src2_later_than (parse : pyval -> pyval) (gmtime : pyval -> pyval) (v_after : pyval) (v_before : pyval) : pyval :=
  (let k_14 := fun v_after =>
    (let k_9 := fun v_before =>
     (match p2_branch (p2_is_none v_before) with
     | BTrue => (PBool true)
     | BFalse => (match p2_branch (p2_is_none v_after) with
     | BTrue => (PBool false)
     | BFalse => (p2_ge v_after v_before)
     | BExc n_2 => (PExc n_2)
     | BErr => PErr
     end)
     | BExc n_4 => (PExc n_4)
     | BErr => PErr
     end) in
    (match p2_branch (p2_isinstance v_before ["str"] []) with
    | BTrue => (py_bind (py_bind v_before (fun a_6 => (parse a_6))) (fun v_before =>
    (k_9 v_before)))
    | BFalse => (match p2_branch (p2_isinstance v_before ["int"] []) with
    | BTrue => (py_bind (py_bind v_before (fun a_7 => (gmtime a_7))) (fun v_before =>
    (k_9 v_before)))
    | BFalse => (k_9 v_before)
    | BExc n_8 => (PExc n_8)
    | BErr => PErr
    end)
    | BExc n_9 => (PExc n_9)
    | BErr => PErr
    end)) in
   (match p2_branch (p2_isinstance v_after ["str"] []) with
   | BTrue => (py_bind (py_bind v_after (fun a_11 => (parse a_11))) (fun v_after =>
   (k_14 v_after)))
   | BFalse => (match p2_branch (p2_isinstance v_after ["int"] []) with
   | BTrue => (py_bind (py_bind v_after (fun a_12 => (gmtime a_12))) (fun v_after =>
   (k_14 v_after)))
   | BFalse => (k_14 v_after)
   | BExc n_13 => (PExc n_13)
   | BErr => PErr
   end)
   | BExc n_14 => (PExc n_14)
   | BErr => PErr
   end)).

(* saml2/response.py:authn_response, lines 226-254 *)
Definition src2_authn_response (security_context : pyval -> pyval) (int_ : pyval -> pyval) (v_conf : pyval) (v_return_addrs : pyval) (v_outstanding_queries : pyval) (v_timeslack : pyval) (v_asynchop : pyval) (v_allow_unsolicited : pyval) (v_want_assertions_signed : pyval) (v_conv_info : pyval) : pyval :=
  let v_sec := PErr in
  (py_bind (py_bind v_conf (fun a_1 => (security_context a_1))) (fun v_sec =>
   (let k_16 := fun v_timeslack =>
    (py_bind v_sec (fun a_2 => (py_bind (p2_attr v_conf "attribute_converters") (fun a_3 => (py_bind (p2_attr v_conf "entityid") (fun a_4 => (py_bind v_return_addrs (fun a_5 => (py_bind v_outstanding_queries (fun a_6 => (py_bind v_timeslack (fun a_7 => (py_bind v_asynchop (fun a_8 => (py_bind v_allow_unsolicited (fun a_9 => (py_bind v_want_assertions_signed (fun a_10 => (py_bind v_conv_info (fun a_11 => (p2_mkdict [("arg0", a_2); ("arg1", a_3); ("arg2", a_4); ("arg3", a_5); ("arg4", a_6); ("arg5", a_7); ("asynchop", a_8); ("allow_unsolicited", a_9); ("want_assertions_signed", a_10); ("conv_info", a_11)]))))))))))))))))))))) in
   (match p2_branch (p2_not v_timeslack) with
   | BTrue => (py_bindh (fun n_15 => (if exc_matches n_15 ["TypeError"]
   then (let v_timeslack := (PInt (0)%Z) in
   (k_16 v_timeslack))
   else (PExc n_15))) (py_bind (p2_attr v_conf "accepted_time_diff") (fun a_14 => (int_ a_14))) (fun v_timeslack =>
   (k_16 v_timeslack)))
   | BFalse => (k_16 v_timeslack)
   | BExc n_16 => (PExc n_16)
   | BErr => PErr
   end)))).

(* saml2/response.py:AuthnResponse.authn_statement_ok, lines 558-575 *)
Definition src2_authn_statement_ok (now : pyval) (to_secs : pyval -> pyval) (v_self : pyval) (v_optional : pyval) : pyval :=
  let v_n_authn_statements := PErr in
  let v_msg := PErr in
  let v_authn_statement := PErr in
  (py_bindh (fun n_17 => (PList [(PExc n_17); v_self])) (p2_len (p2_attr (p2_attr v_self "assertion") "authn_statement")) (fun v_n_authn_statements =>
   (match p2_branch (p2_ne v_n_authn_statements (PInt (1)%Z)) with
   | BTrue => (match p2_branch v_optional with
   | BTrue => (PList [(PBool true); v_self])
   | BFalse => (py_bindh (fun n_14 => (PList [(PExc n_14); v_self])) (p2_fconcat [PStr "Invalid number of AuthnStatement found in Response: "; p2_str v_n_authn_statements]) (fun v_msg =>
   (py_bindh (fun n_13 => (PList [(PExc n_13); v_self])) v_msg (fun _ =>
   (PList [(PExc "ValueError"); v_self])))))
   | BExc n_15 => (PList [(PExc n_15); v_self])
   | BErr => PErr
   end)
   | BFalse => (py_bindh (fun n_11 => (PList [(PExc n_11); v_self])) (p2_getitem (p2_attr (p2_attr v_self "assertion") "authn_statement") (PInt (0)%Z)) (fun v_authn_statement =>
   (match p2_branch (p2_attr v_authn_statement "session_not_on_or_after") with
   | BTrue => (match p2_branch (py_bind (p2_attr v_authn_statement "session_not_on_or_after") (fun a_2 => (py_bind (p2_attr v_self "timeslack") (fun a_3 => (src2_validate_on_or_after now to_secs a_2 a_3))))) with
   | BTrue => (py_bindh (fun n_8 => (PList [(PExc n_8); v_self])) (py_bind (py_bind (p2_attr v_authn_statement "session_not_on_or_after") (fun a_4 => a_4)) (fun a_5 => (to_secs a_5))) (fun a_6 =>
   (py_bindh (fun n_7 => (PList [(PExc n_7); v_self])) (p2_setattr v_self "session_not_on_or_after" a_6) (fun v_self =>
   (PList [(PBool true); v_self])))))
   | BFalse => (PList [(PBool false); v_self])
   | BExc n_9 => (PList [(PExc n_9); v_self])
   | BErr => PErr
   end)
   | BFalse => (PList [(PBool true); v_self])
   | BExc n_10 => (PList [(PExc n_10); v_self])
   | BErr => PErr
   end)))
   | BExc n_16 => (PList [(PExc n_16); v_self])
   | BErr => PErr
   end))).

(* saml2/response.py:AuthnResponse.condition_ok, lines 578-627 *)
Definition src2_condition_ok (now : pyval) (to_secs : pyval -> pyval) (parse : pyval -> pyval) (gmtime : pyval -> pyval) (keyswv : pyval -> pyval) (for_me : pyval -> pyval -> pyval) (XSI_TYPE : pyval) (v_self : pyval) (v_lax : pyval) : pyval :=
  let v_conditions := PErr in
  let v_excp := PErr in
  (match p2_branch (p2_not (p2_attr (p2_attr v_self "assertion") "conditions")) with
   | BTrue => (PList [(PBool true); v_self])
   | BFalse => (let k_41 := fun v_lax =>
    (py_bindh (fun n_39 => (PList [(PExc n_39); v_self])) (p2_attr (p2_attr v_self "assertion") "conditions") (fun v_conditions =>
    (match p2_branch (p2_not (keyswv v_conditions)) with
    | BTrue => (PList [(PBool true); v_self])
    | BFalse => (let k_36 := fun (_ : unit) =>
     (let k_31 := fun v_self v_excp =>
      (let k_16 := fun (_ : unit) =>
       (match p2_branch (p2_attr v_conditions "condition") with
       | BTrue => (py_bindh (fun n_9 => (PList [(PExc n_9); v_self])) (p2_iter_check (p2_attr v_conditions "condition")) (fun it_2 =>
       (match pyfor2 (py_iter2 it_2) [] (fun st_3 x_4 => match st_3 with [] =>
        (let v_cond := x_4 in
        (let h_7 := fun n_7 =>
         (if exc_matches n_7 ["KeyError"]
         then (ExcS "Exception" [])
         else (ExcS n_7 [])) in
        (match p2_branch (p2_in (p2_getitem (p2_attr v_cond "extension_attributes") XSI_TYPE) (p2_attr v_self "extension_schema")) with
        | BTrue => (NextS [])
        | BFalse => (h_7 "Exception")
        | BExc n_8 => (h_7 n_8)
        | BErr => (RetS PErr)
        end)))
       | _ => RetS PErr end) with
       | NextS st_3 => match st_3 with [] => (PList [(PBool true); v_self]) | _ => PErr end
       | BrkS _ => PErr
       | RetS r_5 => r_5
       | ExcS n_6 st_3 => match st_3 with [] => (PList [(PExc n_6); v_self]) | _ => PErr end
       end)))
       | BFalse => (PList [(PBool true); v_self])
       | BExc n_10 => (PList [(PExc n_10); v_self])
       | BErr => PErr
       end) in
      (match p2_branch (p2_not (py_bind v_conditions (fun a_12 => (py_bind (p2_attr v_self "entity_id") (fun a_13 => (for_me a_12 a_13)))))) with
      | BTrue => (match p2_branch (p2_not v_lax) with
      | BTrue => (py_bindh (fun n_14 => (PList [(PExc n_14); v_self])) (p2_fconcat [PStr "AudienceRestrictions conditions not satisfied! (Local entity_id="; p2_str (p2_attr v_self "entity_id"); PStr ")"]) (fun _ =>
      (PList [(PExc "Exception"); v_self])))
      | BFalse => (k_16 tt)
      | BExc n_15 => (PList [(PExc n_15); v_self])
      | BErr => PErr
      end)
      | BFalse => (k_16 tt)
      | BExc n_16 => (PList [(PExc n_16); v_self])
      | BErr => PErr
      end)) in
     (let h_18 := fun n_18 v_self =>
      (let v_excp := PExc n_18 in
      (match p2_branch (p2_not v_lax) with
      | BTrue => (PList [(PExc n_18); v_self])
      | BFalse => (py_bindh (fun n_19 => (PList [(PExc n_19); v_self])) (p2_setattr v_self "not_on_or_after" (PInt (0)%Z)) (fun v_self =>
      (let v_excp := PErr in (k_31 v_self v_excp))))
      | BExc n_20 => (PList [(PExc n_20); v_self])
      | BErr => PErr
      end)) in
     (let k_31 := fun v_self =>
      (match p2_branch (p2_attr v_conditions "not_before") with
      | BTrue => (py_bindh (fun n_23 => (h_18 n_23 v_self)) (py_bind (p2_attr v_conditions "not_before") (fun a_21 => (py_bind (p2_attr v_self "timeslack") (fun a_22 => (src2_validate_before now to_secs a_21 a_22))))) (fun _ =>
      (k_31 v_self v_excp)))
      | BFalse => (k_31 v_self v_excp)
      | BExc n_24 => (h_18 n_24 v_self)
      | BErr => PErr
      end) in
     (match p2_branch (p2_attr v_conditions "not_on_or_after") with
     | BTrue => (py_bindh (fun n_30 => (h_18 n_30 v_self)) (py_bind (p2_attr v_conditions "not_on_or_after") (fun a_26 => (py_bind (p2_attr v_self "timeslack") (fun a_27 => (src2_validate_on_or_after now to_secs a_26 a_27))))) (fun a_28 =>
     (py_bindh (fun n_29 => (h_18 n_29 v_self)) (p2_setattr v_self "not_on_or_after" a_28) (fun v_self =>
     (k_31 v_self)))))
     | BFalse => (k_31 v_self)
     | BExc n_31 => (h_18 n_31 v_self)
     | BErr => PErr
     end)))) in
    (match p2_branch (p2_and (p2_attr v_conditions "not_before") (p2_attr v_conditions "not_on_or_after")) with
    | BTrue => (match p2_branch (p2_not (py_bind (p2_attr v_conditions "not_on_or_after") (fun a_33 => (py_bind (p2_attr v_conditions "not_before") (fun a_34 => (src2_later_than parse gmtime a_33 a_34)))))) with
    | BTrue => (PList [(PBool false); v_self])
    | BFalse => (k_36 tt)
    | BExc n_35 => (PList [(PExc n_35); v_self])
    | BErr => PErr
    end)
    | BFalse => (k_36 tt)
    | BExc n_36 => (PList [(PExc n_36); v_self])
    | BErr => PErr
    end))
    | BExc n_38 => (PList [(PExc n_38); v_self])
    | BErr => PErr
    end))) in
   (match p2_branch (p2_attr v_self "test") with
   | BTrue => (let v_lax := (PBool true) in
   (k_41 v_lax))
   | BFalse => (k_41 v_lax)
   | BExc n_41 => (PList [(PExc n_41); v_self])
   | BErr => PErr
   end))
   | BExc n_43 => (PList [(PExc n_43); v_self])
   | BErr => PErr
   end).

(* saml2/response.py:AuthnResponse._bearer_confirmed, lines 691-728 *)
Definition src2_bearer_confirmed (now : pyval) (to_secs : pyval -> pyval) (parse : pyval -> pyval) (gmtime : pyval -> pyval) (valid_address : pyval -> pyval) (v_self : pyval) (v_data : pyval) : pyval :=
  (match p2_branch (p2_not v_data) with
   | BTrue => (PList [(PBool false); v_self])
   | BFalse => (let k_25 := fun (_ : unit) =>
    (py_bindh (fun n_21 => (PList [(PExc n_21); v_self])) (py_bind (p2_attr v_data "not_on_or_after") (fun a_1 => (py_bind (p2_attr v_self "timeslack") (fun a_2 => (src2_validate_on_or_after now to_secs a_1 a_2))))) (fun _ =>
    (py_bindh (fun n_20 => (PList [(PExc n_20); v_self])) (py_bind (p2_attr v_data "not_before") (fun a_3 => (py_bind (p2_attr v_self "timeslack") (fun a_4 => (src2_validate_before now to_secs a_3 a_4))))) (fun _ =>
    (match p2_branch (p2_not (py_bind (p2_attr v_data "not_on_or_after") (fun a_17 => (py_bind (p2_attr v_data "not_before") (fun a_18 => (src2_later_than parse gmtime a_17 a_18)))))) with
    | BTrue => (PList [(PBool false); v_self])
    | BFalse => (let k_15 := fun (_ : unit) =>
     (match p2_branch (p2_and (p2_attr v_self "asynchop") (p2_is_none (p2_attr v_self "came_from"))) with
     | BTrue => (match p2_branch (p2_attr v_data "in_response_to") with
     | BTrue => (match p2_branch (p2_in (p2_attr v_data "in_response_to") (p2_attr v_self "outstanding_queries")) with
     | BTrue => (py_bindh (fun n_8 => (PList [(PExc n_8); v_self])) (p2_getitem (p2_attr v_self "outstanding_queries") (p2_attr v_data "in_response_to")) (fun a_6 =>
     (py_bindh (fun n_7 => (PList [(PExc n_7); v_self])) (p2_setattr v_self "came_from" a_6) (fun v_self =>
     (PList [(PBool true); v_self])))))
     | BFalse => (match p2_branch (p2_attr v_self "allow_unsolicited") with
     | BTrue => (PList [(PBool true); v_self])
     | BFalse => (PList [(PExc "Exception"); v_self])
     | BExc n_9 => (PList [(PExc n_9); v_self])
     | BErr => PErr
     end)
     | BExc n_10 => (PList [(PExc n_10); v_self])
     | BErr => PErr
     end)
     | BFalse => (PList [(PBool true); v_self])
     | BExc n_11 => (PList [(PExc n_11); v_self])
     | BErr => PErr
     end)
     | BFalse => (PList [(PBool true); v_self])
     | BExc n_12 => (PList [(PExc n_12); v_self])
     | BErr => PErr
     end) in
    (match p2_branch (p2_and (p2_attr v_self "asynchop") (p2_in (p2_attr v_self "in_response_to") (p2_attr v_self "outstanding_queries"))) with
    | BTrue => (match p2_branch (p2_ne (p2_attr v_data "in_response_to") (p2_attr v_self "in_response_to")) with
    | BTrue => (PList [(PBool false); v_self])
    | BFalse => (k_15 tt)
    | BExc n_14 => (PList [(PExc n_14); v_self])
    | BErr => PErr
    end)
    | BFalse => (k_15 tt)
    | BExc n_15 => (PList [(PExc n_15); v_self])
    | BErr => PErr
    end))
    | BExc n_19 => (PList [(PExc n_19); v_self])
    | BErr => PErr
    end))))) in
   (match p2_branch (p2_attr v_data "address") with
   | BTrue => (match p2_branch (p2_not (py_bind (p2_attr v_data "address") (fun a_23 => (valid_address a_23)))) with
   | BTrue => (PList [(PBool false); v_self])
   | BFalse => (k_25 tt)
   | BExc n_24 => (PList [(PExc n_24); v_self])
   | BErr => PErr
   end)
   | BFalse => (k_25 tt)
   | BExc n_25 => (PList [(PExc n_25); v_self])
   | BErr => PErr
   end))
   | BExc n_27 => (PList [(PExc n_27); v_self])
   | BErr => PErr
   end).

(* saml2/response.py:AuthnResponse.session_info, lines 1110-1140 *)
Definition src2_session_info (issuer : pyval -> pyval) (authz_decision_info : pyval -> pyval) (authn_info : pyval -> pyval) (v_self : pyval) : pyval :=
  let v_nooa := PErr in
  let v_authn_statement := PErr in
  (let k_4 := fun v_nooa =>
    (match p2_branch (p2_eq (p2_attr v_self "context") (PStr "AuthzQuery")) with
    | BTrue => (p2_mkdict [("name_id", (p2_attr v_self "name_id")); ("came_from", (p2_attr v_self "came_from")); ("issuer", (issuer v_self)); ("not_on_or_after", v_nooa); ("authz_decision_info", (authz_decision_info v_self))])
    | BFalse => (match p2_branch (p2_getattr3 (p2_attr v_self "assertion") "authn_statement" PNone) with
    | BTrue => (py_bind (p2_getitem (p2_attr (p2_attr v_self "assertion") "authn_statement") (PInt (0)%Z)) (fun v_authn_statement =>
    (p2_mkdict [("ava", (p2_attr v_self "ava")); ("name_id", (p2_attr v_self "name_id")); ("came_from", (p2_attr v_self "came_from")); ("issuer", (issuer v_self)); ("not_on_or_after", v_nooa); ("authn_info", (authn_info v_self)); ("session_index", (p2_attr v_authn_statement "session_index"))])))
    | BFalse => (PExc "StatusInvalidAuthnResponseStatement")
    | BExc n_1 => (PExc n_1)
    | BErr => PErr
    end)
    | BExc n_2 => (PExc n_2)
    | BErr => PErr
    end) in
   (match p2_branch (p2_gt (p2_attr v_self "session_not_on_or_after") (PInt (0)%Z)) with
   | BTrue => (py_bind (p2_attr v_self "session_not_on_or_after") (fun v_nooa =>
   (k_4 v_nooa)))
   | BFalse => (py_bind (p2_attr v_self "not_on_or_after") (fun v_nooa =>
   (k_4 v_nooa)))
   | BExc n_4 => (PExc n_4)
   | BErr => PErr
   end)).
