(* GENERATED on every run by harness/py2coq2.py from the current source text of /repo/src/saml2 — do not edit. *)
From Coq Require Import String Ascii List Bool ZArith.
From Verif Require Import Base.Str Base.Py Base.Py2.
Import ListNotations.
Open Scope string_scope.


(* saml2/ident.py:code, lines 28-45 *)
Definition src2_code (quote : string -> string) (v_item : pyval) : pyval :=
  let v__res := PErr in
  let v_i := PErr in
  let v_val := PErr in
  (let v__res := (PList []) in
   (let v_i := (PInt (0)%Z) in
   (py_bind (p2_iter_check (PList [(PStr "name_qualifier"); (PStr "sp_name_qualifier"); (PStr "format"); (PStr "sp_provided_id"); (PStr "text")])) (fun it_2 =>
   (match pyfor2 (py_iter2 it_2) [v_val; v__res; v_i] (fun st_3 x_4 => match st_3 with [v_val; v__res; v_i] =>
    (let v_attr := x_4 in
    (py_bindS (fun n_12 => (ExcS n_12 [v_val; v__res; v_i])) (p2_getattr_dyn false v_item v_attr) (fun v_val =>
    (let k_11 := fun v__res =>
     (py_bindS (fun n_7 => (ExcS n_7 [v_val; v__res; v_i])) (p2_add v_i (PInt (1)%Z)) (fun v_i =>
     (NextS [v_val; v__res; v_i]))) in
    (match p2_branch v_val with
    | BTrue => (py_bindS (fun n_10 => (ExcS n_10 [v_val; v__res; v_i])) (p2_append v__res (p2_fconcat [p2_str (p2_int v_i); PStr "="; p2_str (py_bind v_val (fun a_9 => (match a_9 with PStr s_ => PStr (quote s_) | _ => PErr end)))])) (fun v__res =>
    (k_11 v__res)))
    | BFalse => (k_11 v__res)
    | BExc n_11 => (ExcS n_11 [v_val; v__res; v_i])
    | BErr => (RetS PErr)
    end)))))
   | _ => RetS PErr end) with
   | NextS st_3 => match st_3 with [v_val; v__res; v_i] => (p2_join (PStr ",") v__res) | _ => PErr end
   | BrkS _ => PErr
   | RetS r_5 => r_5
   | ExcS n_6 st_3 => match st_3 with [v_val; v__res; v_i] => (PExc n_6) | _ => PErr end
   end))))).

(* saml2/ident.py:decode, lines 58-71 *)
Definition src2_decode (unquote : string -> string) (v_txt : pyval) : pyval :=
  let v__nid := PErr in
  let v_i := PErr in
  let v_val := PErr in
  (py_bind (PObj [("__class__", PStr "NameID"); ("name_qualifier", PNone); ("sp_name_qualifier", PNone); ("format", PNone); ("sp_provided_id", PNone); ("text", PNone)]) (fun v__nid =>
   (py_bind (p2_iter_check (p2_split v_txt (PStr ","))) (fun it_2 =>
   (match pyfor2 (py_iter2 it_2) [v_i; v_val; v__nid] (fun st_3 x_4 => match st_3 with [v_i; v_val; v__nid] =>
    (let v_part := x_4 in
    (match p2_branch (p2_ne (p2_find v_part (PStr "=")) (PInt (-1)%Z)) with
    | BTrue => (py_bindS (fun n_16 => (ExcS n_16 [v_i; v_val; v__nid])) (p2_split v_part (PStr "=")) (fun a_7 =>
    (match p2_unpack 2 a_7 with
    | PList [v_i; v_val] => (let h_8 := fun n_8 v__nid =>
     (NextS [v_i; v_val; v__nid]) in
    (py_bindS (fun n_14 => (h_8 n_14 v__nid)) (p2_getitem (PList [(PStr "name_qualifier"); (PStr "sp_name_qualifier"); (PStr "format"); (PStr "sp_provided_id"); (PStr "text")]) (p2_int v_i)) (fun a_9 =>
    (py_bindS (fun n_13 => (h_8 n_13 v__nid)) (py_bind v_val (fun a_10 => (match a_10 with PStr s_ => PStr (unquote s_) | _ => PErr end))) (fun a_11 =>
    (py_bindS (fun n_12 => (h_8 n_12 v__nid)) (p2_setattr_dyn v__nid a_9 a_11) (fun v__nid =>
    (NextS [v_i; v_val; v__nid]))))))))
    | PExc n_15 => (ExcS n_15 [v_i; v_val; v__nid])
    | _ => (RetS PErr)
    end)))
    | BFalse => (NextS [v_i; v_val; v__nid])
    | BExc n_17 => (ExcS n_17 [v_i; v_val; v__nid])
    | BErr => (RetS PErr)
    end))
   | _ => RetS PErr end) with
   | NextS st_3 => match st_3 with [v_i; v_val; v__nid] => v__nid | _ => PErr end
   | BrkS _ => PErr
   | RetS r_5 => r_5
   | ExcS n_6 st_3 => match st_3 with [v_i; v_val; v__nid] => (PExc n_6) | _ => PErr end
   end))))).

(* saml2/ident.py:IdentDB.store, lines 108-123 *)
Definition src2_store (quote : string -> string) (v_self : pyval) (v_ident : pyval) (v_name_id : pyval) : pyval :=
  let v_val := PErr in
  let v__cn := PErr in
  (let k_16 := fun v_val =>
    (py_bindh (fun n_13 => (PList [(PExc n_13); v_self])) (py_bind v_name_id (fun a_1 => (src2_code quote a_1))) (fun v__cn =>
    (py_bindh (fun n_12 => (PList [(PExc n_12); v_self])) (p2_append v_val v__cn) (fun v_val =>
    (py_bindh (fun n_11 => (PList [(PExc n_11); v_self])) (p2_join (PStr " ") v_val) (fun a_2 =>
    (py_bindh (fun n_10 => (PList [(PExc n_10); v_self])) v_ident (fun a_3 =>
    (py_bindh (fun n_9 => (PList [(PExc n_9); v_self])) (p2_setattr v_self "db" (p2_setitem (p2_attr v_self "db") a_3 a_2)) (fun v_self =>
    (py_bindh (fun n_8 => (PList [(PExc n_8); v_self])) v_ident (fun a_4 =>
    (py_bindh (fun n_7 => (PList [(PExc n_7); v_self])) (p2_attr v_name_id "text") (fun a_5 =>
    (py_bindh (fun n_6 => (PList [(PExc n_6); v_self])) (p2_setattr v_self "db" (p2_setitem (p2_attr v_self "db") a_5 a_4)) (fun v_self =>
    (PList [PNone; v_self]))))))))))))))))) in
   (py_bindh (fun n_16 => (if exc_matches n_16 ["KeyError"]
   then (let v_val := (PList []) in
   (k_16 v_val))
   else (PList [(PExc n_16); v_self]))) (p2_listcomp (p2_split (p2_getitem (p2_attr v_self "db") v_ident) (PStr " ")) (fun v_v => v_v) (fun v_v => v_v)) (fun v_val =>
   (k_16 v_val)))).

(* saml2/ident.py:IdentDB.find_local_id, lines 276-289 *)
Definition src2_find_local_id (v_self : pyval) (v_name_id : pyval) : pyval :=
  (py_bindh (fun n_3 => (if exc_matches n_3 ["KeyError"]
   then PNone
   else (PExc n_3))) (p2_getitem (p2_attr v_self "db") (p2_attr v_name_id "text")) (fun r_2 =>
   r_2)).

(* saml2/ident.py:IdentDB.match_local_id, lines 291-313 *)
Definition src2_match_local_id (decode_ : pyval -> pyval) (v_self : pyval) (v_userid : pyval) (v_sp_name_qualifier : pyval) (v_name_qualifier : pyval) : pyval :=
  let v_nid := PErr in
  let v_snq := PErr in
  let v_nq := PErr in
  (let h_2 := fun n_2 v_nid v_snq v_nq =>
    (if exc_matches n_2 ["KeyError"]
    then PNone
    else (PExc n_2)) in
   (py_bindh (fun n_29 => (h_2 n_29 v_nid v_snq v_nq)) (p2_iter_check (p2_split (p2_getitem (p2_attr v_self "db") v_userid) (PStr " "))) (fun it_3 =>
   (match pyfor2 (py_iter2 it_3) [v_nid; v_snq; v_nq] (fun st_4 x_5 => match st_4 with [v_nid; v_snq; v_nq] =>
    (let v_val := x_5 in
    (py_bindS (fun n_28 => (ExcS n_28 [v_nid; v_snq; v_nq])) (py_bind v_val (fun a_8 => (decode_ a_8))) (fun v_nid =>
    (match p2_branch (p2_ne (p2_attr v_nid "format") (PStr "urn:oasis:names:tc:SAML:2.0:nameid-format:persistent")) with
    | BTrue => (NextS [v_nid; v_snq; v_nq])
    | BFalse => (py_bindS (fun n_25 => (ExcS n_25 [v_nid; v_snq; v_nq])) (p2_getattr3 v_nid "sp_name_qualifier" (PStr "")) (fun v_snq =>
    (match p2_branch (p2_and v_snq (p2_eq v_snq v_sp_name_qualifier)) with
    | BTrue => (py_bindS (fun n_15 => (ExcS n_15 [v_nid; v_snq; v_nq])) (p2_getattr3 v_nid "name_qualifier" PNone) (fun v_nq =>
    (match p2_branch (p2_and v_nq (p2_eq v_nq v_name_qualifier)) with
    | BTrue => (py_bindS (fun n_10 => (ExcS n_10 [v_nid; v_snq; v_nq])) v_nid (fun r_9 =>
    (RetS r_9)))
    | BFalse => (match p2_branch (p2_and (p2_not v_nq) (p2_not v_name_qualifier)) with
    | BTrue => (py_bindS (fun n_12 => (ExcS n_12 [v_nid; v_snq; v_nq])) v_nid (fun r_11 =>
    (RetS r_11)))
    | BFalse => (NextS [v_nid; v_snq; v_nq])
    | BExc n_13 => (ExcS n_13 [v_nid; v_snq; v_nq])
    | BErr => (RetS PErr)
    end)
    | BExc n_14 => (ExcS n_14 [v_nid; v_snq; v_nq])
    | BErr => (RetS PErr)
    end)))
    | BFalse => (match p2_branch (p2_and (p2_not v_snq) (p2_not v_sp_name_qualifier)) with
    | BTrue => (py_bindS (fun n_22 => (ExcS n_22 [v_nid; v_snq; v_nq])) (p2_getattr3 v_nid "name_qualifier" PNone) (fun v_nq =>
    (match p2_branch (p2_and v_nq (p2_eq v_nq v_name_qualifier)) with
    | BTrue => (py_bindS (fun n_17 => (ExcS n_17 [v_nid; v_snq; v_nq])) v_nid (fun r_16 =>
    (RetS r_16)))
    | BFalse => (match p2_branch (p2_and (p2_not v_nq) (p2_not v_name_qualifier)) with
    | BTrue => (py_bindS (fun n_19 => (ExcS n_19 [v_nid; v_snq; v_nq])) v_nid (fun r_18 =>
    (RetS r_18)))
    | BFalse => (NextS [v_nid; v_snq; v_nq])
    | BExc n_20 => (ExcS n_20 [v_nid; v_snq; v_nq])
    | BErr => (RetS PErr)
    end)
    | BExc n_21 => (ExcS n_21 [v_nid; v_snq; v_nq])
    | BErr => (RetS PErr)
    end)))
    | BFalse => (NextS [v_nid; v_snq; v_nq])
    | BExc n_23 => (ExcS n_23 [v_nid; v_snq; v_nq])
    | BErr => (RetS PErr)
    end)
    | BExc n_24 => (ExcS n_24 [v_nid; v_snq; v_nq])
    | BErr => (RetS PErr)
    end)))
    | BExc n_27 => (ExcS n_27 [v_nid; v_snq; v_nq])
    | BErr => (RetS PErr)
    end))))
   | _ => RetS PErr end) with
   | NextS st_4 => match st_4 with [v_nid; v_snq; v_nq] => PNone | _ => PErr end
   | BrkS _ => PErr
   | RetS r_6 => r_6
   | ExcS n_7 st_4 => match st_4 with [v_nid; v_snq; v_nq] => (h_2 n_7 v_nid v_snq v_nq) | _ => PErr end
   end)))).

(* saml2/ident.py:IdentDB.handle_name_id_mapping_request, lines 315-340 *)
Definition src2_name_id_mapping (decode_ : pyval -> pyval) (construct_ : pyval -> pyval -> pyval -> pyval) (v_self : pyval) (v_name_id : pyval) (v_name_id_policy : pyval) : pyval :=
  let v__id := PErr in
  let v__nid := PErr in
  (py_bind (py_bind v_name_id (fun a_1 => (src2_find_local_id v_self a_1))) (fun v__id =>
   (match p2_branch (p2_not v__id) with
   | BTrue => (PExc "Unknown")
   | BFalse => (py_bind (p2_iter_check (p2_split (p2_getitem (p2_attr v_self "db") v__id) (PStr " "))) (fun it_7 =>
   (match pyfor2 (py_iter2 it_7) [v__nid] (fun st_8 x_9 => match st_8 with [v__nid] =>
    (let v_val := x_9 in
    (py_bindS (fun n_17 => (ExcS n_17 [v__nid])) (py_bind v_val (fun a_12 => (decode_ a_12))) (fun v__nid =>
    (match p2_branch (p2_eq (p2_attr v__nid "format") (p2_attr v_name_id_policy "format")) with
    | BTrue => (match p2_branch (p2_eq (p2_attr v__nid "sp_name_qualifier") (p2_attr v_name_id_policy "sp_name_qualifier")) with
    | BTrue => (py_bindS (fun n_14 => (ExcS n_14 [v__nid])) v__nid (fun r_13 =>
    (RetS r_13)))
    | BFalse => (NextS [v__nid])
    | BExc n_15 => (ExcS n_15 [v__nid])
    | BErr => (RetS PErr)
    end)
    | BFalse => (NextS [v__nid])
    | BExc n_16 => (ExcS n_16 [v__nid])
    | BErr => (RetS PErr)
    end))))
   | _ => RetS PErr end) with
   | NextS st_8 => match st_8 with [v__nid] => (match p2_branch (p2_eq (p2_attr v_name_id_policy "allow_create") (PStr "false")) with
   | BTrue => (PExc "PolicyError")
   | BFalse => (py_bind v__id (fun a_2 => (py_bind v_name_id_policy (fun a_3 => (construct_ v_self a_2 a_3)))))
   | BExc n_5 => (PExc n_5)
   | BErr => PErr
   end) | _ => PErr end
   | BrkS _ => PErr
   | RetS r_10 => r_10
   | ExcS n_11 st_8 => match st_8 with [v__nid] => (PExc n_11) | _ => PErr end
   end)))
   | BExc n_19 => (PExc n_19)
   | BErr => PErr
   end))).

(* saml2/ident.py:IdentDB.nim_args, lines 213-241 *)
Definition src2_nim_args (lp_format : pyval -> pyval -> pyval) (v_self : pyval) (v_local_policy : pyval) (v_sp_name_qualifier : pyval) (v_name_id_policy : pyval) (v_name_qualifier : pyval) : pyval :=
  let v_requester := PErr in
  let v_nameid_format := PErr in
  (py_bind v_sp_name_qualifier (fun v_requester =>
   (let k_8 := fun v_sp_name_qualifier =>
    (let k_6 := fun v_nameid_format =>
     (let k_2 := fun v_name_qualifier =>
      (p2_mkdict [("nformat", v_nameid_format); ("sp_name_qualifier", v_sp_name_qualifier); ("name_qualifier", v_name_qualifier)]) in
     (match p2_branch (p2_not v_name_qualifier) with
     | BTrue => (py_bind (p2_attr v_self "name_qualifier") (fun v_name_qualifier =>
     (k_2 v_name_qualifier)))
     | BFalse => (k_2 v_name_qualifier)
     | BExc n_2 => (PExc n_2)
     | BErr => PErr
     end)) in
    (match p2_branch (p2_and v_name_id_policy (p2_attr v_name_id_policy "format")) with
    | BTrue => (py_bind (p2_attr v_name_id_policy "format") (fun v_nameid_format =>
    (k_6 v_nameid_format)))
    | BFalse => (match p2_branch v_local_policy with
    | BTrue => (py_bind (py_bind v_requester (fun a_4 => (lp_format v_local_policy a_4))) (fun v_nameid_format =>
    (k_6 v_nameid_format)))
    | BFalse => (PExc "SAMLError")
    | BExc n_5 => (PExc n_5)
    | BErr => PErr
    end)
    | BExc n_6 => (PExc n_6)
    | BErr => PErr
    end)) in
   (match p2_branch (p2_and v_name_id_policy (p2_attr v_name_id_policy "sp_name_qualifier")) with
   | BTrue => (py_bind (p2_attr v_name_id_policy "sp_name_qualifier") (fun v_sp_name_qualifier =>
   (k_8 v_sp_name_qualifier)))
   | BFalse => (k_8 v_sp_name_qualifier)
   | BExc n_8 => (PExc n_8)
   | BErr => PErr
   end)))).

(* saml2/ident.py:IdentDB.handle_manage_name_id_request, lines 342-370 *)
Definition src2_manage_name_id (remove_ : pyval -> pyval -> pyval) (store_ : pyval -> pyval -> pyval -> pyval) (v_self : pyval) (v_name_id : pyval) (v_new_id : pyval) (v_new_encrypted_id : pyval) (v_terminate : pyval) : pyval :=
  let v__id := PErr in
  let v_orig_name_id := PErr in
  (py_bind (py_bind v_name_id (fun a_1 => (src2_find_local_id v_self a_1))) (fun v__id =>
   (py_bind (py_bind v_name_id (fun a_2 => a_2)) (fun v_orig_name_id =>
   (let k_10 := fun v_name_id =>
    (py_bind (py_bind v_orig_name_id (fun a_3 => (remove_ v_self a_3))) (fun _ =>
    (py_bind (py_bind v__id (fun a_4 => (py_bind v_name_id (fun a_5 => (store_ v_self a_4 a_5))))) (fun _ =>
    v_name_id)))) in
   (match p2_branch v_new_id with
   | BTrue => (py_bind (p2_attr v_new_id "text") (fun a_7 =>
   (py_bind (p2_setattr v_name_id "sp_provided_id" a_7) (fun v_name_id =>
   (k_10 v_name_id)))))
   | BFalse => (match p2_branch v_new_encrypted_id with
   | BTrue => (k_10 v_name_id)
   | BFalse => (match p2_branch v_terminate with
   | BTrue => (py_bind (p2_setattr v_name_id "sp_provided_id" PNone) (fun v_name_id =>
   (k_10 v_name_id)))
   | BFalse => v_name_id
   | BExc n_8 => (PExc n_8)
   | BErr => PErr
   end)
   | BExc n_9 => (PExc n_9)
   | BErr => PErr
   end)
   | BExc n_10 => (PExc n_10)
   | BErr => PErr
   end)))))).

(* saml2/ident.py:IdentDB.get_nameid, lines 160-183 *)
Definition src2_get_nameid (decode_ : pyval -> pyval) (create_ : pyval -> pyval -> pyval -> pyval -> pyval) (store_ : pyval -> pyval -> pyval -> pyval) (v_self : pyval) (v_userid : pyval) (v_nformat : pyval) (v_sp_name_qualifier : pyval) (v_name_qualifier : pyval) : pyval :=
  let v_nameid := PErr in
  let v__id := PErr in
  (let k_19 := fun v_nameid =>
    (py_bind (py_bind v_nformat (fun a_1 => (py_bind v_name_qualifier (fun a_2 => (py_bind v_sp_name_qualifier (fun a_3 => (create_ v_self a_1 a_2 a_3))))))) (fun v__id =>
    (let k_13 := fun v__id =>
     (py_bind (py_bind v_nformat (fun a_4 => (py_bind v_sp_name_qualifier (fun a_5 => (py_bind v_name_qualifier (fun a_6 => (py_bind v__id (fun a_7 => (PObj [("__class__", PStr "NameID"); ("name_qualifier", a_6); ("sp_name_qualifier", a_5); ("format", a_4); ("sp_provided_id", PNone); ("text", a_7)]))))))))) (fun v_nameid =>
     (py_bind (py_bind v_userid (fun a_8 => (py_bind v_nameid (fun a_9 => (store_ v_self a_8 a_9))))) (fun _ =>
     v_nameid)))) in
    (match p2_branch (p2_eq v_nformat (PStr "urn:oasis:names:tc:SAML:1.1:nameid-format:emailAddress")) with
    | BTrue => (match p2_branch (p2_not (p2_attr v_self "domain")) with
    | BTrue => (PExc "SAMLError")
    | BFalse => (py_bind (p2_fconcat [p2_str v__id; PStr "@"; p2_str (p2_attr v_self "domain")]) (fun v__id =>
    (k_13 v__id)))
    | BExc n_12 => (PExc n_12)
    | BErr => PErr
    end)
    | BFalse => (k_13 v__id)
    | BExc n_13 => (PExc n_13)
    | BErr => PErr
    end)))) in
   (match p2_branch (p2_eq v_nformat (PStr "urn:oasis:names:tc:SAML:2.0:nameid-format:persistent")) with
   | BTrue => (py_bind (py_bind v_userid (fun a_15 => (py_bind v_sp_name_qualifier (fun a_16 => (py_bind v_name_qualifier (fun a_17 => (src2_match_local_id decode_ v_self a_15 a_16 a_17))))))) (fun v_nameid =>
   (match p2_branch v_nameid with
   | BTrue => v_nameid
   | BFalse => (k_19 v_nameid)
   | BExc n_18 => (PExc n_18)
   | BErr => PErr
   end)))
   | BFalse => (k_19 v_nameid)
   | BExc n_19 => (PExc n_19)
   | BErr => PErr
   end)).

(* saml2/ident.py:IdentDB.transient_nameid, lines 266-267 *)
Definition src2_transient_nameid (decode_ : pyval -> pyval) (create_ : pyval -> pyval -> pyval -> pyval -> pyval) (store_ : pyval -> pyval -> pyval -> pyval) (v_self : pyval) (v_userid : pyval) (v_sp_name_qualifier : pyval) (v_name_qualifier : pyval) : pyval :=
  (py_bind v_userid (fun a_1 => (py_bind v_sp_name_qualifier (fun a_2 => (py_bind v_name_qualifier (fun a_3 => (src2_get_nameid decode_ create_ store_ v_self a_1 (PStr "urn:oasis:names:tc:SAML:2.0:nameid-format:transient") a_2 a_3))))))).

(* saml2/ident.py:IdentDB.persistent_nameid, lines 269-274 *)
Definition src2_persistent_nameid (decode_ : pyval -> pyval) (create_ : pyval -> pyval -> pyval -> pyval -> pyval) (store_ : pyval -> pyval -> pyval -> pyval) (v_self : pyval) (v_userid : pyval) (v_sp_name_qualifier : pyval) (v_name_qualifier : pyval) : pyval :=
  let v_nameid := PErr in
  (py_bind (py_bind v_userid (fun a_1 => (py_bind v_sp_name_qualifier (fun a_2 => (py_bind v_name_qualifier (fun a_3 => (src2_match_local_id decode_ v_self a_1 a_2 a_3))))))) (fun v_nameid =>
   (match p2_branch v_nameid with
   | BTrue => v_nameid
   | BFalse => (py_bind v_userid (fun a_4 => (py_bind v_sp_name_qualifier (fun a_5 => (py_bind v_name_qualifier (fun a_6 => (src2_get_nameid decode_ create_ store_ v_self a_4 (PStr "urn:oasis:names:tc:SAML:2.0:nameid-format:persistent") a_5 a_6)))))))
   | BExc n_7 => (PExc n_7)
   | BErr => PErr
   end))).
