(* GENERATED on every run by harness/py2coq2.py from the current source text of /repo/src/saml2 — do not edit. *)
From Coq Require Import String Ascii List Bool ZArith.
From Verif Require Import Base.Str Base.Py Base.Py2.
Import ListNotations.
Open Scope string_scope.


(* saml2/sigver.py:SecurityContext.correctly_signed_response, lines 1684-1711 *)
Definition src2_correctly_signed_response (parse_resp : pyval -> pyval) (check_sig : pyval -> pyval -> pyval -> pyval -> pyval) (class_name_ext : pyval -> pyval) (v_self : pyval) (v_decoded_xml : pyval) (v_must : pyval) (v_origdoc : pyval) (v_only_valid_cert : pyval) (v_require_response_signature : pyval) (v_kwargs : pyval) : pyval :=
  let v_response := PErr in
  (py_bind (py_bind v_decoded_xml (fun a_1 => (parse_resp a_1))) (fun v_response =>
   (match p2_branch (p2_not v_response) with
   | BTrue => (PExc "TypeError")
   | BFalse => (match p2_branch (p2_attr v_response "signature") with
   | BTrue => (match p2_branch (p2_in (PStr "do_not_verify") v_kwargs) with
   | BTrue => v_response
   | BFalse => (py_bind (py_bind v_decoded_xml (fun a_4 => (py_bind v_response (fun a_5 => (py_bind (py_bind v_response (fun a_3 => (class_name_ext a_3))) (fun a_6 => (py_bind v_origdoc (fun a_7 => (check_sig a_4 a_5 a_6 a_7))))))))) (fun _ =>
   v_response))
   | BExc n_8 => (PExc n_8)
   | BErr => PErr
   end)
   | BFalse => (match p2_branch v_require_response_signature with
   | BTrue => (PExc "SignatureError")
   | BFalse => v_response
   | BExc n_9 => (PExc n_9)
   | BErr => PErr
   end)
   | BExc n_10 => (PExc n_10)
   | BErr => PErr
   end)
   | BExc n_12 => (PExc n_12)
   | BErr => PErr
   end))).

(* saml2/response.py:AuthnResponse._assertion, lines 801-861 *)
Definition src2_assertion (check_sig3 : pyval -> pyval -> pyval -> pyval) (class_name_ext : pyval -> pyval) (issuer_ext : pyval -> pyval) (authn_statement_ok_ext : pyval -> pyval) (condition_ok_ext : pyval -> pyval) (get_subject_ext : pyval -> pyval) (v_self : pyval) (v_assertion : pyval) (v_verified : pyval) : pyval :=
  let v_exc := PErr in
  let v__resp_issuer := PErr in
  let v__ass_issuer := PErr in
  (let k_23 := fun v_exc =>
    (py_bind (issuer_ext v_self) (fun v__resp_issuer =>
    (py_bind (p2_ifexp (p2_is_not_none (p2_attr v_assertion "issuer")) (p2_strip (p2_or (p2_attr (p2_attr v_assertion "issuer") "text") (PStr ""))) (PStr "")) (fun v__ass_issuer =>
    (match p2_branch (p2_and v__resp_issuer (p2_ne v__resp_issuer v__ass_issuer)) with
    | BTrue => (py_bind (p2_fconcat [PStr "Issuer mismatch: response issuer '"; p2_str v__resp_issuer; PStr "', assertion issuer '"; p2_str v__ass_issuer; PStr "'"]) (fun _ =>
    (PExc "VerificationError")))
    | BFalse => (py_bind v_assertion (fun a_1 =>
    (py_bind (p2_setattr v_self "assertion" a_1) (fun v_self =>
    (let k_11 := fun (_ : unit) =>
     (match p2_branch (p2_not (condition_ok_ext v_self)) with
     | BTrue => (PExc "VerificationError")
     | BFalse => (let h_2 := fun n_2 =>
      (PExc n_2) in
     (py_bindh (fun n_7 => (h_2 n_7)) (get_subject_ext v_self) (fun _ =>
     (match p2_branch (p2_attr v_self "asynchop") with
     | BTrue => (match p2_branch (p2_attr v_self "allow_unsolicited") with
     | BTrue => (PBool true)
     | BFalse => (match p2_branch (p2_is_none (p2_attr v_self "came_from")) with
     | BTrue => (h_2 "VerificationError")
     | BFalse => (PBool true)
     | BExc n_4 => (h_2 n_4)
     | BErr => PErr
     end)
     | BExc n_5 => (h_2 n_5)
     | BErr => PErr
     end)
     | BFalse => (PBool true)
     | BExc n_6 => (h_2 n_6)
     | BErr => PErr
     end))))
     | BExc n_9 => (PExc n_9)
     | BErr => PErr
     end) in
    (match p2_branch (p2_eq (p2_attr v_self "context") (PStr "AuthnReq")) with
    | BTrue => (py_bind (authn_statement_ok_ext v_self) (fun _ =>
    (k_11 tt)))
    | BFalse => (k_11 tt)
    | BExc n_11 => (PExc n_11)
    | BErr => PErr
    end))))))
    | BExc n_13 => (PExc n_13)
    | BErr => PErr
    end))))) in
   (match p2_branch (p2_or (p2_not (p2_hasattr v_assertion "signature")) (p2_not (p2_attr v_assertion "signature"))) with
   | BTrue => (match p2_branch (p2_attr v_self "require_signature") with
   | BTrue => (PExc "SignatureError")
   | BFalse => (k_23 v_exc)
   | BExc n_15 => (PExc n_15)
   | BErr => PErr
   end)
   | BFalse => (match p2_branch (p2_and (p2_not v_verified) (p2_is_bool false (p2_attr v_self "do_not_verify"))) with
   | BTrue => (py_bindh (fun n_21 => (let v_exc := PExc n_21 in
   (PExc n_21))) (py_bind v_assertion (fun a_18 => (py_bind (py_bind v_assertion (fun a_17 => (class_name_ext a_17))) (fun a_19 => (py_bind (p2_attr v_self "xmlstr") (fun a_20 => (check_sig3 a_18 a_19 a_20))))))) (fun _ =>
   (k_23 v_exc)))
   | BFalse => (k_23 v_exc)
   | BExc n_22 => (PExc n_22)
   | BErr => PErr
   end)
   | BExc n_23 => (PExc n_23)
   | BErr => PErr
   end)).

(* saml2/response.py:AuthnResponse.__init__, lines 478-520 *)
Definition src2_authn_response_init (status_response_init : pyval -> pyval) (v_self : pyval) (v_sec_context : pyval) (v_attribute_converters : pyval) (v_entity_id : pyval) (v_return_addrs : pyval) (v_outstanding_queries : pyval) (v_timeslack : pyval) (v_asynchop : pyval) (v_allow_unsolicited : pyval) (v_test : pyval) (v_allow_unknown_attributes : pyval) (v_want_assertions_signed : pyval) (v_want_assertions_or_response_signed : pyval) (v_want_response_signed : pyval) (v_conv_info : pyval) (v_kwargs : pyval) : pyval :=
  (py_bindh (fun n_48 => (PList [(PExc n_48); v_self])) (py_bind v_self (fun a_1 => (py_bind v_sec_context (fun a_2 => (py_bind v_return_addrs (fun a_3 => (py_bind v_timeslack (fun a_4 => (py_bind v_asynchop (fun a_5 => (py_bind v_conv_info (fun a_6 => (status_response_init (PList [a_1; a_2; a_3; a_4; a_5; a_6])))))))))))))) (fun _ =>
   (py_bindh (fun n_47 => (PList [(PExc n_47); v_self])) v_entity_id (fun a_7 =>
   (py_bindh (fun n_46 => (PList [(PExc n_46); v_self])) (p2_setattr v_self "entity_id" a_7) (fun v_self =>
   (py_bindh (fun n_45 => (PList [(PExc n_45); v_self])) v_attribute_converters (fun a_8 =>
   (py_bindh (fun n_44 => (PList [(PExc n_44); v_self])) (p2_setattr v_self "attribute_converters" a_8) (fun v_self =>
   (let k_43 := fun v_self =>
    (py_bindh (fun n_37 => (PList [(PExc n_37); v_self])) (p2_setattr v_self "context" (PStr "AuthnReq")) (fun v_self =>
    (py_bindh (fun n_36 => (PList [(PExc n_36); v_self])) (p2_setattr v_self "came_from" PNone) (fun v_self =>
    (py_bindh (fun n_35 => (PList [(PExc n_35); v_self])) (p2_setattr v_self "ava" PNone) (fun v_self =>
    (py_bindh (fun n_34 => (PList [(PExc n_34); v_self])) (p2_setattr v_self "assertion" PNone) (fun v_self =>
    (py_bindh (fun n_33 => (PList [(PExc n_33); v_self])) (p2_setattr v_self "assertions" (PList [])) (fun v_self =>
    (py_bindh (fun n_32 => (PList [(PExc n_32); v_self])) (p2_setattr v_self "session_not_on_or_after" (PInt (0)%Z)) (fun v_self =>
    (py_bindh (fun n_31 => (PList [(PExc n_31); v_self])) v_allow_unsolicited (fun a_9 =>
    (py_bindh (fun n_30 => (PList [(PExc n_30); v_self])) (p2_setattr v_self "allow_unsolicited" a_9) (fun v_self =>
    (py_bindh (fun n_29 => (PList [(PExc n_29); v_self])) v_want_assertions_signed (fun a_10 =>
    (py_bindh (fun n_28 => (PList [(PExc n_28); v_self])) (p2_setattr v_self "require_signature" a_10) (fun v_self =>
    (py_bindh (fun n_27 => (PList [(PExc n_27); v_self])) v_want_assertions_or_response_signed (fun a_11 =>
    (py_bindh (fun n_26 => (PList [(PExc n_26); v_self])) (p2_setattr v_self "require_signature_or_response_signature" a_11) (fun v_self =>
    (py_bindh (fun n_25 => (PList [(PExc n_25); v_self])) v_want_response_signed (fun a_12 =>
    (py_bindh (fun n_24 => (PList [(PExc n_24); v_self])) (p2_setattr v_self "require_response_signature" a_12) (fun v_self =>
    (py_bindh (fun n_23 => (PList [(PExc n_23); v_self])) v_test (fun a_13 =>
    (py_bindh (fun n_22 => (PList [(PExc n_22); v_self])) (p2_setattr v_self "test" a_13) (fun v_self =>
    (py_bindh (fun n_21 => (PList [(PExc n_21); v_self])) v_allow_unknown_attributes (fun a_14 =>
    (py_bindh (fun n_20 => (PList [(PExc n_20); v_self])) (p2_setattr v_self "allow_unknown_attributes" a_14) (fun v_self =>
    (let h_15 := fun n_15 v_self =>
     (if exc_matches n_15 ["KeyError"]
     then (py_bindh (fun n_16 => (PList [(PExc n_16); v_self])) (p2_setattr v_self "extension_schema" (PObj [])) (fun v_self =>
     (PList [PNone; v_self])))
     else (PList [(PExc n_15); v_self])) in
    (py_bindh (fun n_19 => (h_15 n_19 v_self)) (p2_getitem v_kwargs (PStr "extension_schema")) (fun a_17 =>
    (py_bindh (fun n_18 => (h_15 n_18 v_self)) (p2_setattr v_self "extension_schema" a_17) (fun v_self =>
    (PList [PNone; v_self])))))))))))))))))))))))))))))))))))))))))) in
   (match p2_branch v_outstanding_queries with
   | BTrue => (py_bindh (fun n_41 => (PList [(PExc n_41); v_self])) v_outstanding_queries (fun a_39 =>
   (py_bindh (fun n_40 => (PList [(PExc n_40); v_self])) (p2_setattr v_self "outstanding_queries" a_39) (fun v_self =>
   (k_43 v_self)))))
   | BFalse => (py_bindh (fun n_42 => (PList [(PExc n_42); v_self])) (p2_setattr v_self "outstanding_queries" (PObj [])) (fun v_self =>
   (k_43 v_self)))
   | BExc n_43 => (PList [(PExc n_43); v_self])
   | BErr => PErr
   end)))))))))))).

(* saml2/client_base.py:Base.__init__, lines 150-211 *)
Definition src2_base_init (entity_init : pyval -> pyval) (population : pyval -> pyval) (lock : pyval) (cfg_getattr : pyval -> pyval -> pyval -> pyval) (v_self : pyval) (v_config : pyval) (v_identity_cache : pyval) (v_state_cache : pyval) (v_virtual_organization : pyval) (v_config_file : pyval) (v_msg_cb : pyval) : pyval :=
  let v_attribute_defaults := PErr in
  let v_val_config := PErr in
  let v_val := PErr in
  let v_word := PErr in
  let v_warn_msg := PErr in
  (py_bindh (fun n_44 => (PList [(PExc n_44); v_self])) (py_bind v_self (fun a_1 => (py_bind v_config (fun a_2 => (py_bind v_config_file (fun a_3 => (py_bind v_virtual_organization (fun a_4 => (py_bind v_msg_cb (fun a_5 => (entity_init (PList [a_1; (PStr "sp"); a_2; a_3; a_4; a_5])))))))))))) (fun _ =>
   (py_bindh (fun n_43 => (PList [(PExc n_43); v_self])) (py_bind v_identity_cache (fun a_6 => (population a_6))) (fun a_7 =>
   (py_bindh (fun n_42 => (PList [(PExc n_42); v_self])) (p2_setattr v_self "users" a_7) (fun v_self =>
   (py_bindh (fun n_41 => (PList [(PExc n_41); v_self])) lock (fun a_8 =>
   (py_bindh (fun n_40 => (PList [(PExc n_40); v_self])) (p2_setattr v_self "lock" a_8) (fun v_self =>
   (let k_39 := fun v_self =>
    (py_bindh (fun n_33 => (PList [(PExc n_33); v_self])) (p2_mkdict [("logout_requests_signed", (PBool false)); ("logout_responses_signed", (PBool false)); ("allow_unsolicited", (PBool false)); ("authn_requests_signed", (PBool false)); ("want_assertions_signed", (PBool false)); ("want_response_signed", (PBool true)); ("want_assertions_or_response_signed", (PBool false))]) (fun v_attribute_defaults =>
    (py_bindh (fun n_32 => (PList [(PExc n_32); v_self])) (p2_iter_check (p2_items v_attribute_defaults)) (fun it_13 =>
    (match pyfor2 (py_iter2 it_13) [v_val_config; v_val; v_word; v_self] (fun st_14 x_15 => match st_14 with [v_val_config; v_val; v_word; v_self] =>
     (match p2_unpack 2 x_15 with
     | PList [v_attr; v_val_default] => (py_bindS (fun n_30 => (ExcS n_30 [v_val_config; v_val; v_word; v_self])) (py_bind v_attr (fun a_18 => (cfg_getattr v_self a_18 (PStr "sp")))) (fun v_val_config =>
     (py_bindS (fun n_29 => (ExcS n_29 [v_val_config; v_val; v_word; v_self])) (p2_ifexp (p2_is_not_none v_val_config) v_val_config v_val_default) (fun v_val =>
     (let k_28 := fun v_word v_val =>
      (py_bindS (fun n_23 => (ExcS n_23 [v_val_config; v_val; v_word; v_self])) v_attr (fun a_19 =>
      (py_bindS (fun n_22 => (ExcS n_22 [v_val_config; v_val; v_word; v_self])) v_val (fun a_20 =>
      (py_bindS (fun n_21 => (ExcS n_21 [v_val_config; v_val; v_word; v_self])) (p2_setattr_dyn v_self a_19 a_20) (fun v_self =>
      (NextS [v_val_config; v_val; v_word; v_self]))))))) in
     (match p2_branch (p2_isinstance v_val ["str"] []) with
     | BTrue => (py_bindS (fun n_27 => (ExcS n_27 [v_val_config; v_val; v_word; v_self])) (p2_lower (p2_strip v_val)) (fun v_word =>
     (match p2_branch (p2_in v_word (p2_mklist [(PStr "true"); (PStr "yes"); (PStr "on"); (PStr "1")])) with
     | BTrue => (let v_val := (PBool true) in
     (k_28 v_word v_val))
     | BFalse => (match p2_branch (p2_in v_word (p2_mklist [(PStr "false"); (PStr "no"); (PStr "off"); (PStr "0"); (PStr "")])) with
     | BTrue => (let v_val := (PBool false) in
     (k_28 v_word v_val))
     | BFalse => (ExcS "SAMLError" [v_val_config; v_val; v_word; v_self])
     | BExc n_25 => (ExcS n_25 [v_val_config; v_val; v_word; v_self])
     | BErr => (RetS PErr)
     end)
     | BExc n_26 => (ExcS n_26 [v_val_config; v_val; v_word; v_self])
     | BErr => (RetS PErr)
     end)))
     | BFalse => (k_28 v_word v_val)
     | BExc n_28 => (ExcS n_28 [v_val_config; v_val; v_word; v_self])
     | BErr => (RetS PErr)
     end))))))
     | PExc n_31 => (ExcS n_31 [v_val_config; v_val; v_word; v_self])
     | _ => (RetS PErr)
     end)
    | _ => RetS PErr end) with
    | NextS st_14 => match st_14 with [v_val_config; v_val; v_word; v_self] => (let k_11 := fun v_warn_msg =>
     (py_bindh (fun n_9 => (PList [(PExc n_9); v_self])) (p2_setattr v_self "artifact2response" (PObj [])) (fun v_self =>
     (PList [PNone; v_self]))) in
    (match p2_branch (p2_and (p2_eq (p2_attr v_self "entity_type") (PStr "sp")) (p2_not (p2_any (p2_mklist [(p2_attr v_self "want_assertions_signed"); (p2_attr v_self "want_response_signed"); (p2_attr v_self "want_assertions_or_response_signed")]) ktrue kid))) with
    | BTrue => (let v_warn_msg := (PStr "The SAML service provider accepts unsigned SAML Responses and Assertions. This configuration is insecure. Consider setting want_assertions_signed, want_response_signed or want_assertions_or_response_signed configuration options.") in
    (k_11 v_warn_msg))
    | BFalse => (k_11 v_warn_msg)
    | BExc n_11 => (PList [(PExc n_11); v_self])
    | BErr => PErr
    end)) | _ => PErr end
    | BrkS _ => PErr
    | RetS r_16 => r_16
    | ExcS n_17 st_14 => match st_14 with [v_val_config; v_val; v_word; v_self] => (PList [(PExc n_17); v_self]) | _ => PErr end
    end))))) in
   (match p2_branch (p2_is_none v_state_cache) with
   | BTrue => (py_bindh (fun n_35 => (PList [(PExc n_35); v_self])) (p2_setattr v_self "state" (PObj [])) (fun v_self =>
   (k_39 v_self)))
   | BFalse => (py_bindh (fun n_38 => (PList [(PExc n_38); v_self])) v_state_cache (fun a_36 =>
   (py_bindh (fun n_37 => (PList [(PExc n_37); v_self])) (p2_setattr v_self "state" a_36) (fun v_self =>
   (k_39 v_self)))))
   | BExc n_39 => (PList [(PExc n_39); v_self])
   | BErr => PErr
   end)))))))))))).
