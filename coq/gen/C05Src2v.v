(* GENERATED on every run by harness/py2coq2.py from the current source text of /repo/src/saml2 — do not edit. *)
From Coq Require Import String Ascii List Bool ZArith.
From Verif Require Import Base.Str Base.Py Base.Py2.
Import ListNotations.
Open Scope string_scope.

(* saml2/response.py:StatusResponse.issue_instant_ok (.timetuple() call shape rewritten by harness/c05.py), lines 394-401 *)
Definition src2_issue_instant_ok (in_a_while : pyval -> pyval) (a_while_ago : pyval -> pyval) (shift_time : pyval -> pyval -> pyval) (timetuple : pyval -> pyval) (parse : pyval -> pyval) (v_self : pyval) : pyval :=
  let v_upper := PErr in
  let v_lower := PErr in
  let v_issued_at := PErr in
  (py_bind (py_bind (py_bind (in_a_while (PInt (1)%Z)) (fun a_1 => (py_bind (p2_attr v_self "timeslack") (fun a_2 => (shift_time a_1 a_2))))) (fun a_3 => (timetuple a_3))) (fun v_upper =>
   (py_bind (py_bind (py_bind (a_while_ago (PInt (1)%Z)) (fun a_4 => (py_bind (p2_neg (p2_attr v_self "timeslack")) (fun a_5 => (shift_time a_4 a_5))))) (fun a_6 => (timetuple a_6))) (fun v_lower =>
   (py_bind (py_bind (p2_attr (p2_attr v_self "response") "issue_instant") (fun a_7 => (parse a_7))) (fun v_issued_at =>
   (py_bind v_lower (fun a_8 => (py_bind v_issued_at (fun a_9 => (p2_and (p2_lt a_8 a_9) (py_bind v_upper (fun a_10 => (p2_lt a_9 a_10)))))))))))))).

(* saml2/response.py:StatusResponse._verify (float constant rewritten by harness/c05.py), lines 403-423 *)
Definition src2_verify (issue_instant_ok : pyval -> pyval) (status_ok : pyval -> pyval) (float_ : pyval -> pyval) (two : pyval) (v_self : pyval) : pyval :=
  let v__ver := PErr in
  let v_valid := PErr in
  (match p2_branch (p2_and (p2_attr v_self "request_id") (p2_and (p2_attr v_self "in_response_to") (p2_ne (p2_attr v_self "in_response_to") (p2_attr v_self "request_id")))) with
   | BTrue => PNone
   | BFalse => (match p2_branch (p2_ne (p2_attr (p2_attr v_self "response") "version") (PStr "2.0")) with
   | BTrue => (py_bind (py_bind (p2_attr (p2_attr v_self "response") "version") (fun a_5 => (float_ a_5))) (fun v__ver =>
   (match p2_branch (p2_lt v__ver two) with
   | BTrue => (PExc "RequestVersionTooLow")
   | BFalse => (PExc "RequestVersionTooHigh")
   | BExc n_6 => (PExc n_6)
   | BErr => PErr
   end)))
   | BFalse => (let k_3 := fun (_ : unit) =>
    (py_bind (p2_and (issue_instant_ok v_self) (status_ok v_self)) (fun v_valid =>
    v_valid)) in
   (match p2_branch (p2_attr v_self "asynchop") with
   | BTrue => (match p2_branch (p2_and (p2_attr (p2_attr v_self "response") "destination") (p2_not_in (p2_attr (p2_attr v_self "response") "destination") (p2_attr v_self "return_addrs"))) with
   | BTrue => PNone
   | BFalse => (k_3 tt)
   | BExc n_2 => (PExc n_2)
   | BErr => PErr
   end)
   | BFalse => (k_3 tt)
   | BExc n_3 => (PExc n_3)
   | BErr => PErr
   end))
   | BExc n_7 => (PExc n_7)
   | BErr => PErr
   end)
   | BExc n_9 => (PExc n_9)
   | BErr => PErr
   end).
