(* GENERATED on every run by harness/py2coq2.py from the current source text of /repo/src/saml2 — do not edit. *)
From Coq Require Import String Ascii List Bool ZArith.
From Verif Require Import Base.Str Base.Py Base.Py2.
Import ListNotations.
Open Scope string_scope.

(* saml2/entity.py:Entity._parse_request (debug-log alias dropped by harness/c15.py), lines 989-1066 *)
Definition src2_parse_request (endpoint_ext : pyval -> pyval -> pyval -> pyval -> pyval) (mkreq_ext : pyval -> pyval -> pyval -> pyval -> pyval -> pyval) (unravel_ext : pyval -> pyval -> pyval -> pyval -> pyval) (cfg_getattr_ext : pyval -> pyval -> pyval -> pyval) (loads_ext : pyval -> pyval -> pyval -> pyval -> pyval -> pyval -> pyval -> pyval -> pyval -> pyval) (verify_ext : pyval -> pyval) (v_self : pyval) (v_enc_request : pyval) (v_request_cls : pyval) (v_service : pyval) (v_binding : pyval) (v_relay_state : pyval) (v_sigalg : pyval) (v_signature : pyval) : pyval :=
  let v_receiver_addresses := PErr in
  let v_timeslack := PErr in
  let v__request := PErr in
  let v_xmlstr := PErr in
  let v_must := PErr in
  let v_only_valid_cert := PErr in
  (py_bind (py_bind v_service (fun a_1 => (py_bind v_binding (fun a_2 => (py_bind (p2_attr v_self "entity_type") (fun a_3 => (endpoint_ext v_self a_1 a_2 a_3))))))) (fun v_receiver_addresses =>
   (let k_44 := fun v_receiver_addresses =>
    (let k_32 := fun v_timeslack =>
     (py_bind (py_bind (p2_attr v_self "sec") (fun a_4 => (py_bind v_receiver_addresses (fun a_5 => (py_bind (p2_attr (p2_attr v_self "config") "attribute_converters") (fun a_6 => (py_bind v_timeslack (fun a_7 => (mkreq_ext v_request_cls a_4 a_5 a_6 a_7))))))))) (fun v__request =>
     (py_bind (py_bind v_enc_request (fun a_8 => (py_bind v_binding (fun a_9 => (py_bind (p2_attr v_request_cls "msgtype") (fun a_10 => (unravel_ext v_self a_8 a_9 a_10))))))) (fun v_xmlstr =>
     (py_bind (cfg_getattr_ext v_self (PStr "want_authn_requests_signed") (PStr "idp")) (fun v_must =>
     (py_bind (cfg_getattr_ext v_self (PStr "want_authn_requests_only_with_valid_cert") (PStr "idp")) (fun v_only_valid_cert =>
     (let k_28 := fun v_only_valid_cert =>
      (let k_26 := fun v_only_valid_cert =>
       (let k_24 := fun v_must =>
        (py_bind (py_bind v_xmlstr (fun a_11 => (py_bind v_binding (fun a_12 => (py_bind v_enc_request (fun a_13 => (py_bind v_must (fun a_14 => (py_bind v_only_valid_cert (fun a_15 => (py_bind v_relay_state (fun a_16 => (py_bind v_sigalg (fun a_17 => (py_bind v_signature (fun a_18 => (loads_ext v__request a_11 a_12 a_13 a_14 a_15 a_16 a_17 a_18))))))))))))))))) (fun v__request =>
        (let k_22 := fun (_ : unit) =>
         (match p2_branch (p2_not v__request) with
         | BTrue => PNone
         | BFalse => v__request
         | BExc n_19 => (PExc n_19)
         | BErr => PErr
         end) in
        (match p2_branch v__request with
        | BTrue => (match p2_branch (p2_not (verify_ext v__request)) with
        | BTrue => PNone
        | BFalse => (k_22 tt)
        | BExc n_21 => (PExc n_21)
        | BErr => PErr
        end)
        | BFalse => (k_22 tt)
        | BExc n_22 => (PExc n_22)
        | BErr => PErr
        end)))) in
       (match p2_branch v_only_valid_cert with
       | BTrue => (let v_must := (PBool true) in
       (k_24 v_must))
       | BFalse => (k_24 v_must)
       | BExc n_24 => (PExc n_24)
       | BErr => PErr
       end)) in
      (match p2_branch (p2_is_none v_only_valid_cert) with
      | BTrue => (let v_only_valid_cert := (PBool false) in
      (k_26 v_only_valid_cert))
      | BFalse => (k_26 v_only_valid_cert)
      | BExc n_26 => (PExc n_26)
      | BErr => PErr
      end)) in
     (match p2_branch (p2_isinstance v_only_valid_cert ["str"] []) with
     | BTrue => (py_bind (p2_in (p2_lower (p2_strip v_only_valid_cert)) (p2_mklist [(PStr "true"); (PStr "yes"); (PStr "on"); (PStr "1")])) (fun v_only_valid_cert =>
     (k_28 v_only_valid_cert)))
     | BFalse => (k_28 v_only_valid_cert)
     | BExc n_28 => (PExc n_28)
     | BErr => PErr
     end)))))))))) in
    (let h_30 := fun n_30 v_timeslack =>
     (if exc_matches n_30 ["AttributeError"]
     then (let v_timeslack := (PInt (0)%Z) in
     (k_32 v_timeslack))
     else (PExc n_30)) in
    (py_bindh (fun n_32 => (h_30 n_32 v_timeslack)) (p2_attr (p2_attr v_self "config") "accepted_time_diff") (fun v_timeslack =>
    (match p2_branch (p2_not v_timeslack) with
    | BTrue => (let v_timeslack := (PInt (0)%Z) in
    (k_32 v_timeslack))
    | BFalse => (k_32 v_timeslack)
    | BExc n_31 => (h_30 n_31 v_timeslack)
    | BErr => PErr
    end))))) in
   (match p2_branch (p2_and (p2_not v_receiver_addresses) (p2_eq (p2_attr v_self "entity_type") (PStr "idp"))) with
   | BTrue => (py_bind (p2_iter_check (p2_mklist [(PStr "aa"); (PStr "aq"); (PStr "pdp")])) (fun it_34 =>
   (match pyfor2 (py_iter2 it_34) [v_receiver_addresses] (fun st_35 x_36 => match st_35 with [v_receiver_addresses] =>
    (let v_typ := x_36 in
    (py_bindS (fun n_43 => (ExcS n_43 [v_receiver_addresses])) (py_bind v_service (fun a_39 => (py_bind v_binding (fun a_40 => (py_bind v_typ (fun a_41 => (endpoint_ext v_self a_39 a_40 a_41))))))) (fun v_receiver_addresses =>
    (match p2_branch v_receiver_addresses with
    | BTrue => (BrkS [v_receiver_addresses])
    | BFalse => (NextS [v_receiver_addresses])
    | BExc n_42 => (ExcS n_42 [v_receiver_addresses])
    | BErr => (RetS PErr)
    end))))
   | _ => RetS PErr end) with
   | NextS st_35 => match st_35 with [v_receiver_addresses] => (k_44 v_receiver_addresses) | _ => PErr end
   | BrkS st_35 => match st_35 with [v_receiver_addresses] => (k_44 v_receiver_addresses) | _ => PErr end
   | RetS r_37 => r_37
   | ExcS n_38 st_35 => match st_35 with [v_receiver_addresses] => (PExc n_38) | _ => PErr end
   end)))
   | BFalse => (k_44 v_receiver_addresses)
   | BExc n_44 => (PExc n_44)
   | BErr => PErr
   end)))).
