(* GENERATED on every run by harness/py2coq2.py from the current source text of /repo/src/saml2 — do not edit. *)
From Coq Require Import String Ascii List Bool ZArith.
From Verif Require Import Base.Str Base.Py Base.Py2.
Import ListNotations.
Open Scope string_scope.

(* saml2/request.py:Request._loads (raise of the pre-built exception rewritten by harness/c07.py), lines 41-107 *)
Definition src2_loads (signature_check : pyval -> pyval -> pyval -> pyval -> pyval) (redirect_sig_check : pyval -> pyval -> pyval) (valid_instance : pyval -> pyval) (v_self : pyval) (v_xmldata : pyval) (v_binding : pyval) (v_origdoc : pyval) (v_must : pyval) (v_only_valid_cert : pyval) (v_relay_state : pyval) (v_sigalg : pyval) (v_signature : pyval) : pyval :=
  let v_sign_redirect := PErr in
  let v_sign_post := PErr in
  let v_incorrectly_signed := PErr in
  let v_e := PErr in
  let v__saml_msg := PErr in
  let v_sig_verified := PErr in
  let v_exc := PErr in
  (py_bind (p2_slice v_xmldata PNone PNone) (fun a_1 =>
   (py_bind (p2_setattr v_self "xmlstr" a_1) (fun v_self =>
   (py_bind (p2_and v_must (p2_eq v_binding (PStr "urn:oasis:names:tc:SAML:2.0:bindings:HTTP-Redirect"))) (fun v_sign_redirect =>
   (py_bind (p2_and v_must (p2_not v_sign_redirect)) (fun v_sign_post =>
   (let v_incorrectly_signed := PNone in
   (let h_21 := fun n_21 v_self =>
    (let v_e := PExc n_21 in
    (py_bind (p2_setattr v_self "message" PNone) (fun v_self =>
    (PExc "IncorrectlySigned")))) in
   (py_bindh (fun n_28 => (h_21 n_28 v_self)) (py_bind v_xmldata (fun a_22 => (py_bind v_origdoc (fun a_23 => (py_bind v_sign_post (fun a_24 => (py_bind v_only_valid_cert (fun a_25 => (signature_check a_22 a_23 a_24 a_25))))))))) (fun a_26 =>
   (py_bindh (fun n_27 => (h_21 n_27 v_self)) (p2_setattr v_self "message" a_26) (fun v_self =>
   (let k_19 := fun v__saml_msg v_sig_verified v_e v_self =>
    (match p2_branch (p2_not (p2_attr v_self "message")) with
    | BTrue => (PExc "IncorrectlySigned")
    | BFalse => (py_bindh (fun n_5 => (if exc_matches n_5 ["NotValid"]
    then (let v_exc := PExc n_5 in
    (PExc n_5))
    else (PExc n_5))) (py_bind (p2_attr v_self "message") (fun a_4 => (valid_instance a_4))) (fun _ =>
    v_self))
    | BExc n_7 => (PExc n_7)
    | BErr => PErr
    end) in
   (match p2_branch v_sign_redirect with
   | BTrue => (match p2_branch (p2_or (p2_is_none v_sigalg) (p2_is_none v_signature)) with
   | BTrue => (PExc "IncorrectlySigned")
   | BFalse => (py_bind (p2_mkdict [("SAMLRequest", v_origdoc); ("Signature", v_signature); ("SigAlg", v_sigalg)]) (fun v__saml_msg =>
   (let k_16 := fun v__saml_msg =>
    (py_bindh (fun n_13 => (let v_e := PExc n_13 in
    (py_bind (p2_setattr v_self "message" PNone) (fun v_self =>
    (PExc "IncorrectlySigned"))))) (py_bind v__saml_msg (fun a_12 => (redirect_sig_check v_self a_12))) (fun v_sig_verified =>
    (match p2_branch (p2_not v_sig_verified) with
    | BTrue => (py_bind (p2_setattr v_self "message" PNone) (fun v_self =>
    (PExc "IncorrectlySigned")))
    | BFalse => (k_19 v__saml_msg v_sig_verified v_e v_self)
    | BExc n_10 => (PExc n_10)
    | BErr => PErr
    end))) in
   (match p2_branch (p2_is_not_none v_relay_state) with
   | BTrue => (py_bind v_relay_state (fun a_15 =>
   (py_bind (p2_setitem v__saml_msg (PStr "RelayState") a_15) (fun v__saml_msg =>
   (k_16 v__saml_msg)))))
   | BFalse => (k_16 v__saml_msg)
   | BExc n_16 => (PExc n_16)
   | BErr => PErr
   end))))
   | BExc n_18 => (PExc n_18)
   | BErr => PErr
   end)
   | BFalse => (k_19 v__saml_msg v_sig_verified v_e v_self)
   | BExc n_19 => (PExc n_19)
   | BErr => PErr
   end)))))))))))))))).
