(* GENERATED on every run by harness/py2coq2.py from the current source text of /repo/src/saml2 — do not edit. *)
From Coq Require Import String Ascii List Bool ZArith.
From Verif Require Import Base.Str Base.Py Base.Py2.
Import ListNotations.
Open Scope string_scope.

From VerifGen Require Import C15Src2.

(* saml2/sigver.py:verify_redirect_signature (.encode("ascii") rewritten by harness/c15.py), lines 590-630 *)
Definition src2_verify_redirect_signature (signer_algs_ext : pyval) (req_order_ext : pyval) (resp_order_ext : pyval) (urlencode_ext : pyval -> pyval) (pem_format_ext : pyval -> pyval) (cert_key_ext : pyval -> pyval) (encode_ascii_ext : pyval -> pyval) (b64decode_ext : pyval -> pyval) (b64encode_ext : pyval -> pyval) (key_verify_ext : pyval -> pyval -> pyval -> pyval -> pyval) (v_saml_msg : pyval) (v_crypto : pyval) (v_cert : pyval) (v_sigkey : pyval) : pyval :=
  let v_signer := PErr in
  let v__order := PErr in
  let v__args := PErr in
  let v_string := PErr in
  let v__key := PErr in
  let v__signature := PErr in
  let v__sign := PErr in
  (py_bindh (fun n_25 => (if exc_matches n_25 ["KeyError"]
   then (py_bind (p2_fconcat [PStr "Signature algorithm: "; p2_str (p2_getitem v_saml_msg (PStr "SigAlg"))]) (fun _ =>
   (PExc "Unsupported")))
   else (PExc n_25))) (py_bind (p2_getitem v_saml_msg (PStr "SigAlg")) (fun a_23 => (py_bind v_sigkey (fun a_24 => (src2_get_signer signer_algs_ext v_crypto a_23 a_24))))) (fun v_signer =>
   (match p2_branch (p2_in (p2_getitem v_saml_msg (PStr "SigAlg")) signer_algs_ext) with
   | BTrue => (let k_20 := fun v__order =>
    (py_bind (p2_copy v_saml_msg) (fun v__args =>
    (py_bind (p2_delitem v__args (PStr "Signature")) (fun v__args =>
    (py_bind (py_bind (p2_join (PStr "&") (p2_listcomp v__order (fun v_k => (p2_in v_k v__args)) (fun v_k => (py_bind (p2_setitem (PObj []) v_k (p2_getitem v__args v_k)) (fun a_2 => (urlencode_ext a_2)))))) (fun a_3 => (encode_ascii_ext a_3))) (fun v_string =>
    (let k_17 := fun v__key =>
     (py_bind (p2_getitem v_saml_msg (PStr "Signature")) (fun v__signature =>
     (let k_13 := fun v__signature =>
      (py_bind (py_bind v__signature (fun a_4 => (b64decode_ext a_4))) (fun v__sign =>
      (match p2_branch (p2_ne (py_bind v__sign (fun a_9 => (b64encode_ext a_9))) v__signature) with
      | BTrue => (PBool false)
      | BFalse => (p2_bool (py_bind v_string (fun a_5 => (py_bind v__sign (fun a_6 => (py_bind v__key (fun a_7 => (src2_signer_verify key_verify_ext v_signer a_5 a_6 a_7))))))))
      | BExc n_10 => (PExc n_10)
      | BErr => PErr
      end))) in
     (match p2_branch (p2_isinstance v__signature ["str"] []) with
     | BTrue => (py_bind (py_bind v__signature (fun a_12 => (encode_ascii_ext a_12))) (fun v__signature =>
     (k_13 v__signature)))
     | BFalse => (k_13 v__signature)
     | BExc n_13 => (PExc n_13)
     | BErr => PErr
     end)))) in
    (match p2_branch v_cert with
    | BTrue => (py_bind (py_bind (py_bind v_cert (fun a_15 => (pem_format_ext a_15))) (fun a_16 => (cert_key_ext a_16))) (fun v__key =>
    (k_17 v__key)))
    | BFalse => (py_bind v_sigkey (fun v__key =>
    (k_17 v__key)))
    | BExc n_17 => (PExc n_17)
    | BErr => PErr
    end)))))))) in
   (match p2_branch (p2_in (PStr "SAMLRequest") v_saml_msg) with
   | BTrue => (py_bind req_order_ext (fun v__order =>
   (k_20 v__order)))
   | BFalse => (match p2_branch (p2_in (PStr "SAMLResponse") v_saml_msg) with
   | BTrue => (py_bind resp_order_ext (fun v__order =>
   (k_20 v__order)))
   | BFalse => (PExc "Unsupported")
   | BExc n_19 => (PExc n_19)
   | BErr => PErr
   end)
   | BExc n_20 => (PExc n_20)
   | BErr => PErr
   end))
   | BFalse => PNone
   | BExc n_21 => (PExc n_21)
   | BErr => PErr
   end))).
