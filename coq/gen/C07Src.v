(* GENERATED on every run by harness/py2coq.py from the current source text of /repo/src/saml2 — do not edit. *)
From Coq Require Import String Ascii List Bool ZArith.
From Verif Require Import Base.Str Base.Py.
Import ListNotations.
Open Scope string_scope.


(* saml2/request.py:Request._verify, lines 135-145 *)
Definition src_request_verify (issue_instant_ok : pyval) (v_self : pyval) : pyval :=
  (let v_valid_version := (PStr "2.0") in
   (if py_truthy (py_ne (py_attr (py_attr v_self "message") "version") v_valid_version)
   then (PExc "VersionMismatch")
   else (if py_truthy (py_and (py_attr (py_attr v_self "message") "destination") (py_and (py_attr v_self "receiver_addrs") (py_not (py_in (py_attr (py_attr v_self "message") "destination") (py_attr v_self "receiver_addrs")))))
   then (PExc "OtherError")
   else (let v_valid := issue_instant_ok in
   v_valid)))).
