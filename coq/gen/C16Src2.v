(* GENERATED on every run by harness/py2coq2.py from the current source text of /repo/src/saml2 — do not edit. *)
From Coq Require Import String Ascii List Bool ZArith.
From Verif Require Import Base.Str Base.Py Base.Py2.
Import ListNotations.
Open Scope string_scope.


(* saml2/entity.py:Entity.has_encrypt_cert_in_metadata, lines 635-645 *)
Definition src2_has_encrypt_cert_in_metadata (certs_ext : pyval -> pyval -> pyval -> pyval -> pyval) (v_self : pyval) (v_sp_entity_id : pyval) : pyval :=
  let v__certs := PErr in
  (match p2_branch (p2_is_not_none v_sp_entity_id) with
   | BTrue => (py_bind (py_bind v_sp_entity_id (fun a_2 => (certs_ext v_self a_2 (PStr "any") (PStr "encryption")))) (fun v__certs =>
   (match p2_branch (p2_gt (p2_len v__certs) (PInt (0)%Z)) with
   | BTrue => (PBool true)
   | BFalse => (PBool false)
   | BExc n_3 => (PExc n_3)
   | BErr => PErr
   end)))
   | BFalse => (PBool false)
   | BExc n_4 => (PExc n_4)
   | BErr => PErr
   end).

(* saml2/server.py:Server._authn_response, lines 441-606 *)
Definition src2_authn_response (issuer_ext : pyval -> pyval) (setup_ext : pyval -> pyval) (advice_ext : pyval) (adv_append : pyval -> pyval -> pyval) (presig_ext : pyval -> pyval) (class_name_ext : pyval -> pyval) (support_aidr : pyval) (support_aq : pyval) (store_ext : pyval -> pyval -> pyval) (response_ext : pyval -> pyval) (v_self : pyval) (v_in_response_to : pyval) (v_consumer_url : pyval) (v_sp_entity_id : pyval) (v_identity : pyval) (v_name_id : pyval) (v_status : pyval) (v_authn : pyval) (v_issuer : pyval) (v_policy : pyval) (v_sign_assertion : pyval) (v_sign_response : pyval) (v_best_effort : pyval) (v_encrypt_assertion : pyval) (v_encrypt_cert_advice : pyval) (v_encrypt_cert_assertion : pyval) (v_authn_statement : pyval) (v_encrypt_assertion_self_contained : pyval) (v_encrypted_advice_attributes : pyval) (v_pefim : pyval) (v_sign_alg : pyval) (v_digest_alg : pyval) (v_farg : pyval) (v_session_not_on_or_after : pyval) : pyval :=
  let v__issuer := PErr in
  let v_assertion_attributes := PErr in
  let v_assertion := PErr in
  let v_to_sign := PErr in
  (py_bind (py_bind v_issuer (fun a_1 => (issuer_ext a_1))) (fun v__issuer =>
   (let k_66 := fun v_encrypted_advice_attributes v_encrypt_assertion_self_contained v_assertion_attributes v_assertion =>
    (let v_to_sign := (PList []) in
    (let k_31 := fun v_sign_alg v_digest_alg v_assertion v_to_sign =>
     (let k_22 := fun (_ : unit) =>
      (py_bind v_in_response_to (fun a_2 => (py_bind v_consumer_url (fun a_3 => (py_bind v_status (fun a_4 => (py_bind v_issuer (fun a_5 => (py_bind v_sign_response (fun a_6 => (py_bind v_to_sign (fun a_7 => (py_bind v_sp_entity_id (fun a_8 => (py_bind v_encrypt_assertion (fun a_9 => (py_bind v_encrypt_cert_advice (fun a_10 => (py_bind v_encrypt_cert_assertion (fun a_11 => (py_bind v_encrypt_assertion_self_contained (fun a_12 => (py_bind v_encrypted_advice_attributes (fun a_13 => (py_bind v_sign_assertion (fun a_14 => (py_bind v_pefim (fun a_15 => (py_bind v_sign_alg (fun a_16 => (py_bind v_digest_alg (fun a_17 => (py_bind v_assertion (fun a_18 => (response_ext (PList [a_2; a_3; a_4; a_5; a_6; a_7; a_8; a_9; a_10; a_11; a_12; a_13; a_14; a_15; a_16; a_17; a_18])))))))))))))))))))))))))))))))))))) in
     (match p2_branch (p2_or support_aidr support_aq) with
     | BTrue => (py_bind (py_bind v_assertion (fun a_20 => (py_bind v_to_sign (fun a_21 => (store_ext a_20 a_21))))) (fun _ =>
     (k_22 tt)))
     | BFalse => (k_22 tt)
     | BExc n_22 => (PExc n_22)
     | BErr => PErr
     end)) in
    (match p2_branch (p2_not v_encrypt_assertion) with
    | BTrue => (match p2_branch v_sign_assertion with
    | BTrue => (py_bind (p2_or v_sign_alg (p2_attr v_self "signing_algorithm")) (fun v_sign_alg =>
    (py_bind (p2_or v_digest_alg (p2_attr v_self "digest_algorithm")) (fun v_digest_alg =>
    (py_bind (py_bind (p2_attr v_assertion "id") (fun a_24 => (py_bind (p2_attr (p2_attr v_self "sec") "my_cert") (fun a_25 => (py_bind v_sign_alg (fun a_26 => (py_bind v_digest_alg (fun a_27 => (presig_ext (PList [a_24; a_25; (PInt (2)%Z); a_26; a_27])))))))))) (fun a_28 =>
    (py_bind (p2_setattr v_assertion "signature" a_28) (fun v_assertion =>
    (py_bind (p2_append v_to_sign (p2_mklist [(py_bind v_assertion (fun a_29 => (class_name_ext a_29))); (p2_attr v_assertion "id")])) (fun v_to_sign =>
    (k_31 v_sign_alg v_digest_alg v_assertion v_to_sign)))))))))))
    | BFalse => (k_31 v_sign_alg v_digest_alg v_assertion v_to_sign)
    | BExc n_30 => (PExc n_30)
    | BErr => PErr
    end)
    | BFalse => (k_31 v_sign_alg v_digest_alg v_assertion v_to_sign)
    | BExc n_31 => (PExc n_31)
    | BErr => PErr
    end))) in
   (match p2_branch v_pefim with
   | BTrue => (let v_encrypted_advice_attributes := (PBool true) in
   (let v_encrypt_assertion_self_contained := (PBool true) in
   (py_bind (py_bind v_sp_entity_id (fun a_33 => (py_bind v_policy (fun a_34 => (py_bind v__issuer (fun a_35 => (py_bind v_identity (fun a_36 => (py_bind v_best_effort (fun a_37 => (py_bind v_sign_response (fun a_38 => (py_bind v_farg (fun a_39 => (setup_ext (PList [PNone; a_33; PNone; PNone; PNone; a_34; a_35; PNone; a_36; a_37; a_38; a_39; PNone])))))))))))))))) (fun v_assertion_attributes =>
   (py_bind (py_bind v_authn (fun a_40 => (py_bind v_sp_entity_id (fun a_41 => (py_bind v_in_response_to (fun a_42 => (py_bind v_consumer_url (fun a_43 => (py_bind v_name_id (fun a_44 => (py_bind v_policy (fun a_45 => (py_bind v__issuer (fun a_46 => (py_bind v_authn_statement (fun a_47 => (py_bind v_sign_response (fun a_48 => (py_bind v_farg (fun a_49 => (py_bind v_session_not_on_or_after (fun a_50 => (setup_ext (PList [a_40; a_41; a_42; a_43; a_44; a_45; a_46; a_47; (PList []); (PBool true); a_48; a_49; a_50])))))))))))))))))))))))) (fun v_assertion =>
   (py_bind advice_ext (fun a_51 =>
   (py_bind (p2_setattr v_assertion "advice" a_51) (fun v_assertion =>
   (py_bind (py_bind v_assertion_attributes (fun a_52 => (adv_append v_assertion a_52))) (fun _ =>
   (k_66 v_encrypted_advice_attributes v_encrypt_assertion_self_contained v_assertion_attributes v_assertion)))))))))))))
   | BFalse => (py_bind (py_bind v_authn (fun a_53 => (py_bind v_sp_entity_id (fun a_54 => (py_bind v_in_response_to (fun a_55 => (py_bind v_consumer_url (fun a_56 => (py_bind v_name_id (fun a_57 => (py_bind v_policy (fun a_58 => (py_bind v__issuer (fun a_59 => (py_bind v_authn_statement (fun a_60 => (py_bind v_identity (fun a_61 => (py_bind v_best_effort (fun a_62 => (py_bind v_sign_response (fun a_63 => (py_bind v_farg (fun a_64 => (py_bind v_session_not_on_or_after (fun a_65 => (setup_ext (PList [a_53; a_54; a_55; a_56; a_57; a_58; a_59; a_60; a_61; a_62; a_63; a_64; a_65])))))))))))))))))))))))))))) (fun v_assertion =>
   (k_66 v_encrypted_advice_attributes v_encrypt_assertion_self_contained v_assertion_attributes v_assertion)))
   | BExc n_66 => (PExc n_66)
   | BErr => PErr
   end)))).

(* saml2/sigver.py:SecurityContext.decrypt, lines 1349-1370 *)
Definition src2_decrypt (crypto_decrypt : pyval -> pyval -> pyval) (v_self : pyval) (v_enctext : pyval) (v_key_file : pyval) : pyval :=
  let v_key_files := PErr in
  let v_dectext := PErr in
  let v_errmsg := PErr in
  (let k_19 := fun v_key_file =>
    (py_bind (p2_listcomp (py_bind v_key_file (fun a_1 => (py_bind (p2_attr v_self "enc_key_files") (fun a_2 => (p2_add (p2_list a_1) (p2_list a_2)))))) (fun v_key => v_key) (fun v_key => v_key)) (fun v_key_files =>
    (py_bind (p2_iter_check v_key_files) (fun it_5 =>
    (match pyfor2 (py_iter2 it_5) [v_key_file; v_dectext] (fun st_6 x_7 => match st_6 with [v_key_file; v_dectext] =>
     (let v_key_file := x_7 in
     (py_bindS (fun n_17 => (if exc_matches n_17 ["XmlsecError"; "DecryptError"; "EncryptError"; "SignatureError"]
     then (NextS [v_key_file; v_dectext])
     else (ExcS n_17 [v_key_file; v_dectext]))) (py_bind v_enctext (fun a_15 => (py_bind v_key_file (fun a_16 => (crypto_decrypt a_15 a_16))))) (fun v_dectext =>
     (match p2_branch v_dectext with
     | BTrue => (py_bindS (fun n_12 => (ExcS n_12 [v_key_file; v_dectext])) v_dectext (fun r_11 =>
     (RetS r_11)))
     | BFalse => (NextS [v_key_file; v_dectext])
     | BExc n_13 => (ExcS n_13 [v_key_file; v_dectext])
     | BErr => (RetS PErr)
     end))))
    | _ => RetS PErr end) with
    | NextS st_6 => match st_6 with [v_key_file; v_dectext] => (let v_errmsg := (PStr "No key was able to decrypt the ciphertext. Keys tried: {keys}") in
    (py_bind (py_bind v_key_files (fun a_3 => (PStr ""))) (fun v_errmsg =>
    (py_bind v_errmsg (fun _ =>
    (PExc "DecryptError")))))) | _ => PErr end
    | BrkS _ => PErr
    | RetS r_8 => r_8
    | ExcS n_9 st_6 => match st_6 with [v_key_file; v_dectext] => (PExc n_9) | _ => PErr end
    end))))) in
   (match p2_branch (p2_not (p2_isinstance v_key_file ["list"] [])) with
   | BTrue => (py_bind (p2_mklist [v_key_file]) (fun v_key_file =>
   (k_19 v_key_file)))
   | BFalse => (k_19 v_key_file)
   | BExc n_19 => (PExc n_19)
   | BErr => PErr
   end)).

(* saml2/response.py:AuthnResponse.find_encrypt_data_assertion, lines 889-897 *)
Definition src2_find_encrypt_data_assertion (v_self : pyval) (v_enc_assertions : pyval) : pyval :=
  (py_bind (p2_iter_check v_enc_assertions) (fun it_1 =>
   (match pyfor2 (py_iter2 it_1) [] (fun st_2 x_3 => match st_2 with [] =>
    (let v__assertion := x_3 in
    (match p2_branch (p2_is_not_none (p2_attr v__assertion "encrypted_data")) with
    | BTrue => (RetS (PBool true))
    | BFalse => (NextS [])
    | BExc n_6 => (ExcS n_6 [])
    | BErr => (RetS PErr)
    end))
   | _ => RetS PErr end) with
   | NextS st_2 => match st_2 with [] => PNone | _ => PErr end
   | BrkS _ => PErr
   | RetS r_4 => r_4
   | ExcS n_5 st_2 => match st_2 with [] => (PExc n_5) | _ => PErr end
   end))).

(* saml2/response.py:AuthnResponse.find_encrypt_data, lines 913-931 *)
Definition src2_find_encrypt_data (v_self : pyval) (v_resp : pyval) : pyval :=
  let v_res := PErr in
  (let k_16 := fun v_res =>
    (match p2_branch (p2_attr v_resp "assertion") with
    | BTrue => (py_bind (p2_iter_check (p2_attr v_resp "assertion")) (fun it_2 =>
    (match pyfor2 (py_iter2 it_2) [v_res] (fun st_3 x_4 => match st_3 with [v_res] =>
     (let v_tmp_assertion := x_4 in
     (match p2_branch (p2_attr v_tmp_assertion "advice") with
     | BTrue => (match p2_branch (p2_attr (p2_attr v_tmp_assertion "advice") "encrypted_assertion") with
     | BTrue => (py_bindS (fun n_9 => (ExcS n_9 [v_res])) (py_bind (p2_attr (p2_attr v_tmp_assertion "advice") "encrypted_assertion") (fun a_7 => (src2_find_encrypt_data_assertion v_self a_7))) (fun v_res =>
     (match p2_branch v_res with
     | BTrue => (RetS (PBool true))
     | BFalse => (NextS [v_res])
     | BExc n_8 => (ExcS n_8 [v_res])
     | BErr => (RetS PErr)
     end)))
     | BFalse => (NextS [v_res])
     | BExc n_10 => (ExcS n_10 [v_res])
     | BErr => (RetS PErr)
     end)
     | BFalse => (NextS [v_res])
     | BExc n_11 => (ExcS n_11 [v_res])
     | BErr => (RetS PErr)
     end))
    | _ => RetS PErr end) with
    | NextS st_3 => match st_3 with [v_res] => (PBool false) | _ => PErr end
    | BrkS _ => PErr
    | RetS r_5 => r_5
    | ExcS n_6 st_3 => match st_3 with [v_res] => (PExc n_6) | _ => PErr end
    end)))
    | BFalse => (PBool false)
    | BExc n_12 => (PExc n_12)
    | BErr => PErr
    end) in
   (match p2_branch (p2_attr v_resp "encrypted_assertion") with
   | BTrue => (py_bind (py_bind (p2_attr v_resp "encrypted_assertion") (fun a_14 => (src2_find_encrypt_data_assertion v_self a_14))) (fun v_res =>
   (match p2_branch v_res with
   | BTrue => (PBool true)
   | BFalse => (k_16 v_res)
   | BExc n_15 => (PExc n_15)
   | BErr => PErr
   end)))
   | BFalse => (k_16 v_res)
   | BExc n_16 => (PExc n_16)
   | BErr => PErr
   end)).

(* saml2/response.py:AuthnResponse.decrypt_assertions, lines 863-887 *)
Definition src2_decrypt_assertions (ee2e : pyval -> pyval) (check_sig : pyval -> pyval -> pyval -> pyval -> pyval) (class_name_ext : pyval -> pyval) (v_self : pyval) (v_encrypted_assertions : pyval) (v_decr_txt : pyval) (v_issuer : pyval) (v_verified : pyval) : pyval :=
  let v_res := PErr in
  let v_assertions := PErr in
  (let v_res := (PList []) in
   (py_bind (p2_iter_check v_encrypted_assertions) (fun it_2 =>
   (match pyfor2 (py_iter2 it_2) [v_assertions; v_res] (fun st_3 x_4 => match st_3 with [v_assertions; v_res] =>
    (let v_encrypted_assertion := x_4 in
    (match p2_branch (p2_attr v_encrypted_assertion "extension_elements") with
    | BTrue => (py_bindS (fun n_24 => (ExcS n_24 [v_assertions; v_res])) (py_bind (p2_attr v_encrypted_assertion "extension_elements") (fun a_7 => (py_bind (p2_mklist [PNone; PNone]) (fun a_8 => (ee2e a_7))))) (fun v_assertions =>
    (py_bindS (fun n_23 => (ExcS n_23 [v_assertions; v_res])) (p2_iter_check v_assertions) (fun it_9 =>
    (match pyfor2 (py_iter2 it_9) [v_res] (fun st_10 x_11 => match st_10 with [v_res] =>
     (let v_assertion := x_11 in
     (let k_22 := fun (_ : unit) =>
      (py_bindS (fun n_14 => (ExcS n_14 [v_res])) (p2_append v_res v_assertion) (fun v_res =>
      (NextS [v_res]))) in
     (match p2_branch (p2_and (p2_attr v_assertion "signature") (p2_not v_verified)) with
     | BTrue => (match p2_branch (p2_not (py_bind v_assertion (fun a_17 => (py_bind v_decr_txt (fun a_18 => (py_bind (py_bind v_assertion (fun a_16 => (class_name_ext a_16))) (fun a_19 => (py_bind v_issuer (fun a_20 => (check_sig a_17 a_18 a_19 a_20)))))))))) with
     | BTrue => (ExcS "SignatureError" [v_res])
     | BFalse => (k_22 tt)
     | BExc n_21 => (ExcS n_21 [v_res])
     | BErr => (RetS PErr)
     end)
     | BFalse => (k_22 tt)
     | BExc n_22 => (ExcS n_22 [v_res])
     | BErr => (RetS PErr)
     end)))
    | _ => RetS PErr end) with
    | NextS st_10 => match st_10 with [v_res] => (NextS [v_assertions; v_res]) | _ => (RetS PErr) end
    | BrkS _ => (RetS PErr)
    | RetS r_12 => (RetS r_12)
    | ExcS n_13 st_10 => match st_10 with [v_res] => (ExcS n_13 [v_assertions; v_res]) | _ => (RetS PErr) end
    end)))))
    | BFalse => (NextS [v_assertions; v_res])
    | BExc n_25 => (ExcS n_25 [v_assertions; v_res])
    | BErr => (RetS PErr)
    end))
   | _ => RetS PErr end) with
   | NextS st_3 => match st_3 with [v_assertions; v_res] => v_res | _ => PErr end
   | BrkS _ => PErr
   | RetS r_5 => r_5
   | ExcS n_6 st_3 => match st_3 with [v_assertions; v_res] => (PExc n_6) | _ => PErr end
   end)))).

(* saml2/response.py:AuthnResponse._assertion, lines 801-861 *)
Definition src2_assertion (check_sig3 : pyval -> pyval -> pyval -> pyval) (class_name_ext : pyval -> pyval) (issuer_ext : pyval -> pyval) (authn_statement_ok_ext : pyval -> pyval) (condition_ok_ext : pyval -> pyval) (get_subject_ext : pyval -> pyval) (v_self : pyval) (v_assertion : pyval) (v_verified : pyval) : pyval :=
  let v_exc := PErr in
  let v__resp_issuer := PErr in
  let v__ass_issuer := PErr in
  (let k_23 := fun v_exc =>
    (py_bind (issuer_ext v_self) (fun v__resp_issuer =>
    (py_bind (p2_ifexp (p2_is_not_none (p2_attr v_assertion "issuer")) (p2_strip (p2_or (p2_attr (p2_attr v_assertion "issuer") "text") (PStr ""))) (PStr "")) (fun v__ass_issuer =>
    (match p2_branch (p2_and v__resp_issuer (p2_ne v__resp_issuer v__ass_issuer)) with
    | BTrue => (py_bind (p2_fconcat [PStr "Issuer mismatch: response issuer '"; p2_str v__resp_issuer; PStr "', assertion issuer '"; p2_str v__ass_issuer; PStr "'"]) (fun _ =>
    (PExc "VerificationError")))
    | BFalse => (py_bind v_assertion (fun a_1 =>
    (py_bind (p2_setattr v_self "assertion" a_1) (fun v_self =>
    (let k_11 := fun (_ : unit) =>
     (match p2_branch (p2_not (condition_ok_ext v_self)) with
     | BTrue => (PExc "VerificationError")
     | BFalse => (let h_2 := fun n_2 =>
      (PExc n_2) in
     (py_bindh (fun n_7 => (h_2 n_7)) (get_subject_ext v_self) (fun _ =>
     (match p2_branch (p2_attr v_self "asynchop") with
     | BTrue => (match p2_branch (p2_attr v_self "allow_unsolicited") with
     | BTrue => (PBool true)
     | BFalse => (match p2_branch (p2_is_none (p2_attr v_self "came_from")) with
     | BTrue => (h_2 "VerificationError")
     | BFalse => (PBool true)
     | BExc n_4 => (h_2 n_4)
     | BErr => PErr
     end)
     | BExc n_5 => (h_2 n_5)
     | BErr => PErr
     end)
     | BFalse => (PBool true)
     | BExc n_6 => (h_2 n_6)
     | BErr => PErr
     end))))
     | BExc n_9 => (PExc n_9)
     | BErr => PErr
     end) in
    (match p2_branch (p2_eq (p2_attr v_self "context") (PStr "AuthnReq")) with
    | BTrue => (py_bind (authn_statement_ok_ext v_self) (fun _ =>
    (k_11 tt)))
    | BFalse => (k_11 tt)
    | BExc n_11 => (PExc n_11)
    | BErr => PErr
    end))))))
    | BExc n_13 => (PExc n_13)
    | BErr => PErr
    end))))) in
   (match p2_branch (p2_or (p2_not (p2_hasattr v_assertion "signature")) (p2_not (p2_attr v_assertion "signature"))) with
   | BTrue => (match p2_branch (p2_attr v_self "require_signature") with
   | BTrue => (PExc "SignatureError")
   | BFalse => (k_23 v_exc)
   | BExc n_15 => (PExc n_15)
   | BErr => PErr
   end)
   | BFalse => (match p2_branch (p2_and (p2_not v_verified) (p2_is_bool false (p2_attr v_self "do_not_verify"))) with
   | BTrue => (py_bindh (fun n_21 => (let v_exc := PExc n_21 in
   (PExc n_21))) (py_bind v_assertion (fun a_18 => (py_bind (py_bind v_assertion (fun a_17 => (class_name_ext a_17))) (fun a_19 => (py_bind (p2_attr v_self "xmlstr") (fun a_20 => (check_sig3 a_18 a_19 a_20))))))) (fun _ =>
   (k_23 v_exc)))
   | BFalse => (k_23 v_exc)
   | BExc n_22 => (PExc n_22)
   | BErr => PErr
   end)
   | BExc n_23 => (PExc n_23)
   | BErr => PErr
   end)).

(* saml2/sigver.py:pre_encrypt_assertion, lines 1920-1935 *)
Definition src2_pre_encrypt_assertion (mk_ea : pyval) (add_el : pyval -> pyval -> pyval) (add_els : pyval -> pyval -> pyval) (v_response : pyval) : pyval :=
  let v_assertion := PErr in
  (py_bind (p2_attr v_response "assertion") (fun v_assertion =>
   (py_bind (p2_setattr v_response "assertion" PNone) (fun v_response =>
   (py_bind mk_ea (fun a_1 =>
   (py_bind (p2_setattr v_response "encrypted_assertion" a_1) (fun v_response =>
   (match p2_branch (p2_is_not_none v_assertion) with
   | BTrue => (match p2_branch (p2_isinstance v_assertion ["list"] []) with
   | BTrue => (py_bind (py_bind v_assertion (fun a_3 => (add_els (p2_attr v_response "encrypted_assertion") a_3))) (fun _ =>
   v_response))
   | BFalse => (py_bind (py_bind v_assertion (fun a_4 => (add_el (p2_attr v_response "encrypted_assertion") a_4))) (fun _ =>
   v_response))
   | BExc n_5 => (PExc n_5)
   | BErr => PErr
   end)
   | BFalse => v_response
   | BExc n_6 => (PExc n_6)
   | BErr => PErr
   end))))))))).

(* saml2/sigver.py:CryptoBackendXmlSec1.encrypt_assertion, lines 729-770 *)
Definition src2_xmlsec_encrypt_assertion (pre_enc : pyval -> pyval) (make_temp_ext : pyval -> pyval) (to_str : pyval -> pyval) (run_xmlsec : pyval -> pyval -> pyval) (decode_ext : pyval -> pyval) (v_self : pyval) (v_statement : pyval) (v_enc_key : pyval) (v_template : pyval) (v_key_type : pyval) (v_node_xpath : pyval) (v_node_id : pyval) : pyval :=
  let v_tmp := PErr in
  let v_tmp2 := PErr in
  let v_com_list := PErr in
  let v__stdout := PErr in
  let v__stderr := PErr in
  let v_output := PErr in
  let v_e := PErr in
  (let k_20 := fun v_statement =>
    (py_bind (py_bind (py_bind v_statement (fun a_1 => (to_str a_1))) (fun a_2 => (py_bind (p2_attr v_self "delete_tmpfiles") (fun a_3 => (make_temp_ext a_2))))) (fun v_tmp =>
    (py_bind (py_bind (py_bind v_template (fun a_4 => (to_str a_4))) (fun a_5 => (py_bind (p2_attr v_self "delete_tmpfiles") (fun a_6 => (make_temp_ext a_5))))) (fun v_tmp2 =>
    (let k_17 := fun v_node_xpath =>
     (py_bind (p2_mklist [(p2_attr v_self "xmlsec"); (PStr "--encrypt"); (PStr "--pubkey-cert-pem"); v_enc_key; (PStr "--session-key"); v_key_type; (PStr "--xml-data"); (p2_attr v_tmp "name"); (PStr "--node-xpath"); v_node_xpath]) (fun v_com_list =>
     (let k_15 := fun v_com_list =>
      (let h_8 := fun n_8 v__stdout v__stderr v_output =>
       (if exc_matches n_8 ["XmlsecError"; "DecryptError"; "EncryptError"; "SignatureError"]
       then (let v_e := PExc n_8 in
       (py_bind v_com_list (fun _ =>
       (PExc "EncryptError"))))
       else (PExc n_8)) in
      (py_bindh (fun n_13 => (h_8 n_13 v__stdout v__stderr v_output)) (py_bind v_com_list (fun a_9 => (py_bind (p2_mklist [(p2_attr v_tmp2 "name")]) (fun a_10 => (run_xmlsec a_9 a_10))))) (fun a_11 =>
      (match p2_unpack 3 a_11 with
      | PList [v__stdout; v__stderr; v_output] => (decode_ext v_output)
      | PExc n_12 => (h_8 n_12 v__stdout v__stderr v_output)
      | _ => PErr
      end)))) in
     (match p2_branch v_node_id with
     | BTrue => (py_bind (p2_extend v_com_list (p2_mklist [(PStr "--node-id"); v_node_id])) (fun v_com_list =>
     (k_15 v_com_list)))
     | BFalse => (k_15 v_com_list)
     | BExc n_15 => (PExc n_15)
     | BErr => PErr
     end)))) in
    (match p2_branch (p2_not v_node_xpath) with
    | BTrue => (let v_node_xpath := (PStr "ASSERT_XPATH") in
    (k_17 v_node_xpath))
    | BFalse => (k_17 v_node_xpath)
    | BExc n_17 => (PExc n_17)
    | BErr => PErr
    end)))))) in
   (match p2_branch (p2_isinstance v_statement [] ["SamlBase"; "Response"]) with
   | BTrue => (py_bind (py_bind v_statement (fun a_19 => (pre_enc a_19))) (fun v_statement =>
   (k_20 v_statement)))
   | BFalse => (k_20 v_statement)
   | BExc n_20 => (PExc n_20)
   | BErr => PErr
   end)).
