(* C04/Proofs.v *)
From Coq Require Import String List Bool.
From Verif Require Import Base.Str C04.Model C04.Spec.
Import ListNotations.
Open Scope string_scope.

Lemma is_empty_true s : is_empty s = true <-> s = "".
Proof. destruct s; cbn; split; congruence. Qed.

Lemma aud_names_b_iff me a : aud_names_b me a = true <-> audience_names me a.
Proof.
  destruct a as [t|]; cbn; [apply String.eqb_eq|split; [discriminate|contradiction]].
Qed.

Lemma aud_matches_names me a : aud_matches me a = true -> audience_names me a.
Proof.
  destruct a as [t|]; cbn; [|discriminate].
  intros H. apply andb_true_iff in H as [_ H]. apply String.eqb_eq; exact H.
Qed.

Lemma restrictions_b_iff rs me :
  forallb (fun r => existsb (aud_names_b me) r) rs = true <-> restrictions_satisfied rs me.
Proof.
  unfold restrictions_satisfied. rewrite forallb_forall. split.
  - intros H r Hr. specialize (H r Hr). apply existsb_exists in H as [a [Ha Hb]].
    exists a. split; [exact Ha|]. apply aud_names_b_iff; exact Hb.
  - intros H r Hr. destruct (H r Hr) as [a [Ha Hb]]. apply existsb_exists.
    exists a. split; [exact Ha|]. apply aud_names_b_iff; exact Hb.
Qed.

Lemma own_endpoint_b_iff specs b d : own_endpoint_b specs b d = true <-> own_endpoint specs b d.
Proof.
  unfold own_endpoint_b, own_endpoint. rewrite existsb_exists. split.
  - intros [e [He H]]. destruct e as [u b'|u].
    + apply andb_true_iff in H as [H1 H2]. apply String.eqb_eq in H1, H2. subst. left; exact He.
    + apply String.eqb_eq in H. subst. right; exact He.
  - intros [H|H]; eexists; (split; [exact H|]); cbn; rewrite ?String.eqb_refl; reflexivity.
Qed.

Lemma asynchop_iff b : asynchop b = true <-> front_channel b.
Proof.
  unfold asynchop, front_channel. rewrite negb_true_iff, orb_false_iff, !String.eqb_neq. tauto.
Qed.

(* the boolean spec evaluated in the correspondence IS the stated spec *)
Lemma spec_b_iff x o : spec_b x o = true <-> spec x o.
Proof.
  unfold spec_b, spec. destruct o; cbn [negb orb].
  2:{ split; [intros _ H; discriminate|reflexivity]. }
  rewrite !andb_true_iff, restrictions_b_iff. split.
  - intros [[H1 H2] H3]. intros _. split; [exact H1|]. split.
    + intros Hf d Hd Hne. apply asynchop_iff in Hf. rewrite Hf, Hd in H2. cbn in H2.
      apply orb_true_iff in H2 as [H2|H2]; [apply is_empty_true in H2; contradiction|].
      apply own_endpoint_b_iff; exact H2.
    + intros eid r Hc Hr. rewrite Hc, Hr in H3. apply orb_true_iff in H3 as [H3|H3].
      * left. destruct eid as [e|]; cbn in H3; [|discriminate]. apply String.eqb_eq in H3. subst; reflexivity.
      * right. apply own_endpoint_b_iff; exact H3.
  - intros H. destruct (H eq_refl) as [H1 [H2 H3]]. split; [split; [exact H1|]|].
    + destruct (asynchop (binding x)) eqn:Ea; cbn [negb orb]; [|reflexivity].
      destruct (dest x) as [d|] eqn:Ed; [|reflexivity].
      destruct (is_empty d) eqn:Ee; [reflexivity|]. cbn [orb].
      apply own_endpoint_b_iff. apply H2; [apply asynchop_iff; exact Ea|reflexivity|].
      intros ->. discriminate.
    + destruct (conv x) as [eid|] eqn:Ec; [|reflexivity].
      destruct (recip x) as [r|] eqn:Er; [|reflexivity].
      destruct (H3 eid r eq_refl eq_refl) as [->|Ho].
      * cbn. rewrite String.eqb_refl. reflexivity.
      * apply orb_true_iff; right. apply own_endpoint_b_iff; exact Ho.
Qed.

(* Config.endpoint only returns configured endpoints of the asked binding (or bare ones) *)
Lemma endpoint_sound specs b d : In d (endpoint specs b) -> own_endpoint specs b d.
Proof.
  unfold endpoint, own_endpoint.
  set (spec := flat_map _ specs). set (unspec := flat_map _ specs).
  assert (Hs : In d spec -> In (EP d b) specs).
  { unfold spec. rewrite in_flat_map. intros [e [He Hd]]. destruct e as [u b'|u]; [|contradiction].
    destruct (String.eqb b' b) eqn:E; [|contradiction]. apply String.eqb_eq in E. subst b'.
    destruct Hd as [->|[]]. exact He. }
  assert (Hu : In d unspec -> In (Bare d) specs).
  { unfold unspec. rewrite in_flat_map. intros [e [He Hd]]. destruct e as [u b'|u]; [contradiction|].
    destruct Hd as [->|[]]. exact He. }
  destruct spec as [|s0 sp]; intros H; [right; apply Hu; exact H|left; apply Hs; exact H].
Qed.

Lemma for_me_sound rs me : for_me rs me = true -> restrictions_satisfied rs me.
Proof.
  unfold for_me, restrictions_satisfied. rewrite forallb_forall. intros H r Hr.
  specialize (H r Hr). apply existsb_exists in H as [a [Ha Hb]]. exists a. split; [exact Ha|].
  apply aud_matches_names; exact Hb.
Qed.

(* main theorem: for every input, the modelled acceptance satisfies the property *)
Lemma addressing_holds x : spec x (identity x).
Proof.
  unfold spec, identity. intros H. apply andb_true_iff in H as [H H3]. apply andb_true_iff in H as [H1 H2].
  split; [apply for_me_sound; exact H2|]. split.
  - intros Hf d Hd Hne. apply asynchop_iff in Hf. unfold dest_ok in H1. rewrite Hf, Hd in H1.
    apply orb_true_iff in H1 as [H1|H1]; [apply is_empty_true in H1; contradiction|].
    apply endpoint_sound. apply mem_In; exact H1.
  - intros eid r Hc Hr. unfold recipient_ok in H3. rewrite Hr in H3.
    apply andb_true_iff in H3 as [_ H3]. unfold verify_recipient in H3. rewrite Hc in H3.
    apply orb_true_iff in H3 as [H3|H3].
    + left. destruct eid as [e|]; cbn in H3; [|discriminate]. apply String.eqb_eq in H3. subst; reflexivity.
    + right. apply endpoint_sound. apply mem_In; exact H3.
Qed.

(* exactness: a candidate without outer whitespace matches only if it IS my entityID *)
Lemma lookalike_rejected me t : no_outer_ws t = true -> t <> me -> aud_matches me (Some t) = false.
Proof.
  intros Hw Hne. cbn. rewrite (strip_id t Hw). apply andb_false_iff; right.
  apply String.eqb_neq; exact Hne.
Qed.

(* the pinned snapshot's for_me violates the property: [[other];[me]] is accepted *)
Definition witness_v0 : input :=
  {| me := "https://sp.example.org/sp.xml";
     specs := [EP "https://sp.example.org/acs/post" "urn:oasis:names:tc:SAML:2.0:bindings:HTTP-POST"];
     binding := "urn:oasis:names:tc:SAML:2.0:bindings:HTTP-POST";
     rs := [[Some "https://other.example.org/sp.xml"]; [Some "https://sp.example.org/sp.xml"]];
     dest := Some "https://sp.example.org/acs/post";
     conv := None;
     recip := Some "https://sp.example.org/acs/post" |}.

Lemma v0_refuted : exists x, ~ spec x (identity_v0 x).
Proof.
  exists witness_v0. intros H. assert (E : identity_v0 witness_v0 = true) by (vm_compute; reflexivity).
  destruct (H E) as [H1 _]. apply restrictions_b_iff in H1. vm_compute in H1. discriminate.
Qed.

(* completeness for the addressing part: correctly addressed => accepted by these checks *)
Lemma endpoint_complete specs b d : In (EP d b) specs -> In d (endpoint specs b).
Proof.
  intros H. unfold endpoint.
  set (spec := flat_map _ specs).
  assert (Hs : In d spec).
  { unfold spec. apply in_flat_map. exists (EP d b). split; [exact H|]. rewrite String.eqb_refl. left; reflexivity. }
  destruct spec; [contradiction|exact Hs].
Qed.

Lemma addressed_to_me_accepted x d r :
  (forall q, In q (rs x) -> In (Some (me x)) q) -> me x <> "" -> no_outer_ws (me x) = true ->
  dest x = Some d -> In (EP d (binding x)) (specs x) ->
  recip x = Some r -> r <> "" -> In (EP r (binding x)) (specs x) ->
  identity x = true.
Proof.
  intros Hrs Hme Hws Hd Hde Hr Hrne Hre. unfold identity.
  rewrite !andb_true_iff. split; [split|].
  - unfold dest_ok. destruct (asynchop (binding x)); [|reflexivity]. rewrite Hd.
    apply orb_true_iff; right. apply mem_In. apply endpoint_complete; exact Hde.
  - unfold for_me. apply forallb_forall. intros q Hq. apply existsb_exists. exists (Some (me x)).
    split; [apply Hrs; exact Hq|]. cbn. rewrite (strip_id _ Hws), String.eqb_refl.
    destruct (me x); [contradiction|reflexivity].
  - unfold recipient_ok. rewrite Hr. apply andb_true_iff. split.
    + destruct r; [contradiction|reflexivity].
    + unfold verify_recipient. destruct (conv x); [|reflexivity]. apply orb_true_iff; right.
      apply mem_In. apply endpoint_complete; exact Hre.
Qed.

(* non-vacuity: a concrete, correctly addressed Response meets the hypotheses and is accepted *)
Example accepted_example :
  identity {| me := "https://sp.example.org/sp.xml";
              specs := [EP "https://sp.example.org/acs/post" "urn:oasis:names:tc:SAML:2.0:bindings:HTTP-POST"];
              binding := "urn:oasis:names:tc:SAML:2.0:bindings:HTTP-POST";
              rs := [[Some "x"; Some " https://sp.example.org/sp.xml "]; [Some "https://sp.example.org/sp.xml"]];
              dest := Some "https://sp.example.org/acs/post";
              conv := Some (Some "https://sp.example.org/sp.xml");
              recip := Some "https://sp.example.org/sp.xml" |} = true.
Proof. vm_compute. reflexivity. Qed.

(* ---------------------------------------------------------------------------------------------
   the whole message: any Conditions shape, any list of SubjectConfirmation elements *)

Lemma conf_ok_b_iff specs b eid c :
  conf_ok_b specs b eid c = true <->
  (forall d r, c_method c = Bearer -> c_data c = Some d -> d_confirmed d = true -> d_recipient d = Some r ->
     eid = Some r \/ own_endpoint specs b r).
Proof.
  unfold conf_ok_b. destruct c as [m dd]; cbn [c_method c_data].
  destruct m; try (split; [intros _ d r Hm; discriminate|reflexivity]).
  destruct dd as [d0|]; [|split; [intros _ d r _ Hd; discriminate|reflexivity]].
  destruct d0 as [rc cf]; cbn [d_recipient d_confirmed].
  destruct cf; cbn [negb orb].
  2:{ split; [intros _ d r _ Hd Hc|reflexivity]. inversion Hd; subst d. cbn in Hc. discriminate. }
  destruct rc as [r0|].
  2:{ split; [intros _ d r _ Hd _ Hr|reflexivity]. inversion Hd; subst d. cbn in Hr. discriminate. }
  split.
  - intros H d r _ Hd _ Hr. inversion Hd; subst d. cbn in Hr. inversion Hr; subst r0.
    apply orb_true_iff in H as [H|H].
    + left. destruct eid as [e|]; cbn in H; [|discriminate]. apply String.eqb_eq in H. subst; reflexivity.
    + right. apply own_endpoint_b_iff; exact H.
  - intros H. destruct (H _ r0 eq_refl eq_refl eq_refl eq_refl) as [->|Ho].
    + cbn. rewrite String.eqb_refl. reflexivity.
    + apply orb_true_iff; right. apply own_endpoint_b_iff; exact Ho.
Qed.

Lemma spec_m_b_iff x o : spec_m_b x o = true <-> spec_m x o.
Proof.
  unfold spec_m_b, spec_m. destruct o; cbn [negb orb].
  2:{ split; [intros _ H; discriminate|reflexivity]. }
  rewrite !andb_true_iff, restrictions_b_iff. split.
  - intros [[H1 H2] H3]. intros _. split; [exact H1|]. split.
    + intros Hf d Hd Hne. apply asynchop_iff in Hf. rewrite Hf, Hd in H2. cbn in H2.
      apply orb_true_iff in H2 as [H2|H2]; [apply is_empty_true in H2; contradiction|].
      apply own_endpoint_b_iff; exact H2.
    + intros eid c d r Hc Hin Hm Hd Hcf Hr. rewrite Hc in H3.
      rewrite forallb_forall in H3. specialize (H3 c Hin).
      apply (proj1 (conf_ok_b_iff _ _ _ _) H3 d r Hm Hd Hcf Hr).
  - intros H. destruct (H eq_refl) as [H1 [H2 H3]]. split; [split; [exact H1|]|].
    + destruct (asynchop (m_binding x)) eqn:Ea; cbn [negb orb]; [|reflexivity].
      destruct (m_dest x) as [d|] eqn:Ed; [|reflexivity].
      destruct (is_empty d) eqn:Ee; [reflexivity|]. cbn [orb].
      apply own_endpoint_b_iff. apply H2; [apply asynchop_iff; exact Ea|reflexivity|].
      intros ->. discriminate.
    + destruct (m_conv x) as [eid|] eqn:Ec; [|reflexivity].
      apply forallb_forall. intros c Hin. apply conf_ok_b_iff.
      intros d r Hm Hd Hcf Hr. exact (H3 eid c d r eq_refl Hin Hm Hd Hcf Hr).
Qed.

(* the loop of get_subject, in closed form: it ends in an exception iff some confirmation raises;
   otherwise exactly the confirmations with verdict Keep are collected, in order *)
Definition keeps conv addrs (c : confirmation) : bool := is_keep (conf_verdict conv addrs c).
Definition raises conv addrs (c : confirmation) : bool := is_raise (conf_verdict conv addrs c).

Lemma subject_loop_closed conv addrs l : forall kept,
  subject_loop conv addrs l kept =
  if existsb (raises conv addrs) l then None else Some (kept ++ filter (keeps conv addrs) l)%list.
Proof.
  induction l as [|c r IH]; intros kept; cbn [subject_loop existsb filter].
  - rewrite app_nil_r. reflexivity.
  - unfold raises at 1, keeps at 1. destruct (conf_verdict conv addrs c); cbn [is_raise is_keep orb].
    + apply IH.
    + rewrite IH, <- app_assoc. reflexivity.
    + reflexivity.
Qed.

(* hence the verdict does not depend on the ORDER of the confirmations, nor on which one is last *)
Lemma get_subject_closed conv addrs l :
  get_subject conv addrs l = negb (existsb (raises conv addrs) l) && existsb (keeps conv addrs) l.
Proof.
  unfold get_subject. rewrite subject_loop_closed. cbn [app].
  destruct (existsb (raises conv addrs) l); cbn [negb andb]; [reflexivity|].
  induction l as [|c r IH]; cbn [filter existsb]; [reflexivity|].
  destruct (keeps conv addrs c); cbn [orb]; [reflexivity|exact IH].
Qed.

(* a confirmed bearer confirmation that does not make the loop raise has a good Recipient *)
Lemma bearer_not_raised conv addrs c d :
  c_method c = Bearer -> c_data c = Some d -> d_confirmed d = true ->
  raises conv addrs c = false -> recipient_ok conv addrs (d_recipient d) = true.
Proof.
  intros Hm Hd Hc. unfold raises, conf_verdict, check_recipient. rewrite Hm, Hd, Hc.
  destruct (recipient_ok conv addrs (d_recipient d)); [reflexivity|discriminate].
Qed.

Lemma condition_ok_for_me c me : condition_ok c me = for_me (all_restrictions c) me.
Proof.
  destruct c as [k|]; cbn [condition_ok all_restrictions]; [|reflexivity].
  destruct (keyswv_empty k) eqn:E; [|reflexivity].
  unfold keyswv_empty in E. apply andb_true_iff in E as [_ E].
  destruct (k_rs k); [reflexivity|discriminate].
Qed.

(* whether the Conditions carry a validity period or other children never matters for the audience test *)
Lemma period_irrelevant nb nooa other rs me :
  condition_ok (Some {| k_nb := nb; k_nooa := nooa; k_other := other; k_rs := rs |}) me = for_me rs me.
Proof. apply condition_ok_for_me. Qed.

(* main theorem over whole messages *)
Lemma accept_holds x : spec_m x (accept x).
Proof.
  unfold spec_m, accept. intros H. apply andb_true_iff in H as [H H3]. apply andb_true_iff in H as [H1 H2].
  split; [apply for_me_sound; rewrite <- condition_ok_for_me; exact H2|]. split.
  - intros Hf d Hd Hne. apply asynchop_iff in Hf. unfold dest_ok in H1. rewrite Hf, Hd in H1.
    apply orb_true_iff in H1 as [H1|H1]; [apply is_empty_true in H1; contradiction|].
    apply endpoint_sound. apply mem_In; exact H1.
  - intros eid c d r Hc Hin Hm Hd Hcf Hr.
    rewrite get_subject_closed in H3. apply andb_true_iff in H3 as [H3 _].
    apply negb_true_iff in H3.
    assert (Hnr : raises (m_conv x) (endpoint (m_specs x) (m_binding x)) c = false).
    { destruct (raises (m_conv x) (endpoint (m_specs x) (m_binding x)) c) eqn:E; [|reflexivity].
      assert (Hex : existsb (raises (m_conv x) (endpoint (m_specs x) (m_binding x))) (m_confs x) = true)
        by (apply existsb_exists; exists c; split; assumption).
      rewrite Hex in H3. discriminate. }
    pose proof (bearer_not_raised _ _ c d Hm Hd Hcf Hnr) as Hok.
    unfold recipient_ok in Hok. rewrite Hr in Hok.
    apply andb_true_iff in Hok as [_ Hok]. unfold verify_recipient in Hok. rewrite Hc in Hok.
    apply orb_true_iff in Hok as [Hok|Hok].
    + left. destruct eid as [e|]; cbn in Hok; [|discriminate]. apply String.eqb_eq in Hok. subst; reflexivity.
    + right. apply endpoint_sound. apply mem_In; exact Hok.
Qed.

(* the one-confirmation, time-bounded message is the old input: same verdict, same property *)
Lemma accept_of_input x : accept (of_input x) = identity x.
Proof.
  unfold accept, identity, of_input; cbn [m_me m_specs m_binding m_conds m_dest m_conv m_confs].
  f_equal. unfold get_subject, bearer. cbn [subject_loop conf_verdict c_method c_data d_confirmed].
  unfold check_recipient; cbn [d_recipient].
  destruct (recipient_ok (conv x) (endpoint (specs x) (binding x)) (recip x)); reflexivity.
Qed.

Lemma spec_of_input x o : spec_m (of_input x) o <-> spec x o.
Proof.
  unfold spec_m, spec, of_input; cbn [m_me m_specs m_binding m_conds m_dest m_conv m_confs all_restrictions usual_conditions k_rs].
  split; intros H Ho; destruct (H Ho) as [H1 [H2 H3]]; (split; [exact H1|split; [exact H2|]]).
  - intros eid r Hc Hr. apply (H3 eid (bearer (recip x)) {| d_recipient := recip x; d_confirmed := true |} r Hc);
      [left; reflexivity|reflexivity|reflexivity|reflexivity|exact Hr].
  - intros eid c d r Hc [<-|[]] _ Hd _ Hr. cbn in Hd. inversion Hd; subst d. cbn in Hr. exact (H3 eid r Hc Hr).
Qed.

(* completeness over whole messages: Conditions of any shape whose restrictions all name me, own
   Destination, and a list of confirmed bearer confirmations (at least one) that all name an own
   endpoint: accepted *)
Lemma message_to_me_accepted x d :
  (forall q, In q (all_restrictions (m_conds x)) -> In (Some (m_me x)) q) -> m_me x <> "" -> no_outer_ws (m_me x) = true ->
  m_dest x = Some d -> In (EP d (m_binding x)) (m_specs x) ->
  m_confs x <> [] ->
  (forall c, In c (m_confs x) -> exists r, c = bearer (Some r) /\ r <> "" /\ In (EP r (m_binding x)) (m_specs x)) ->
  accept x = true.
Proof.
  intros Hrs Hme Hws Hd Hde Hne Hcs. unfold accept.
  rewrite !andb_true_iff. split; [split|].
  - unfold dest_ok. destruct (asynchop (m_binding x)); [|reflexivity]. rewrite Hd.
    apply orb_true_iff; right. apply mem_In. apply endpoint_complete; exact Hde.
  - rewrite condition_ok_for_me. unfold for_me. apply forallb_forall. intros q Hq. apply existsb_exists.
    exists (Some (m_me x)). split; [apply Hrs; exact Hq|]. cbn. rewrite (strip_id _ Hws), String.eqb_refl.
    destruct (m_me x); [contradiction|reflexivity].
  - rewrite get_subject_closed.
    assert (Hk : forall c, In c (m_confs x) -> conf_verdict (m_conv x) (endpoint (m_specs x) (m_binding x)) c = Keep).
    { intros c Hin. destruct (Hcs c Hin) as [r [-> [Hr1 Hr2]]].
      unfold conf_verdict, bearer, check_recipient; cbn [c_method c_data d_confirmed d_recipient].
      replace (recipient_ok _ _ (Some r)) with true; [reflexivity|]. symmetry.
      unfold recipient_ok. apply andb_true_iff. split; [destruct r; [contradiction|reflexivity]|].
      unfold verify_recipient. destruct (m_conv x); [|reflexivity]. apply orb_true_iff; right.
      apply mem_In. apply endpoint_complete; exact Hr2. }
    apply andb_true_iff. split.
    + apply negb_true_iff. destruct (existsb _ (m_confs x)) eqn:E; [|reflexivity].
      apply existsb_exists in E as [c [Hin Hc]]. unfold raises in Hc. rewrite (Hk c Hin) in Hc. discriminate.
    + destruct (m_confs x) as [|c r] eqn:E; [contradiction|]. cbn [existsb]. unfold keeps at 1.
      rewrite (Hk c (or_introl eq_refl)). reflexivity.
Qed.

(* non-vacuity of the message theorems: no validity period, foreign look-alike bearer Recipient in a
   NON-final confirmation => refused; the same with both confirmations mine => accepted; an
   unusable (data-less) confirmation next to a good one => accepted; Conditions without validity
   period naming someone else => refused *)
Definition msg (k : option conditions) (cs : list confirmation) : message :=
  {| m_me := "https://sp.example.org/sp.xml";
     m_specs := [EP "https://sp.example.org/acs/post" "urn:oasis:names:tc:SAML:2.0:bindings:HTTP-POST"];
     m_binding := "urn:oasis:names:tc:SAML:2.0:bindings:HTTP-POST";
     m_conds := k; m_dest := Some "https://sp.example.org/acs/post";
     m_conv := Some (Some "https://sp.example.org/sp.xml"); m_confs := cs |}.
Definition no_period (rs : list (list audience)) : conditions :=
  {| k_nb := false; k_nooa := false; k_other := false; k_rs := rs |}.
Example message_examples :
  let mine := Some (no_period [[Some "https://sp.example.org/sp.xml"]]) in
  let good := bearer (Some "https://sp.example.org/acs/post") in
  let evil := bearer (Some "https://sp.example.org.evil.example/acs/post") in
  (accept (msg mine [evil; good]), accept (msg mine [good; evil]), accept (msg mine [good; good]),
   accept (msg mine [{| c_method := Bearer; c_data := None |}; good]),
   accept (msg mine []),
   accept (msg (Some (no_period [[Some "https://other.example.org/sp.xml"]])) [good]),
   accept (msg None [good]))
  = (false, false, true, true, false, false, true).
Proof. vm_compute. reflexivity. Qed.

(* ---------------------------------------------------------------------------------------------
   call sequences on long-lived provider objects *)

Lemma return_addrs_endpoint specs b : return_addrs specs b = endpoint specs b.
Proof. unfold return_addrs, service_urls. destruct (endpoint specs b); reflexivity. Qed.

(* what parse_authn_request_response hands to AuthnResponse is made of own endpoints only *)
Lemma return_addrs_own specs b d : In d (return_addrs specs b) -> own_endpoint specs b d.
Proof. rewrite return_addrs_endpoint. apply endpoint_sound. Qed.

Lemma service_urls_own specs b l d : service_urls specs b = Some l -> In d l -> own_endpoint specs b d.
Proof.
  unfold service_urls. intros H Hd. apply endpoint_sound.
  destruct (endpoint specs b) as [|u r]; [discriminate|]. inversion H; subst l. exact Hd.
Qed.

Lemma request_acs_url_own specs b u : request_acs_url specs b = Some u -> own_endpoint specs b u.
Proof.
  unfold request_acs_url. intros H. apply return_addrs_own.
  destruct (return_addrs specs b) as [|v r]; [discriminate|]. inversion H; subst. left; reflexivity.
Qed.

Lemma all2_Forall2 {A B} (f : A -> B -> bool) (P : A -> B -> Prop) :
  (forall a b, f a b = true <-> P a b) -> forall l1 l2, all2 f l1 l2 = true <-> Forall2 P l1 l2.
Proof.
  intros Hf. induction l1 as [|a r1 IH]; destruct l2 as [|b r2]; cbn [all2].
  - split; [constructor|reflexivity].
  - split; [discriminate|intros H; inversion H].
  - split; [discriminate|intros H; inversion H].
  - rewrite andb_true_iff, Hf, IH. split.
    + intros [H1 H2]. constructor; assumption.
    + intros H. inversion H; subst. split; assumption.
Qed.

(* ---------------------------------------------------------------------------------------------
   a Response delivering several assertions: plain, encrypted, or inside an <Advice> *)

Lemma spec_r_b_iff x l : spec_r_b x l = true <-> spec_r x l.
Proof.
  unfold spec_r_b, spec_r. apply all2_Forall2. intros a d. unfold spec_a. apply spec_m_b_iff.
Qed.

Lemma forallb_app {A} (f : A -> bool) l1 l2 : forallb f (l1 ++ l2) = forallb f l1 && forallb f l2.
Proof. induction l1 as [|a r IH]; cbn [app forallb]; [reflexivity|]. rewrite IH, andb_assoc. reflexivity. Qed.

(* every top-level assertion is processed (the processing order is a rearrangement of their document
   order) - and no assertion that sits inside an <Advice> is *)
Lemma forallb_processing_order f l : forallb f (processing_order l) = forallb f (filter is_top l).
Proof.
  unfold processing_order. rewrite forallb_app.
  induction l as [|a r IH]; cbn [filter forallb]; [reflexivity|].
  unfold is_plain at 1, a_enc at 1, is_top at 1. destruct (a_how a); cbn [forallb].
  - rewrite <- IH. rewrite andb_assoc. reflexivity.
  - rewrite <- IH. destruct (f a); cbn [andb]; [reflexivity|]. rewrite andb_false_r. reflexivity.
  - exact IH.
Qed.

(* closed form: the Destination test, the count test, and EVERY top-level assertion passes
   condition_ok and get_subject - whichever way it travelled, at whichever position *)
Lemma accept_r_v0_closed x :
  accept_r_v0 x = dest_ok (r_binding x) (r_dest x) (endpoint (r_specs x) (r_binding x))
               && count_ok (r_assertions x)
               && forallb (assertion_ok (r_me x) (r_conv x) (endpoint (r_specs x) (r_binding x)))
                          (filter is_top (r_assertions x)).
Proof. unfold accept_r_v0. rewrite forallb_processing_order. reflexivity. Qed.

Lemma obligations_top x a : is_top a = true -> obligations x a = msg_of x a.
Proof. unfold is_top, obligations, msg_of. destruct (a_how a); [reflexivity|reflexivity|discriminate]. Qed.

(* an accepted Response: each of its top-level assertions would have been accepted as the only one *)
Lemma accept_r_v0_every x a :
  accept_r_v0 x = true -> In a (r_assertions x) -> is_top a = true -> accept (msg_of x a) = true.
Proof.
  rewrite accept_r_v0_closed. intros H Hin Ht.
  apply andb_true_iff in H as [H H3]. apply andb_true_iff in H as [H1 _].
  rewrite forallb_forall in H3. specialize (H3 a (proj2 (filter_In _ _ _) (conj Hin Ht))). unfold assertion_ok in H3.
  unfold accept, msg_of; cbn [m_me m_specs m_binding m_conds m_dest m_conv m_confs].
  rewrite H1. exact H3.
Qed.

Lemma accept_r_v0_dest x : accept_r_v0 x = true ->
  dest_ok (r_binding x) (r_dest x) (endpoint (r_specs x) (r_binding x)) = true.
Proof. rewrite accept_r_v0_closed. intros H. apply andb_true_iff in H as [H _]. apply andb_true_iff in H as [H _]. exact H. Qed.

Lemma Forall2_map_r {A B} (P : A -> B -> Prop) (f : A -> B) l :
  (forall a, In a l -> P a (f a)) -> Forall2 P l (map f l).
Proof.
  induction l as [|a r IH]; intros H; cbn [map]; constructor.
  - apply H. left; reflexivity.
  - apply IH. intros b Hb. apply H. right; exact Hb.
Qed.

(* the guard that excluded exactly finding C04-F2 (repaired by 913771bd): no assertion travels inside an <Advice> *)
Definition no_advice (x : response) : bool := forallb is_top (r_assertions x).

(* the behaviour before 913771bd satisfied the property on Responses with any list of plain / encrypted assertions ... *)
Lemma drawn_from_v0_holds x : no_advice x = true -> spec_r x (drawn_from_v0 x).
Proof.
  intros Hg. unfold spec_r, drawn_from_v0. apply Forall2_map_r. intros a Hin. unfold spec_a.
  unfold no_advice in Hg. rewrite forallb_forall in Hg. specialize (Hg a Hin).
  rewrite (obligations_top x a Hg).
  destruct (accept_r_v0 x) eqn:E.
  - rewrite <- (accept_r_v0_every x a E Hin Hg). apply accept_holds.
  - intros H. discriminate.
Qed.

(* ... and without the guard it FAILED (finding C04-F2): the attributes of an assertion that
   sits in the <Advice> of a correctly addressed one are merged into the identity although its
   AudienceRestriction names someone else *)
Definition rsp (l : list assertion) : response :=
  {| r_me := "https://sp.example.org/sp.xml";
     r_specs := [EP "https://sp.example.org/acs/post" "urn:oasis:names:tc:SAML:2.0:bindings:HTTP-POST"];
     r_binding := "urn:oasis:names:tc:SAML:2.0:bindings:HTTP-POST";
     r_dest := Some "https://sp.example.org/acs/post";
     r_conv := Some (Some "https://sp.example.org/sp.xml"); r_assertions := l |}.
Definition asr (how : travel) (aud recip : string) : assertion :=
  {| a_how := how; a_conds := Some (usual_conditions [[Some aud]]); a_confs := [bearer (Some recip)] |}.
Definition witness_advice : response :=
  rsp [asr Plain "https://sp.example.org/sp.xml" "https://sp.example.org/acs/post";
       asr Advised "https://other.example.org/sp.xml" "https://sp.example.org/acs/post"].

Lemma advice_v0_refuted : exists x, ~ spec_r x (drawn_from_v0 x).
Proof.
  exists witness_advice. intros H. apply spec_r_b_iff in H. vm_compute in H. discriminate.
Qed.

(* before 913771bd an <Advice> assertion never influenced the verdict *)
Lemma filter_filter_sub {A} (p q : A -> bool) l :
  (forall a, p a = true -> q a = true) -> filter p (filter q l) = filter p l.
Proof.
  intros H. induction l as [|a r IH]; cbn [filter]; [reflexivity|].
  destruct (q a) eqn:Eq; cbn [filter].
  - rewrite IH. reflexivity.
  - destruct (p a) eqn:Ep; [rewrite (H a Ep) in Eq; discriminate|exact IH].
Qed.

Lemma plain_top a : is_plain a = true -> is_top a = true.
Proof. unfold is_plain, is_top. destruct (a_how a); congruence. Qed.
Lemma enc_top a : a_enc a = true -> is_top a = true.
Proof. unfold a_enc, is_top. destruct (a_how a); congruence. Qed.

Lemma advice_v0_unchecked x l :
  filter is_top l = filter is_top (r_assertions x) ->
  accept_r_v0 {| r_me := r_me x; r_specs := r_specs x; r_binding := r_binding x; r_dest := r_dest x;
              r_conv := r_conv x; r_assertions := l |} = accept_r_v0 x.
Proof.
  intros H. rewrite !accept_r_v0_closed; cbn [r_me r_specs r_binding r_dest r_conv r_assertions]. rewrite H.
  f_equal. f_equal. unfold count_ok, n_plain, n_enc.
  rewrite <- (filter_filter_sub is_plain is_top l plain_top), <- (filter_filter_sub a_enc is_top l enc_top).
  rewrite <- (filter_filter_sub is_plain is_top (r_assertions x) plain_top),
          <- (filter_filter_sub a_enc is_top (r_assertions x) enc_top).
  rewrite H. reflexivity.
Qed.

(* MAIN THEOREM over Responses with any list of assertions: the code as it is now (913771bd: an <Advice> assertion
   must pass condition_ok) satisfies the property for EVERY Response *)
Lemma spec_m_attributes_only me specs b k d cv :
  dest_ok b d (endpoint specs b) = true -> condition_ok k me = true ->
  spec_m {| m_me := me; m_specs := specs; m_binding := b; m_conds := k; m_dest := d; m_conv := cv; m_confs := [] |} true.
Proof.
  intros H1 H2 _. cbn [m_me m_specs m_binding m_conds m_dest m_conv m_confs].
  split; [apply for_me_sound; rewrite <- condition_ok_for_me; exact H2|]. split.
  - intros Hf d0 Hd Hne. apply asynchop_iff in Hf. unfold dest_ok in H1. rewrite Hf, Hd in H1.
    apply orb_true_iff in H1 as [H1|H1]; [apply is_empty_true in H1; contradiction|].
    apply endpoint_sound. apply mem_In; exact H1.
  - intros eid c dd r _ [].
Qed.

Lemma drawn_from_holds x : spec_r x (drawn_from x).
Proof.
  unfold spec_r, drawn_from. apply Forall2_map_r. intros a Hin. unfold spec_a.
  destruct (accept_r x) eqn:E; [|intros H; discriminate].
  unfold accept_r in E. apply andb_true_iff in E as [E1 E2].
  destruct (is_top a) eqn:Ht.
  - rewrite (obligations_top x a Ht). rewrite <- (accept_r_v0_every x a E1 Hin Ht). apply accept_holds.
  - rewrite forallb_forall in E2. specialize (E2 a Hin). unfold advice_ok in E2. rewrite Ht in E2. cbn [orb] in E2.
    unfold obligations. unfold is_top in Ht. destruct (a_how a); try discriminate.
    apply spec_m_attributes_only; [apply accept_r_v0_dest; exact E1|exact E2].
Qed.

(* 913771bd changed nothing for Responses without <Advice> assertions *)
Lemma same_without_advice x : no_advice x = true -> drawn_from x = drawn_from_v0 x.
Proof.
  intros Hg. unfold drawn_from, drawn_from_v0, accept_r.
  replace (forallb (advice_ok (r_me x)) (r_assertions x)) with true; [rewrite andb_true_r; reflexivity|].
  symmetry. apply forallb_forall. intros a Hin. unfold no_advice in Hg. rewrite forallb_forall in Hg.
  unfold advice_ok. rewrite (Hg a Hin). reflexivity.
Qed.

(* the one-assertion Response in the clear is the old message: same verdict, same property *)
Lemma accept_r_resp_of x : accept_r (resp_of x) = accept x.
Proof.
  unfold accept_r, accept_r_v0, advice_ok, is_top, resp_of, accept, assertion_ok, processing_order, count_ok, n_plain, n_enc, is_plain, a_enc;
    cbn [r_me r_specs r_binding r_dest r_conv r_assertions filter a_how app length forallb a_conds a_confs Nat.eqb orb].
  rewrite !andb_true_r, andb_assoc. reflexivity.
Qed.

Lemma drawn_from_resp_of x : drawn_from (resp_of x) = [accept x].
Proof. unfold drawn_from. rewrite accept_r_resp_of. reflexivity. Qed.

Lemma spec_resp_of x o : spec_r (resp_of x) [o] <-> spec_m x o.
Proof.
  unfold spec_r, spec_a, resp_of, obligations; cbn [r_me r_specs r_binding r_dest r_conv r_assertions a_conds a_confs a_how].
  destruct x as [me sp b k d cv cs]; cbn [m_me m_specs m_binding m_conds m_dest m_conv m_confs].
  split.
  - intros H. inversion H; subst. assumption.
  - intros H. constructor; [exact H|constructor].
Qed.

(* all drawn or none: identity is never drawn from a part of the assertions only *)
Lemma drawn_all_or_none x d : In d (drawn_from x) -> d = accept_r x.
Proof. unfold drawn_from. rewrite in_map_iff. intros [a [H _]]. symmetry; exact H. Qed.

(* the count test *)
Lemma no_assertion_refused x : r_assertions x = [] -> accept_r x = false.
Proof. intros H. unfold accept_r. rewrite accept_r_v0_closed, H. cbn. rewrite andb_false_r. reflexivity. Qed.

(* closed form of the verdict as coded now: the Destination test, the count test, EVERY top-level assertion
   passes condition_ok and get_subject - whichever way it travelled, at whichever position - and EVERY
   assertion inside an <Advice> passes condition_ok *)
Lemma accept_r_closed x :
  accept_r x = dest_ok (r_binding x) (r_dest x) (endpoint (r_specs x) (r_binding x))
               && count_ok (r_assertions x)
               && forallb (assertion_ok (r_me x) (r_conv x) (endpoint (r_specs x) (r_binding x)))
                          (filter is_top (r_assertions x))
               && forallb (advice_ok (r_me x)) (r_assertions x).
Proof. unfold accept_r. rewrite accept_r_v0_closed. reflexivity. Qed.

Lemma accept_r_every x a :
  accept_r x = true -> In a (r_assertions x) -> is_top a = true -> accept (msg_of x a) = true.
Proof. unfold accept_r. intros H. apply andb_true_iff in H as [H _]. apply accept_r_v0_every; exact H. Qed.

(* an accepted Response: the Conditions of each assertion inside an <Advice> are satisfied *)
Lemma accept_r_advice x a :
  accept_r x = true -> In a (r_assertions x) -> is_top a = false -> condition_ok (a_conds a) (r_me x) = true.
Proof.
  unfold accept_r. intros H Hin Ht. apply andb_true_iff in H as [_ H]. rewrite forallb_forall in H.
  specialize (H a Hin). unfold advice_ok in H. rewrite Ht in H. exact H.
Qed.

(* non-vacuity: a plain assertion naming me next to an encrypted one naming someone else (either
   order) => nothing is drawn; both naming me => both are drawn; two plain ones => refused (count);
   two plain + one encrypted, all mine => all drawn; the same with a foreign bearer Recipient in the
   second plain one => nothing is drawn; an advised assertion naming someone else was drawn from
   before 913771bd and makes the Response fail now; an advised one naming me is drawn from *)
Example response_examples :
  let me := "https://sp.example.org/sp.xml" in
  let other := "https://other.example.org/sp.xml" in
  let acs := "https://sp.example.org/acs/post" in
  (drawn_from (rsp [asr Plain me acs; asr Encrypted other acs]),
   drawn_from (rsp [asr Encrypted other acs; asr Plain me acs]),
   drawn_from (rsp [asr Plain me acs; asr Encrypted me acs]),
   drawn_from (rsp [asr Plain me acs; asr Plain me acs]),
   drawn_from (rsp [asr Plain me acs; asr Plain me acs; asr Encrypted me acs]),
   drawn_from (rsp [asr Plain me acs; asr Plain me "https://evil.example.com/acs"; asr Encrypted me acs]),
   drawn_from (rsp []),
   drawn_from_v0 witness_advice, drawn_from witness_advice,
   drawn_from (rsp [asr Encrypted me acs; asr Advised me "https://evil.example.com/acs"]))
  = ([false; false], [false; false], [true; true], [false; false], [true; true; true], [false; false; false], [],
     [true; true], [false; false], [true; true]).
Proof. vm_compute. reflexivity. Qed.

Lemma spec_ev_b_iff o r : spec_ev_b o r = true <-> spec_ev o r.
Proof.
  destruct o as [x|x|s b|s b|s b]; destruct r as [i|f|u|l|a]; cbn [spec_ev_b spec_ev];
    try apply spec_m_b_iff; try apply spec_r_b_iff; try (split; [discriminate|contradiction]); split; auto.
Qed.

Lemma spec_trace_b_iff ops rs : spec_trace_b ops rs = true <-> spec_trace ops rs.
Proof. apply all2_Forall2. exact spec_ev_b_iff. Qed.

(* the behaviour before 913771bd: the property held only under the guard "no Response of the sequence
   carries an <Advice> assertion" *)
Definition guard_op (o : op) : bool := match o with OResp x => no_advice x | _ => true end.
Definition guard_ops (ops : list op) : bool := forallb guard_op ops.

Lemma step_v0_holds o : guard_op o = true -> spec_ev o (step_v0 o).
Proof.
  destruct o; cbn [step_v0 step spec_ev guard_op]; intros Hg;
    [apply accept_holds|apply drawn_from_v0_holds; exact Hg|exact I|exact I|exact I].
Qed.

(* for EVERY sequence of calls on any number of provider objects, every parse call of the modelled
   behaviour satisfies the property with respect to its own object's configuration *)
Lemma trace_v0_holds ops : guard_ops ops = true -> spec_trace ops (run_ops_v0 ops).
Proof.
  unfold spec_trace, run_ops_v0, guard_ops. induction ops as [|o r IH]; cbn [map forallb]; intros Hg; constructor.
  - apply step_v0_holds. apply andb_true_iff in Hg as [Hg _]. exact Hg.
  - apply IH. apply andb_true_iff in Hg as [_ Hg]. exact Hg.
Qed.

Lemma trace_v0_refuted : exists ops, ~ spec_trace ops (run_ops_v0 ops).
Proof.
  exists [OResp witness_advice]. intros H. apply spec_trace_b_iff in H. vm_compute in H. discriminate.
Qed.

(* the code as it is now satisfies the property over ALL call sequences *)
Lemma step_holds o : spec_ev o (step o).
Proof. destruct o; cbn [step spec_ev]; [apply accept_holds|apply drawn_from_holds|exact I|exact I|exact I]. Qed.

Lemma trace_holds ops : spec_trace ops (run_ops ops).
Proof.
  unfold spec_trace, run_ops. induction ops as [|o r IH]; cbn [map]; constructor; [apply step_holds|exact IH].
Qed.

(* the verdict on a Response does not depend on what was called before or after it *)
Lemma history_independent pre post x :
  nth_error (run_ops (pre ++ OParse x :: post)) (length pre) = Some (RId (accept x)).
Proof.
  unfold run_ops. rewrite map_app. cbn [map].
  rewrite nth_error_app2; rewrite map_length; [|apply le_n].
  rewrite PeanoNat.Nat.sub_diag. reflexivity.
Qed.

(* non-vacuity for sequences: two provider objects with different consumer URLs; after the first one
   has handled a login, a Response addressed to the FIRST one's URL is refused by the second, and a
   Response addressed to the second one's own URL is accepted by it *)
Definition POSTB := "urn:oasis:names:tc:SAML:2.0:bindings:HTTP-POST".
Definition resp_for (me_ url : string) (own : list epspec) : message :=
  of_input {| me := me_; specs := own; binding := POSTB; rs := [[Some me_]]; dest := Some url;
              conv := Some (Some me_); recip := Some url |}.
Example two_providers_example :
  let one := [EP "https://one.example.org/acs/post" POSTB] in
  let two := [EP "https://two.example.org/acs/post" POSTB] in
  run_ops [ OParse (resp_for "urn:sp:one" "https://one.example.org/acs/post" one);
            OUrls one POSTB;
            OParse (resp_for "urn:sp:two" "https://one.example.org/acs/post" two);
            OParse (resp_for "urn:sp:two" "https://two.example.org/acs/post" two) ]
  = [RId true; RUrls (Some ["https://one.example.org/acs/post"]); RId false; RId true].
Proof. vm_compute. reflexivity. Qed.
