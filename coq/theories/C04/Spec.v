(* C04/Spec.v — the property, stated over inputs and the observable "identity produced".
   Written from the property text, not from the model. *)
From Coq Require Import String List Bool.
From Verif Require Import Base.Str C04.Model.
Import ListNotations.
Open Scope string_scope.

(* one Audience satisfies me: exact equality of the byte strings; the only
   tolerance is XML-whitespace padding (xs:anyURI has whiteSpace=collapse). *)
Definition audience_names (me : string) (a : audience) : Prop :=
  match a with Some t => strip t = me | None => False end.

Definition restrictions_satisfied (rs : list (list audience)) (me : string) : Prop :=
  forall r, In r rs -> exists a, In a r /\ audience_names me a.

(* d is one of my own endpoints for the binding used (a bare endpoint has no
   binding and counts for every binding) *)
Definition own_endpoint (specs : list epspec) (binding d : string) : Prop :=
  In (EP d binding) specs \/ In (Bare d) specs.

Definition front_channel (binding : string) : Prop :=
  binding <> BINDING_SOAP /\ binding <> BINDING_PAOS.

Definition spec (x : input) (identity_produced : bool) : Prop :=
  identity_produced = true ->
    restrictions_satisfied (rs x) (me x)
    /\ (front_channel (binding x) ->
        forall d, dest x = Some d -> d <> "" -> own_endpoint (specs x) (binding x) d)
    /\ (forall eid r, conv x = Some eid -> recip x = Some r ->
        eid = Some r \/ own_endpoint (specs x) (binding x) r).

(* boolean version, evaluated on the implementation's observed output *)
Definition aud_names_b (me : string) (a : audience) : bool :=
  match a with Some t => String.eqb (strip t) me | None => false end.

Definition own_endpoint_b (specs : list epspec) (binding d : string) : bool :=
  existsb (fun e => match e with
                    | EP u b => String.eqb u d && String.eqb b binding
                    | Bare u => String.eqb u d
                    end) specs.

Definition spec_b (x : input) (identity_produced : bool) : bool :=
  negb identity_produced ||
  (forallb (fun r => existsb (aud_names_b (me x)) r) (rs x)
   && (negb (asynchop (binding x)) ||
       match dest x with
       | Some d => is_empty d || own_endpoint_b (specs x) (binding x) d
       | None => true
       end)
   && match conv x, recip x with
      | Some eid, Some r => opt_eqb String.eqb eid (Some r) || own_endpoint_b (specs x) (binding x) r
      | _, _ => true
      end).

(* ---------------------------------------------------------------------------------------------
   The property over call sequences: whatever was called before — on this provider object or on
   any other provider object of the process — every parse_authn_request_response call satisfies
   [spec] with respect to the configuration of the object it was called on ("the provider's own
   entityID", "the provider's own endpoints").  Calls that produce no identity carry no
   obligation; a result of the wrong kind for a parse call is a failure. *)
Definition spec_ev (o : op) (r : out) : Prop :=
  match o, r with
  | OParse x, RId b => spec x b
  | OParse _, _ => False
  | _, _ => True
  end.

Definition spec_trace (ops : list op) (rs : list out) : Prop := Forall2 spec_ev ops rs.

Definition spec_ev_b (o : op) (r : out) : bool :=
  match o, r with
  | OParse x, RId b => spec_b x b
  | OParse _, _ => false
  | _, _ => true
  end.

Fixpoint all2 {A B} (f : A -> B -> bool) (l1 : list A) (l2 : list B) : bool :=
  match l1, l2 with
  | [], [] => true
  | a :: r1, b :: r2 => f a b && all2 f r1 r2
  | _, _ => false
  end.

Definition spec_trace_b (ops : list op) (rs : list out) : bool := all2 spec_ev_b ops rs.
