(* C04/Spec.v — the property, stated over inputs and the observable "identity produced".
   Written from the property text, not from the model. *)
From Coq Require Import String List Bool.
From Verif Require Import Base.Str C04.Model.
Import ListNotations.
Open Scope string_scope.

(* one Audience satisfies me: exact equality of the byte strings; the only
   tolerance is XML-whitespace padding (xs:anyURI has whiteSpace=collapse). *)
Definition audience_names (me : string) (a : audience) : Prop :=
  match a with Some t => strip t = me | None => False end.

Definition restrictions_satisfied (rs : list (list audience)) (me : string) : Prop :=
  forall r, In r rs -> exists a, In a r /\ audience_names me a.

(* d is one of my own endpoints for the binding used (a bare endpoint has no
   binding and counts for every binding) *)
Definition own_endpoint (specs : list epspec) (binding d : string) : Prop :=
  In (EP d binding) specs \/ In (Bare d) specs.

Definition front_channel (binding : string) : Prop :=
  binding <> BINDING_SOAP /\ binding <> BINDING_PAOS.

Definition spec (x : input) (identity_produced : bool) : Prop :=
  identity_produced = true ->
    restrictions_satisfied (rs x) (me x)
    /\ (front_channel (binding x) ->
        forall d, dest x = Some d -> d <> "" -> own_endpoint (specs x) (binding x) d)
    /\ (forall eid r, conv x = Some eid -> recip x = Some r ->
        eid = Some r \/ own_endpoint (specs x) (binding x) r).

(* boolean version, evaluated on the implementation's observed output *)
Definition aud_names_b (me : string) (a : audience) : bool :=
  match a with Some t => String.eqb (strip t) me | None => false end.

Definition own_endpoint_b (specs : list epspec) (binding d : string) : bool :=
  existsb (fun e => match e with
                    | EP u b => String.eqb u d && String.eqb b binding
                    | Bare u => String.eqb u d
                    end) specs.

Definition spec_b (x : input) (identity_produced : bool) : bool :=
  negb identity_produced ||
  (forallb (fun r => existsb (aud_names_b (me x)) r) (rs x)
   && (negb (asynchop (binding x)) ||
       match dest x with
       | Some d => is_empty d || own_endpoint_b (specs x) (binding x) d
       | None => true
       end)
   && match conv x, recip x with
      | Some eid, Some r => opt_eqb String.eqb eid (Some r) || own_endpoint_b (specs x) (binding x) r
      | _, _ => true
      end).

(* ---------------------------------------------------------------------------------------------
   The same property over the whole message: any <Conditions> shape (with or without a validity
   period, with other children, or no Conditions element at all) and any list of
   SubjectConfirmation elements.  "Every AudienceRestriction must match" ranges over every
   restriction the assertion carries; the Recipient clause ranges over EVERY bearer confirmation
   whose data confirms the subject (a confirmation that the provider cannot use on its own
   account - no data, or data that does not confirm - is not something identity is produced from). *)
Definition all_restrictions (c : option conditions) : list (list audience) :=
  match c with None => [] | Some k => k_rs k end.

Definition spec_m (x : message) (identity_produced : bool) : Prop :=
  identity_produced = true ->
    restrictions_satisfied (all_restrictions (m_conds x)) (m_me x)
    /\ (front_channel (m_binding x) ->
        forall d, m_dest x = Some d -> d <> "" -> own_endpoint (m_specs x) (m_binding x) d)
    /\ (forall eid c d r, m_conv x = Some eid -> In c (m_confs x) -> c_method c = Bearer ->
        c_data c = Some d -> d_confirmed d = true -> d_recipient d = Some r ->
        eid = Some r \/ own_endpoint (m_specs x) (m_binding x) r).

Definition conf_ok_b (specs : list epspec) (binding : string) (eid : option string) (c : confirmation) : bool :=
  match c_method c, c_data c with
  | Bearer, Some d =>
      negb (d_confirmed d) ||
      match d_recipient d with
      | Some r => opt_eqb String.eqb eid (Some r) || own_endpoint_b specs binding r
      | None => true
      end
  | _, _ => true
  end.

Definition spec_m_b (x : message) (identity_produced : bool) : bool :=
  negb identity_produced ||
  (forallb (fun r => existsb (aud_names_b (m_me x)) r) (all_restrictions (m_conds x))
   && (negb (asynchop (m_binding x)) ||
       match m_dest x with
       | Some d => is_empty d || own_endpoint_b (m_specs x) (m_binding x) d
       | None => true
       end)
   && match m_conv x with
      | Some eid => forallb (conf_ok_b (m_specs x) (m_binding x) eid) (m_confs x)
      | None => true
      end).

(* ---------------------------------------------------------------------------------------------
   The same property over a Response that delivers several assertions (each in the clear,
   encrypted, or inside the <Advice> of another one; any order).  The observable is, per delivered
   assertion, whether identity was drawn from it (its NameID is the one returned / cached, its
   attributes are among the returned ones, it is the assertion handed to the caller).  "Identity is
   never produced FROM AN ASSERTION whose audience restrictions are not all satisfied ...": every
   assertion that identity is drawn from must - on its own, whatever else the Response carries and
   however the assertion travelled - satisfy the clauses: its restrictions, the Response's
   Destination, and (top-level assertions: the subject is confirmed by THEIR confirmations) its
   bearer Recipients.  An assertion inside an <Advice> contributes attributes only; the Recipient
   clause puts no obligation on it.  An observation of the wrong length is a failure. *)
Fixpoint all2 {A B} (f : A -> B -> bool) (l1 : list A) (l2 : list B) : bool :=
  match l1, l2 with
  | [], [] => true
  | a :: r1, b :: r2 => f a b && all2 f r1 r2
  | _, _ => false
  end.

(* what the clauses read of one delivered assertion *)
Definition obligations (x : response) (a : assertion) : message :=
  {| m_me := r_me x; m_specs := r_specs x; m_binding := r_binding x; m_conds := a_conds a;
     m_dest := r_dest x; m_conv := r_conv x;
     m_confs := match a_how a with Advised => [] | _ => a_confs a end |}.

Definition spec_a (x : response) (a : assertion) (identity_drawn : bool) : Prop :=
  spec_m (obligations x a) identity_drawn.

Definition spec_r (x : response) (drawn : list bool) : Prop := Forall2 (spec_a x) (r_assertions x) drawn.

Definition spec_r_b (x : response) (drawn : list bool) : bool :=
  all2 (fun a d => spec_m_b (obligations x a) d) (r_assertions x) drawn.

(* ---------------------------------------------------------------------------------------------
   The property over call sequences: whatever was called before — on this provider object or on
   any other provider object of the process — every parse_authn_request_response call satisfies
   [spec_m] (a Response with a list of assertions: [spec_r]) with respect to the configuration of
   the object it was called on ("the provider's own
   entityID", "the provider's own endpoints").  Calls that produce no identity carry no
   obligation; a result of the wrong kind for a parse call is a failure. *)
Definition spec_ev (o : op) (r : out) : Prop :=
  match o, r with
  | OParse x, RId b => spec_m x b
  | OParse _, _ => False
  | OResp x, RFrom l => spec_r x l
  | OResp _, _ => False
  | _, _ => True
  end.

Definition spec_trace (ops : list op) (rs : list out) : Prop := Forall2 spec_ev ops rs.

Definition spec_ev_b (o : op) (r : out) : bool :=
  match o, r with
  | OParse x, RId b => spec_m_b x b
  | OParse _, _ => false
  | OResp x, RFrom l => spec_r_b x l
  | OResp _, _ => false
  | _, _ => true
  end.

Definition spec_trace_b (ops : list op) (rs : list out) : bool := all2 spec_ev_b ops rs.
