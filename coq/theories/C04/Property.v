(* C04/Property.v — property theorems only. *)
From Coq Require Import String List Bool.
From Coq Require Import ZArith.
From Verif Require Import Base.Str Base.Py Base.Py2 C04.Model C04.Spec C04.Proofs C04.Source C04.Source2.
From VerifGen Require Import C04Src C04Src2.

(* C04: identity is never produced from a mis-addressed assertion — for every
   audience structure, destination, recipient, conversation info, endpoint
   configuration and binding. *)
Theorem c04_addressing : forall x, spec x (identity x).
Proof. exact addressing_holds. Qed.
Print Assumptions c04_addressing.

(* the boolean spec that Coq evaluates on the implementation's recorded output is the stated spec *)
Theorem c04_spec_reflect : forall x o, spec_b x o = true <-> spec x o.
Proof. exact spec_b_iff. Qed.
Print Assumptions c04_spec_reflect.

(* matching is exact: a look-alike without surrounding whitespace never matches *)
Theorem c04_exact_match : forall me t, no_outer_ws t = true -> t <> me -> aud_matches me (Some t) = false.
Proof. exact lookalike_rejected. Qed.
Print Assumptions c04_exact_match.

(* the pinned snapshot's behaviour (OR across restrictions) violated the property *)
Theorem c04_v0_refuted : exists x, ~ spec x (identity_v0 x).
Proof. exact v0_refuted. Qed.
Print Assumptions c04_v0_refuted.

(* the same over call SEQUENCES on long-lived provider objects: for every sequence of calls
   (parse_authn_request_response, service_urls, Config.endpoint, create_authn_request) on any number
   of provider objects with any configurations, every parse call (Response with one assertion: OParse,
   with a list of plain / encrypted assertions: OResp) satisfies the property with respect to the
   configuration of the object it was called on *)
Theorem c04_sequences : forall ops, spec_trace ops (run_ops ops).
Proof. exact trace_holds. Qed.
Print Assumptions c04_sequences.

(* ... and the boolean evaluated on the observed sequence is that statement *)
Theorem c04_trace_reflect : forall ops rs, spec_trace_b ops rs = true <-> spec_trace ops rs.
Proof. exact spec_trace_b_iff. Qed.
Print Assumptions c04_trace_reflect.

(* the behaviour before 913771bd (finding C04-F2, fixed: the attributes of an assertion inside an <Advice> were
   taken over without looking at its Conditions) violated the property; it held only for sequences without
   <Advice> assertions *)
Theorem c04_sequences_v0_refuted : exists ops, ~ spec_trace ops (run_ops_v0 ops).
Proof. exact trace_v0_refuted. Qed.
Print Assumptions c04_sequences_v0_refuted.

Theorem c04_sequences_v0_guarded : forall ops, guard_ops ops = true -> spec_trace ops (run_ops_v0 ops).
Proof. exact trace_v0_holds. Qed.
Print Assumptions c04_sequences_v0_guarded.

(* the verdict on a Response does not depend on the calls made before or after it *)
Theorem c04_history_independent : forall pre post x,
  nth_error (run_ops (pre ++ OParse x :: post)) (length pre) = Some (RId (accept x)).
Proof. exact history_independent. Qed.
Print Assumptions c04_history_independent.

(* return_addrs (what the Destination / Recipient are compared with) consists of the object's own
   endpoints for the binding; so does the consumer URL written into an AuthnRequest *)
Theorem c04_return_addrs_own : forall specs b d, In d (return_addrs specs b) -> own_endpoint specs b d.
Proof. exact return_addrs_own. Qed.
Print Assumptions c04_return_addrs_own.

Theorem c04_request_acs_own : forall specs b u, request_acs_url specs b = Some u -> own_endpoint specs b u.
Proof. exact request_acs_url_own. Qed.
Print Assumptions c04_request_acs_own.

(* correctly addressed Responses pass the addressing checks *)
Theorem c04_complete : forall x d r,
  (forall q, In q (rs x) -> In (Some (me x)) q) -> me x <> EmptyString -> no_outer_ws (me x) = true ->
  dest x = Some d -> In (EP d (binding x)) (specs x) ->
  recip x = Some r -> r <> EmptyString -> In (EP r (binding x)) (specs x) ->
  identity x = true.
Proof. exact addressed_to_me_accepted. Qed.
Print Assumptions c04_complete.

(* ---- the whole message: any <Conditions> shape (validity period or none, other children, or no
   Conditions at all) and any LIST of SubjectConfirmation elements (any number, method, order) ---- *)
Theorem c04_message : forall x, spec_m x (accept x).
Proof. exact accept_holds. Qed.
Print Assumptions c04_message.

Theorem c04_message_reflect : forall x o, spec_m_b x o = true <-> spec_m x o.
Proof. exact spec_m_b_iff. Qed.
Print Assumptions c04_message_reflect.

(* the message of c04_addressing (time-bounded Conditions, one bearer confirmation) is a special case:
   same verdict, same property *)
Theorem c04_message_extends : forall x, accept (of_input x) = identity x.
Proof. exact accept_of_input. Qed.
Print Assumptions c04_message_extends.

Theorem c04_message_spec_extends : forall x o, spec_m (of_input x) o <-> spec x o.
Proof. exact spec_of_input. Qed.
Print Assumptions c04_message_spec_extends.

(* the audience verdict never depends on whether the Conditions carry NotBefore / NotOnOrAfter / other children *)
Theorem c04_period_irrelevant : forall nb nooa other rs me,
  condition_ok (Some {| k_nb := nb; k_nooa := nooa; k_other := other; k_rs := rs |}) me = for_me rs me.
Proof. exact period_irrelevant. Qed.
Print Assumptions c04_period_irrelevant.

(* the subject verdict does not depend on the order of the confirmations (in particular not on which
   one is last): no confirmation raises, and at least one is kept *)
Theorem c04_confirmations_closed : forall conv addrs l,
  get_subject conv addrs l = negb (existsb (raises conv addrs) l) && existsb (keeps conv addrs) l.
Proof. exact get_subject_closed. Qed.
Print Assumptions c04_confirmations_closed.

Theorem c04_message_complete : forall x d,
  (forall q, In q (all_restrictions (m_conds x)) -> In (Some (m_me x)) q) -> m_me x <> EmptyString -> no_outer_ws (m_me x) = true ->
  m_dest x = Some d -> In (EP d (m_binding x)) (m_specs x) ->
  m_confs x <> nil ->
  (forall c, In c (m_confs x) -> exists r, c = bearer (Some r) /\ r <> EmptyString /\ In (EP r (m_binding x)) (m_specs x)) ->
  accept x = true.
Proof. exact message_to_me_accepted. Qed.
Print Assumptions c04_message_complete.

(* ---- a Response that delivers SEVERAL assertions, each in the clear, encrypted, or inside the <Advice> of
   another one, in any order (the count test of parse_assertion admits 1 plain + k encrypted and k plain + 1
   encrypted): identity is drawn from an assertion only if THAT assertion satisfies the clauses - for EVERY
   Response (since 913771bd get_identity refuses an <Advice> assertion whose Conditions are not satisfied) ---- *)
Theorem c04_response : forall x, spec_r x (drawn_from x).
Proof. exact drawn_from_holds. Qed.
Print Assumptions c04_response.

Theorem c04_response_reflect : forall x l, spec_r_b x l = true <-> spec_r x l.
Proof. exact spec_r_b_iff. Qed.
Print Assumptions c04_response_reflect.

(* the behaviour before 913771bd (finding C04-F2, fixed) violated the property: get_identity merged the attributes
   of an <Advice> assertion although its AudienceRestriction named someone else; it held under the guard no_advice,
   an <Advice> assertion never influenced the verdict, and the fix changed nothing for Responses without them *)
Theorem c04_response_v0_refuted : exists x, ~ spec_r x (drawn_from_v0 x).
Proof. exact advice_v0_refuted. Qed.
Print Assumptions c04_response_v0_refuted.

Theorem c04_response_v0_guarded : forall x, no_advice x = true -> spec_r x (drawn_from_v0 x).
Proof. exact drawn_from_v0_holds. Qed.
Print Assumptions c04_response_v0_guarded.

Theorem c04_response_v0_advice_unchecked : forall x l,
  filter is_top l = filter is_top (r_assertions x) ->
  accept_r_v0 {| r_me := r_me x; r_specs := r_specs x; r_binding := r_binding x; r_dest := r_dest x;
                 r_conv := r_conv x; r_assertions := l |} = accept_r_v0 x.
Proof. exact advice_v0_unchecked. Qed.
Print Assumptions c04_response_v0_advice_unchecked.

Theorem c04_response_fix_conservative : forall x, no_advice x = true -> drawn_from x = drawn_from_v0 x.
Proof. exact same_without_advice. Qed.
Print Assumptions c04_response_fix_conservative.

(* the verdict in closed form: Destination test, count test, EVERY top-level assertion passes condition_ok and
   get_subject - independent of the way it travels and of its position - and EVERY assertion inside an <Advice>
   passes condition_ok *)
Theorem c04_response_closed : forall x,
  accept_r x = dest_ok (r_binding x) (r_dest x) (endpoint (r_specs x) (r_binding x))
               && count_ok (r_assertions x)
               && forallb (assertion_ok (r_me x) (r_conv x) (endpoint (r_specs x) (r_binding x)))
                          (filter is_top (r_assertions x))
               && forallb (advice_ok (r_me x)) (r_assertions x).
Proof. exact accept_r_closed. Qed.
Print Assumptions c04_response_closed.

(* an accepted Response: each of its top-level assertions would have been accepted as the only one, and the
   Conditions of each assertion inside an <Advice> are satisfied *)
Theorem c04_response_every_assertion : forall x a,
  accept_r x = true -> In a (r_assertions x) -> is_top a = true -> accept (msg_of x a) = true.
Proof. exact accept_r_every. Qed.
Print Assumptions c04_response_every_assertion.

Theorem c04_response_every_advice : forall x a,
  accept_r x = true -> In a (r_assertions x) -> is_top a = false -> condition_ok (a_conds a) (r_me x) = true.
Proof. exact accept_r_advice. Qed.
Print Assumptions c04_response_every_advice.

(* identity is drawn from all delivered assertions or from none *)
Theorem c04_response_all_or_none : forall x d, In d (drawn_from x) -> d = accept_r x.
Proof. exact drawn_all_or_none. Qed.
Print Assumptions c04_response_all_or_none.

(* the message of c04_message (one assertion, in the clear) is a special case: same verdict, same property *)
Theorem c04_response_extends : forall x, drawn_from (resp_of x) = cons (accept x) nil.
Proof. exact drawn_from_resp_of. Qed.
Print Assumptions c04_response_extends.

Theorem c04_response_spec_extends : forall x o, spec_r (resp_of x) (cons o nil) <-> spec_m x o.
Proof. exact spec_resp_of. Qed.
Print Assumptions c04_response_spec_extends.

(* tie to the source TEXT: response.for_me as translated from /repo's current source on this run
   (coq/gen/C04Src.v, harness/py2coq.py) computes the model's for_me on every Conditions element *)
Theorem c04_source_for_me : forall rs me, src_for_me (enc_conditions rs) (PStr me) = PBool (for_me rs me).
Proof. exact src_for_me_is_model. Qed.
Print Assumptions c04_source_for_me.

(* ---- tie to the source TEXT, translator v2 (coq/gen/C04Src2.v is re-translated from /repo's current
   source on every run by harness/py2coq2.py; encodings and hypotheses: C04/Source2.v).  Each theorem:
   the translated function on the encoding of the model's input = the encoding of the model's output,
   for ALL inputs; external calls are universally quantified functions constrained by the listed
   hypotheses only. ---- *)

(* response.for_me, second-generation translation (objects with __class__) *)
Theorem c04_source2_for_me : forall nbv nooav k me, texts_ok (k_rs k) = true ->
  src2_for_me (enc_conds nbv nooav k) (PStr me) = PBool (for_me (k_rs k) me).
Proof. exact src2_for_me_is_model. Qed.
Print Assumptions c04_source2_for_me.

(* AuthnResponse.verify_recipient *)
Theorem c04_source2_verify_recipient : forall conv ra addrs r,
  src2_verify_recipient (enc_vr_self conv ra addrs) (PStr r) = PBool (verify_recipient conv addrs r).
Proof. exact src2_verify_recipient_is_model. Qed.
Print Assumptions c04_source2_verify_recipient.

(* AuthnResponse.get_subject: the loop over ALL SubjectConfirmation elements (induction), the
   Recipient test through the translated verify_recipient, the result / the exception raised *)
Theorem c04_source2_get_subject :
  forall (attesting_ext bearer_ext hok_ext : pyval -> pyval -> pyval)
         (decrypt_ext : pyval -> pyval -> pyval -> pyval) (nameid_ext to_string_ext : pyval -> pyval)
         (other_uri irt : string),
  other_uri <> BEARER_URI /\ other_uri <> HOK_URI /\ other_uri <> SV_URI ->
  (forall s l, attesting_ext s l = PBool true) ->
  (forall s d, bearer_ext s (enc_data irt d) = PBool (d_confirmed d)) -> (forall s, bearer_ext s PNone = PBool false) ->
  (forall s d, hok_ext s (enc_data irt d) = PBool (d_confirmed d)) -> (forall s, hok_ext s PNone = PBool false) ->
  forall conv ra addrs confs nid asyn outq keys,
  is_bad nid = false -> py_truthy nid = true -> is_obj outq = false ->
  src2_get_subject attesting_ext bearer_ext hok_ext decrypt_ext nameid_ext to_string_ext
                   (enc_gs_self other_uri irt conv ra addrs confs nid asyn outq PNone) keys
  = match gs_exc conv addrs confs with
    | None => PList (cons nid (cons (enc_gs_self other_uri irt conv ra addrs confs nid asyn outq nid) nil))
    | Some n => PList (cons (PExc n) (cons (enc_gs_self other_uri irt conv ra addrs confs nid asyn outq PNone) nil))
    end.
Proof. exact src2_get_subject_is_model. Qed.
Print Assumptions c04_source2_get_subject.

(* ... where "no exception" is exactly the model's get_subject *)
Theorem c04_source2_get_subject_verdict : forall conv addrs l,
  get_subject conv addrs l = match gs_exc conv addrs l with None => true | Some _ => false end.
Proof. exact gs_exc_model. Qed.
Print Assumptions c04_source2_get_subject_verdict.

(* StatusResponse._verify: the Destination test *)
Theorem c04_source2_verify : forall (issue_ok status_ok float_ext : pyval -> pyval) (float_two : pyval),
  (forall s, issue_ok s = PBool true) -> (forall s, status_ok s = PBool true) ->
  forall b dest addrs irt,
  src2_verify issue_ok status_ok float_ext float_two (enc_sr_self (asynchop b) dest addrs irt)
  = if dest_ok b dest addrs then PBool true else PNone.
Proof. exact src2_verify_is_model. Qed.
Print Assumptions c04_source2_verify.

(* AuthnResponse.condition_ok: audience verdict for every Conditions shape *)
Theorem c04_source2_condition_ok :
  forall (later_than_ext validate_nooa_ext validate_nb_ext : pyval -> pyval -> pyval) (keyswv_ext : pyval -> pyval)
         (nbv nooav : string) (nooa_epoch : Z),
  (forall k, keyswv_ext (enc_conds nbv nooav k) = enc_strs (keyswv_model k)) ->
  (forall a b, later_than_ext (PStr a) (PStr b) = PBool true) ->
  (forall a s, validate_nooa_ext (PStr a) s = PInt nooa_epoch) ->
  (forall a s, validate_nb_ext (PStr a) s = PBool true) ->
  nbv <> EmptyString /\ nooav <> EmptyString ->
  forall c me nooa0, is_bad nooa0 = false -> texts_ok (all_restrictions c) = true ->
  src2_condition_ok later_than_ext validate_nooa_ext validate_nb_ext keyswv_ext (enc_co_self nbv nooav c me nooa0) (PBool false)
  = PList (cons (if condition_ok c me then PBool true else PExc "Exception")
                (cons (enc_co_self nbv nooav c me (nooa_after nooa_epoch c nooa0)) nil)).
Proof. exact src2_condition_ok_is_model. Qed.
Print Assumptions c04_source2_condition_ok.

(* Config.endpoint (configurations of (url, binding) pairs) and Base.service_urls on top of it *)
Theorem c04_source2_endpoint : forall (getattr_ext : pyval -> pyval -> pyval -> pyval) (type_ext : pyval -> pyval),
  (forall l, type_ext (PList l) = PStr "tuple") ->
  forall cfg ctx endps svc l b,
  is_bad ctx = false -> getattr_ext cfg (PStr "endpoints") ctx = PObj endps ->
  is_obj endps = false -> assoc_py svc endps = Some (PList (map enc_pair l)) ->
  src2_endpoint getattr_ext type_ext cfg (PStr svc) (PStr b) ctx = enc_strs (endpoint (map mk_ep l) b).
Proof. exact src2_endpoint_is_model. Qed.
Print Assumptions c04_source2_endpoint.

Theorem c04_source2_service_urls : forall (getattr_ext : pyval -> pyval -> pyval -> pyval) (type_ext : pyval -> pyval),
  (forall l, type_ext (PList l) = PStr "tuple") ->
  forall self cfg endps l b,
  p2_attr self "config" = cfg -> getattr_ext cfg (PStr "endpoints") (PStr "sp") = PObj endps ->
  is_obj endps = false -> assoc_py "assertion_consumer_service" endps = Some (PList (map enc_pair l)) ->
  src2_service_urls getattr_ext type_ext self (PStr b) = enc_urls (service_urls (map mk_ep l) b).
Proof. exact src2_service_urls_is_model. Qed.
Print Assumptions c04_source2_service_urls.
