(* C04/Property.v — property theorems only. *)
From Coq Require Import String List Bool.
From Verif Require Import Base.Str Base.Py C04.Model C04.Spec C04.Proofs C04.Source.
From VerifGen Require Import C04Src.

(* C04: identity is never produced from a mis-addressed assertion — for every
   audience structure, destination, recipient, conversation info, endpoint
   configuration and binding. *)
Theorem c04_addressing : forall x, spec x (identity x).
Proof. exact addressing_holds. Qed.
Print Assumptions c04_addressing.

(* the boolean spec that Coq evaluates on the implementation's recorded output is the stated spec *)
Theorem c04_spec_reflect : forall x o, spec_b x o = true <-> spec x o.
Proof. exact spec_b_iff. Qed.
Print Assumptions c04_spec_reflect.

(* matching is exact: a look-alike without surrounding whitespace never matches *)
Theorem c04_exact_match : forall me t, no_outer_ws t = true -> t <> me -> aud_matches me (Some t) = false.
Proof. exact lookalike_rejected. Qed.
Print Assumptions c04_exact_match.

(* the pinned snapshot's behaviour (OR across restrictions) violated the property *)
Theorem c04_v0_refuted : exists x, ~ spec x (identity_v0 x).
Proof. exact v0_refuted. Qed.
Print Assumptions c04_v0_refuted.

(* the same over call SEQUENCES on long-lived provider objects: for every sequence of calls
   (parse_authn_request_response, service_urls, Config.endpoint, create_authn_request) on any number
   of provider objects with any configurations, every parse call satisfies the property with respect
   to the configuration of the object it was called on *)
Theorem c04_sequences : forall ops, spec_trace ops (run_ops ops).
Proof. exact trace_holds. Qed.
Print Assumptions c04_sequences.

(* ... and the boolean evaluated on the observed sequence is that statement *)
Theorem c04_trace_reflect : forall ops rs, spec_trace_b ops rs = true <-> spec_trace ops rs.
Proof. exact spec_trace_b_iff. Qed.
Print Assumptions c04_trace_reflect.

(* the verdict on a Response does not depend on the calls made before or after it *)
Theorem c04_history_independent : forall pre post x,
  nth_error (run_ops (pre ++ OParse x :: post)) (length pre) = Some (RId (identity x)).
Proof. exact history_independent. Qed.
Print Assumptions c04_history_independent.

(* return_addrs (what the Destination / Recipient are compared with) consists of the object's own
   endpoints for the binding; so does the consumer URL written into an AuthnRequest *)
Theorem c04_return_addrs_own : forall specs b d, In d (return_addrs specs b) -> own_endpoint specs b d.
Proof. exact return_addrs_own. Qed.
Print Assumptions c04_return_addrs_own.

Theorem c04_request_acs_own : forall specs b u, request_acs_url specs b = Some u -> own_endpoint specs b u.
Proof. exact request_acs_url_own. Qed.
Print Assumptions c04_request_acs_own.

(* correctly addressed Responses pass the addressing checks *)
Theorem c04_complete : forall x d r,
  (forall q, In q (rs x) -> In (Some (me x)) q) -> me x <> EmptyString -> no_outer_ws (me x) = true ->
  dest x = Some d -> In (EP d (binding x)) (specs x) ->
  recip x = Some r -> r <> EmptyString -> In (EP r (binding x)) (specs x) ->
  identity x = true.
Proof. exact addressed_to_me_accepted. Qed.
Print Assumptions c04_complete.

(* tie to the source TEXT: response.for_me as translated from /repo's current source on this run
   (coq/gen/C04Src.v, harness/py2coq.py) computes the model's for_me on every Conditions element *)
Theorem c04_source_for_me : forall rs me, src_for_me (enc_conditions rs) (PStr me) = PBool (for_me rs me).
Proof. exact src_for_me_is_model. Qed.
Print Assumptions c04_source_for_me.
