(* C04/Model.v — addressing checks of the SP acceptance path, as coded.
   Mirrors: response.for_me (207-222), AuthnResponse.condition_ok audience part,
   StatusResponse._verify destination test (402-422), get_subject / verify_recipient
   (725-775, 1105-1130), Config.endpoint (config.py 395-425), Base.service_urls. *)
From Coq Require Import String List Bool.
From Verif Require Import Base.Str.
Import ListNotations.
Open Scope string_scope.

Definition BINDING_SOAP := "urn:oasis:names:tc:SAML:2.0:bindings:SOAP".
Definition BINDING_PAOS := "urn:oasis:names:tc:SAML:2.0:bindings:PAOS".

(* an <Audience> element: None = element without text *)
Definition audience := option string.

Definition aud_matches (me : string) (a : audience) : bool :=
  match a with
  | Some t => negb (is_empty t) && String.eqb (strip t) me
  | None => false
  end.

(* for_me as coded at the pinned snapshot 28480bb7: one matching audience in ANY
   restriction suffices (kept for the refutation theorem). *)
Definition for_me_v0 (rs : list (list audience)) (me : string) : bool :=
  match rs with
  | [] => true
  | _ => existsb (fun r => existsb (aud_matches me) r) rs
  end.

(* for_me after "fix: for_me must satisfy every AudienceRestriction" *)
Definition for_me (rs : list (list audience)) (me : string) : bool :=
  forallb (fun r => existsb (aud_matches me) r) rs.

(* configured endpoint specifications: (url, binding) pairs or bare urls *)
Inductive epspec := EP (url bind : string) | Bare (url : string).

Definition endpoint (specs : list epspec) (binding : string) : list string :=
  let spec := flat_map (fun e => match e with EP u b => if String.eqb b binding then [u] else [] | Bare _ => [] end) specs in
  let unspec := flat_map (fun e => match e with Bare u => [u] | EP _ _ => [] end) specs in
  match spec with [] => unspec | _ => spec end.

Definition asynchop (binding : string) : bool :=
  negb (String.eqb binding BINDING_SOAP || String.eqb binding BINDING_PAOS).

(* StatusResponse._verify, destination part *)
Definition dest_ok (binding : string) (dest : option string) (addrs : list string) : bool :=
  if asynchop binding then
    match dest with
    | Some d => is_empty d || mem d addrs
    | None => true
    end
  else true.

(* verify_recipient; conv = None when the caller gave no (or empty) conv_info,
   Some eid when it did (eid = conv_info.get("entity_id")) *)
Definition verify_recipient (conv : option (option string)) (addrs : list string) (r : string) : bool :=
  match conv with
  | None => true
  | Some eid => opt_eqb String.eqb (Some r) eid || mem r addrs
  end.

(* get_subject for one bearer confirmation with data: recipient test *)
Definition recipient_ok (conv : option (option string)) (addrs : list string) (recip : option string) : bool :=
  match recip with
  | None => false
  | Some r => negb (is_empty r) && verify_recipient conv addrs r
  end.

Record input := {
  me : string;                       (* own entityID *)
  specs : list epspec;               (* configured assertion_consumer_service endpoints *)
  binding : string;                  (* binding the Response arrived on *)
  rs : list (list audience);         (* AudienceRestriction / Audience structure *)
  dest : option string;              (* Response/@Destination *)
  conv : option (option string);     (* conversation info *)
  recip : option string              (* SubjectConfirmationData/@Recipient *)
}.

(* identity is produced (everything else about the Response being valid) *)
Definition identity (x : input) : bool :=
  let addrs := endpoint (specs x) (binding x) in
  dest_ok (binding x) (dest x) addrs
  && for_me (rs x) (me x)
  && recipient_ok (conv x) addrs (recip x).

Definition identity_v0 (x : input) : bool :=
  let addrs := endpoint (specs x) (binding x) in
  dest_ok (binding x) (dest x) addrs
  && for_me_v0 (rs x) (me x)
  && recipient_ok (conv x) addrs (recip x).

(* ---------------------------------------------------------------------------------------------
   The whole message as the acceptance path reads it: the <Conditions> element with everything it
   may carry besides the audience restrictions (or no <Conditions> at all), and the LIST of
   <SubjectConfirmation> elements of the Subject (any number, any method, with or without data).
   [input] above is the usual special case: time-bounded Conditions, one bearer confirmation. *)

(* <Conditions>: which optional attributes / other children are there, and the restrictions *)
Record conditions := {
  k_nb : bool;                       (* NotBefore attribute present (and satisfied) *)
  k_nooa : bool;                     (* NotOnOrAfter attribute present (and satisfied) *)
  k_other : bool;                    (* OneTimeUse / ProxyRestriction children present *)
  k_rs : list (list audience)        (* AudienceRestriction / Audience structure *)
}.

Definition is_nil {A} (l : list A) : bool := match l with [] => true | _ => false end.

(* Conditions.keyswv() is empty: no attribute and no child has a value *)
Definition keyswv_empty (k : conditions) : bool :=
  negb (k_nb k || k_nooa k || k_other k) && is_nil (k_rs k).

(* AuthnResponse.condition_ok (validity period satisfied, not in test mode, no xsi:type'd extra
   condition): no Conditions, or Conditions without any content -> True; otherwise the verdict of
   for_me — whether or not a validity period is given *)
Definition condition_ok (c : option conditions) (me : string) : bool :=
  match c with
  | None => true
  | Some k => if keyswv_empty k then true else for_me (k_rs k) me
  end.

Definition condition_ok_v0 (c : option conditions) (me : string) : bool :=
  match c with
  | None => true
  | Some k => if keyswv_empty k then true else for_me_v0 (k_rs k) me
  end.

Inductive method := Bearer | HolderOfKey | SenderVouches | OtherMethod.

(* <SubjectConfirmationData>: its Recipient, and whether the data confirms the subject for the
   method on its own (_bearer_confirmed / _holder_of_key_confirmed would return True: a bearer
   datum with a NotBefore but no NotOnOrAfter does not, nor holder-of-key data without KeyInfo) *)
Record cdata := { d_recipient : option string; d_confirmed : bool }.
Record confirmation := { c_method : method; c_data : option cdata }.

(* what the loop of get_subject does with one SubjectConfirmation *)
Inductive verdict := Skip | Keep | Raise.

Definition check_recipient (conv : option (option string)) (addrs : list string) (d : cdata) : verdict :=
  if recipient_ok conv addrs (d_recipient d) then Keep else Raise.

Definition conf_verdict (conv : option (option string)) (addrs : list string) (c : confirmation) : verdict :=
  match c_method c, c_data c with
  | Bearer, None => Skip                                   (* _bearer_confirmed(None) is False *)
  | Bearer, Some d => if d_confirmed d then check_recipient conv addrs d else Skip
  | HolderOfKey, None => Skip
  | HolderOfKey, Some d => if d_confirmed d then check_recipient conv addrs d else Skip
  | SenderVouches, None => Raise                           (* None.recipient: AttributeError *)
  | SenderVouches, Some d => check_recipient conv addrs d
  | OtherMethod, _ => Raise                                (* ValueError: unknown method *)
  end.

Definition is_raise (v : verdict) : bool := match v with Raise => true | _ => false end.
Definition is_keep (v : verdict) : bool := match v with Keep => true | _ => false end.

(* get_subject as the loop runs: the first Raise ends it; the kept confirmations are collected *)
Fixpoint subject_loop (conv : option (option string)) (addrs : list string) (l : list confirmation)
                      (kept : list confirmation) : option (list confirmation) :=
  match l with
  | [] => Some kept
  | c :: r => match conf_verdict conv addrs c with
              | Raise => None
              | Skip => subject_loop conv addrs r kept
              | Keep => subject_loop conv addrs r (kept ++ [c])
              end
  end.

(* get_subject returns (no exception): nothing raised and at least one confirmation was kept *)
Definition get_subject (conv : option (option string)) (addrs : list string) (l : list confirmation) : bool :=
  match subject_loop conv addrs l [] with
  | Some (_ :: _) => true
  | _ => false
  end.

Record message := {
  m_me : string;
  m_specs : list epspec;
  m_binding : string;
  m_conds : option conditions;       (* None: the assertion has no <Conditions> *)
  m_dest : option string;
  m_conv : option (option string);
  m_confs : list confirmation        (* the SubjectConfirmation elements, in document order *)
}.

Definition accept (x : message) : bool :=
  let addrs := endpoint (m_specs x) (m_binding x) in
  dest_ok (m_binding x) (m_dest x) addrs
  && condition_ok (m_conds x) (m_me x)
  && get_subject (m_conv x) addrs (m_confs x).

Definition accept_v0 (x : message) : bool :=
  let addrs := endpoint (m_specs x) (m_binding x) in
  dest_ok (m_binding x) (m_dest x) addrs
  && condition_ok_v0 (m_conds x) (m_me x)
  && get_subject (m_conv x) addrs (m_confs x).

(* the usual message: Conditions with a validity period, ONE bearer confirmation with data *)
Definition usual_conditions (rs : list (list audience)) : conditions :=
  {| k_nb := true; k_nooa := true; k_other := false; k_rs := rs |}.
Definition bearer (r : option string) : confirmation :=
  {| c_method := Bearer; c_data := Some {| d_recipient := r; d_confirmed := true |} |}.
Definition of_input (x : input) : message :=
  {| m_me := me x; m_specs := specs x; m_binding := binding x;
     m_conds := Some (usual_conditions (rs x)); m_dest := dest x; m_conv := conv x;
     m_confs := [bearer (recip x)] |}.

(* ---------------------------------------------------------------------------------------------
   Sequences of calls on long-lived provider objects (several objects, possibly with different
   configurations, living in one process).

   As coded, neither Base.service_urls nor Config.endpoint nor parse_authn_request_response keeps
   anything between calls that the addressing checks read, and provider objects share nothing:
   return_addrs is recomputed from the object's OWN configuration on every call
   (client_base.py: `"return_addrs": self.service_urls(binding=binding)`,
    `service_urls`: `_res = self.config.endpoint("assertion_consumer_service", binding, "sp")`).
   The trace model therefore maps every call to its result independently of the calls before it;
   the correspondence check validates exactly this against the real objects. *)

(* Base.service_urls(binding): the endpoint list, or None when it is empty *)
Definition service_urls (specs : list epspec) (binding : string) : option (list string) :=
  match endpoint specs binding with [] => None | l => Some l end.

(* StatusResponse.__init__: self.return_addrs = return_addrs or [] *)
Definition return_addrs (specs : list epspec) (binding : string) : list string :=
  match service_urls specs binding with Some l => l | None => [] end.

(* create_authn_request: AssertionConsumerServiceURL = (service_urls(binding) or [None])[0] *)
Definition request_acs_url (specs : list epspec) (binding : string) : option string :=
  match return_addrs specs binding with [] => None | u :: _ => Some u end.

(* ---------------------------------------------------------------------------------------------
   A Response that delivers SEVERAL assertions, each of them in the clear (<Assertion>), encrypted
   (<EncryptedAssertion>), or inside the <Advice> of another assertion, in any document order.
   [message] above is the usual special case: one assertion, in the clear.

   AuthnResponse.parse_assertion, as coded: the "saml2int" count test lets a Response through when
   it has exactly one plain OR exactly one encrypted top-level assertion (so 1+k and k+1 mixtures
   pass); every plain assertion goes through _assertion (condition_ok, then get_subject) in document
   order, then every decrypted one does; the first failure ends everything with an exception.
   When nothing failed, identity is drawn from ALL delivered assertions: get_identity merges the
   attribute statements of every top-level assertion AND of every assertion found in the <Advice>
   of one (`for tmp_assertion in _assertion.advice.assertion: ... ava.update(...)`), name_id is the
   one of the assertion processed last, .assertion / session_info() are the first decrypted (else
   the first plain) one.  An assertion inside an <Advice> is never handed to _assertion; since
   913771bd (finding C04-F2 repaired) get_identity refuses the Response (VerificationError) when the
   Conditions of an <Advice> assertion are present and not satisfied by for_me.  Before that commit
   nothing read them: [accept_r_v0] / [drawn_from_v0] keep that behaviour. *)
Inductive travel :=
| Plain                              (* <Assertion> child of the Response *)
| Encrypted                          (* <EncryptedAssertion> child of the Response *)
| Advised.                           (* <Assertion> inside the <Advice> of the top-level assertion before it *)

Record assertion := {
  a_how : travel;
  a_conds : option conditions;       (* its <Conditions> *)
  a_confs : list confirmation        (* the SubjectConfirmation elements of its Subject *)
}.

Record response := {
  r_me : string;
  r_specs : list epspec;
  r_binding : string;
  r_dest : option string;
  r_conv : option (option string);
  r_assertions : list assertion      (* in document order *)
}.

Definition is_plain (a : assertion) : bool := match a_how a with Plain => true | _ => false end.
Definition a_enc (a : assertion) : bool := match a_how a with Encrypted => true | _ => false end.
Definition is_top (a : assertion) : bool := match a_how a with Advised => false | _ => true end.
Definition n_plain (l : list assertion) : nat := length (filter is_plain l).
Definition n_enc (l : list assertion) : nat := length (filter a_enc l).

(* `if n_assertions != 1 and n_assertions_enc != 1 and self.assertion is None: raise InvalidAssertion` *)
Definition count_ok (l : list assertion) : bool := Nat.eqb (n_plain l) 1 || Nat.eqb (n_enc l) 1.

(* the order in which parse_assertion hands the assertions to _assertion (advised ones: never) *)
Definition processing_order (l : list assertion) : list assertion := filter is_plain l ++ filter a_enc l.

(* AuthnResponse._assertion on one assertion (signature, issuer, AuthnStatement in order) *)
Definition assertion_ok (me : string) (conv : option (option string)) (addrs : list string) (a : assertion) : bool :=
  condition_ok (a_conds a) me && get_subject conv addrs (a_confs a).

(* before 913771bd: the assertions inside an <Advice> are not looked at *)
Definition accept_r_v0 (x : response) : bool :=
  let addrs := endpoint (r_specs x) (r_binding x) in
  dest_ok (r_binding x) (r_dest x) addrs
  && count_ok (r_assertions x)
  && forallb (assertion_ok (r_me x) (r_conv x) addrs) (processing_order (r_assertions x)).
Definition drawn_from_v0 (x : response) : list bool := map (fun _ => accept_r_v0 x) (r_assertions x).

(* get_identity: `if tmp_assertion.conditions and not for_me(tmp_assertion.conditions, self.entity_id): raise` *)
Definition advice_ok (me : string) (a : assertion) : bool := is_top a || condition_ok (a_conds a) me.

(* the code as it is now *)
Definition accept_r (x : response) : bool :=
  accept_r_v0 x && forallb (advice_ok (r_me x)) (r_assertions x).

(* per delivered assertion (document order): is identity drawn from it? *)
Definition drawn_from (x : response) : list bool := map (fun _ => accept_r x) (r_assertions x).

(* the Response as it would read were [a] the only assertion in it *)
Definition msg_of (x : response) (a : assertion) : message :=
  {| m_me := r_me x; m_specs := r_specs x; m_binding := r_binding x; m_conds := a_conds a;
     m_dest := r_dest x; m_conv := r_conv x; m_confs := a_confs a |}.

(* the usual Response: one assertion, in the clear *)
Definition resp_of (x : message) : response :=
  {| r_me := m_me x; r_specs := m_specs x; r_binding := m_binding x; r_dest := m_dest x; r_conv := m_conv x;
     r_assertions := [{| a_how := Plain; a_conds := m_conds x; a_confs := m_confs x |}] |}.

(* one call on one provider object; the object's configuration travels with the call
   (m_me/m_specs of a [message]; the configured endpoint list of the service asked for otherwise) *)
Inductive op :=
| OParse (x : message)                                (* parse_authn_request_response *)
| OResp (x : response)                                (* parse_authn_request_response, Response with a LIST of assertions *)
| OUrls (specs : list epspec) (binding : string)      (* Base.service_urls(binding) *)
| OEndp (specs : list epspec) (binding : string)      (* Config.endpoint(service, binding, "sp"); specs = list configured for that service *)
| OAcs (specs : list epspec) (binding : string).      (* create_authn_request(.., binding=binding): the ACS URL put into the request *)

Inductive out :=
| RId (b : bool)
| RFrom (l : list bool)                               (* per delivered assertion: identity drawn from it *)
| RUrls (o : option (list string))
| REndp (l : list string)
| RAcs (o : option string).

Definition step (o : op) : out :=
  match o with
  | OParse x => RId (accept x)
  | OResp x => RFrom (drawn_from x)
  | OUrls specs b => RUrls (service_urls specs b)
  | OEndp specs b => REndp (endpoint specs b)
  | OAcs specs b => RAcs (request_acs_url specs b)
  end.

Definition run_ops (l : list op) : list out := map step l.

(* the call sequences of the code before 913771bd (C04-F2): only the Responses with several assertions differ *)
Definition step_v0 (o : op) : out :=
  match o with
  | OResp x => RFrom (drawn_from_v0 x)
  | _ => step o
  end.
Definition run_ops_v0 (l : list op) : list out := map step_v0 l.
