(* C04/Model.v — addressing checks of the SP acceptance path, as coded.
   Mirrors: response.for_me (207-222), AuthnResponse.condition_ok audience part,
   StatusResponse._verify destination test (402-422), get_subject / verify_recipient
   (725-775, 1105-1130), Config.endpoint (config.py 395-425), Base.service_urls. *)
From Coq Require Import String List Bool.
From Verif Require Import Base.Str.
Import ListNotations.
Open Scope string_scope.

Definition BINDING_SOAP := "urn:oasis:names:tc:SAML:2.0:bindings:SOAP".
Definition BINDING_PAOS := "urn:oasis:names:tc:SAML:2.0:bindings:PAOS".

(* an <Audience> element: None = element without text *)
Definition audience := option string.

Definition aud_matches (me : string) (a : audience) : bool :=
  match a with
  | Some t => negb (is_empty t) && String.eqb (strip t) me
  | None => false
  end.

(* for_me as coded at the pinned snapshot 28480bb7: one matching audience in ANY
   restriction suffices (kept for the refutation theorem). *)
Definition for_me_v0 (rs : list (list audience)) (me : string) : bool :=
  match rs with
  | [] => true
  | _ => existsb (fun r => existsb (aud_matches me) r) rs
  end.

(* for_me after "fix: for_me must satisfy every AudienceRestriction" *)
Definition for_me (rs : list (list audience)) (me : string) : bool :=
  forallb (fun r => existsb (aud_matches me) r) rs.

(* configured endpoint specifications: (url, binding) pairs or bare urls *)
Inductive epspec := EP (url bind : string) | Bare (url : string).

Definition endpoint (specs : list epspec) (binding : string) : list string :=
  let spec := flat_map (fun e => match e with EP u b => if String.eqb b binding then [u] else [] | Bare _ => [] end) specs in
  let unspec := flat_map (fun e => match e with Bare u => [u] | EP _ _ => [] end) specs in
  match spec with [] => unspec | _ => spec end.

Definition asynchop (binding : string) : bool :=
  negb (String.eqb binding BINDING_SOAP || String.eqb binding BINDING_PAOS).

(* StatusResponse._verify, destination part *)
Definition dest_ok (binding : string) (dest : option string) (addrs : list string) : bool :=
  if asynchop binding then
    match dest with
    | Some d => is_empty d || mem d addrs
    | None => true
    end
  else true.

(* verify_recipient; conv = None when the caller gave no (or empty) conv_info,
   Some eid when it did (eid = conv_info.get("entity_id")) *)
Definition verify_recipient (conv : option (option string)) (addrs : list string) (r : string) : bool :=
  match conv with
  | None => true
  | Some eid => opt_eqb String.eqb (Some r) eid || mem r addrs
  end.

(* get_subject for one bearer confirmation with data: recipient test *)
Definition recipient_ok (conv : option (option string)) (addrs : list string) (recip : option string) : bool :=
  match recip with
  | None => false
  | Some r => negb (is_empty r) && verify_recipient conv addrs r
  end.

Record input := {
  me : string;                       (* own entityID *)
  specs : list epspec;               (* configured assertion_consumer_service endpoints *)
  binding : string;                  (* binding the Response arrived on *)
  rs : list (list audience);         (* AudienceRestriction / Audience structure *)
  dest : option string;              (* Response/@Destination *)
  conv : option (option string);     (* conversation info *)
  recip : option string              (* SubjectConfirmationData/@Recipient *)
}.

(* identity is produced (everything else about the Response being valid) *)
Definition identity (x : input) : bool :=
  let addrs := endpoint (specs x) (binding x) in
  dest_ok (binding x) (dest x) addrs
  && for_me (rs x) (me x)
  && recipient_ok (conv x) addrs (recip x).

Definition identity_v0 (x : input) : bool :=
  let addrs := endpoint (specs x) (binding x) in
  dest_ok (binding x) (dest x) addrs
  && for_me_v0 (rs x) (me x)
  && recipient_ok (conv x) addrs (recip x).

(* ---------------------------------------------------------------------------------------------
   Sequences of calls on long-lived provider objects (several objects, possibly with different
   configurations, living in one process).

   As coded, neither Base.service_urls nor Config.endpoint nor parse_authn_request_response keeps
   anything between calls that the addressing checks read, and provider objects share nothing:
   return_addrs is recomputed from the object's OWN configuration on every call
   (client_base.py: `"return_addrs": self.service_urls(binding=binding)`,
    `service_urls`: `_res = self.config.endpoint("assertion_consumer_service", binding, "sp")`).
   The trace model therefore maps every call to its result independently of the calls before it;
   the correspondence check validates exactly this against the real objects. *)

(* Base.service_urls(binding): the endpoint list, or None when it is empty *)
Definition service_urls (specs : list epspec) (binding : string) : option (list string) :=
  match endpoint specs binding with [] => None | l => Some l end.

(* StatusResponse.__init__: self.return_addrs = return_addrs or [] *)
Definition return_addrs (specs : list epspec) (binding : string) : list string :=
  match service_urls specs binding with Some l => l | None => [] end.

(* create_authn_request: AssertionConsumerServiceURL = (service_urls(binding) or [None])[0] *)
Definition request_acs_url (specs : list epspec) (binding : string) : option string :=
  match return_addrs specs binding with [] => None | u :: _ => Some u end.

(* one call on one provider object; the object's configuration travels with the call
   (me/specs of an [input]; the configured endpoint list of the service asked for otherwise) *)
Inductive op :=
| OParse (x : input)                                  (* parse_authn_request_response *)
| OUrls (specs : list epspec) (binding : string)      (* Base.service_urls(binding) *)
| OEndp (specs : list epspec) (binding : string)      (* Config.endpoint(service, binding, "sp"); specs = list configured for that service *)
| OAcs (specs : list epspec) (binding : string).      (* create_authn_request(.., binding=binding): the ACS URL put into the request *)

Inductive out :=
| RId (b : bool)
| RUrls (o : option (list string))
| REndp (l : list string)
| RAcs (o : option string).

Definition step (o : op) : out :=
  match o with
  | OParse x => RId (identity x)
  | OUrls specs b => RUrls (service_urls specs b)
  | OEndp specs b => REndp (endpoint specs b)
  | OAcs specs b => RAcs (request_acs_url specs b)
  end.

Definition run_ops (l : list op) : list out := map step l.
