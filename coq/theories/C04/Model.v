(* C04/Model.v — addressing checks of the SP acceptance path, as coded.
   Mirrors: response.for_me (207-222), AuthnResponse.condition_ok audience part,
   StatusResponse._verify destination test (402-422), get_subject / verify_recipient
   (725-775, 1105-1130), Config.endpoint (config.py 395-425), Base.service_urls. *)
From Coq Require Import String List Bool.
From Verif Require Import Base.Str.
Import ListNotations.
Open Scope string_scope.

Definition BINDING_SOAP := "urn:oasis:names:tc:SAML:2.0:bindings:SOAP".
Definition BINDING_PAOS := "urn:oasis:names:tc:SAML:2.0:bindings:PAOS".

(* an <Audience> element: None = element without text *)
Definition audience := option string.

Definition aud_matches (me : string) (a : audience) : bool :=
  match a with
  | Some t => negb (is_empty t) && String.eqb (strip t) me
  | None => false
  end.

(* for_me as coded at the pinned snapshot 28480bb7: one matching audience in ANY
   restriction suffices (kept for the refutation theorem). *)
Definition for_me_v0 (rs : list (list audience)) (me : string) : bool :=
  match rs with
  | [] => true
  | _ => existsb (fun r => existsb (aud_matches me) r) rs
  end.

(* for_me after "fix: for_me must satisfy every AudienceRestriction" *)
Definition for_me (rs : list (list audience)) (me : string) : bool :=
  forallb (fun r => existsb (aud_matches me) r) rs.

(* configured endpoint specifications: (url, binding) pairs or bare urls *)
Inductive epspec := EP (url bind : string) | Bare (url : string).

Definition endpoint (specs : list epspec) (binding : string) : list string :=
  let spec := flat_map (fun e => match e with EP u b => if String.eqb b binding then [u] else [] | Bare _ => [] end) specs in
  let unspec := flat_map (fun e => match e with Bare u => [u] | EP _ _ => [] end) specs in
  match spec with [] => unspec | _ => spec end.

Definition asynchop (binding : string) : bool :=
  negb (String.eqb binding BINDING_SOAP || String.eqb binding BINDING_PAOS).

(* StatusResponse._verify, destination part *)
Definition dest_ok (binding : string) (dest : option string) (addrs : list string) : bool :=
  if asynchop binding then
    match dest with
    | Some d => is_empty d || mem d addrs
    | None => true
    end
  else true.

(* verify_recipient; conv = None when the caller gave no (or empty) conv_info,
   Some eid when it did (eid = conv_info.get("entity_id")) *)
Definition verify_recipient (conv : option (option string)) (addrs : list string) (r : string) : bool :=
  match conv with
  | None => true
  | Some eid => opt_eqb String.eqb (Some r) eid || mem r addrs
  end.

(* get_subject for one bearer confirmation with data: recipient test *)
Definition recipient_ok (conv : option (option string)) (addrs : list string) (recip : option string) : bool :=
  match recip with
  | None => false
  | Some r => negb (is_empty r) && verify_recipient conv addrs r
  end.

Record input := {
  me : string;                       (* own entityID *)
  specs : list epspec;               (* configured assertion_consumer_service endpoints *)
  binding : string;                  (* binding the Response arrived on *)
  rs : list (list audience);         (* AudienceRestriction / Audience structure *)
  dest : option string;              (* Response/@Destination *)
  conv : option (option string);     (* conversation info *)
  recip : option string              (* SubjectConfirmationData/@Recipient *)
}.

(* identity is produced (everything else about the Response being valid) *)
Definition identity (x : input) : bool :=
  let addrs := endpoint (specs x) (binding x) in
  dest_ok (binding x) (dest x) addrs
  && for_me (rs x) (me x)
  && recipient_ok (conv x) addrs (recip x).

Definition identity_v0 (x : input) : bool :=
  let addrs := endpoint (specs x) (binding x) in
  dest_ok (binding x) (dest x) addrs
  && for_me_v0 (rs x) (me x)
  && recipient_ok (conv x) addrs (recip x).
