(* C04/Source2.v — tie of the hand-written model to the CURRENT source text, translator v2
   (harness/py2coq2.py, Base/Py2.v; coq/gen/C04Src2.v is regenerated from /repo's source on every run).
   For every translated function: the translated function applied to the encoding of the model's
   input equals the encoding of the MODEL function's output, for ALL inputs.  External calls are
   Section variables with hypotheses; every Section ends with an Example showing them satisfiable. *)
From Coq Require Import String Ascii List Bool ZArith Arith Lia.
From Verif Require Import Base.Str Base.Py Base.Py2 C04.Model C04.Spec C04.Proofs.
From VerifGen Require Import C04Src2.
Import ListNotations.
Open Scope string_scope.
Open Scope list_scope.
Set Default Timeout 20.

(* ------------------------------------------------------------------ encodings, general facts *)
Definition enc_strs (l : list string) : pyval := PList (map PStr l).
Definition enc_ostr (o : option string) : pyval := match o with Some s => PStr s | None => PNone end.

Lemma list_has_strs v l : list_has (PStr v) (map PStr l) = Some (mem v l).
Proof.
  induction l as [|x r IH]; cbn [map list_has mem]; [reflexivity|].
  cbn [pv_eq cmp_ok is_bad is_object negb andb]. destruct (String.eqb v x); [reflexivity|exact IH].
Qed.

Lemma p2_in_strs v l : p2_in (PStr v) (enc_strs l) = PBool (mem v l).
Proof. unfold enc_strs, p2_in. rewrite s2_good by reflexivity. rewrite list_has_strs. reflexivity. Qed.

(* self.conv_info = conv_info or {}: no / empty conversation info is the empty dict; otherwise a
   dict with the remote address and, when the caller gave one, the entity_id *)
Definition enc_conv (conv : option (option string)) (ra : string) : pyval :=
  match conv with
  | None => PObj []
  | Some None => PObj [("remote_addr", PStr ra)]
  | Some (Some e) => PObj [("entity_id", PStr e); ("remote_addr", PStr ra)]
  end.

(* ================================================================== AuthnResponse.verify_recipient *)
(* the fields of the AuthnResponse object that the addressing checks read *)
Definition enc_resp_fields (conv : option (option string)) (ra : string) (addrs : list string) : list (string * pyval) :=
  [("conv_info", enc_conv conv ra); ("return_addrs", enc_strs addrs)].

Definition enc_vr_self conv ra addrs : pyval := PObj (("__class__", PStr "AuthnResponse") :: enc_resp_fields conv ra addrs).

Lemma verify_recipient_gen conv ra addrs r self :
  p2_attr self "conv_info" = enc_conv conv ra -> p2_attr self "return_addrs" = enc_strs addrs ->
  src2_verify_recipient self (PStr r) = PBool (verify_recipient conv addrs r).
Proof.
  intros Hc Ha. unfold src2_verify_recipient. cbv zeta. rewrite Hc, Ha, p2_in_strs.
  destruct conv as [[e|]|]; cbn [enc_conv verify_recipient opt_eqb].
  - cbn [p2_not s1 py_bind py_truthy negb p2_branch].
    change (p2_getitem (PObj [("entity_id", PStr e); ("remote_addr", PStr ra)]) (PStr "entity_id")) with (PStr e).
    rewrite p2_eq_str. cbn [p2_branch py_truthy].
    destruct (String.eqb r e); cbn [orb]; [reflexivity|].
    destruct (mem r addrs); reflexivity.
  - cbn [p2_not s1 py_bind py_truthy negb p2_branch].
    change (p2_getitem (PObj [("remote_addr", PStr ra)]) (PStr "entity_id")) with (PExc "KeyError").
    cbn. destruct (mem r addrs); reflexivity.
  - reflexivity.
Qed.

Theorem src2_verify_recipient_is_model : forall conv ra addrs r,
  src2_verify_recipient (enc_vr_self conv ra addrs) (PStr r) = PBool (verify_recipient conv addrs r).
Proof. intros. apply (verify_recipient_gen conv ra); reflexivity. Qed.

(* ================================================================== StatusResponse._verify *)
(* the Destination test.  The object is an AuthnResponse (request_id is 0 there: AuthnResponse.__init__
   does not pass one), Version "2.0" (the other versions raise: not mirrored by the model, and the
   float comparison there is behind the extra arguments float_ext / float_two). *)
Definition enc_sr_self (asyn : bool) (dest : option string) (addrs : list string) (irt : pyval) : pyval :=
  PObj [("__class__", PStr "AuthnResponse"); ("request_id", PInt 0); ("in_response_to", irt);
        ("response", PObj [("__class__", PStr "Response"); ("version", PStr "2.0"); ("destination", enc_ostr dest)]);
        ("asynchop", PBool asyn); ("return_addrs", enc_strs addrs)].

Section Verify.
  Variables (issue_ok status_ok float_ext : pyval -> pyval) (float_two : pyval).
  (* everything else about the Response is valid *)
  Hypothesis Hissue : forall s, issue_ok s = PBool true.
  Hypothesis Hstatus : forall s, status_ok s = PBool true.

  Theorem src2_verify_is_model : forall b dest addrs irt,
    src2_verify issue_ok status_ok float_ext float_two (enc_sr_self (asynchop b) dest addrs irt)
    = if dest_ok b dest addrs then PBool true else PNone.
  Proof.
    intros b dest addrs irt. unfold src2_verify, dest_ok. cbv zeta. rewrite Hissue, Hstatus.
    change (p2_attr (enc_sr_self (asynchop b) dest addrs irt) "request_id") with (PInt 0).
    change (p2_attr (p2_attr (enc_sr_self (asynchop b) dest addrs irt) "response") "version") with (PStr "2.0").
    change (p2_attr (p2_attr (enc_sr_self (asynchop b) dest addrs irt) "response") "destination") with (enc_ostr dest).
    change (p2_attr (enc_sr_self (asynchop b) dest addrs irt) "asynchop") with (PBool (asynchop b)).
    change (p2_attr (enc_sr_self (asynchop b) dest addrs irt) "return_addrs") with (enc_strs addrs).
    rewrite p2_and_good by reflexivity. cbn [py_truthy Z.eqb negb p2_branch].
    rewrite p2_ne_str. cbn [String.eqb Ascii.eqb Bool.eqb negb p2_branch py_truthy].
    destruct (asynchop b); cbn [py_truthy]; [|reflexivity].
    destruct dest as [d|]; cbn [enc_ostr]; [|reflexivity].
    unfold p2_not_in. rewrite p2_in_strs, p2_not_bool, p2_and_good by reflexivity. cbn [py_truthy].
    destruct d as [|c d']; cbn [is_empty negb orb]; [reflexivity|].
    destruct (mem (String c d') addrs); reflexivity.
  Qed.
End Verify.

Example verify_hyps_sat : exists f : pyval -> pyval, (forall s, f s = PBool true).
Proof. exists (fun _ => PBool true). reflexivity. Qed.

(* ================================================================== Config.endpoint / Base.service_urls *)
(* Endpoint specifications that are (url, binding) pairs.  A bare str specification is unpacked by
   `endp, bind = endpspec` (ValueError unless it has exactly two characters): unpacking a str is outside
   the translator's fragment (PErr), so the theorem is about configurations without bare endpoints. *)
Definition mk_ep (p : string * string) : epspec := EP (fst p) (snd p).
Definition enc_pair (p : string * string) : pyval := PList [PStr (fst p); PStr (snd p)].
Definition sel (b : string) (l : list (string * string)) : list string :=
  flat_map (fun p => if String.eqb (snd p) b then [fst p] else []) l.

Lemma endpoint_pairs l b : endpoint (map mk_ep l) b = sel b l.
Proof.
  unfold endpoint.
  assert (Hs : flat_map (fun e => match e with EP u b' => if String.eqb b' b then [u] else [] | Bare _ => [] end) (map mk_ep l) = sel b l).
  { induction l as [|p r IH]; cbn [map flat_map sel mk_ep]; [reflexivity|]. f_equal. exact IH. }
  assert (Hu : flat_map (fun e => match e with Bare u => [u] | EP _ _ => [] end) (map mk_ep l) = []).
  { clear Hs. induction l as [|p r IH]; cbn [map flat_map mk_ep app]; [reflexivity|exact IH]. }
  rewrite Hs, Hu. destruct (sel b l); reflexivity.
Qed.

Section Endpoint.
  Variables (getattr_ext : pyval -> pyval -> pyval -> pyval) (type_ext : pyval -> pyval).
  (* type(x) of a tuple/list endpoint specification *)
  Hypothesis Htype : forall l, type_ext (PList l) = PStr "tuple".

  Definition ep_body (v_binding : pyval) : list pyval -> pyval -> ctl2 :=
    fun st_5 x_6 => match st_5 with [v_endp; v_bind; v_spec; v_unspec] =>
    (let v_endpspec := x_6 in
    (let h_9 := fun n_9 v_endp v_bind v_spec =>
     (if exc_matches n_9 ["ValueError"; "UnicodeDecodeError"; "UnicodeEncodeError"; "UnicodeError"]
     then (py_bindS (fun n_10 => (ExcS n_10 [v_endp; v_bind; v_spec; v_unspec])) (p2_append v_unspec v_endpspec) (fun v_unspec =>
     (NextS [v_endp; v_bind; v_spec; v_unspec])))
     else (ExcS n_9 [v_endp; v_bind; v_spec; v_unspec])) in
    (let k_21 := fun v_endp v_bind =>
     (match p2_branch (p2_or (p2_is_none v_binding) (p2_eq v_bind v_binding)) with
     | BTrue => (py_bindS (fun n_11 => (h_9 n_11 v_endp v_bind v_spec)) (p2_append v_spec v_endp) (fun v_spec =>
     (NextS [v_endp; v_bind; v_spec; v_unspec])))
     | BFalse => (NextS [v_endp; v_bind; v_spec; v_unspec])
     | BExc n_12 => (h_9 n_12 v_endp v_bind v_spec)
     | BErr => (RetS PErr)
     end) in
    (match p2_branch (p2_in (py_bind v_endpspec (fun a_14 => (type_ext a_14))) (p2_mklist [(PStr "tuple"); (PStr "list")])) with
    | BTrue => (py_bindS (fun n_17 => (h_9 n_17 v_endp v_bind v_spec)) (p2_slice v_endpspec (PInt (0)%Z) (PInt (2)%Z)) (fun a_15 =>
    (match p2_unpack 2 a_15 with
    | PList [v_endp; v_bind] => (k_21 v_endp v_bind)
    | PExc n_16 => (h_9 n_16 v_endp v_bind v_spec)
    | _ => (RetS PErr)
    end)))
    | BFalse => (py_bindS (fun n_20 => (h_9 n_20 v_endp v_bind v_spec)) v_endpspec (fun a_18 =>
    (match p2_unpack 2 a_18 with
    | PList [v_endp; v_bind] => (k_21 v_endp v_bind)
    | PExc n_19 => (h_9 n_19 v_endp v_bind v_spec)
    | _ => (RetS PErr)
    end)))
    | BExc n_21 => (h_9 n_21 v_endp v_bind v_spec)
    | BErr => (RetS PErr)
    end))))
   | _ => RetS PErr end.

  Lemma ep_loop b l : forall e bd acc,
    exists e' bd', pyfor2 (map enc_pair l) [e; bd; enc_strs acc; PList []] (ep_body (PStr b))
                   = NextS [e'; bd'; enc_strs (acc ++ sel b l); PList []].
  Proof.
    induction l as [|p r IH]; intros e bd acc; cbn [map pyfor2 sel flat_map].
    - exists e, bd. rewrite app_nil_r. reflexivity.
    - unfold ep_body at 1. cbv zeta. change (enc_pair p) with (PList [PStr (fst p); PStr (snd p)]).
      cbn [py_bind]. rewrite Htype.
      change (p2_in (PStr "tuple") (p2_mklist [PStr "tuple"; PStr "list"])) with (PBool true).
      cbn [p2_branch py_truthy].
      change (p2_slice (PList [PStr (fst p); PStr (snd p)]) (PInt 0) (PInt 2)) with (PList [PStr (fst p); PStr (snd p)]).
      cbn [py_bindS p2_bind p2_unpack length Nat.eqb].
      rewrite p2_eq_str. change (p2_is_none (PStr b)) with (PBool false).
      rewrite p2_or_good by reflexivity. cbn [py_truthy p2_branch].
      destruct (String.eqb (snd p) b).
      + change (p2_append (enc_strs acc) (PStr (fst p))) with (PList (map PStr acc ++ [PStr (fst p)])).
        cbn [py_bindS p2_bind].
        replace (PList (map PStr acc ++ [PStr (fst p)])) with (enc_strs (acc ++ [fst p]))
          by (unfold enc_strs; rewrite map_app; reflexivity).
        destruct (IH (PStr (fst p)) (PStr (snd p)) (acc ++ [fst p])) as [e' [bd' H]].
        exists e', bd'. fold (sel b r). rewrite H, <- app_assoc. reflexivity.
      + destruct (IH (PStr (fst p)) (PStr (snd p)) acc) as [e' [bd' H]].
        exists e', bd'. fold (sel b r). rewrite H. reflexivity.
  Qed.

  (* cfg: the Config object; its getattr("endpoints", context) is a dict that lists the service *)
  Theorem src2_endpoint_is_model : forall cfg ctx endps svc l b,
    is_bad ctx = false -> getattr_ext cfg (PStr "endpoints") ctx = PObj endps ->
    is_obj endps = false -> assoc_py svc endps = Some (PList (map enc_pair l)) ->
    src2_endpoint getattr_ext type_ext cfg (PStr svc) (PStr b) ctx = enc_strs (endpoint (map mk_ep l) b).
  Proof.
    intros cfg ctx endps svc l b Hctx Hget Hobj Hsvc. unfold src2_endpoint. cbv zeta.
    rewrite (py_bind_good ctx) by exact Hctx. rewrite Hget. cbn [py_bind].
    rewrite p2_in_dict by exact Hobj. rewrite Hsvc.
    rewrite p2_and_good by reflexivity.
    assert (Ht : py_truthy (PObj endps) = true) by (destruct endps; [discriminate|reflexivity]).
    rewrite Ht. cbn [p2_branch py_truthy].
    rewrite p2_getitem_dict by exact Hobj. rewrite Hsvc, p2_iter_check_list. cbn [py_bind py_iter2].
    fold (ep_body (PStr b)).
    destruct (ep_loop b l PErr PErr []) as [e' [bd' H]].
    change (PList []) with (enc_strs []) at 1. rewrite H. cbn [app].
    rewrite endpoint_pairs. destruct (sel b l); reflexivity.
  Qed.

  (* the service is not configured at all: no endpoints *)
  Theorem src2_endpoint_unconfigured : forall cfg ctx endps svc b,
    is_bad ctx = false -> getattr_ext cfg (PStr "endpoints") ctx = PObj endps ->
    is_obj endps = false -> assoc_py svc endps = None ->
    src2_endpoint getattr_ext type_ext cfg (PStr svc) (PStr b) ctx = enc_strs (endpoint [] b).
  Proof.
    intros cfg ctx endps svc b Hctx Hget Hobj Hsvc. unfold src2_endpoint. cbv zeta.
    rewrite (py_bind_good ctx) by exact Hctx. rewrite Hget. cbn [py_bind].
    rewrite p2_in_dict by exact Hobj. rewrite Hsvc.
    rewrite p2_and_good by reflexivity. destruct endps; reflexivity.
  Qed.

  (* Base.service_urls: the SP's consumer endpoints for the binding, None when there is none *)
  Definition enc_urls (o : option (list string)) : pyval := match o with Some l => enc_strs l | None => PNone end.

  Theorem src2_service_urls_is_model : forall self cfg endps l b,
    p2_attr self "config" = cfg -> getattr_ext cfg (PStr "endpoints") (PStr "sp") = PObj endps ->
    is_obj endps = false -> assoc_py "assertion_consumer_service" endps = Some (PList (map enc_pair l)) ->
    src2_service_urls getattr_ext type_ext self (PStr b) = enc_urls (service_urls (map mk_ep l) b).
  Proof.
    intros self cfg endps l b Hcfg Hget Hobj Hsvc. unfold src2_service_urls. cbv zeta. cbn [py_bind].
    rewrite Hcfg, (src2_endpoint_is_model cfg (PStr "sp") endps "assertion_consumer_service" l b eq_refl Hget Hobj Hsvc).
    unfold service_urls. destruct (endpoint (map mk_ep l) b); reflexivity.
  Qed.
End Endpoint.

(* the hypotheses are satisfiable: a Config object whose getattr returns the endpoints dict it holds *)
Example endpoint_hyps_sat :
  let type_ext := fun v => match v with PList _ => PStr "tuple" | _ => PStr "str" end in
  let getattr_ext := fun cfg _ _ => p2_attr cfg "_sp_endpoints" in
  let cfg := PObj [("__class__", PStr "SPConfig");
                   ("_sp_endpoints", PObj [("assertion_consumer_service", PList (map enc_pair [("https://sp.example.org/acs/post", "urn:oasis:names:tc:SAML:2.0:bindings:HTTP-POST"); ("https://sp.example.org/acs/redirect", "urn:oasis:names:tc:SAML:2.0:bindings:HTTP-Redirect")]))])] in
  (forall l, type_ext (PList l) = PStr "tuple")
  /\ src2_service_urls getattr_ext type_ext (PObj [("__class__", PStr "Saml2Client"); ("config", cfg)]) (PStr "urn:oasis:names:tc:SAML:2.0:bindings:HTTP-POST")
     = enc_strs ["https://sp.example.org/acs/post"].
Proof. split; [reflexivity|vm_compute; reflexivity]. Qed.

(* ================================================================== AuthnResponse.get_subject *)
Definition BEARER_URI := "urn:oasis:names:tc:SAML:2.0:cm:bearer".
Definition HOK_URI := "urn:oasis:names:tc:SAML:2.0:cm:holder-of-key".
Definition SV_URI := "urn:oasis:names:tc:SAML:2.0:cm:sender-vouches".

(* the exception that a confirmation with verdict Raise raises *)
Definition exc_name (c : confirmation) : string :=
  match c_method c, c_data c with
  | OtherMethod, _ => "ValueError"
  | SenderVouches, None => "AttributeError"
  | _, _ => "VerificationError"
  end.

(* the loop of get_subject with the exception it ends in *)
Fixpoint gs_loop conv addrs (l kept : list confirmation) : string + list confirmation :=
  match l with
  | [] => inr kept
  | c :: r => match conf_verdict conv addrs c with
              | Raise => inl (exc_name c)
              | Skip => gs_loop conv addrs r kept
              | Keep => gs_loop conv addrs r (kept ++ [c])
              end
  end.

Lemma gs_loop_model conv addrs l : forall kept,
  subject_loop conv addrs l kept = match gs_loop conv addrs l kept with inl _ => None | inr k => Some k end.
Proof.
  induction l as [|c r IH]; intros kept; cbn [subject_loop gs_loop]; [reflexivity|].
  destruct (conf_verdict conv addrs c); [apply IH|apply IH|reflexivity].
Qed.

(* get_subject's outcome: None = it returns, Some n = it raises n *)
Definition gs_exc conv addrs (l : list confirmation) : option string :=
  match gs_loop conv addrs l [] with
  | inl n => Some n
  | inr [] => Some "VerificationError"
  | inr (_ :: _) => None
  end.

Lemma gs_exc_model conv addrs l : get_subject conv addrs l = match gs_exc conv addrs l with None => true | Some _ => false end.
Proof.
  unfold get_subject, gs_exc. rewrite gs_loop_model.
  destruct (gs_loop conv addrs l []) as [n|[|c k]]; reflexivity.
Qed.

Section GetSubject.
  Variables (attesting_ext bearer_ext hok_ext : pyval -> pyval -> pyval)
            (decrypt_ext : pyval -> pyval -> pyval -> pyval) (nameid_ext to_string_ext : pyval -> pyval).
  Variable other_uri : string.      (* the Method of a confirmation of any other kind *)
  Variable irt : string.            (* InResponseTo of the Response and of every confirmation datum *)

  Definition method_uri (m : method) : string :=
    match m with Bearer => BEARER_URI | HolderOfKey => HOK_URI | SenderVouches => SV_URI | OtherMethod => other_uri end.

  (* "confirms" stands for the rest of the datum (validity window, KeyInfo) that the external
     _bearer_confirmed / _holder_of_key_confirmed read *)
  Definition enc_data (d : cdata) : pyval :=
    PObj [("__class__", PStr "SubjectConfirmationData"); ("recipient", enc_ostr (d_recipient d));
          ("in_response_to", PStr irt); ("confirms", PBool (d_confirmed d))].
  Definition enc_odata (c : confirmation) : pyval := match c_data c with Some d => enc_data d | None => PNone end.
  Definition enc_conf (c : confirmation) : pyval :=
    PObj [("__class__", PStr "SubjectConfirmation"); ("method", PStr (method_uri (c_method c)));
          ("subject_confirmation_data", enc_odata c)].

  Hypothesis Hother : other_uri <> BEARER_URI /\ other_uri <> HOK_URI /\ other_uri <> SV_URI.
  (* everything else about the Response is valid *)
  Hypothesis Hatt : forall s l, attesting_ext s l = PBool true.
  Hypothesis Hbearer : forall s d, bearer_ext s (enc_data d) = PBool (d_confirmed d).
  Hypothesis Hbearer_none : forall s, bearer_ext s PNone = PBool false.
  Hypothesis Hhok : forall s d, hok_ext s (enc_data d) = PBool (d_confirmed d).
  Hypothesis Hhok_none : forall s, hok_ext s PNone = PBool false.

  Definition gs_body (v_self : pyval) : list pyval -> pyval -> ctl2 :=
    fun st_24 x_25 => match st_24 with [v_subject_confirmation; v__data; v__recip; v_subjconf] =>
     (let v_subject_confirmation := x_25 in
     (py_bindS (fun n_42 => (ExcS n_42 [v_subject_confirmation; v__data; v__recip; v_subjconf])) (p2_attr_x v_subject_confirmation "subject_confirmation_data") (fun v__data =>
     (let k_41 := fun (_ : unit) =>
      (py_bindS (fun n_32 => (ExcS n_32 [v_subject_confirmation; v__data; v__recip; v_subjconf])) (p2_attr_x v__data "recipient") (fun v__recip =>
      (match p2_branch (p2_or (p2_not v__recip) (p2_not (py_bind v__recip (fun a_30 => (src2_verify_recipient v_self a_30))))) with
      | BTrue => (ExcS "VerificationError" [v_subject_confirmation; v__data; v__recip; v_subjconf])
      | BFalse => (py_bindS (fun n_28 => (ExcS n_28 [v_subject_confirmation; v__data; v__recip; v_subjconf])) (p2_append v_subjconf v_subject_confirmation) (fun v_subjconf =>
      (NextS [v_subject_confirmation; v__data; v__recip; v_subjconf])))
      | BExc n_31 => (ExcS n_31 [v_subject_confirmation; v__data; v__recip; v_subjconf])
      | BErr => (RetS PErr)
      end))) in
     (match p2_branch (p2_eq (p2_attr_x v_subject_confirmation "method") (PStr "urn:oasis:names:tc:SAML:2.0:cm:bearer")) with
     | BTrue => (match p2_branch (p2_not (py_bind v__data (fun a_34 => (bearer_ext v_self a_34)))) with
     | BTrue => (NextS [v_subject_confirmation; v__data; v__recip; v_subjconf])
     | BFalse => (k_41 tt)
     | BExc n_35 => (ExcS n_35 [v_subject_confirmation; v__data; v__recip; v_subjconf])
     | BErr => (RetS PErr)
     end)
     | BFalse => (match p2_branch (p2_eq (p2_attr_x v_subject_confirmation "method") (PStr "urn:oasis:names:tc:SAML:2.0:cm:holder-of-key")) with
     | BTrue => (match p2_branch (p2_not (py_bind v__data (fun a_36 => (hok_ext v_self a_36)))) with
     | BTrue => (NextS [v_subject_confirmation; v__data; v__recip; v_subjconf])
     | BFalse => (k_41 tt)
     | BExc n_37 => (ExcS n_37 [v_subject_confirmation; v__data; v__recip; v_subjconf])
     | BErr => (RetS PErr)
     end)
     | BFalse => (match p2_branch (p2_eq (p2_attr_x v_subject_confirmation "method") (PStr "urn:oasis:names:tc:SAML:2.0:cm:sender-vouches")) with
     | BTrue => (k_41 tt)
     | BFalse => (py_bindS (fun n_38 => (ExcS n_38 [v_subject_confirmation; v__data; v__recip; v_subjconf])) (p2_fconcat [PStr "Unknown subject confirmation method: "; p2_str (p2_attr_x v_subject_confirmation "method")]) (fun _ =>
     (ExcS "ValueError" [v_subject_confirmation; v__data; v__recip; v_subjconf])))
     | BExc n_39 => (ExcS n_39 [v_subject_confirmation; v__data; v__recip; v_subjconf])
     | BErr => (RetS PErr)
     end)
     | BExc n_40 => (ExcS n_40 [v_subject_confirmation; v__data; v__recip; v_subjconf])
     | BErr => (RetS PErr)
     end)
     | BExc n_41 => (ExcS n_41 [v_subject_confirmation; v__data; v__recip; v_subjconf])
     | BErr => (RetS PErr)
     end)))))
    | _ => RetS PErr end.

  Section Loop.
    Variables (conv : option (option string)) (ra : string) (addrs : list string) (self : pyval).
    Hypothesis Hc : p2_attr self "conv_info" = enc_conv conv ra.
    Hypothesis Ha : p2_attr self "return_addrs" = enc_strs addrs.

    (* the Recipient test of one datum *)
    Lemma recipient_test d :
      p2_branch (p2_or (p2_not (enc_ostr (d_recipient d)))
                       (p2_not (py_bind (enc_ostr (d_recipient d)) (fun a_30 => src2_verify_recipient self a_30))))
      = if recipient_ok conv addrs (d_recipient d) then BFalse else BTrue.
    Proof.
      unfold recipient_ok. destruct (d_recipient d) as [r|]; cbn [enc_ostr]; [|reflexivity].
      cbn [py_bind]. rewrite (verify_recipient_gen conv ra addrs r self Hc Ha).
      destruct r as [|ch r']; [reflexivity|].
      cbn [is_empty negb andb]. destruct (verify_recipient conv addrs (String ch r')); reflexivity.
    Qed.

    (* after the method dispatch: k_41 *)
    Lemma checked_step c d (rc : pyval) kept : c_data c = Some d ->
      exists rc',
      py_bindS (fun n_32 => ExcS n_32 [enc_conf c; enc_data d; rc; PList (map enc_conf kept)])
               (p2_attr_x (enc_data d) "recipient")
               (fun v__recip =>
                  match p2_branch (p2_or (p2_not v__recip) (p2_not (py_bind v__recip (fun a_30 => src2_verify_recipient self a_30)))) with
                  | BTrue => ExcS "VerificationError" [enc_conf c; enc_data d; v__recip; PList (map enc_conf kept)]
                  | BFalse => py_bindS (fun n_28 => ExcS n_28 [enc_conf c; enc_data d; v__recip; PList (map enc_conf kept)])
                                       (p2_append (PList (map enc_conf kept)) (enc_conf c))
                                       (fun v_subjconf => NextS [enc_conf c; enc_data d; v__recip; v_subjconf])
                  | BExc n_31 => ExcS n_31 [enc_conf c; enc_data d; v__recip; PList (map enc_conf kept)]
                  | BErr => RetS PErr
                  end)
      = match check_recipient conv addrs d with
        | Keep => NextS [enc_conf c; enc_data d; rc'; PList (map enc_conf (kept ++ [c]))]
        | _ => ExcS "VerificationError" [enc_conf c; enc_data d; rc'; PList (map enc_conf kept)]
        end.
    Proof.
      intros Hd. exists (enc_ostr (d_recipient d)).
      change (p2_attr_x (enc_data d) "recipient") with (enc_ostr (d_recipient d)).
      assert (Hg : is_bad (enc_ostr (d_recipient d)) = false) by (destruct (d_recipient d); reflexivity).
      rewrite py_bindS_good by exact Hg. rewrite recipient_test. unfold check_recipient.
      destruct (recipient_ok conv addrs (d_recipient d)); [|reflexivity].
      change (p2_append (PList (map enc_conf kept)) (enc_conf c)) with (PList (map enc_conf kept ++ [enc_conf c])).
      cbn [py_bindS p2_bind]. rewrite map_app. reflexivity.
    Qed.

    Lemma eqb_uri_false u v : u <> v -> String.eqb u v = false.
    Proof. apply String.eqb_neq. Qed.

    (* one round of the loop *)
    Lemma gs_step c (sc dt rc : pyval) kept :
      exists rc',
      gs_body self [sc; dt; rc; PList (map enc_conf kept)] (enc_conf c)
      = match conf_verdict conv addrs c with
        | Skip => NextS [enc_conf c; enc_odata c; rc; PList (map enc_conf kept)]
        | Keep => NextS [enc_conf c; enc_odata c; rc'; PList (map enc_conf (kept ++ [c]))]
        | Raise => ExcS (exc_name c) [enc_conf c; enc_odata c; rc'; PList (map enc_conf kept)]
        end.
    Proof.
      destruct Hother as [Ho1 [Ho2 Ho3]]. unfold BEARER_URI in Ho1. unfold HOK_URI in Ho2. unfold SV_URI in Ho3.
      unfold gs_body. cbv zeta.
      change (p2_attr_x (enc_conf c) "subject_confirmation_data") with (enc_odata c).
      change (p2_attr_x (enc_conf c) "method") with (PStr (method_uri (c_method c))).
      assert (Hg : is_bad (enc_odata c) = false) by (unfold enc_odata; destruct (c_data c); reflexivity).
      rewrite py_bindS_good by exact Hg. rewrite !p2_eq_str.
      destruct c as [m dd]. unfold conf_verdict, exc_name. cbn [c_method c_data method_uri].
      destruct m; cbn [method_uri].
      - (* bearer *)
        change (String.eqb BEARER_URI "urn:oasis:names:tc:SAML:2.0:cm:bearer") with true. cbn [p2_branch py_truthy].
        destruct dd as [d|]; unfold enc_odata; cbn [c_data py_bind].
        + rewrite py_bind_good by reflexivity. rewrite Hbearer, p2_not_bool. destruct (d_confirmed d); cbn [negb p2_branch py_truthy].
          * destruct (checked_step {| c_method := Bearer; c_data := Some d |} d rc kept eq_refl) as [rc' H].
            exists rc'. unfold check_recipient in H |- *. unfold enc_odata; cbn [c_data].
            destruct (recipient_ok conv addrs (d_recipient d)); exact H.
          * exists rc. reflexivity.
        + rewrite Hbearer_none. exists rc. reflexivity.
      - (* holder-of-key *)
        change (String.eqb HOK_URI "urn:oasis:names:tc:SAML:2.0:cm:bearer") with false.
        change (String.eqb HOK_URI "urn:oasis:names:tc:SAML:2.0:cm:holder-of-key") with true. cbn [p2_branch py_truthy].
        destruct dd as [d|]; unfold enc_odata; cbn [c_data py_bind].
        + rewrite py_bind_good by reflexivity. rewrite Hhok, p2_not_bool. destruct (d_confirmed d); cbn [negb p2_branch py_truthy].
          * destruct (checked_step {| c_method := HolderOfKey; c_data := Some d |} d rc kept eq_refl) as [rc' H].
            exists rc'. unfold check_recipient in H |- *. unfold enc_odata; cbn [c_data].
            destruct (recipient_ok conv addrs (d_recipient d)); exact H.
          * exists rc. reflexivity.
        + rewrite Hhok_none. exists rc. reflexivity.
      - (* sender-vouches *)
        change (String.eqb SV_URI "urn:oasis:names:tc:SAML:2.0:cm:bearer") with false.
        change (String.eqb SV_URI "urn:oasis:names:tc:SAML:2.0:cm:holder-of-key") with false.
        change (String.eqb SV_URI "urn:oasis:names:tc:SAML:2.0:cm:sender-vouches") with true. cbn [p2_branch py_truthy].
        destruct dd as [d|]; unfold enc_odata; cbn [c_data].
        + destruct (checked_step {| c_method := SenderVouches; c_data := Some d |} d rc kept eq_refl) as [rc' H].
          exists rc'. unfold check_recipient in H |- *. unfold enc_odata in H; cbn [c_data] in H.
          destruct (recipient_ok conv addrs (d_recipient d)); exact H.
        + exists rc. reflexivity.
      - (* any other method *)
        rewrite (eqb_uri_false _ _ Ho1), (eqb_uri_false _ _ Ho2), (eqb_uri_false _ _ Ho3). cbn [p2_branch py_truthy].
        rewrite p2_str_str. exists rc. reflexivity.
    Qed.

    (* the whole loop *)
    Lemma gs_loop_src l : forall (sc dt rc : pyval) kept,
      match gs_loop conv addrs l kept with
      | inl n => exists a b c d, pyfor2 (map enc_conf l) [sc; dt; rc; PList (map enc_conf kept)] (gs_body self) = ExcS n [a; b; c; d]
      | inr k => exists a b c, pyfor2 (map enc_conf l) [sc; dt; rc; PList (map enc_conf kept)] (gs_body self) = NextS [a; b; c; PList (map enc_conf k)]
      end.
    Proof.
      induction l as [|c r IH]; intros sc dt rc kept; cbn [gs_loop map pyfor2].
      - exists sc, dt, rc. reflexivity.
      - destruct (gs_step c sc dt rc kept) as [rc' H]. rewrite H.
        destruct (conf_verdict conv addrs c).
        + apply IH.
        + apply IH.
        + eexists _, _, _, _. reflexivity.
    Qed.
  End Loop.

  (* the first loop of get_subject (InResponseTo of every datum = InResponseTo of the Response) *)
  Definition pre_body (v_self : pyval) : list pyval -> pyval -> ctl2 :=
    fun st_46 x_47 => match st_46 with [v_subject_confirmation; v__data] =>
    (let v_subject_confirmation := x_47 in
    (py_bindS (fun n_52 => (ExcS n_52 [v_subject_confirmation; v__data])) (p2_attr_x v_subject_confirmation "subject_confirmation_data") (fun v__data =>
    (match p2_branch (p2_and (p2_is_not_none v__data) (p2_ne (p2_attr_x v__data "in_response_to") (p2_attr_x v_self "in_response_to"))) with
    | BTrue => (py_bindS (fun n_50 => (ExcS n_50 [v_subject_confirmation; v__data])) (p2_fconcat [PStr "Unsolicited response: "; p2_str (p2_attr_x v_self "in_response_to")]) (fun _ =>
    (ExcS "UnsolicitedResponse" [v_subject_confirmation; v__data])))
    | BFalse => (NextS [v_subject_confirmation; v__data])
    | BExc n_51 => (ExcS n_51 [v_subject_confirmation; v__data])
    | BErr => (RetS PErr)
    end))))
   | _ => RetS PErr end.

  Lemma pre_loop self l : p2_attr_x self "in_response_to" = PStr irt ->
    forall sc dt : pyval, exists a b, pyfor2 (map enc_conf l) [sc; dt] (pre_body self) = NextS [a; b].
  Proof.
    intros Hi. induction l as [|c r IH]; intros sc dt; cbn [map pyfor2].
    - exists sc, dt. reflexivity.
    - unfold pre_body at 1. cbv zeta. rewrite Hi.
      change (p2_attr_x (enc_conf c) "subject_confirmation_data") with (enc_odata c).
      destruct c as [m [d|]]; unfold enc_odata; cbn [c_data].
      + rewrite py_bindS_good by reflexivity.
        change (p2_attr_x (enc_data d) "in_response_to") with (PStr irt).
        rewrite p2_ne_str, String.eqb_refl.
        change (p2_is_not_none (enc_data d)) with (PBool true).
        cbn [negb p2_and py_bind py_truthy p2_branch]. apply IH.
      + cbn. apply IH.
  Qed.

  (* the AuthnResponse object as get_subject reads it; nid0 = the current value of self.name_id *)
  Definition enc_subject (confs : list confirmation) (nid : pyval) : pyval :=
    PObj [("__class__", PStr "Subject"); ("subject_confirmation", PList (map enc_conf confs));
          ("name_id", nid); ("encrypted_id", PNone)].
  Definition enc_gs_self conv ra addrs confs (nid : pyval) (asyn : bool) (outq : list (string * pyval)) (nid0 : pyval) : pyval :=
    PObj (("__class__", PStr "AuthnResponse") :: enc_resp_fields conv ra addrs ++
          [("assertion", PObj [("__class__", PStr "Assertion"); ("subject", enc_subject confs nid)]);
           ("asynchop", PBool asyn); ("in_response_to", PStr irt); ("outstanding_queries", PObj outq);
           ("name_id", nid0)]).

  (* get_subject on every list of SubjectConfirmation elements: it returns the NameID (and stores it in
     self.name_id) exactly when the model's get_subject holds, and raises the model's exception otherwise *)
  Theorem src2_get_subject_is_model : forall conv ra addrs confs nid asyn outq keys,
    is_bad nid = false -> py_truthy nid = true -> is_obj outq = false ->
    src2_get_subject attesting_ext bearer_ext hok_ext decrypt_ext nameid_ext to_string_ext
                     (enc_gs_self conv ra addrs confs nid asyn outq PNone) keys
    = match gs_exc conv addrs confs with
      | None => PList [nid; enc_gs_self conv ra addrs confs nid asyn outq nid]
      | Some n => PList [PExc n; enc_gs_self conv ra addrs confs nid asyn outq PNone]
      end.
  Proof.
    intros conv ra addrs confs nid asyn outq keys Hnb Hnt Hq.
    set (self := enc_gs_self conv ra addrs confs nid asyn outq PNone).
    assert (Hc : p2_attr self "conv_info" = enc_conv conv ra) by reflexivity.
    assert (Ha : p2_attr self "return_addrs" = enc_strs addrs) by reflexivity.
    assert (Hi : p2_attr_x self "in_response_to" = PStr irt) by reflexivity.
    unfold src2_get_subject. cbv zeta.
    change (p2_attr_x (p2_attr_x self "assertion") "subject") with (enc_subject confs nid).
    change (p2_not (p2_attr_x self "assertion")) with (PBool false).
    change (p2_not (enc_subject confs nid)) with (PBool false).
    cbn [p2_branch py_truthy].
    rewrite py_bindh_good by reflexivity.
    change (p2_attr_x (enc_subject confs nid) "subject_confirmation") with (PList (map enc_conf confs)).
    cbn [py_bind]. rewrite Hatt, p2_not_bool. cbn [negb p2_branch py_truthy].
    rewrite p2_iter_check_list. cbn [py_iter2].
    fold (gs_body self). fold (pre_body self).
    (* both ways into the second loop give the same result *)
    assert (Hmain : forall sc dt : pyval,
      py_bindh (fun n_43 => PList [PExc n_43; self]) (PList (map enc_conf confs)) (fun it_23 =>
        match pyfor2 (py_iter2 it_23) [sc; dt; PErr; PList []] (gs_body self) with
        | NextS st_24 => match st_24 with [v_subject_confirmation; v__data; v__recip; v_subjconf] => (match p2_branch (p2_not v_subjconf) with
    | BTrue => (PList [(PExc "VerificationError"); self])
    | BFalse => (py_bindh (fun n_19 => (PList [(PExc n_19); self])) v_subjconf (fun a_1 =>
    (py_bindh (fun n_18 => (PList [(PExc n_18); self])) (p2_setattr (enc_subject confs nid) "subject_confirmation" a_1) (fun v_subject =>
    (let k_17 := fun v_self v__name_id_str v__name_id =>
     (py_bindh (fun n_3 => (PList [(PExc n_3); v_self])) (p2_attr_x v_self "name_id") (fun r_2 =>
     (PList [r_2; v_self]))) in
    (match p2_branch (p2_attr_x v_subject "name_id") with
    | BTrue => (py_bindh (fun n_7 => (PList [(PExc n_7); self])) (p2_attr_x v_subject "name_id") (fun a_5 =>
    (py_bindh (fun n_6 => (PList [(PExc n_6); self])) (p2_setattr self "name_id" a_5) (fun v_self =>
    (k_17 v_self PErr PErr)))))
    | BFalse => (match p2_branch (p2_attr_x v_subject "encrypted_id") with
    | BTrue => (py_bindh (fun n_15 => (PList [(PExc n_15); self])) (py_bind (to_string_ext v_subject) (fun a_8 => (py_bind keys (fun a_9 => (decrypt_ext self a_8 a_9))))) (fun v__name_id_str =>
    (py_bindh (fun n_14 => (PList [(PExc n_14); self])) (py_bind v__name_id_str (fun a_10 => (nameid_ext a_10))) (fun v__name_id =>
    (py_bindh (fun n_13 => (PList [(PExc n_13); self])) v__name_id (fun a_11 =>
    (py_bindh (fun n_12 => (PList [(PExc n_12); self])) (p2_setattr self "name_id" a_11) (fun v_self =>
    (k_17 v_self v__name_id_str v__name_id)))))))))
    | BFalse => (k_17 self PErr PErr)
    | BExc n_16 => (PList [(PExc n_16); self])
    | BErr => PErr
    end)
    | BExc n_17 => (PList [(PExc n_17); self])
    | BErr => PErr
    end))))))
    | BExc n_21 => (PList [(PExc n_21); self])
    | BErr => PErr
    end) | _ => PErr end
        | BrkS _ => PErr
        | RetS r_26 => r_26
        | ExcS n_27 st_24 => match st_24 with [v_subject_confirmation; v__data; v__recip; v_subjconf] => (PList [(PExc n_27); self]) | _ => PErr end
        end)
      = match gs_exc conv addrs confs with
        | None => PList [nid; enc_gs_self conv ra addrs confs nid asyn outq nid]
        | Some n => PList [PExc n; self]
        end).
    { intros sc dt. rewrite py_bindh_good by reflexivity. cbn [py_iter2].
      pose proof (gs_loop_src conv ra addrs self Hc Ha confs sc dt PErr []) as HL. unfold gs_exc.
      change (PList (map enc_conf [])) with (PList []) in HL.
      destruct (gs_loop conv addrs confs []) as [n|k].
      - destruct HL as [a [b [c [d HL]]]]. rewrite HL. reflexivity.
      - destruct HL as [a [b [c HL]]]. rewrite HL. destruct k as [|c0 k']; [reflexivity|].
        cbn [map]. change (p2_not (PList (enc_conf c0 :: map enc_conf k'))) with (PBool false).
        cbn [p2_branch py_truthy]. rewrite py_bindh_good by reflexivity.
        change (p2_setattr (enc_subject confs nid) "subject_confirmation" (PList (enc_conf c0 :: map enc_conf k')))
          with (PObj [("__class__", PStr "Subject"); ("subject_confirmation", PList (enc_conf c0 :: map enc_conf k'));
                      ("name_id", nid); ("encrypted_id", PNone)]).
        rewrite py_bindh_good by reflexivity. cbv zeta.
        change (p2_attr_x (PObj [("__class__", PStr "Subject"); ("subject_confirmation", PList (enc_conf c0 :: map enc_conf k'));
                      ("name_id", nid); ("encrypted_id", PNone)]) "name_id") with nid.
        rewrite (p2_branch_good nid Hnb), Hnt. rewrite (py_bindh_good _ nid) by exact Hnb.
        assert (Hset : p2_setattr self "name_id" nid = enc_gs_self conv ra addrs confs nid asyn outq nid).
        { unfold p2_setattr. rewrite s2_good by (exact Hnb || reflexivity). reflexivity. }
        rewrite Hset. rewrite py_bindh_good by reflexivity.
        change (p2_attr_x (enc_gs_self conv ra addrs confs nid asyn outq nid) "name_id") with nid.
        rewrite (py_bindh_good _ nid) by exact Hnb. reflexivity. }
    change (p2_attr_x self "asynchop") with (PBool asyn).
    rewrite Hi. change (p2_attr_x self "outstanding_queries") with (PObj outq).
    rewrite p2_in_dict by exact Hq. rewrite p2_and_good by reflexivity.
    destruct asyn; cbn [py_truthy p2_branch]; [|apply Hmain].
    destruct (assoc_py irt outq); cbn [py_truthy p2_branch]; [|apply Hmain].
    rewrite py_bindh_good by reflexivity. cbn [py_iter2].
    destruct (pre_loop self confs Hi PErr PErr) as [a [b HP]]. rewrite HP. apply Hmain.
  Qed.
End GetSubject.

(* the hypotheses about the external calls are satisfiable: the "confirms" field stands for what
   _bearer_confirmed / _holder_of_key_confirmed compute from the rest of the datum *)
Example get_subject_hyps_sat :
  let conf_ext := fun (_ d : pyval) => match d with PNone => PBool false | _ => p2_attr d "confirms" end in
  (forall irt s d, conf_ext s (enc_data irt d) = PBool (d_confirmed d)) /\ (forall s, conf_ext s PNone = PBool false)
  /\ ("urn:example:cm:unknown" <> BEARER_URI /\ "urn:example:cm:unknown" <> HOK_URI /\ "urn:example:cm:unknown" <> SV_URI).
Proof. repeat split; try reflexivity; discriminate. Qed.

(* ================================================================== for_me (translator v2) and AuthnResponse.condition_ok *)
Definition enc_aud (a : audience) : pyval := PObj [("__class__", PStr "Audience"); ("text", enc_ostr a)].
Definition enc_restr (r : list audience) : pyval :=
  PObj [("__class__", PStr "AudienceRestriction"); ("audience", PList (map enc_aud r))].
(* nbv / nooav: the attribute values when present (any str that is not empty) *)
Definition enc_conds (nbv nooav : string) (k : conditions) : pyval :=
  PObj [("__class__", PStr "Conditions");
        ("not_before", if k_nb k then PStr nbv else PNone);
        ("not_on_or_after", if k_nooa k then PStr nooav else PNone);
        ("one_time_use", if k_other k then PObj [("__class__", PStr "OneTimeUse")] else PNone);
        ("audience_restriction", PList (map enc_restr (k_rs k)));
        ("condition", PList [])].

(* str.strip() of the embedding answers only when no non-ASCII byte ends up at an end of the result
   (it might be Unicode whitespace): the Audience texts are such *)
Definition text_ok (a : audience) : bool := match a with Some t => end_ascii (strip t) | None => true end.
Definition texts_ok (rs : list (list audience)) : bool := forallb (forallb text_ok) rs.

Definition aud_body (v_myself : pyval) : list pyval -> pyval -> ctl2 :=
  fun st_8 x_9 => match st_8 with [] =>
     (let v_audience := x_9 in
     (match p2_branch (p2_and (p2_attr v_audience "text") (p2_eq (p2_strip (p2_attr v_audience "text")) v_myself)) with
     | BTrue => (BrkS [])
     | BFalse => (NextS [])
     | BExc n_12 => (ExcS n_12 [])
     | BErr => (RetS PErr)
     end))
    | _ => RetS PErr end.

Lemma aud_loop me r : forallb text_ok r = true ->
  pyfor2 (map enc_aud r) [] (aud_body (PStr me)) = if existsb (aud_matches me) r then BrkS [] else NextS [].
Proof.
  induction r as [|a r IH]; cbn [map pyfor2 existsb forallb]; [reflexivity|].
  intros H. apply andb_true_iff in H as [Ha Hr]. unfold aud_body at 1. cbv zeta.
  change (p2_attr (enc_aud a) "text") with (enc_ostr a).
  destruct a as [t|]; cbn [enc_ostr aud_matches].
  - change (p2_strip (PStr t)) with (guard_ends (strip t)). unfold guard_ends. cbn [text_ok] in Ha. rewrite Ha.
    rewrite p2_eq_str, p2_and_good by reflexivity. cbn [py_truthy].
    destruct t as [|ch t']; cbn [is_empty negb andb orb p2_branch py_truthy]; [apply IH; exact Hr|].
    destruct (String.eqb (strip (String ch t')) me); cbn [orb]; [reflexivity|apply IH; exact Hr].
  - cbn. apply IH; exact Hr.
Qed.

Definition restr_body (v_myself : pyval) : list pyval -> pyval -> ctl2 :=
  fun st_3 x_4 => match st_3 with [] =>
    (let v_restriction := x_4 in
    (py_bindS (fun n_13 => (ExcS n_13 [])) (p2_iter_check (p2_or (p2_attr v_restriction "audience") (PList []))) (fun it_7 =>
    (match pyfor2 (py_iter2 it_7) [] (aud_body v_myself) with
    | NextS st_8 => match st_8 with [] => (RetS (PBool false)) | _ => (RetS PErr) end
    | BrkS st_8 => match st_8 with [] => (NextS []) | _ => (RetS PErr) end
    | RetS r_10 => (RetS r_10)
    | ExcS n_11 st_8 => match st_8 with [] => (ExcS n_11 []) | _ => (RetS PErr) end
    end))))
   | _ => RetS PErr end.

Lemma restr_loop me rs : texts_ok rs = true ->
  pyfor2 (map enc_restr rs) [] (restr_body (PStr me)) = if for_me rs me then NextS [] else RetS (PBool false).
Proof.
  unfold texts_ok, for_me. induction rs as [|r rs IH]; cbn [map pyfor2 forallb]; [reflexivity|].
  intros H. apply andb_true_iff in H as [Hr Hrs]. unfold restr_body at 1. cbv zeta.
  change (p2_attr (enc_restr r) "audience") with (PList (map enc_aud r)).
  assert (Hit : p2_iter_check (p2_or (PList (map enc_aud r)) (PList [])) = PList (map enc_aud r)) by (destruct r; reflexivity).
  rewrite Hit. cbn [py_bindS p2_bind py_iter2]. rewrite (aud_loop me r Hr).
  destruct (existsb (aud_matches me) r); cbn [andb]; [apply IH; exact Hrs|reflexivity].
Qed.

Theorem src2_for_me_is_model : forall nbv nooav k me, texts_ok (k_rs k) = true ->
  src2_for_me (enc_conds nbv nooav k) (PStr me) = PBool (for_me (k_rs k) me).
Proof.
  intros nbv nooav k me H. unfold src2_for_me.
  change (p2_attr (enc_conds nbv nooav k) "audience_restriction") with (PList (map enc_restr (k_rs k))).
  fold (aud_body (PStr me)). fold (restr_body (PStr me)).
  destruct (k_rs k) as [|r rs] eqn:E; [reflexivity|].
  change (p2_not (PList (map enc_restr (r :: rs)))) with (PBool false). cbn [p2_branch py_truthy].
  rewrite p2_iter_check_list. cbn [py_bind py_iter2]. rewrite (restr_loop me (r :: rs) H).
  destruct (for_me (r :: rs) me); reflexivity.
Qed.

Opaque src2_for_me.

Section ConditionOk.
  Variables (later_than_ext validate_nooa_ext validate_nb_ext : pyval -> pyval -> pyval) (keyswv_ext : pyval -> pyval).
  Variables (nbv nooav : string) (nooa_epoch : Z).

  (* Conditions.keyswv(): the names of the attributes / children that have a value *)
  Definition keyswv_model (k : conditions) : list string :=
    (if k_nb k then ["not_before"] else []) ++ (if k_nooa k then ["not_on_or_after"] else [])
    ++ (if k_other k then ["one_time_use"] else []) ++ (match k_rs k with [] => [] | _ => ["audience_restriction"] end).
  Hypothesis Hkeys : forall k, keyswv_ext (enc_conds nbv nooav k) = enc_strs (keyswv_model k).
  (* the validity period is satisfied (everything else about the Response is valid) *)
  Hypothesis Hlater : forall a b, later_than_ext (PStr a) (PStr b) = PBool true.
  Hypothesis Hnooa : forall a s, validate_nooa_ext (PStr a) s = PInt nooa_epoch.
  Hypothesis Hnb : forall a s, validate_nb_ext (PStr a) s = PBool true.
  Hypothesis Hnbv : nbv <> "" /\ nooav <> "".

  Lemma keyswv_model_empty k : is_nil (keyswv_model k) = keyswv_empty k.
  Proof.
    unfold keyswv_model, keyswv_empty. destruct (k_nb k), (k_nooa k), (k_other k), (k_rs k); reflexivity.
  Qed.

  Definition enc_oconds (c : option conditions) : pyval :=
    match c with Some k => enc_conds nbv nooav k | None => PNone end.
  (* the AuthnResponse object as condition_ok reads it; nooa0 = the value of self.not_on_or_after *)
  Definition enc_co_self (c : option conditions) (me : string) (nooa0 : pyval) : pyval :=
    PObj [("__class__", PStr "AuthnResponse");
          ("assertion", PObj [("__class__", PStr "Assertion"); ("conditions", enc_oconds c)]);
          ("test", PBool false); ("entity_id", PStr me); ("timeslack", PInt 0);
          ("not_on_or_after", nooa0); ("extension_schema", PObj [])].

  (* self.not_on_or_after after the call: set from NotOnOrAfter when the Conditions carry one *)
  Definition nooa_after (c : option conditions) (nooa0 : pyval) : pyval :=
    match c with Some k => if k_nooa k then PInt nooa_epoch else nooa0 | None => nooa0 end.

Ltac crunch_with Hne1 Hne2 Hlater Hnooa Hnb Hfm Hent Hslack Hset Hnil Hgc :=
  repeat (first [ rewrite p2_and_good by reflexivity | rewrite Hne1 | rewrite Hne2 | rewrite p2_not_bool
                | rewrite Hlater | rewrite Hnooa | rewrite Hnb | rewrite Hfm | rewrite Hent | rewrite Hslack
                | rewrite Hset | rewrite Hnil | rewrite p2_str_str | rewrite p2_branch_bool
                | rewrite (py_bind_good (enc_conds _ _ _)) by exact Hgc
                | rewrite (py_bind_good (PStr _)) by reflexivity | rewrite (py_bind_good (PInt _)) by reflexivity
                | rewrite (py_bindh_good _ (PInt _)) by reflexivity | rewrite (py_bindh_good _ (PBool _)) by reflexivity
                | rewrite (py_bindh_good _ (PStr _)) by reflexivity
                | rewrite (py_bindh_good _ (enc_co_self _ _ _)) by reflexivity
                | rewrite (p2_branch_good (PStr _)) by reflexivity | rewrite (p2_branch_good PNone) by reflexivity
                | rewrite (py_bindh_good _ (p2_fconcat _)) by reflexivity ]; cbv beta iota delta [negb]; change (py_truthy PNone) with false; cbv beta iota).

Ltac zeta_head := lazymatch goal with |- (let x := ?v in @?b x) = ?R => change (b v = R); cbv beta end.


  (* condition_ok(lax=False) outside test mode: True exactly when the model's condition_ok holds, the
     exception "AudienceRestrictions conditions not satisfied" otherwise — with or without NotBefore /
     NotOnOrAfter / other children, and without a <Conditions> element *)
  Theorem src2_condition_ok_is_model : forall c me nooa0,
    is_bad nooa0 = false -> texts_ok (all_restrictions c) = true ->
    src2_condition_ok later_than_ext validate_nooa_ext validate_nb_ext keyswv_ext (enc_co_self c me nooa0) (PBool false)
    = PList [if condition_ok c me then PBool true else PExc "Exception"; enc_co_self c me (nooa_after c nooa0)].
  Proof.
    intros c me nooa0 Hn0 Ht. destruct Hnbv as [Hv1 Hv2].
    destruct c as [k|]; [|reflexivity].
    cbn [enc_oconds condition_ok nooa_after all_restrictions] in *.
    pose proof (src2_for_me_is_model nbv nooav k me Ht) as Hfm.
    assert (Hne1 : py_truthy (PStr nbv) = true) by (destruct nbv; [contradiction|reflexivity]).
    assert (Hne2 : py_truthy (PStr nooav) = true) by (destruct nooav; [contradiction|reflexivity]).
    assert (Hent : forall n, p2_attr (enc_co_self (Some k) me n) "entity_id" = PStr me) by reflexivity.
    assert (Hslack : forall n, p2_attr (enc_co_self (Some k) me n) "timeslack" = PInt 0) by reflexivity.
    assert (Hset : p2_setattr (enc_co_self (Some k) me nooa0) "not_on_or_after" (PInt nooa_epoch)
                   = enc_co_self (Some k) me (PInt nooa_epoch)).
    { unfold p2_setattr. rewrite s2_good by (exact Hn0 || reflexivity). reflexivity. }
    assert (Hnil : p2_branch (PList []) = BFalse) by reflexivity.
    assert (Hgc : is_bad (enc_conds nbv nooav k) = false) by reflexivity.
    assert (Hk : p2_not (enc_strs (keyswv_model k)) = PBool (keyswv_empty k)).
    { rewrite <- keyswv_model_empty. destruct (keyswv_model k); reflexivity. }
    cbv delta [src2_condition_ok]. cbv beta.
    change (p2_attr (p2_attr (enc_co_self (Some k) me nooa0) "assertion") "conditions") with (enc_conds nbv nooav k).
    change (p2_attr (enc_co_self (Some k) me nooa0) "test") with (PBool false).
    change (p2_not (enc_conds nbv nooav k)) with (PBool false).
    rewrite !p2_branch_bool. cbv beta iota.
    zeta_head. zeta_head. zeta_head.
    rewrite py_bindh_good by exact Hgc. cbv beta. rewrite Hkeys, Hk, p2_branch_bool.
    destruct (keyswv_empty k) eqn:Ek; cbv beta iota.
    { assert (k_nooa k = false) as ->; [|reflexivity].
      unfold keyswv_empty in Ek. destruct (k_nb k), (k_nooa k); [discriminate..|reflexivity]. }
    change (p2_attr (enc_conds nbv nooav k) "not_before") with (if k_nb k then PStr nbv else PNone).
    change (p2_attr (enc_conds nbv nooav k) "not_on_or_after") with (if k_nooa k then PStr nooav else PNone).
    change (p2_attr (enc_conds nbv nooav k) "condition") with (PList []).
    destruct (k_nb k), (k_nooa k); cbv beta iota.
    all: crunch_with Hne1 Hne2 Hlater Hnooa Hnb Hfm Hent Hslack Hset Hnil Hgc.
    all: zeta_head; crunch_with Hne1 Hne2 Hlater Hnooa Hnb Hfm Hent Hslack Hset Hnil Hgc.
    all: cbv zeta; cbv beta; crunch_with Hne1 Hne2 Hlater Hnooa Hnb Hfm Hent Hslack Hset Hnil Hgc.
    all: destruct (for_me (k_rs k) me); cbv beta iota; crunch_with Hne1 Hne2 Hlater Hnooa Hnb Hfm Hent Hslack Hset Hnil Hgc; reflexivity.
  Qed.
End ConditionOk.

(* the hypotheses about the external calls are satisfiable: keyswv() computed from the fields *)
Example condition_ok_hyps_sat :
  let nbv := "2023-11-14T22:08:20Z" in let nooav := "2023-11-14T22:18:20Z" in
  let has (v : pyval) (name : string) := if py_truthy (p2_attr v name) then [name] else [] in
  let keyswv_ext := fun v => enc_strs (has v "not_before" ++ has v "not_on_or_after" ++ has v "one_time_use" ++ has v "audience_restriction") in
  (forall k, keyswv_ext (enc_conds nbv nooav k) = enc_strs (keyswv_model k)) /\ (nbv <> "" /\ nooav <> "").
Proof.
  split; [|split; discriminate]. intros [nb nooa other rs]. destruct nb, nooa, other, rs; reflexivity.
Qed.
