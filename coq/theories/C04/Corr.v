(* C04/Corr.v — correspondence runner: model output vs observed output, spec on observed output.
   A case is a SEQUENCE of calls made, in this order, on provider objects living in one process,
   each call paired with what the real object returned.  A single Response presented to a fresh
   provider is the sequence of length one ([mk]). *)
From Coq Require Import String List Bool.
From Verif Require Import Base.Str Base.Run C04.Model C04.Spec.
Import ListNotations.

Definition ev := (op * out)%type.
Definition case := list ev.

(* events *)
Definition P me specs binding rs dest conv recip (obs : bool) : ev :=
  (OParse (of_input {| me := me; specs := specs; binding := binding; rs := rs; dest := dest; conv := conv; recip := recip |}), RId obs).
(* the whole message: conds = None (no <Conditions>) or Some (K nb nooa other rs); confs = the
   SubjectConfirmation elements in document order, built with C *)
Definition K (nb nooa other : bool) rs : conditions := {| k_nb := nb; k_nooa := nooa; k_other := other; k_rs := rs |}.
Definition C (m : method) (d : option (option string * bool)) : confirmation :=
  {| c_method := m; c_data := match d with Some (r, cf) => Some {| d_recipient := r; d_confirmed := cf |} | None => None end |}.
Definition M me specs binding conds dest conv confs (obs : bool) : ev :=
  (OParse {| m_me := me; m_specs := specs; m_binding := binding; m_conds := conds; m_dest := dest; m_conv := conv; m_confs := confs |}, RId obs).
(* a Response with a LIST of assertions (document order), each built with As: how it travels (Plain / Encrypted /
   Advised = inside the <Advice> of the top-level assertion before it), its Conditions (None / Some (K ..)), its
   SubjectConfirmation elements; obs = per assertion: identity drawn from it *)
Definition As (how : travel) conds confs : assertion := {| a_how := how; a_conds := conds; a_confs := confs |}.
Definition R me specs binding dest conv assertions (obs : list bool) : ev :=
  (OResp {| r_me := me; r_specs := specs; r_binding := binding; r_dest := dest; r_conv := conv; r_assertions := assertions |},
   RFrom obs).
Definition U specs binding (obs : option (list string)) : ev := (OUrls specs binding, RUrls obs).
Definition E specs binding (obs : list string) : ev := (OEndp specs binding, REndp obs).
Definition A specs binding (obs : option string) : ev := (OAcs specs binding, RAcs obs).

Definition mk me specs binding rs dest conv recip (obs : bool) : case :=
  [P me specs binding rs dest conv recip obs].

Definition out_eqb (a b : out) : bool :=
  match a, b with
  | RId x, RId y => Bool.eqb x y
  | RFrom x, RFrom y => list_eqb Bool.eqb x y
  | RUrls x, RUrls y => opt_eqb (list_eqb String.eqb) x y
  | REndp x, REndp y => list_eqb String.eqb x y
  | RAcs x, RAcs y => opt_eqb String.eqb x y
  | _, _ => false
  end.

(* the modelled run of the whole call sequence gives exactly the observed results *)
Definition agrees (c : case) : bool := list_eqb out_eqb (run_ops (map fst c)) (map snd c).
(* the property over the sequence, on the OBSERVED results *)
Definition holds (c : case) : bool := spec_trace_b (map fst c) (map snd c).
(* finding class 1: the v0 behaviour (accepted although some restriction is not satisfied,
   while another one is) — every failing call of the sequence is of that kind *)
Definition cls1 (e : ev) : bool :=
  match e with
  | (OParse x, RId b) => spec_m_b x b || (b && accept_v0 x && negb (accept x))
  | (o, r) => spec_ev_b o r
  end.
(* finding class 2 (C04-F2, fixed by 913771bd; kept so that a regression is recognised): identity drawn from an
   assertion inside an <Advice> whose restrictions are not satisfied (or while the Destination is not mine) - every
   assertion on which the property fails is an advised one *)
Definition cls2 (e : ev) : bool :=
  match e with
  | (OResp x, RFrom l) => all2 (fun a d => negb (is_top a) || spec_m_b (obligations x a) d) (r_assertions x) l
  | (o, r) => spec_ev_b o r
  end.
Definition cls (c : case) : nat := if forallb cls1 c then 1 else if forallb cls2 c then 2 else 0.

Definition run := run_cases agrees holds cls.
(* per call: (model agrees, spec holds on the observed result) *)
Definition explain (c : case) := map (fun e => (out_eqb (step (fst e)) (snd e), spec_ev_b (fst e) (snd e))) c.
