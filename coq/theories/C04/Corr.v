(* C04/Corr.v — correspondence runner: model output vs observed output, spec on observed output *)
From Coq Require Import String List Bool.
From Verif Require Import Base.Str Base.Run C04.Model C04.Spec.
Import ListNotations.

Definition case := (input * bool)%type.   (* abstract input, identity observed on the implementation *)

Definition mk me specs binding rs dest conv recip (obs : bool) : case :=
  ({| me := me; specs := specs; binding := binding; rs := rs; dest := dest; conv := conv; recip := recip |}, obs).

Definition agrees (c : case) : bool := Bool.eqb (identity (fst c)) (snd c).
Definition holds (c : case) : bool := spec_b (fst c) (snd c).
(* finding class 1: the v0 behaviour (accepted although some restriction is not satisfied,
   while another one is) *)
Definition cls (c : case) : nat :=
  if snd c && identity_v0 (fst c) && negb (identity (fst c)) then 1 else 0.

Definition run := run_cases agrees holds cls.
Definition explain (c : case) := (identity (fst c), identity_v0 (fst c), spec_b (fst c) (snd c)).
