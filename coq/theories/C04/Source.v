(* C04/Source.v — the hand-written model of response.for_me equals the function that the translator
   (harness/py2coq.py) produced from the CURRENT source text (coq/gen/C04Src.v, regenerated on every
   run), on the encoding of every Conditions element: any number of AudienceRestriction elements, any
   number of Audience elements (also none: `restriction.audience or []`), any text. *)
From Coq Require Import String List Bool.
From Verif Require Import Base.Str Base.Py C04.Model.
From VerifGen Require Import C04Src.
Import ListNotations.
Open Scope string_scope.

(* the objects for_me reads: Conditions.audience_restriction, AudienceRestriction.audience, Audience.text *)
Definition enc_audience (a : audience) : pyval :=
  PObj [("text", match a with Some t => PStr t | None => PNone end)].
Definition enc_restriction (r : list audience) : pyval :=
  PObj [("audience", PList (map enc_audience r))].
Definition enc_conditions (rs : list (list audience)) : pyval :=
  PObj [("audience_restriction", PList (map enc_restriction rs))].

Lemma audience_test me a :
  py_truthy (py_and (py_attr (enc_audience a) "text")
                    (py_eq (py_strip (py_attr (enc_audience a) "text")) (PStr me))) = aud_matches me a.
Proof.
  destruct a as [t|]; cbn; [|reflexivity].
  destruct t as [|c t']; cbn [is_empty negb andb py_truthy]; reflexivity.
Qed.

Lemma inner_loop me r :
  pyfor (map enc_audience r)
        (fun v_audience =>
           if py_truthy (py_and (py_attr v_audience "text")
                                (py_eq (py_strip (py_attr v_audience "text")) (PStr me)))
           then Brk else Next)
  = if existsb (aud_matches me) r then Brk else Next.
Proof.
  induction r as [|a r IH]; cbn [map pyfor existsb]; [reflexivity|].
  rewrite audience_test. destruct (aud_matches me a); cbn [orb]; [reflexivity|exact IH].
Qed.

Lemma iter_audiences r :
  py_iter (py_or (py_attr (enc_restriction r) "audience") (PList [])) = map enc_audience r.
Proof. destruct r; reflexivity. Qed.

Lemma outer_loop me rs :
  pyfor (map enc_restriction rs)
        (fun v_restriction =>
           match pyfor (py_iter (py_or (py_attr v_restriction "audience") (PList [])))
                       (fun v_audience =>
                          if py_truthy (py_and (py_attr v_audience "text")
                                               (py_eq (py_strip (py_attr v_audience "text")) (PStr me)))
                          then Brk else Next) with
           | Ret r_ => Ret r_
           | Brk => Next
           | Next => Ret (PBool false)
           end)
  = if forallb (fun r => existsb (aud_matches me) r) rs then Next else Ret (PBool false).
Proof.
  induction rs as [|r rs IH]; cbn [map pyfor forallb]; [reflexivity|].
  rewrite iter_audiences, inner_loop.
  destruct (existsb (aud_matches me) r); cbn [andb]; [exact IH|reflexivity].
Qed.

Theorem src_for_me_is_model : forall rs me,
  src_for_me (enc_conditions rs) (PStr me) = PBool (for_me rs me).
Proof.
  intros rs me. unfold src_for_me, for_me.
  destruct rs as [|r rs']; [reflexivity|].
  change (py_attr (enc_conditions (r :: rs')) "audience_restriction") with (PList (map enc_restriction (r :: rs'))).
  cbn [py_not py_truthy map negb]. cbn [py_iter].
  change (enc_restriction r :: map enc_restriction rs') with (map enc_restriction (r :: rs')).
  rewrite outer_loop. destruct (forallb _ (r :: rs')); reflexivity.
Qed.
