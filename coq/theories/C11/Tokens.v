(* C11/Tokens.v — protocolSupportEnumeration as the document WRITES it (round 6).

   The attribute is an xs:list of anyURI (saml-schema-metadata-2.0.xsd, anyURIListType): its items are separated
   by XML white space - blank, tab, line feed, carriage return.  A role descriptor supports SAML 2.0 iff one of
   the ITEMS is urn:oasis:names:tc:SAML:2.0:protocol: a longer URI that merely contains that name (as prefix,
   suffix or in the middle), or the name in another letter case, is another URI.

   The correspondence cases carry the attribute value as the XML parser reports it (a string; [rp]); the model's
   role record holds value.split(" "), which is what do_entity_descriptor computes ([rp] computes it with
   Str.split_on, the function Source2.protos_wf is stated with).  Spec.saml2 reads r_protos as the list of
   items.  The two readings differ exactly when a piece between two blanks still contains a tab, a line feed or
   a carriage return (possible only through a character reference: the XML parser turns literal ones into
   blanks): [canon_hist] re-splits every piece at these characters, the property is stated on the re-split
   history ([spec_x]), and the code conforms on every history whose pieces are free of them ([clean_hist]) -
   finding C11-F9 is the rest ([tokens_refuted]). *)
From Coq Require Import String List Bool ZArith Ascii.
From Verif Require Import Base.Str C11.Model C11.Dec C11.Spec C11.Proofs C11.Sim.
Import ListNotations.
Open Scope string_scope.
Open Scope list_scope.

(* tab, line feed, carriage return: the XML white space characters other than the blank *)
Definition is_ws3 (c : ascii) : bool :=
  Ascii.eqb c "009"%char || Ascii.eqb c "010"%char || Ascii.eqb c "013"%char.

(* split at every one of them (empty fields kept: they are not URIs and never equal a protocol name) *)
Fixpoint split_ws3 (s : string) : list string :=
  match s with
  | EmptyString => [EmptyString]
  | String c r =>
      if is_ws3 c then EmptyString :: split_ws3 r
      else match split_ws3 r with
           | [] => [String c EmptyString]
           | f :: fs => String c f :: fs
           end
  end.

Fixpoint clean_str (s : string) : bool :=
  match s with EmptyString => true | String c r => negb (is_ws3 c) && clean_str r end.

Lemma split_ws3_clean s : clean_str s = true -> split_ws3 s = [s].
Proof.
  induction s as [|c r IH]; cbn [clean_str split_ws3]; [reflexivity|].
  intros H. apply andb_true_iff in H. destruct H as [Hc Hr].
  destruct (is_ws3 c); [discriminate|]. rewrite (IH Hr). reflexivity.
Qed.

(* mdie.to_dict (_eval) strips every string value before do_entity_descriptor sees it.  Python's str.strip() removes
   more characters than these four (vertical tab, form feed, the C1 / Unicode spaces); the generator writes no others *)
Definition is_ws4 (c : ascii) : bool := Ascii.eqb c " "%char || is_ws3 c.
Fixpoint lstrip (s : string) : string :=
  match s with String c r => if is_ws4 c then lstrip r else s | EmptyString => EmptyString end.
Fixpoint rstrip (s : string) : string :=
  match s with
  | EmptyString => EmptyString
  | String c r => match rstrip r with
                  | EmptyString => if is_ws4 c then EmptyString else String c EmptyString
                  | r' => String c r'
                  end
  end.
Definition strip_ws (s : string) : string := rstrip (lstrip s).

(* the role descriptor as the case files write it: kind, the attribute value as the XML parser reports it, the rest;
   r_protos = to_dict's value .split(" ") *)
Definition rp (kind pse : string) (svcs : list svc) (keys : list keyd) (acs : list acsv) : role :=
  Role kind (split_on " "%char (strip_ws pse)) svcs keys acs.
Lemma rp_protos kind pse svcs keys acs : r_protos (rp kind pse svcs keys acs) = split_on " "%char (strip_ws pse).
Proof. reflexivity. Qed.
Example strip_ws_ex : strip_ws (String "010"%char " a b  " ++ String "009"%char EmptyString) = "a b".
Proof. reflexivity. Qed.

(* ---------------------------------------------------------------- re-splitting a history *)
Definition canon_role (r : role) : role :=
  Role (r_kind r) (flat_map split_ws3 (r_protos r)) (r_svcs r) (r_keys r) (r_acs r).
Definition canon_ent (e : ent) : ent :=
  Ent (e_id e) (e_vu e) (map canon_role (e_roles e)) (e_affil e) (e_attrs e) (e_regs e).
Definition canon_payload (p : payload) : payload :=
  match p with
  | D (Single e) => D (Single (canon_ent e))
  | D (Group vu es) => D (Group vu (map canon_ent es))
  | _ => p
  end.
Definition canon_fetched (f : fetched) : fetched :=
  match f with FBody p sg => FBody (canon_payload p) sg | FMissing => FMissing end.
Definition canon_op (o : op) : op :=
  match o with
  | OLoad ns sp f => OLoad ns sp (canon_fetched f)
  | OReload ns items => OReload ns (map (fun it => (fst it, canon_fetched (snd it))) items)
  | OServer t => OServer (map (fun it => (fst it, canon_fetched (snd it))) t)
  | _ => o
  end.
Definition canon_hist (h : list op) : list op := map canon_op h.

(* no piece of any enumeration of the history contains a tab, a line feed or a carriage return *)
Definition clean_role (r : role) : bool := forallb clean_str (r_protos r).
Definition clean_ent (e : ent) : bool := forallb clean_role (e_roles e).
Definition clean_payload (p : payload) : bool :=
  match p with
  | D (Single e) => clean_ent e
  | D (Group _ es) => forallb clean_ent es
  | _ => true
  end.
Definition clean_fetched (f : fetched) : bool := match f with FBody p _ => clean_payload p | FMissing => true end.
Definition clean_op (o : op) : bool :=
  match o with
  | OLoad _ _ f => clean_fetched f
  | OReload _ items => forallb (fun it => clean_fetched (snd it)) items
  | OServer t => forallb (fun it => clean_fetched (snd it)) t
  | _ => true
  end.
Definition clean_hist (h : list op) : bool := forallb clean_op h.

Lemma map_id_in {A} (f : A -> A) l : (forall x, In x l -> f x = x) -> map f l = l.
Proof.
  induction l as [|a l IH]; cbn [map]; intros H; [reflexivity|].
  rewrite (H a (or_introl eq_refl)), IH; [reflexivity|]. intros x Hx. apply H. right. exact Hx.
Qed.

Lemma flat_split_clean l : forallb clean_str l = true -> flat_map split_ws3 l = l.
Proof.
  induction l as [|a l IH]; cbn [forallb flat_map]; intros H; [reflexivity|].
  apply andb_true_iff in H. destruct H as [Ha Hl]. rewrite (split_ws3_clean a Ha), (IH Hl). reflexivity.
Qed.

Lemma canon_role_clean r : clean_role r = true -> canon_role r = r.
Proof. intros H. unfold canon_role. rewrite (flat_split_clean _ H). destruct r; reflexivity. Qed.

Lemma canon_ent_clean e : clean_ent e = true -> canon_ent e = e.
Proof.
  intros H. unfold canon_ent. rewrite map_id_in; [destruct e; reflexivity|].
  intros r Hr. apply canon_role_clean. unfold clean_ent in H. rewrite forallb_forall in H. apply H. exact Hr.
Qed.

Lemma canon_payload_clean p : clean_payload p = true -> canon_payload p = p.
Proof.
  destruct p as [| |[e|vu es]]; cbn [clean_payload canon_payload]; intros H; try reflexivity.
  - rewrite (canon_ent_clean e H). reflexivity.
  - rewrite map_id_in; [reflexivity|]. intros e He. apply canon_ent_clean.
    rewrite forallb_forall in H. apply H. exact He.
Qed.

Lemma canon_fetched_clean f : clean_fetched f = true -> canon_fetched f = f.
Proof. destruct f as [|p sg]; cbn [clean_fetched canon_fetched]; intros H; [reflexivity|]. rewrite (canon_payload_clean p H). reflexivity. Qed.

Lemma canon_items_clean {A} (l : list (A * fetched)) :
  forallb (fun it => clean_fetched (snd it)) l = true -> map (fun it => (fst it, canon_fetched (snd it))) l = l.
Proof.
  intros H. apply map_id_in. intros [a f] Hin. cbn [fst snd]. rewrite forallb_forall in H.
  rewrite (canon_fetched_clean f (H _ Hin)). reflexivity.
Qed.

Lemma canon_op_clean o : clean_op o = true -> canon_op o = o.
Proof.
  destruct o as [ns sp f|ns items|dt|t|q]; cbn [clean_op canon_op]; intros H; try reflexivity.
  - rewrite (canon_fetched_clean f H). reflexivity.
  - rewrite (canon_items_clean items H). reflexivity.
  - rewrite (canon_items_clean t H). reflexivity.
Qed.

Lemma canon_hist_clean h : clean_hist h = true -> canon_hist h = h.
Proof.
  intros H. apply map_id_in. intros o Ho. apply canon_op_clean.
  unfold clean_hist in H. rewrite forallb_forall in H. apply H. exact Ho.
Qed.

(* re-splitting does not change what is already split *)
Lemma split_ws3_clean_fields s : forallb clean_str (split_ws3 s) = true.
Proof.
  induction s as [|c r IH]; cbn [split_ws3]; [reflexivity|].
  destruct (is_ws3 c) eqn:Hc; [cbn [forallb clean_str]; exact IH|].
  destruct (split_ws3 r) as [|f fs]; [cbn [forallb clean_str]; rewrite Hc; reflexivity|].
  cbn [forallb clean_str] in *. rewrite Hc. exact IH.
Qed.

(* ---------------------------------------------------------------- the property on items *)
Definition spec_x (w : rworld) (h : list op) (obs : list answer) : Prop := spec w (canon_hist h) obs.
Definition spec_xb (w : rworld) (h : list op) (obs : list answer) : bool := spec_b w (canon_hist h) obs.
Lemma spec_xb_iff w h obs : spec_xb w h obs = true <-> spec_x w h obs.
Proof. apply spec_b_iff. Qed.

(* queries and ticks are untouched: the answers line up with the same operations *)
Theorem store_conforms_items now h : clean_hist h = true -> spec_x (rinit now) h (run cur (init now) h).
Proof. intros H. unfold spec_x. rewrite (canon_hist_clean h H). apply model_satisfies_spec. Qed.

(* a role supports SAML 2.0 by its ITEMS *)
Lemma canon_supports r :
  supports_saml2 (canon_role r) = existsb (fun p => mem NS_SAML2P (split_ws3 p)) (r_protos r).
Proof.
  unfold supports_saml2, canon_role. cbn [r_protos]. induction (r_protos r) as [|p l IH]; [reflexivity|].
  cbn [flat_map existsb]. rewrite <- IH. clear IH.
  induction (split_ws3 p) as [|x xs IHx]; [reflexivity|]. cbn [app mem]. rewrite IHx. apply orb_assoc.
Qed.

(* ---------------------------------------------------------------- finding C11-F9 *)
Definition lf := String "010"%char EmptyString.
(* an IdP that lists SAML 1.1 and SAML 2.0, the two names separated by a line feed (written &#10;) *)
Definition tokens_witness : list op :=
  [OLoad false {| sp_kind := KInline; sp_key := "s1"; sp_cert := false; sp_cv := None; sp_node := None;
                  sp_period := 0; sp_scv := true; sp_imp := false |}
     (FBody (D (Single (Ent "urn:e1" None
        [rp K_IDPSSO ("urn:oasis:names:tc:SAML:1.1:protocol" ++ lf ++ NS_SAML2P)
            [Svc N_SSO BINDING_HTTP_REDIRECT "https://a.example.org/sso" None] [] []] false [] []))) Unsigned);
   OQuery (QSso "urn:e1" (Some BINDING_HTTP_REDIRECT))].

Example tokens_witness_out : run cur (init 0) tokens_witness = [AFlag true; AUnknown].
Proof. vm_compute. reflexivity. Qed.
Example tokens_witness_wanted :
  spec_xb (rinit 0) tokens_witness
          [AFlag true; ASvcs [Svc N_SSO BINDING_HTTP_REDIRECT "https://a.example.org/sso" None]] = true.
Proof. vm_compute. reflexivity. Qed.

Theorem tokens_refuted : exists now h, ~ spec_x (rinit now) h (run cur (init now) h).
Proof.
  exists 0%Z, tokens_witness. intros H. apply spec_xb_iff in H. vm_compute in H. discriminate.
Qed.

(* the repaired filter (proposed_fixes/C11-9.diff: value.split()) looks at the items *)
Example tokens_witness_dirty : clean_hist tokens_witness = false.
Proof. vm_compute. reflexivity. Qed.

(* ---------------------------------------------------------------- near misses: teeth of the reference *)
(* an IdP whose enumeration holds a URI that merely CONTAINS the SAML 2.0 name, next to SAML 1.1 *)
Definition near_miss_history (pse : string) : list op :=
  [OLoad false {| sp_kind := KInline; sp_key := "s1"; sp_cert := false; sp_cv := None; sp_node := None;
                  sp_period := 0; sp_scv := true; sp_imp := false |}
     (FBody (D (Single (Ent "urn:e1" None
        [rp K_IDPSSO pse [Svc N_SSO BINDING_HTTP_REDIRECT "https://a.example.org/sso" None] [Key (Some "signing") "idp"] []]
        false [] []))) Unsigned);
   OQuery (QSso "urn:e1" (Some BINDING_HTTP_REDIRECT)); OQuery (QCerts "urn:e1" "any" "signing"); OQuery QKeys].
Definition near_misses : list string :=
  [(NS_SAML2P ++ ":ext:legacy-gateway urn:oasis:names:tc:SAML:1.1:protocol")%string;
   ("urn:oasis:names:tc:SAML:1.1:protocol http://profiles.example.org/gateway#" ++ NS_SAML2P)%string;
   (NS_SAML2P ++ "-draft-07")%string; ("urn:x:" ++ NS_SAML2P ++ ":y")%string; "URN:OASIS:NAMES:TC:SAML:2.0:PROTOCOL";
   "urn:oasis:names:tc:SAML:2.0:protoco"; (NS_SAML2P ++ NS_SAML2P)%string].
(* the code serves nothing of such a role, and that is what the reference wants ... *)
Example near_miss_out :
  forallb (fun pse => answers_eqb (run cur (init 0) (near_miss_history pse)) [AFlag true; AUnknown; AKeyErr; AKeys []])
          near_misses = true.
Proof. vm_compute. reflexivity. Qed.
Example near_miss_conforms :
  forallb (fun pse => spec_xb (rinit 0) (near_miss_history pse) [AFlag true; AUnknown; AKeyErr; AKeys []]) near_misses = true.
Proof. vm_compute. reflexivity. Qed.
(* ... an output that serves the role (endpoint, certificate, the entity) fails it *)
Example near_miss_teeth :
  existsb (fun pse => spec_xb (rinit 0) (near_miss_history pse)
                        [AFlag true; ASvcs [Svc N_SSO BINDING_HTTP_REDIRECT "https://a.example.org/sso" None];
                         ACerts ["idp"]; AKeys ["urn:e1"]]) near_misses = false.
Proof. vm_compute. reflexivity. Qed.
Example near_miss_teeth_keys :
  existsb (fun pse => spec_xb (rinit 0) (near_miss_history pse) [AFlag true; AUnknown; AKeyErr; AKeys ["urn:e1"]])
          near_misses = false.
Proof. vm_compute. reflexivity. Qed.
(* several blanks, blanks / line breaks around the list, the name twice: the role is served *)
Example separators_served :
  forallb (fun pse => answers_eqb (run cur (init 0) (near_miss_history pse))
                        [AFlag true; ASvcs [Svc N_SSO BINDING_HTTP_REDIRECT "https://a.example.org/sso" None];
                         ACerts ["idp"]; AKeys ["urn:e1"]])
          [("urn:oasis:names:tc:SAML:1.1:protocol   " ++ NS_SAML2P)%string; ("  " ++ NS_SAML2P ++ " ")%string;
           (lf ++ NS_SAML2P ++ lf)%string; (NS_SAML2P ++ " " ++ NS_SAML2P)%string] = true.
Proof. vm_compute. reflexivity. Qed.
