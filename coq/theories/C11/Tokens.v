(* C11/Tokens.v — protocolSupportEnumeration as the document WRITES it (round 6; follows 9be4974e).

   The attribute is an xs:list of anyURI (saml-schema-metadata-2.0.xsd, anyURIListType): its items are separated
   by XML white space - blank, tab, line feed, carriage return.  A role descriptor supports SAML 2.0 iff one of
   the ITEMS is urn:oasis:names:tc:SAML:2.0:protocol: a longer URI that merely contains that name (as prefix,
   suffix or in the middle), or the name in another letter case, is another URI.

   The correspondence cases carry the attribute value as the XML parser reports it (a string; [rp]); [rp] gives the
   role record the PIECES value.strip().split(" ") (mdie.to_dict strips; the blank-only split is what
   do_entity_descriptor did before 9be4974e).  A role record with pieces L stands for the value join " " L
   (= the stripped value, Str.join_split; the encoding of Source2.enc_role).
   The code now (9be4974e) splits the value with str.split(): [canon_role] replaces the pieces by
   [items (join " " L)] = Py2.split_ws_go, the function the translator maps str.split() to.  It splits at the ASCII
   white space 9-13, 28-32 and drops empty fields.  NOT covered: str.split() also splits at non-ASCII spaces (U+0085,
   U+00A0, U+1680, U+2000-200A, ...), which are legal in XML and are NOT separators of an xs:list; the generator writes
   ASCII values only and of the ASCII white space only blank / tab / LF / CR (11, 12, 28-31 are not XML characters).
   The property is stated on the re-split history ([spec_x]); the model of the code now is [run_now] (the token-list
   model on the re-split history), the code before the commit is [run_v0] (on the pieces): [store_conforms_items]
   holds for every history, [items_v0_refuted] is finding C11-F9 (fixed), [store_conforms_items_v0_clean] says the old
   code was right on every history whose pieces are items already ([clean_hist]). *)
From Coq Require Import String List Bool ZArith Ascii.
From Verif Require Import Base.Str Base.Py2 C11.Model C11.Dec C11.Spec C11.Proofs C11.Sim.
Import ListNotations.
Open Scope list_scope.
Open Scope string_scope.

(* ---------------------------------------------------------------- str.split() *)
Definition items (s : string) : list string := split_ws_go None s.
Lemma app_assoc_s (a b c : string) : ((a ++ b) ++ c = a ++ (b ++ c))%string.
Proof. induction a as [|x a IH]; cbn; [reflexivity|]. rewrite IH. reflexivity. Qed.
Lemma app_nil_s (a : string) : (a ++ "")%string = a.
Proof. induction a as [|x a IH]; cbn; [reflexivity|]. rewrite IH. reflexivity. Qed.
Fixpoint wsfree (s : string) : bool := match s with EmptyString => true | String c r => negb (is_ws c) && wsfree r end.
Definition ostr (o : option string) : string := match o with Some x => x | None => EmptyString end.
Lemma go_word w : forall cur rest, wsfree w = true ->
  split_ws_go cur (w ++ rest) = split_ws_go (match w with EmptyString => cur | _ => Some (ostr cur ++ w) end) rest.
Proof.
  induction w as [|c w IH]; intros cur rest H; [reflexivity|].
  cbn [wsfree] in H. apply andb_true_iff in H. destruct H as [Hc Hw]. apply negb_true_iff in Hc.
  cbn [append split_ws_go]. rewrite Hc. rewrite (IH _ rest Hw).
  destruct w as [|d w']; destruct cur as [x|]; cbn [ostr append]; try reflexivity.
  - rewrite app_assoc_s. reflexivity.
Qed.
Definition good (w : string) : bool := wsfree w && negb (String.eqb w "").
Lemma items_join l : forallb good l = true -> split_ws_go None (join " " l) = l.
Proof.
  induction l as [|w l IH]; intros H; [reflexivity|].
  cbn [forallb] in H. apply andb_true_iff in H. destruct H as [Hw Hl]. unfold good in Hw. apply andb_true_iff in Hw.
  destruct Hw as [Hf Hne]. destruct w as [|c w]; [discriminate|].
  destruct l as [|w2 l].
  - cbn [join]. rewrite <- (app_nil_s (String c w)) at 1. rewrite (go_word _ None "" Hf). reflexivity.
  - change (join " " (String c w :: w2 :: l)) with (String c w ++ " " ++ join " " (w2 :: l)).
    rewrite (go_word _ None _ Hf). cbn [ostr append]. change (" " ++ join " " (w2 :: l)) with (String " "%char (join " " (w2 :: l))).
    cbn [split_ws_go]. change (is_ws " "%char) with true. cbv iota. rewrite (IH Hl). reflexivity.
Qed.
Lemma go_good s : forall cur, match cur with Some x => good x = true | None => True end -> forallb good (split_ws_go cur s) = true.
Proof.
  induction s as [|c s IH]; intros cur Hc; cbn [split_ws_go].
  - destruct cur; cbn [forallb]; [rewrite Hc; reflexivity|reflexivity].
  - destruct (is_ws c) eqn:E.
    + destruct cur; cbn [forallb]; [rewrite Hc; apply IH; exact I|apply IH; exact I].
    + apply IH. destruct cur as [x|].
      * unfold good in *. apply andb_true_iff in Hc. destruct Hc as [Hf _]. apply andb_true_iff. split.
        { clear -Hf E. induction x as [|d x IHx]; cbn [append wsfree] in *; [rewrite E; reflexivity|].
          apply andb_true_iff in Hf. destruct Hf as [H1 H2]. rewrite H1, (IHx H2). reflexivity. }
        { destruct x; reflexivity. }
      * unfold good. cbn [wsfree]. rewrite E. reflexivity.
Qed.
Lemma items_idem s : items (join " " (items s)) = items s.
Proof. apply items_join. apply go_good. exact I. Qed.
Open Scope list_scope.

(* mdie.to_dict (_eval) strips every string value before do_entity_descriptor sees it (ASCII white space here) *)
Definition is_ws4 (c : ascii) : bool := is_ws c.
Fixpoint lstrip (s : string) : string :=
  match s with String c r => if is_ws4 c then lstrip r else s | EmptyString => EmptyString end.
Fixpoint rstrip (s : string) : string :=
  match s with
  | EmptyString => EmptyString
  | String c r => match rstrip r with
                  | EmptyString => if is_ws4 c then EmptyString else String c EmptyString
                  | r' => String c r'
                  end
  end.
Definition strip_ws (s : string) : string := rstrip (lstrip s).

(* the role descriptor as the case files write it: kind, the attribute value as the XML parser reports it, the rest;
   r_protos = the PIECES to_dict's value .split(" ") *)
Definition rp (kind pse : string) (svcs : list svc) (keys : list keyd) (acs : list acsv) : role :=
  Role kind (split_on " "%char (strip_ws pse)) svcs keys acs.
Lemma rp_protos kind pse svcs keys acs : r_protos (rp kind pse svcs keys acs) = split_on " "%char (strip_ws pse).
Proof. reflexivity. Qed.
(* the pieces stand for the stripped value *)
Lemma rp_value kind pse svcs keys acs : join " " (r_protos (rp kind pse svcs keys acs)) = strip_ws pse.
Proof. apply (join_split " "%char). Qed.
Example strip_ws_ex : strip_ws (String "010"%char " a b  " ++ String "009"%char EmptyString) = "a b".
Proof. reflexivity. Qed.

(* ---------------------------------------------------------------- re-splitting a history: what 9be4974e reads *)
Definition canon_role (r : role) : role :=
  Role (r_kind r) (items (join " " (r_protos r))) (r_svcs r) (r_keys r) (r_acs r).
Definition canon_ent (e : ent) : ent :=
  Ent (e_id e) (e_vu e) (map canon_role (e_roles e)) (e_affil e) (e_attrs e) (e_regs e).
Definition canon_payload (p : payload) : payload :=
  match p with
  | D (Single e) => D (Single (canon_ent e))
  | D (Group vu es) => D (Group vu (map canon_ent es))
  | _ => p
  end.
Definition canon_fetched (f : fetched) : fetched :=
  match f with FBody p sg => FBody (canon_payload p) sg | FMissing => FMissing end.
Definition canon_op (o : op) : op :=
  match o with
  | OLoad ns sp f => OLoad ns sp (canon_fetched f)
  | OReload ns items => OReload ns (map (fun it => (fst it, canon_fetched (snd it))) items)
  | OServer t => OServer (map (fun it => (fst it, canon_fetched (snd it))) t)
  | _ => o
  end.
Definition canon_hist (h : list op) : list op := map canon_op h.

(* every piece of every enumeration of the history is an item already: not empty, no white space inside *)
Definition clean_role (r : role) : bool := forallb good (r_protos r).
Definition clean_ent (e : ent) : bool := forallb clean_role (e_roles e).
Definition clean_payload (p : payload) : bool :=
  match p with
  | D (Single e) => clean_ent e
  | D (Group _ es) => forallb clean_ent es
  | _ => true
  end.
Definition clean_fetched (f : fetched) : bool := match f with FBody p _ => clean_payload p | FMissing => true end.
Definition clean_op (o : op) : bool :=
  match o with
  | OLoad _ _ f => clean_fetched f
  | OReload _ items => forallb (fun it => clean_fetched (snd it)) items
  | OServer t => forallb (fun it => clean_fetched (snd it)) t
  | _ => true
  end.
Definition clean_hist (h : list op) : bool := forallb clean_op h.

Lemma map_id_in {A} (f : A -> A) l : (forall x, In x l -> f x = x) -> map f l = l.
Proof.
  induction l as [|a l IH]; cbn [map]; intros H; [reflexivity|].
  rewrite (H a (or_introl eq_refl)), IH; [reflexivity|]. intros x Hx. apply H. right. exact Hx.
Qed.

Lemma canon_role_clean r : clean_role r = true -> canon_role r = r.
Proof. intros H. unfold canon_role, items. rewrite (items_join _ H). destruct r; reflexivity. Qed.
(* what is split is split: re-splitting twice changes nothing, and the re-split roles are clean *)
Lemma canon_role_idem r : canon_role (canon_role r) = canon_role r.
Proof. unfold canon_role. cbn [r_kind r_protos r_svcs r_keys r_acs]. rewrite items_idem. reflexivity. Qed.
Lemma canon_role_is_clean r : clean_role (canon_role r) = true.
Proof. unfold clean_role, canon_role, items. cbn [r_protos]. apply go_good. exact I. Qed.
Lemma canon_ent_clean e : clean_ent e = true -> canon_ent e = e.
Proof.
  intros H. unfold canon_ent. rewrite map_id_in; [destruct e; reflexivity|].
  intros r Hr. apply canon_role_clean. unfold clean_ent in H. rewrite forallb_forall in H. apply H. exact Hr.
Qed.

Lemma canon_payload_clean p : clean_payload p = true -> canon_payload p = p.
Proof.
  destruct p as [| |[e|vu es]]; cbn [clean_payload canon_payload]; intros H; try reflexivity.
  - rewrite (canon_ent_clean e H). reflexivity.
  - rewrite map_id_in; [reflexivity|]. intros e He. apply canon_ent_clean.
    rewrite forallb_forall in H. apply H. exact He.
Qed.

Lemma canon_fetched_clean f : clean_fetched f = true -> canon_fetched f = f.
Proof. destruct f as [|p sg]; cbn [clean_fetched canon_fetched]; intros H; [reflexivity|]. rewrite (canon_payload_clean p H). reflexivity. Qed.

Lemma canon_items_clean {A} (l : list (A * fetched)) :
  forallb (fun it => clean_fetched (snd it)) l = true -> map (fun it => (fst it, canon_fetched (snd it))) l = l.
Proof.
  intros H. apply map_id_in. intros [a f] Hin. cbn [fst snd]. rewrite forallb_forall in H.
  rewrite (canon_fetched_clean f (H _ Hin)). reflexivity.
Qed.

Lemma canon_op_clean o : clean_op o = true -> canon_op o = o.
Proof.
  destruct o as [ns sp f|ns items|dt|t|q]; cbn [clean_op canon_op]; intros H; try reflexivity.
  - rewrite (canon_fetched_clean f H). reflexivity.
  - rewrite (canon_items_clean items H). reflexivity.
  - rewrite (canon_items_clean t H). reflexivity.
Qed.

Lemma canon_hist_clean h : clean_hist h = true -> canon_hist h = h.
Proof.
  intros H. apply map_id_in. intros o Ho. apply canon_op_clean.
  unfold clean_hist in H. rewrite forallb_forall in H. apply H. exact Ho.
Qed.

(* ---------------------------------------------------------------- the property on items *)
Definition spec_x (w : rworld) (h : list op) (obs : list answer) : Prop := spec w (canon_hist h) obs.
Definition spec_xb (w : rworld) (h : list op) (obs : list answer) : bool := spec_b w (canon_hist h) obs.
Lemma spec_xb_iff w h obs : spec_xb w h obs = true <-> spec_x w h obs.
Proof. apply spec_b_iff. Qed.

(* the code now (9be4974e): value.split(), then what the token-list model does; before: the pieces *)
Definition run_now (now : Z) (h : list op) : list answer := run cur (init now) (canon_hist h).
Definition run_v0 (now : Z) (h : list op) : list answer := run cur (init now) h.

Theorem store_conforms_items now h : spec_x (rinit now) h (run_now now h).
Proof. unfold spec_x, run_now. apply model_satisfies_spec. Qed.

Theorem store_conforms_items_v0_clean now h : clean_hist h = true -> spec_x (rinit now) h (run_v0 now h).
Proof. intros H. unfold spec_x, run_v0. rewrite (canon_hist_clean h H). apply model_satisfies_spec. Qed.

(* a role supports SAML 2.0 by its ITEMS *)
Lemma canon_supports r : supports_saml2 (canon_role r) = mem NS_SAML2P (items (join " " (r_protos r))).
Proof. reflexivity. Qed.

(* ---------------------------------------------------------------- finding C11-F9 (fixed by 9be4974e) *)
Definition lf := String "010"%char EmptyString.
(* an IdP that lists SAML 1.1 and SAML 2.0, the two names separated by a line feed (written &#10;) *)
Definition tokens_witness : list op :=
  [OLoad false {| sp_kind := KInline; sp_key := "s1"; sp_cert := false; sp_cv := None; sp_node := None;
                  sp_period := 0; sp_scv := true; sp_imp := false |}
     (FBody (D (Single (Ent "urn:e1" None
        [rp K_IDPSSO ("urn:oasis:names:tc:SAML:1.1:protocol" ++ lf ++ NS_SAML2P)
            [Svc N_SSO BINDING_HTTP_REDIRECT "https://a.example.org/sso" None] [] []] false [] []))) Unsigned);
   OQuery (QSso "urn:e1" (Some BINDING_HTTP_REDIRECT))].

Example tokens_witness_out_v0 : run_v0 0 tokens_witness = [AFlag true; AUnknown].
Proof. vm_compute. reflexivity. Qed.
Example tokens_witness_out :
  run_now 0 tokens_witness = [AFlag true; ASvcs [Svc N_SSO BINDING_HTTP_REDIRECT "https://a.example.org/sso" None]].
Proof. vm_compute. reflexivity. Qed.
Example tokens_witness_wanted :
  spec_xb (rinit 0) tokens_witness
          [AFlag true; ASvcs [Svc N_SSO BINDING_HTTP_REDIRECT "https://a.example.org/sso" None]] = true.
Proof. vm_compute. reflexivity. Qed.

Theorem items_v0_refuted : exists now h, ~ spec_x (rinit now) h (run_v0 now h).
Proof.
  exists 0%Z, tokens_witness. intros H. apply spec_xb_iff in H. vm_compute in H. discriminate.
Qed.
Example tokens_witness_dirty : clean_hist tokens_witness = false.
Proof. vm_compute. reflexivity. Qed.
(* ---------------------------------------------------------------- near misses: teeth of the reference *)
(* an IdP whose enumeration holds a URI that merely CONTAINS the SAML 2.0 name, next to SAML 1.1 *)
Definition near_miss_history (pse : string) : list op :=
  [OLoad false {| sp_kind := KInline; sp_key := "s1"; sp_cert := false; sp_cv := None; sp_node := None;
                  sp_period := 0; sp_scv := true; sp_imp := false |}
     (FBody (D (Single (Ent "urn:e1" None
        [rp K_IDPSSO pse [Svc N_SSO BINDING_HTTP_REDIRECT "https://a.example.org/sso" None] [Key (Some "signing") "idp"] []]
        false [] []))) Unsigned);
   OQuery (QSso "urn:e1" (Some BINDING_HTTP_REDIRECT)); OQuery (QCerts "urn:e1" "any" "signing"); OQuery QKeys].
Definition near_misses : list string :=
  [(NS_SAML2P ++ ":ext:legacy-gateway urn:oasis:names:tc:SAML:1.1:protocol")%string;
   ("urn:oasis:names:tc:SAML:1.1:protocol http://profiles.example.org/gateway#" ++ NS_SAML2P)%string;
   (NS_SAML2P ++ "-draft-07")%string; ("urn:x:" ++ NS_SAML2P ++ ":y")%string; "URN:OASIS:NAMES:TC:SAML:2.0:PROTOCOL";
   "urn:oasis:names:tc:SAML:2.0:protoco"; (NS_SAML2P ++ NS_SAML2P)%string].
(* the code serves nothing of such a role, and that is what the reference wants ... *)
Example near_miss_out :
  forallb (fun pse => answers_eqb (run_now 0 (near_miss_history pse)) [AFlag true; AUnknown; AKeyErr; AKeys []])
          near_misses = true.
Proof. vm_compute. reflexivity. Qed.
Example near_miss_conforms :
  forallb (fun pse => spec_xb (rinit 0) (near_miss_history pse) [AFlag true; AUnknown; AKeyErr; AKeys []]) near_misses = true.
Proof. vm_compute. reflexivity. Qed.
(* ... an output that serves the role (endpoint, certificate, the entity) fails it *)
Example near_miss_teeth :
  existsb (fun pse => spec_xb (rinit 0) (near_miss_history pse)
                        [AFlag true; ASvcs [Svc N_SSO BINDING_HTTP_REDIRECT "https://a.example.org/sso" None];
                         ACerts ["idp"]; AKeys ["urn:e1"]]) near_misses = false.
Proof. vm_compute. reflexivity. Qed.
Example near_miss_teeth_keys :
  existsb (fun pse => spec_xb (rinit 0) (near_miss_history pse) [AFlag true; AUnknown; AKeyErr; AKeys ["urn:e1"]])
          near_misses = false.
Proof. vm_compute. reflexivity. Qed.
(* several blanks, blanks / line breaks around the list, the name twice: the role is served *)
Example separators_served :
  forallb (fun pse => answers_eqb (run_now 0 (near_miss_history pse))
                        [AFlag true; ASvcs [Svc N_SSO BINDING_HTTP_REDIRECT "https://a.example.org/sso" None];
                         ACerts ["idp"]; AKeys ["urn:e1"]])
          [("urn:oasis:names:tc:SAML:1.1:protocol   " ++ NS_SAML2P)%string; ("  " ++ NS_SAML2P ++ " ")%string;
           (lf ++ NS_SAML2P ++ lf)%string; (NS_SAML2P ++ " " ++ NS_SAML2P)%string;
           ("urn:oasis:names:tc:SAML:1.1:protocol" ++ lf ++ NS_SAML2P)%string;
           ("urn:oasis:names:tc:SAML:1.0:protocol " ++ String "009"%char NS_SAML2P ++ String "013"%char "urn:x:proto")%string] = true.
Proof. vm_compute. reflexivity. Qed.
