(* C11/Property.v — property theorems only.
   "The metadata store answers exactly what authentic, current metadata says."
   [cur] = the code as it is now (after d8b1d2a4, 18964551, fafdf54c, 254349bd, a8da97db, ab8ae013, 7137d601); [v0] = before them. *)
From Coq Require Import String List Bool ZArith.
From Verif Require Import Base.Str Base.Py Base.Py2 C11.Model C11.Dec C11.Spec C11.Proofs C11.Lookup C11.Sim C11.Facts C11.Source2 C11.Tokens.
From VerifGen Require Import C11Src2.
Import ListNotations.
Open Scope list_scope.

(* ---- the main theorem: on EVERY history (loads, reloads, MDQ fetches, clock ticks, server changes, queries;
   any documents, any signature states, any server answers, any failure positions) the model's outputs are the
   outputs of the reference store of Spec.v.  No guard, no hypothesis. *)
Theorem c11_store_conforms : forall now h, spec (rinit now) h (run cur (init now) h).
Proof. exact model_satisfies_spec. Qed.
Print Assumptions c11_store_conforms.

(* the same from any reachable state: the model refines the reference store step by step *)
Theorem c11_refines : forall h w, winv w -> spec (abs w) h (run cur w h).
Proof. exact refines. Qed.
Print Assumptions c11_refines.

(* each query is answered EXACTLY as the reference store answers it (first source wins for every lookup,
   service() and with_descriptor() included; MDQ: verified, current, asked-for entity only) *)
Theorem c11_query_exact : forall now srv srcs q srcs' a,
  all_inv srcs -> answer_query cur now srv srcs q = (srcs', a) ->
  ref_answer now srv (abs_srcs srcs) q = (abs_srcs srcs', a) /\ all_inv srcs'.
Proof. exact query_sim. Qed.
Print Assumptions c11_query_exact.

(* the boolean spec evaluated on the implementation's recorded outputs is the stated spec *)
Theorem c11_spec_reflect : forall w h obs, spec_b w h obs = true <-> spec w h obs.
Proof. exact spec_b_iff. Qed.
Print Assumptions c11_spec_reflect.

(* ---- what a source serves for an entity is the first current, SAML 2.0 capable descriptor of the document *)
Theorem c11_view_chosen : forall cv now es id en,
  lookup id (view cv now es) = Some en <-> exists e, chosen cv now es id e /\ en = prune e.
Proof. exact view_chosen. Qed.
Print Assumptions c11_view_chosen.

Theorem c11_not_served : forall cv now es id,
  lookup id (view cv now es) = None <-> forall e, In e es -> e_id e = id -> ~ eligible cv now e.
Proof. exact not_served. Qed.
Print Assumptions c11_not_served.

Theorem c11_parse_is_view : forall cv now p,
  parse cv now [] p = match doc_says cv now p with Some es => Some (view cv now es) | None => None end.
Proof. exact parse_doc_says. Qed.
Print Assumptions c11_parse_is_view.

(* ---- lookup soundness / completeness against the document, for all documents *)
Theorem c11_service_sound : forall cv now es id en typ name b l s,
  lookup id (view cv now es) = Some en -> ent_service en typ name (Some b) = SList l -> In s l ->
  says_endpoint cv now es id typ name b s.
Proof. exact service_sound. Qed.
Print Assumptions c11_service_sound.

Theorem c11_service_complete : forall cv now es id typ name b s,
  b <> EmptyString -> says_endpoint cv now es id typ name b s ->
  exists en l, lookup id (view cv now es) = Some en /\ ent_service en typ name (Some b) = SList l /\ In s l.
Proof. exact service_complete. Qed.
Print Assumptions c11_service_complete.

Theorem c11_service_dict_exact : forall cv now es id en typ name d b s,
  lookup id (view cv now es) = Some en -> ent_service en typ name None = SDict d ->
  ((exists l, lookup b d = Some l /\ In s l) <-> says_endpoint cv now es id typ name b s).
Proof. exact service_dict_exact. Qed.
Print Assumptions c11_service_dict_exact.

Theorem c11_certs_exact : forall cv now es id en typ use l c,
  lookup id (view cv now es) = Some en -> typ <> "any"%string -> ent_certs en typ use = ACerts l ->
  (In c l <-> says_cert cv now es id typ use c).
Proof. exact certs_exact. Qed.
Print Assumptions c11_certs_exact.

Theorem c11_certs_complete : forall cv now es id typ use c,
  typ <> "any"%string -> says_cert cv now es id typ use c ->
  exists en l, lookup id (view cv now es) = Some en /\ ent_certs en typ use = ACerts l /\ In c l.
Proof. exact certs_complete. Qed.
Print Assumptions c11_certs_complete.

Theorem c11_certs_any_exact : forall cv now es id en use l c,
  lookup id (view cv now es) = Some en -> ent_certs en "any" use = ACerts l ->
  (In c l <-> exists typ, In typ PROTO_KINDS /\ says_cert cv now es id typ use c).
Proof. exact certs_any_exact. Qed.
Print Assumptions c11_certs_any_exact.

Theorem c11_attr_req_exact : forall cv now es id en index req opt n,
  lookup id (view cv now es) = Some en -> ent_attr_req en index = AReq req opt ->
  (In n req <-> says_reqattr cv now es id index true n) /\ (In n opt <-> says_reqattr cv now es id index false n).
Proof. exact attr_req_exact. Qed.
Print Assumptions c11_attr_req_exact.

Theorem c11_categories_exact : forall cv now es id en c,
  lookup id (view cv now es) = Some en -> (In c (ent_cats en) <-> says_category cv now es id c).
Proof. exact categories_exact. Qed.
Print Assumptions c11_categories_exact.

Theorem c11_registration_exact : forall cv now es id en auth inst,
  lookup id (view cv now es) = Some en ->
  ((exists pols, ent_reg en = AReg (Some auth) inst pols) <-> says_registration cv now es id auth inst).
Proof. exact registration_exact. Qed.
Print Assumptions c11_registration_exact.

(* ---- load / reload: failures, atomicity (any mixture of repairs), signature gate (now) *)
Theorem c11_reload_atomic : forall fl ns now st items st',
  reload fl ns now st items = (st', false) -> st_srcs st' = st_srcs st.
Proof. exact reload_atomic. Qed.
Print Assumptions c11_reload_atomic.

Theorem c11_reload_replaces : forall fl ns now st items st',
  reload fl ns now st items = (st', true) -> imp fl ns now {| st_srcs := []; st_ii := st_ii st |} items = (st', true).
Proof. exact reload_replaces. Qed.
Print Assumptions c11_reload_replaces.

Theorem c11_load_failure_adds_nothing : forall fl ns now st sp f st',
  load1 fl ns now st sp f = (st', false) -> st_srcs st' = st_srcs st.
Proof. exact load_failure_adds_nothing. Qed.
Print Assumptions c11_load_failure_adds_nothing.

Theorem c11_imp_failure : forall fl ns now items st st',
  imp fl ns now st items = (st', false) ->
  exists pre it post st1 st2,
    items = (pre ++ it :: post)%list /\ imp fl ns now st pre = (st1, true) /\
    load1 fl ns now st1 (fst it) (snd it) = (st2, false) /\ st_srcs st' = st_srcs st1.
Proof. exact imp_failure. Qed.
Print Assumptions c11_imp_failure.

Theorem c11_static_load_serves_view : forall fl ns now st sp f st',
  sp_kind sp <> KMdq -> load1 fl ns now st sp f = (st', true) ->
  exists p sg es k,
    f = FBody p sg /\ doc_says (eff_cv ns sp) now p = Some es /\
    sig_gate fl (eff_cert fl ns sp) (sp_kind sp) (eff_node ns sp) p sg = true /\
    In (k, SStatic (view (eff_cv ns sp) now es)) (st_srcs st').
Proof. exact static_load_serves_view. Qed.
Print Assumptions c11_static_load_serves_view.

(* a successful load was acceptable: where a certificate is configured the document's signature verified *)
Theorem c11_load_accepted : forall ns sp now f m, load_static cur ns sp now f = Some m -> accept ns now sp f = Some m.
Proof. exact load_static_accept. Qed.
Print Assumptions c11_load_accepted.

(* ---- the process time zone (finding C11-F8, repaired by 7137d601).  [cur], the code now, computes the expiration date
   of an MDQ entry in UTC: no gap table is an input of the model any more, so every theorem about [cur] above and below
   (c11_store_conforms first of all) holds in every zone, with every table of daylight-saving gaps.  [zone_v0 gaps] =
   the code before the commit in a zone with those gaps: there the property FAILED (an entry whose expiration date,
   as a UTC reading, fell into the hour the local calendar skips was served for an hour after it ran out). *)
Theorem c11_expiry_zone_free : forall now period, expiry cur now period = (now + period)%Z.
Proof. exact expiry_cur. Qed.
Print Assumptions c11_expiry_zone_free.

Theorem c11_zone_gap_v0_refuted : exists g now h, ~ spec (rinit now) h (run (zone_v0 g) (init now) h).
Proof. exact zone_gap_v0_refuted_ex. Qed.
Print Assumptions c11_zone_gap_v0_refuted.

Theorem c11_zone_witness_conforms_now : spec (rinit Tz) zone_witness (run cur (init Tz) zone_witness).
Proof. exact zone_witness_conforms_now. Qed.
Print Assumptions c11_zone_witness_conforms_now.

Theorem c11_zone_fix_outside : forall gaps t,
  (forall a len sh, In (a, len, sh) gaps -> (t < a \/ a + len <= t)%Z) -> zone_fix gaps t = t.
Proof. exact zone_fix_outside. Qed.
Print Assumptions c11_zone_fix_outside.

(* the repair changed exactly the fetches made while now + period lies inside a gap *)
Theorem c11_mdx_fetch_zone_outside : forall g x now srv e,
  zone_fix g (now + x_period x) = (now + x_period x)%Z -> mdx_fetch (zone_v0 g) x now srv e = mdx_fetch cur x now srv e.
Proof. exact mdx_fetch_zone_outside. Qed.
Print Assumptions c11_mdx_fetch_zone_outside.

(* ---- validity checking (round 5): the code's routing of check_validity switches checking off for a source exactly
   when its specification did (Spec.cfg_cv); a specification that does not mention check_validity leaves it ON *)
Theorem c11_validity_switch : forall ns sp, eff_cv ns sp = cfg_cv ns sp.
Proof. exact validity_switch. Qed.
Print Assumptions c11_validity_switch.

Theorem c11_validity_default_on : forall ns sp, sp_cv sp = None -> sp_scv sp = true -> eff_cv ns sp = true.
Proof. exact validity_default_on. Qed.
Print Assumptions c11_validity_default_on.

Theorem c11_validity_off_only_remote_dict : forall ns sp,
  eff_cv ns sp = false ->
  sp_kind sp = KRemote /\ ns = false /\ (sp_cv sp = Some false \/ (sp_imp sp = true /\ sp_scv sp = false)).
Proof. exact validity_off_only_remote_dict. Qed.
Print Assumptions c11_validity_off_only_remote_dict.

(* while checking is on, an entity whose descriptors are all past validUntil is not served by a successful load,
   and an EntitiesDescriptor past its own validUntil is a failed load (any flags, any source kind, any style) *)
Theorem c11_expired_entity_not_served : forall fl ns sp now p sg m id,
  load_static fl ns sp now (FBody p sg) = Some m -> cfg_cv ns sp = true ->
  (forall es, doc_says true now p = Some es -> forall e, In e es -> e_id e = id -> expired now (e_vu e) = true) ->
  lookup id m = None.
Proof. exact expired_entity_not_served. Qed.
Print Assumptions c11_expired_entity_not_served.

Theorem c11_expired_group_fails : forall fl ns sp now vu es sg,
  cfg_cv ns sp = true -> expired now vu = true -> schema_check es = CkOk ->
  load_static fl ns sp now (FBody (D (Group vu es)) sg) = None.
Proof. exact expired_group_fails. Qed.
Print Assumptions c11_expired_group_fails.

Theorem c11_cert_needs_valid : forall ns sp now d sg m,
  load_static cur ns sp now (FBody (D d) sg) = Some m -> cfg_cert ns sp = true -> sg = SigValid.
Proof. exact cert_needs_valid. Qed.
Print Assumptions c11_cert_needs_valid.

Theorem c11_queries_keep_sources : forall fl now srv srcs q, map fst (fst (answer_query fl now srv srcs q)) = map fst srcs.
Proof. exact answer_query_keys. Qed.
Print Assumptions c11_queries_keep_sources.

(* ---- precedence between sources: the first configured one wins, for every lookup *)
Theorem c11_first_source_wins_get : forall fl now srv pre k m post e en,
  all_static pre ->
  (forall k' s', In (k', s') pre -> has_key e (ents_of s') = false) -> lookup e m = Some en ->
  store_get fl now srv (pre ++ (k, SStatic m) :: post) e = (pre ++ (k, SStatic m) :: post, ROk en)%list.
Proof. exact first_source_wins_get. Qed.
Print Assumptions c11_first_source_wins_get.

Theorem c11_first_source_wins_service : forall now srv typ name b pre k m post e en,
  all_static pre ->
  (forall k' s', In (k', s') pre -> has_key e (ents_of s') = false) -> lookup e m = Some en ->
  store_service cur now srv (pre ++ (k, SStatic m) :: post) e typ name b
  = (pre ++ (k, SStatic m) :: post, svc_answer en typ name b)%list.
Proof. exact first_source_wins_service. Qed.
Print Assumptions c11_first_source_wins_service.

Theorem c11_service_unknown : forall now srv typ name b e srcs,
  all_static srcs -> (forall k s, In (k, s) srcs -> has_key e (ents_of s) = false) ->
  store_service cur now srv srcs e typ name b = (srcs, AUnknown).
Proof. exact service_unknown. Qed.
Print Assumptions c11_service_unknown.

Theorem c11_with_descriptor_first_wins : forall kind e l srcs seen,
  In (e, l) (with_new srcs seen kind) ->
  ~ In e seen /\
  exists pre k s post en,
    srcs = (pre ++ (k, s) :: post)%list /\ (forall k' s', In (k', s') pre -> has_key e (ents_of s') = false) /\
    In (e, en) (ents_of s) /\ has_descriptor en kind = true /\ l = locs en.
Proof. exact with_descriptor_first_wins. Qed.
Print Assumptions c11_with_descriptor_first_wins.

(* ---- MDQ *)
Theorem c11_mdq_fresh_served : forall fl x now srv e en t,
  lookup e (x_ents x) = Some en -> lookup e (x_exp x) = Some t -> (now <= t)%Z -> mdx_get fl x now srv e = (x, ROk en).
Proof. exact mdq_fresh_served. Qed.
Print Assumptions c11_mdq_fresh_served.

Theorem c11_mdq_expired_refetched : forall fl x now srv e en t,
  lookup e (x_ents x) = Some en -> lookup e (x_exp x) = Some t -> (t < now)%Z ->
  mdx_get fl x now srv e =
  mdx_fetch fl {| x_ents := remove_key e (x_ents x); x_exp := x_exp x; x_cert := x_cert x; x_period := x_period x |} now srv e.
Proof. exact mdq_expired_refetched. Qed.
Print Assumptions c11_mdq_expired_refetched.

Theorem c11_mdq_failed_refresh : forall x now srv e en t,
  lookup e (x_ents x) = Some en -> lookup e (x_exp x) = Some t -> (t < now)%Z ->
  (ask srv e = FMissing \/ exists sg, ask srv e = FBody Garbage sg) ->
  exists x', mdx_get cur x now srv e = (x', RKeyErr) /\ lookup e (x_ents x') = None.
Proof. exact mdq_failed_refresh. Qed.
Print Assumptions c11_mdq_failed_refresh.

Theorem c11_mdq_nothing_served_nothing_cached : forall x now srv e x' g,
  mdx_inv x -> mdx_get cur x now srv e = (x', g) ->
  g <> RRaise /\ (res_opt g = None -> lookup e (x_ents x') = None).
Proof. exact mdq_nothing_served_nothing_cached. Qed.
Print Assumptions c11_mdq_nothing_served_nothing_cached.

Theorem c11_mdq_only_asked_entity_stored : forall x now srv e x' g k,
  mdx_fetch cur x now srv e = (x', g) -> k <> e -> lookup k (x_ents x') = lookup k (x_ents x).
Proof. exact mdq_only_asked_entity_stored. Qed.
Print Assumptions c11_mdq_only_asked_entity_stored.

Theorem c11_mdq_served_verified : forall x now srv e x' en,
  mdx_fetch cur x now srv e = (x', ROk en) ->
  exists d sg, ask srv e = FBody (D d) sg /\ (x_cert x = true -> sg = SigValid /\ is_group (D d) = false)
               /\ lookup e (x_ents x') = Some en.
Proof. exact mdq_served_verified. Qed.
Print Assumptions c11_mdq_served_verified.

(* ---- the code BEFORE the repairs violated the property: one witness per repaired class, failing with all
   repairs reverted and with only the responsible commit reverted; what it implemented instead *)
Theorem c11_fallthrough_v0_refuted : fails v0 witness1 /\ fails rev_fall witness1.
Proof. exact fallthrough_v0_refuted. Qed.
Print Assumptions c11_fallthrough_v0_refuted.

Theorem c11_with_last_wins_v0_refuted : fails v0 witness2 /\ fails rev_last witness2.
Proof. exact with_last_wins_v0_refuted. Qed.
Print Assumptions c11_with_last_wins_v0_refuted.

Theorem c11_unsigned_under_cert_v0_refuted : fails v0 witness3 /\ fails rev_unsigned witness3.
Proof. exact unsigned_under_cert_v0_refuted. Qed.
Print Assumptions c11_unsigned_under_cert_v0_refuted.

Theorem c11_mdq_residue_v0_refuted : fails v0 witness4 /\ fails rev_mdq witness4.
Proof. exact mdq_residue_v0_refuted. Qed.
Print Assumptions c11_mdq_residue_v0_refuted.

Theorem c11_mdq_residue_served_v0_refuted : fails v0 witness4b /\ fails rev_mdq witness4b.
Proof. exact mdq_residue_served_v0_refuted. Qed.
Print Assumptions c11_mdq_residue_served_v0_refuted.

Theorem c11_mdq_raise_v0_refuted : fails v0 witness5 /\ fails rev_mdq witness5.
Proof. exact mdq_raise_v0_refuted. Qed.
Print Assumptions c11_mdq_raise_v0_refuted.

Theorem c11_inline_cert_ignored_v0_refuted : fails v0 witness6 /\ fails rev_inline witness6.
Proof. exact inline_cert_ignored_v0_refuted. Qed.
Print Assumptions c11_inline_cert_ignored_v0_refuted.

Theorem c11_service_first_nonempty_v0 : forall fl now srv e typ name b pre k m post en known,
  all_static pre ->
  (forall k' m' en', In (k', SStatic m') pre -> lookup e m' = Some en' -> svc_nonempty (ent_service en' typ name b) = false) ->
  lookup e m = Some en -> svc_nonempty (ent_service en typ name b) = true ->
  snd (store_service_v0 fl now srv (pre ++ (k, SStatic m) :: post) e typ name b known) = svc_answer en typ name b.
Proof. exact service_first_nonempty_v0. Qed.
Print Assumptions c11_service_first_nonempty_v0.

Theorem c11_with_descriptor_last_wins_v0 : forall srcs kind e,
  lookup e (with_v0 srcs kind) = lookup e (rev (flat_map (fun ks => src_with (snd ks) kind) srcs)).
Proof. exact with_descriptor_last_wins_v0. Qed.
Print Assumptions c11_with_descriptor_last_wins_v0.

Theorem c11_mdq_group_raise_v0_refuted : fails v0 witness7 /\ fails rev_group witness7.
Proof. exact mdq_group_raise_v0_refuted. Qed.
Print Assumptions c11_mdq_group_raise_v0_refuted.

(* ---- and the code as it is now conforms on every one of these witnesses (instance of c11_store_conforms,
   evaluated) *)
Theorem c11_witnesses_conform_now :
  forallb (fun h => spec_b (rinit T0) h (run cur (init T0) h))
          [witness1; witness2; witness3; witness4; witness4b; witness5; witness6; witness7] = true.
Proof. exact witnesses_conform_now. Qed.
Print Assumptions c11_witnesses_conform_now.

(* ==== source tie, translator v2 (C11/Source2.v): functions of src/saml2/mdstore.py as harness/py2coq2.py translated them
   from the CURRENT source text on this run (coq/gen/C11Src2.v) compute what the hand-written model computes, for every
   input of the model's domain.  External calls (time_util.valid / before, mdie.to_dict, repack_cert, _fetch_metadata,
   imp) are the quantified functions and their hypotheses. *)

(* InMemoryMetaData.do_entity_descriptor = Model.do_entity: validUntil (when validity is checked; the id goes to to_old),
   duplicate entityID, SAML 2.0 filter per kind with the enumeration rewritten, flag; no entity filter configured *)
Theorem c11_source2_do_entity_descriptor : forall now (valid to_dict filter_ : pyval -> pyval),
  (forall vu, valid (enc_vu vu) = PBool (negb (expired now vu))) ->
  (forall e, to_dict (enc_descr e) = enc_ent e) ->
  forall cv m told e,
  ids_ok m -> e_id e <> "__class__"%string -> Forall protos_wf (e_roles e) -> kinds_ok e ->
  src2_do_entity_descriptor valid to_dict filter_ (enc_self cv m told) (enc_descr e)
  = PList [PNone; enc_self cv (do_entity cv now m e)
                           (if cv && expired now (e_vu e) then told ++ [PStr (e_id e)] else told)].
Proof. exact src2_do_entity_descriptor_is_model. Qed.
Print Assumptions c11_source2_do_entity_descriptor.

(* MetaData.certs / extract_certs = Model.extract_certs: KeyDescriptors without use or with the asked use, in order *)
Theorem c11_source2_extract_certs : forall (repack_cert : pyval -> pyval) (rp : string -> string) use,
  (forall s, repack_cert (PStr s) = PStr (rp s)) ->
  forall rs, certs_ok rs ->
  src2_extract_certs repack_cert (PStr use) (PList (map enc_role rs)) = PList (map (cert_item rp) (extract_certs use rs)).
Proof. exact src2_extract_certs_is_model. Qed.
Print Assumptions c11_source2_extract_certs.

(* MetaDataMDX._is_metadata_fresh: expiration_date[item] (KeyError when missing) judged by time_util.before *)
Theorem c11_source2_is_metadata_fresh : forall now (before : pyval -> pyval),
  (forall t, before (PInt t) = PBool (now <=? t)%Z) ->
  forall x e, exp_ok (x_exp x) ->
  src2_is_fresh before (enc_mdx x) (PStr e)
  = match lookup e (x_exp x) with Some t => PBool (now <=? t)%Z | None => PExc "KeyError" end.
Proof. exact src2_is_fresh_is_model. Qed.
Print Assumptions c11_source2_is_metadata_fresh.

(* MetaDataMDX.__getitem__ = the decision part of Model.mdx_get: cached and fresh -> served; no expiration date ->
   KeyError; unknown -> fetched; stale -> popped first, then fetched from the state WITHOUT the entry *)
Theorem c11_source2_mdx_getitem : forall now (before : pyval -> pyval) (fetch : pyval -> pyval -> pyval),
  (forall t, before (PInt t) = PBool (now <=? t)%Z) ->
  forall x e, ids_ok (x_ents x) -> NoDup (map fst (x_ents x)) -> exp_ok (x_exp x) ->
  src2_mdx_getitem fetch (src2_is_fresh before) (enc_mdx x) (PStr e)
  = match mdx_decide now x e with
    | DCached en => PList [enc_ent en; enc_mdx x]
    | DNoExp => PList [PExc "KeyError"; enc_mdx x]
    | DFetch x' => ret (fetch (enc_mdx x') (PStr e)) (enc_mdx x')
    end.
Proof. exact src2_mdx_getitem_is_model. Qed.
Print Assumptions c11_source2_mdx_getitem.

Theorem c11_source2_mdx_get_decide : forall fl now srv x e,
  mdx_get fl x now srv e = match mdx_decide now x e with
                           | DCached en => (x, ROk en)
                           | DNoExp => (x, RKeyErr)
                           | DFetch x' => mdx_fetch fl x' now srv e
                           end.
Proof. exact mdx_get_decide. Qed.
Print Assumptions c11_source2_mdx_get_decide.

(* MetadataStore.__getitem__ = Model.store_get over static sources: the first configured source that has the entity *)
Theorem c11_source2_store_getitem : forall fl now srv l e,
  Forall (fun km => ids_ok (snd km)) l ->
  src2_store_getitem (enc_store l) (PStr e) = enc_res (snd (store_get fl now srv (static_sources l) e)).
Proof. exact src2_store_getitem_is_model. Qed.
Print Assumptions c11_source2_store_getitem.

(* MetadataStore.reload: imp runs on an empty metadata dict; when it raises, the old dict is put back and the same
   exception goes on (Model.reload keeps st_srcs st) *)
Theorem c11_source2_reload : forall (imp : pyval -> pyval -> pyval) md ii spec,
  is_bad md = false -> is_bad spec = false ->
  src2_reload imp (store_obj md ii) spec
  = match imp (store_obj (PObj []) ii) spec with
    | PExc n => PList [PExc n; store_obj md ii]
    | PErr => PErr
    | _ => PList [PNone; store_obj (PObj []) ii]
    end.
Proof. exact src2_reload_is_model. Qed.
Print Assumptions c11_source2_reload.

(* InMemoryMetaData.signed = Model.payload_signed *)
Theorem c11_source2_signed : forall p sg, src2_signed (enc_parsed p sg) = PBool (payload_signed p sg).
Proof. exact src2_signed_is_model. Qed.
Print Assumptions c11_source2_signed.

(* ==== protocolSupportEnumeration as the document writes it (C11/Tokens.v, round 6; follows 9be4974e).  The
   enumeration is an xs:list: its ITEMS are separated by XML white space.  A role record holds the pieces
   value.strip().split(" ") and stands for that value; [canon_hist] replaces them by the value's items (str.split() as
   the translator models it: ASCII white space, no empty fields).  [spec_x] is the property on the items, evaluated by
   the correspondence on the implementation's answers; [run_now] is the model of the code now (split(), then the
   token-list model), [run_v0] the code before 9be4974e (the pieces).  No guard: *)
Theorem c11_store_conforms_items : forall now h, spec_x (rinit now) h (run_now now h).
Proof. exact store_conforms_items. Qed.
Print Assumptions c11_store_conforms_items.

(* finding C11-F9 (fixed): items separated by &#10; - the old code did not serve the SAML 2.0 role *)
Theorem c11_items_v0_refuted : exists now h, ~ spec_x (rinit now) h (run_v0 now h).
Proof. exact items_v0_refuted. Qed.
Print Assumptions c11_items_v0_refuted.

(* ... and was right wherever the pieces are items already (not empty, no white space inside) *)
Theorem c11_items_v0_clean : forall now h, clean_hist h = true -> spec_x (rinit now) h (run_v0 now h).
Proof. exact store_conforms_items_v0_clean. Qed.
Print Assumptions c11_items_v0_clean.

(* on such a history the items ARE the pieces *)
Theorem c11_items_clean_same : forall h, clean_hist h = true -> canon_hist h = h.
Proof. exact canon_hist_clean. Qed.
Print Assumptions c11_items_clean_same.

(* what "supports SAML 2.0" means now: the name is one of the items of the value *)
Theorem c11_items_supports : forall r,
  supports_saml2 (canon_role r) = mem NS_SAML2P (items (join " " (r_protos r))).
Proof. exact canon_supports. Qed.
Print Assumptions c11_items_supports.

(* str.split() of a value that is the blank-joined split of anything gives that split back (idempotence) ... *)
Theorem c11_items_idem : forall s, items (join " " (items s)) = items s.
Proof. exact items_idem. Qed.
Print Assumptions c11_items_idem.

(* ... so every re-split role (what the model of the code now works on) is in the domain of the source tie
   c11_source2_do_entity_descriptor (Source2.protos_wf), provided its value is ASCII *)
Theorem c11_case_role_wf : forall r,
  all_ascii (join " " (r_protos (canon_role r))) = true -> protos_wf (canon_role r).
Proof. intros r H. split; [exact H|]. unfold canon_role. cbn [r_protos]. apply items_idem. Qed.
Print Assumptions c11_case_role_wf.
