(* C11/Property.v — property theorems only (provisional). *)
From Coq Require Import String List Bool ZArith.
From Verif Require Import Base.Str C11.Model C11.Dec C11.Spec C11.Proofs.

Theorem c11_view_chosen : forall cv now es id en,
  lookup id (view cv now es) = Some en <-> exists e, chosen cv now es id e /\ en = prune e.
Proof. exact view_chosen. Qed.
Print Assumptions c11_view_chosen.
