(* C11/Spec.v — "the metadata store answers exactly what authentic, current metadata says".

   Part 1 states, declaratively, what a metadata document SAYS about an entity (endpoints,
   certificates by use, requested attributes, entity categories, registration details):
   only entity descriptors that are current (validUntil, while validity checking is on) and
   have something SAML 2.0 to serve count, of several descriptors with one entityID the
   first such one counts, and only role descriptors that support SAML 2.0.

   Part 2 is the reference store of the property text, over histories:
     - a load / reload that the implementation reports as successful must have been
       acceptable (the document is usable, and where a certificate reaches the source and
       the document contributes entities its signature verified) and then contributes
       exactly the document's view; a reported failure changes nothing (a failed reload
       keeps everything, a failure never adds anything);
     - every entity is answered from the FIRST configured source that has it;
     - an MDQ source serves an entity from a verified, current answer for that entity while
       it is fresh; a failed refresh of an expired entry serves nothing.
   Data types and the per-entity projections (ent_service, ent_certs, ...) are shared with
   the model; Proofs.v ties those projections to Part 1 (lookup_sound / lookup_complete).
   [spec] is the Prop, [check] its executable form with the finding class of the first
   failure, [spec_b] = (check = 0). *)
From Coq Require Import String List Bool ZArith Arith.
From Verif Require Import Base.Str C11.Model C11.Dec.
Import ListNotations.
Open Scope string_scope.
Open Scope list_scope.

(* ================================================================= Part 1: documents *)
Definition saml2 (r : role) : Prop := In NS_SAML2P (r_protos r).
Definition current (cv : bool) (now : Z) (e : ent) : Prop :=
  cv = true -> forall t, e_vu e = Some t -> (now <= t)%Z.
Definition servable (e : ent) : Prop := (exists r, In r (e_roles e) /\ saml2 r) \/ e_affil e = true.
Definition eligible (cv : bool) (now : Z) (e : ent) : Prop := current cv now e /\ servable e.

(* the descriptor that the entity list [es] contributes for [id]: the first eligible one *)
Definition chosen (cv : bool) (now : Z) (es : list ent) (id : string) (e : ent) : Prop :=
  exists l1 l2, es = l1 ++ e :: l2 /\ e_id e = id /\ eligible cv now e /\
                forall x, In x l1 -> e_id x = id -> ~ eligible cv now x.

Definition says_endpoint cv now es (id typ name b : string) (s : svc) : Prop :=
  exists e r, chosen cv now es id e /\ In r (e_roles e) /\ r_kind r = typ /\ saml2 r /\
              In s (r_svcs r) /\ s_name s = name /\ s_binding s = b.
Definition says_cert cv now es (id typ use c : string) : Prop :=
  exists e r k, chosen cv now es id e /\ In r (e_roles e) /\ r_kind r = typ /\ saml2 r /\
                In k (r_keys r) /\ (k_use k = None \/ k_use k = Some use) /\ k_cert k = c.
Definition says_reqattr cv now es (id : string) (index : option string) (required : bool) (n : string) : Prop :=
  exists e r a q, chosen cv now es id e /\ In r (e_roles e) /\ r_kind r = K_SPSSO /\ saml2 r /\
                  In a (r_acs r) /\ (forall i, index = Some i -> ac_index a = i) /\ In q (ac_attrs a) /\
                  ra_name q = n /\ (required = true <-> ra_req q = Some "true").
Definition says_category cv now es (id c : string) : Prop :=
  exists e vals, chosen cv now es id e /\ In (ENTITY_CATEGORY, vals) (e_attrs e) /\ In c vals.
Definition says_registration cv now es (id auth : string) (inst : option string) : Prop :=
  exists e g rest, chosen cv now es id e /\ e_regs e = g :: rest /\ rg_auth g = auth /\ rg_inst g = inst.

(* the same as a function: the view a usable document gives *)
Definition eligible_b (cv : bool) (now : Z) (e : ent) : bool :=
  negb (cv && expired now (e_vu e)) && (existsb supports_saml2 (e_roles e) || e_affil e).
Fixpoint view (cv : bool) (now : Z) (es : list ent) : emap :=
  match es with
  | [] => []
  | e :: r => if eligible_b cv now e then (e_id e, prune e) :: remove_key (e_id e) (view cv now r)
              else view cv now r
  end.

(* the entity descriptors a payload offers; None: the document cannot be used at all
   (not XML, required XML attribute missing, EntitiesDescriptor past its validUntil) *)
Definition doc_says (cv : bool) (now : Z) (p : payload) : option (list ent) :=
  match p with
  | Garbage => None
  | WrongRoot => Some []
  | D (Single e) => Some [e]
  | D (Group vu es) =>
      match schema_check es with
      | CkMust => None
      | CkNotValid => Some []
      | CkOk => if cv && expired now vu then None else Some es
      end
  end.

Definition sig_valid (sg : sigstate) : bool := match sg with SigValid => true | _ => false end.

(* was a verification certificate configured for the source?  (load("inline", text) and load("local", file)
   have no such parameter; a list-style item (name, cert) has, for every loader class) *)
Definition cfg_cert (ns : bool) (sp : srcspec) : bool :=
  match sp_kind sp with KInline | KFile => ns && sp_cert sp | _ => sp_cert sp end.

(* is validity checking on for the source?  It is, unless it was switched off for it, and the only sources for
   which the API offers a switch are remote ones described by a dictionary (old-style specification):
   the item's own check_validity = False, or the store-wide check_validity = False, which imp() applies to the
   dictionary items it is handed.  A check_validity key that is NOT given leaves checking on; a list-style
   item, an inline text and a local file have no switch. *)
Definition cv_switched_off (ns : bool) (sp : srcspec) : bool :=
  match sp_kind sp with
  | KRemote => negb ns && ((sp_imp sp && negb (sp_scv sp))
                           || match sp_cv sp with Some false => true | _ => false end)
  | _ => false
  end.
Definition cfg_cv (ns : bool) (sp : srcspec) : bool := negb (cv_switched_off ns sp).

Definition nonempty {A} (l : list A) : bool := match l with [] => false | _ => true end.

(* what an accepted load contributes; None: it must not have been accepted (a certificate is configured,
   the document says something, and its signature does not verify) *)
Definition accept (ns : bool) (now : Z) (sp : srcspec) (f : fetched) : option emap :=
  match f with
  | FMissing => None
  | FBody p sg =>
      match doc_says (cfg_cv ns sp) now p with
      | None => None
      | Some es =>
          let v := view (cfg_cv ns sp) now es in
          if cfg_cert ns sp && negb (sig_valid sg) && nonempty v then None else Some v
      end
  end.

(* ================================================================= Part 2: the reference store *)
Inductive rsource :=
| RStatic (v : emap)
| RMdq (cert : bool) (period : Z) (cache : list (string * (ent * Z))).
Definition rsources := list (option string * rsource).
Record rworld := { r_srcs : rsources; r_now : Z; r_srv : server }.

(* configured name of a source; None: an inline text given to load(), which never replaces anything *)
Definition okey (ns : bool) (sp : srcspec) : option string :=
  match sp_kind sp with KInline => if ns then Some (sp_key sp) else None | _ => Some (sp_key sp) end.
Definition okey_eqb (a b : option string) : bool :=
  match a, b with Some x, Some y => String.eqb x y | _, _ => false end.
Fixpoint oupsert (k : option string) (v : rsource) (l : rsources) : rsources :=
  match l with
  | [] => [(k, v)]
  | (k', v') :: r => if okey_eqb k k' then (k, v) :: r else (k', v') :: oupsert k v r
  end.

Definition ref_load1 (ns : bool) (now : Z) (srcs : rsources) (sp : srcspec) (f : fetched) : option rsources :=
  match sp_kind sp with
  | KMdq => Some (oupsert (okey ns sp) (RMdq (sp_cert sp) (sp_period sp) []) srcs)
  | _ => match accept ns now sp f with
         | Some v => Some (oupsert (okey ns sp) (RStatic v) srcs)
         | None => None
         end
  end.
Fixpoint ref_imp (ns : bool) (now : Z) (srcs : rsources) (items : list (srcspec * fetched)) : option rsources :=
  match items with
  | [] => Some srcs
  | (sp, f) :: r => match ref_load1 ns now srcs sp f with
                    | Some srcs' => ref_imp ns now srcs' r
                    | None => None
                    end
  end.

(* ideal MDQ cache *)
(* under a certificate the answer must be an EntityDescriptor (the element MDQ signs) with a valid signature *)
Definition mdq_sig_ok (cert : bool) (p : payload) (sg : sigstate) : bool :=
  negb cert || (sig_valid sg && negb (is_group p)).
(* what a current answer says about the entity asked for — nothing else of the answer counts *)
Definition mdq_fresh (cert : bool) (now : Z) (srv : server) (e : string) : option ent :=
  match ask srv e with
  | FBody p sg =>
      match doc_says true now p with
      | Some es => if mdq_sig_ok cert p sg then lookup e (view true now es) else None
      | None => None
      end
  | FMissing => None
  end.
Definition mdq_get (cert : bool) (period now : Z) (srv : server) (cache : list (string * (ent * Z))) (e : string)
  : list (string * (ent * Z)) * option ent :=
  let refresh c := match mdq_fresh cert now srv e with
                   | Some en => (c ++ [(e, (en, (now + period)%Z))], Some en)
                   | None => (c, None)
                   end in
  match lookup e cache with
  | Some (en, t) => if (now <=? t)%Z then (cache, Some en) else refresh (remove_key e cache)
  | None => refresh cache
  end.

Definition rents (s : rsource) : list (string * ent) :=
  match s with RStatic v => v | RMdq _ _ c => map (fun kv => (fst kv, fst (snd kv))) c end.

Definition rsrc_get (now : Z) (srv : server) (s : rsource) (e : string) : rsource * option ent :=
  match s with
  | RStatic v => (s, lookup e v)
  | RMdq cert period c => let '(c', r) := mdq_get cert period now srv c e in (RMdq cert period c', r)
  end.

(* the entity as served: from the first source that has it *)
Fixpoint ref_get (now : Z) (srv : server) (srcs : rsources) (e : string) : rsources * option ent :=
  match srcs with
  | [] => ([], None)
  | (k, s) :: r =>
      let '(s', g) := rsrc_get now srv s e in
      match g with
      | Some en => ((k, s') :: r, Some en)
      | None => let '(r', a) := ref_get now srv r e in ((k, s') :: r', a)
      end
  end.

Fixpoint ref_attr_req (now : Z) (srv : server) (srcs : rsources) (e : string) (index : option string)
  : rsources * answer :=
  match srcs with
  | [] => ([], ANone)
  | (k, s) :: r =>
      if has_key e (rents s) then
        let '(s', g) := rsrc_get now srv s e in
        ((k, s') :: r, match g with Some en => ent_attr_req en index | None => AKeyErr end)
      else let '(r', a) := ref_attr_req now srv r e index in ((k, s) :: r', a)
  end.

(* with_descriptor: every entity from its first home *)
Fixpoint ref_with (srcs : rsources) (seen : list string) (kind : string) : list (string * list string) :=
  match srcs with
  | [] => []
  | (k, s) :: r =>
      map (fun ke => (fst ke, locs (snd ke)))
          (filter (fun ke => negb (mem (fst ke) seen) && has_descriptor (snd ke) kind) (rents s))
      ++ ref_with r (seen ++ map fst (rents s)) kind
  end.

Definition ref_via (now : Z) (srv : server) (srcs : rsources) (e : string) (none : answer) (f : ent -> answer)
  : rsources * answer :=
  let '(srcs', g) := ref_get now srv srcs e in
  (srcs', match g with Some en => f en | None => none end).

Definition ref_answer (now : Z) (srv : server) (srcs : rsources) (q : query) : rsources * answer :=
  match q with
  | QGet e => ref_via now srv srcs e AKeyErr (fun en => AEnt (e_affil en) (fp en))
  | QService e typ name b => ref_via now srv srcs e AUnknown (fun en => svc_answer en typ name b)
  | QSso e b => ref_via now srv srcs e AUnknown (fun en => svc_answer en K_IDPSSO N_SSO (dflt b BINDING_HTTP_REDIRECT))
  | QAcs e b => ref_via now srv srcs e AUnknown (fun en => svc_answer en K_SPSSO N_ACS (dflt b BINDING_HTTP_POST))
  | QCerts e d u => ref_via now srv srcs e AKeyErr (fun en => ent_certs en d u)
  | QAttrReq e i => ref_attr_req now srv srcs e i
  | QCats e => ref_via now srv srcs e (ACats []) (fun en => ACats (ent_cats en))
  | QReg e => ref_via now srv srcs e (AReg None None []) ent_reg
  | QKeys => (srcs, AKeys (flat_map (fun ks => map fst (rents (snd ks))) srcs))
  | QWith kind => (srcs, AWith (ref_with srcs [] kind))
  end.

(* "nothing is served" has several faces (KeyError, UnknownSystemEntity, UnsupportedBinding,
   None, an escaping SignatureError); the property does not tell them apart *)
Definition norm (a : answer) : answer :=
  match a with
  | ARaise | AKeyErr | AUnknown | AUnsupported | ANone => ANone
  | ACats [] => ANone
  | AReg None None [] => ANone
  | _ => a
  end.

Definition rinit (now : Z) : rworld := {| r_srcs := []; r_now := now; r_srv := [] |}.
Definition with_srcs (w : rworld) (s : rsources) : rworld := {| r_srcs := s; r_now := r_now w; r_srv := r_srv w |}.

(* the property over a history [h] and the outputs [obs] observed on it *)
Fixpoint spec (w : rworld) (h : list op) (obs : list answer) : Prop :=
  match h with
  | [] => obs = []
  | OTick dt :: r => spec {| r_srcs := r_srcs w; r_now := (r_now w + dt)%Z; r_srv := r_srv w |} r obs
  | OServer t :: r => spec {| r_srcs := r_srcs w; r_now := r_now w; r_srv := t |} r obs
  | OLoad ns sp f :: r =>
      match obs with
      | AFlag true :: obs' => exists s, ref_load1 ns (r_now w) (r_srcs w) sp f = Some s /\ spec (with_srcs w s) r obs'
      | AFlag false :: obs' => spec w r obs'
      | _ => False
      end
  | OReload ns items :: r =>
      match obs with
      | AFlag true :: obs' => exists s, ref_imp ns (r_now w) [] items = Some s /\ spec (with_srcs w s) r obs'
      | AFlag false :: obs' => spec w r obs'
      | _ => False
      end
  | OQuery q :: r =>
      match obs with
      | a :: obs' => norm a = norm (snd (ref_answer (r_now w) (r_srv w) (r_srcs w) q))
                     /\ spec (with_srcs w (fst (ref_answer (r_now w) (r_srv w) (r_srcs w) q))) r obs'
      | [] => False
      end
  end.

(* ------------------------------------------------ executable form + class of the first failure *)
(* a load was accepted that must not have been:
     class 3  the document is not signed at all (parse_and_check_signature lets it pass)
     class 6  an inline source given as list-style item (text, cert): InMemoryMetaData never verifies *)
Definition load_class (ns : bool) (now : Z) (sp : srcspec) (f : fetched) : nat :=
  match f with
  | FBody (D d) sg =>
      if cfg_cert ns sp && negb (sig_valid sg)
         && match doc_says (cfg_cv ns sp) now (D d) with Some es => nonempty (view (cfg_cv ns sp) now es) | None => false end
      then match sp_kind sp, sg with
           | KInline, _ => 6
           | _, Unsigned => 3
           | _, _ => 99
           end
      else 99
  | _ => 99
  end.
Definition items_class (ns : bool) (now : Z) (items : list (srcspec * fetched)) : nat :=
  match find (fun it => negb (Nat.eqb (load_class ns now (fst it) (snd it)) 99)) items with
  | Some it => load_class ns now (fst it) (snd it)
  | None => 99
  end.

(* more than one source has, or (MDQ) may produce, the entity *)
Definition may_have (s : rsource) (e : string) : bool :=
  match s with RStatic v => has_key e v | RMdq _ _ _ => true end.
Definition multi_home (srcs : rsources) (e : string) : bool :=
  Nat.ltb 1 (length (filter (fun ks => may_have (snd ks) e) srcs)).
Definition has_mdq (srcs : rsources) : bool :=
  existsb (fun ks => match snd ks with RMdq _ _ _ => true | _ => false end) srcs.
Definition mdq_cert (srcs : rsources) : bool :=
  existsb (fun ks => match snd ks with RMdq c _ _ => c | _ => false end) srcs.
(* answers of the MDQ server that leave parsed-but-unverified or foreign entities behind *)
Definition dirty_answer (cert : bool) (ef : string * fetched) : bool :=
  match snd ef with
  | FBody (D (Single d)) sg => negb (String.eqb (e_id d) (fst ef)) || (cert && negb (sig_valid sg) && is_signed sg)
  | FBody (D (Group _ _)) _ => true
  | _ => false
  end.
Definition unsigned_answer (ef : string * fetched) : bool :=
  match snd ef with FBody (D _) Unsigned => true | _ => false end.

Definition is_raise (a : answer) : bool := match a with ARaise => true | _ => false end.
Definition q_ent (q : query) : option string :=
  match q with
  | QGet e | QService e _ _ _ | QSso e _ | QAcs e _ | QCerts e _ _ | QAttrReq e _ | QCats e | QReg e => Some e
  | QKeys | QWith _ => None
  end.
(* the MDQ server's current answer for the entity asked about is an EntitiesDescriptor *)
Definition group_answer (srv : server) (q : query) : bool :=
  match q_ent q with
  | Some e => match ask srv e with FBody (D (Group _ _)) _ => true | _ => false end
  | None => false
  end.
Definition query_class (w : rworld) (seen : list server) (q : query) (a : answer) : nat :=
  let srcs := r_srcs w in
  if has_mdq srcs && is_raise a then (if group_answer (r_srv w) q then 7 else 5)
  else if has_mdq srcs && existsb (fun t => existsb (dirty_answer (mdq_cert srcs)) t) seen then 4
  else if has_mdq srcs && mdq_cert srcs && existsb (fun t => existsb unsigned_answer t) seen then 3
  else match q with
       | QService e _ _ _ | QSso e _ | QAcs e _ => if multi_home srcs e then 1 else 99
       | QWith kind => if existsb (fun ke => multi_home srcs (fst ke)) (ref_with srcs [] kind)
                          || existsb (fun ks => existsb (fun ke => has_descriptor (snd ke) kind && multi_home srcs (fst ke))
                                                        (rents (snd ks))) srcs
                       then 2 else 99
       | QKeys => if has_mdq srcs && Nat.ltb 1 (length srcs) then 1 else 99   (* fetches caused by fall-through *)
       | _ => 99
       end.

(* 0 = the outputs conform; otherwise the class of the first failure (99 = none) *)
Fixpoint check (w : rworld) (seen : list server) (h : list op) (obs : list answer) : nat :=
  match h with
  | [] => match obs with [] => 0 | _ => 99 end
  | OTick dt :: r => check {| r_srcs := r_srcs w; r_now := (r_now w + dt)%Z; r_srv := r_srv w |} seen r obs
  | OServer t :: r => check {| r_srcs := r_srcs w; r_now := r_now w; r_srv := t |} (t :: seen) r obs
  | OLoad ns sp f :: r =>
      match obs with
      | AFlag true :: obs' => match ref_load1 ns (r_now w) (r_srcs w) sp f with
                              | Some s => check (with_srcs w s) seen r obs'
                              | None => load_class ns (r_now w) sp f
                              end
      | AFlag false :: obs' => check w seen r obs'
      | _ => 99
      end
  | OReload ns items :: r =>
      match obs with
      | AFlag true :: obs' => match ref_imp ns (r_now w) [] items with
                              | Some s => check (with_srcs w s) seen r obs'
                              | None => items_class ns (r_now w) items
                              end
      | AFlag false :: obs' => check w seen r obs'
      | _ => 99
      end
  | OQuery q :: r =>
      match obs with
      | a :: obs' =>
          let ra := ref_answer (r_now w) (r_srv w) (r_srcs w) q in
          if answer_eqb (norm a) (norm (snd ra)) then check (with_srcs w (fst ra)) seen r obs'
          else query_class w seen q a
      | [] => 99
      end
  end.

Definition spec_b (w : rworld) (h : list op) (obs : list answer) : bool := Nat.eqb (check w [r_srv w] h obs) 0.
