(* C11/Proofs.v *)
From Coq Require Import String List Bool ZArith Arith Lia.
From Verif Require Import Base.Str C11.Model C11.Dec C11.Spec.
Import ListNotations.
Open Scope string_scope.
Open Scope list_scope.

(* ------------------------------------------------------------------ dictionaries *)
Lemma has_key_lookup {A} k (l : list (string * A)) : has_key k l = true <-> exists v, lookup k l = Some v.
Proof.
  unfold has_key. destruct (lookup k l) as [v|]; split; try discriminate; eauto.
  intros [v Hv]; discriminate.
Qed.

Lemma has_key_false {A} k (l : list (string * A)) : has_key k l = false <-> lookup k l = None.
Proof. unfold has_key. destruct (lookup k l); split; congruence. Qed.

Lemma lookup_app {A} k (l1 l2 : list (string * A)) :
  lookup k (l1 ++ l2) = match lookup k l1 with Some v => Some v | None => lookup k l2 end.
Proof.
  induction l1 as [|[k' v] r IH]; cbn [lookup app]; [reflexivity|].
  destruct (String.eqb k k'); [reflexivity|exact IH].
Qed.

Lemma has_key_app {A} k (l1 l2 : list (string * A)) : has_key k (l1 ++ l2) = has_key k l1 || has_key k l2.
Proof. unfold has_key. rewrite lookup_app. destruct (lookup k l1); reflexivity. Qed.

Lemma remove_key_filter {A} k (l : list (string * A)) :
  remove_key k l = filter (fun kv => negb (String.eqb k (fst kv))) l.
Proof.
  induction l as [|[k' v] r IH]; cbn [remove_key filter fst]; [reflexivity|].
  destruct (String.eqb k k'); cbn [negb]; rewrite IH; reflexivity.
Qed.

Lemma lookup_remove_other {A} k k' (l : list (string * A)) :
  k <> k' -> lookup k (remove_key k' l) = lookup k l.
Proof.
  intros Hne. induction l as [|[k2 v] r IH]; cbn [remove_key lookup]; [reflexivity|].
  destruct (String.eqb k' k2) eqn:E.
  - apply String.eqb_eq in E. subst k2. rewrite IH.
    destruct (String.eqb k k') eqn:E2; [apply String.eqb_eq in E2; contradiction|reflexivity].
  - cbn [lookup]. rewrite IH. reflexivity.
Qed.

Lemma lookup_remove_same {A} k (l : list (string * A)) : lookup k (remove_key k l) = None.
Proof.
  induction l as [|[k2 v] r IH]; cbn [remove_key lookup]; [reflexivity|].
  destruct (String.eqb k k2) eqn:E; [exact IH|]. cbn [lookup]. rewrite E. exact IH.
Qed.

Lemma lookup_In {A} k (l : list (string * A)) v : lookup k l = Some v -> In (k, v) l.
Proof.
  induction l as [|[k2 v2] r IH]; cbn [lookup]; [discriminate|].
  destruct (String.eqb k k2) eqn:E.
  - apply String.eqb_eq in E. subst. intros H; inversion H; left; reflexivity.
  - intros H. right. apply IH; exact H.
Qed.

Lemma filter_filter {A} (p q : A -> bool) l : filter p (filter q l) = filter (fun x => q x && p x) l.
Proof.
  induction l as [|x r IH]; cbn [filter]; [reflexivity|].
  destruct (q x); cbn [filter andb]; [destruct (p x)|]; rewrite IH; reflexivity.
Qed.

Lemma filter_ext_in' {A} (p q : A -> bool) l : (forall x, In x l -> p x = q x) -> filter p l = filter q l.
Proof.
  induction l as [|x r IH]; intros H; cbn [filter]; [reflexivity|].
  rewrite (H x (or_introl eq_refl)), IH; [reflexivity|]. intros y Hy. apply H. right; exact Hy.
Qed.

Lemma filter_true {A} (l : list A) : filter (fun _ => true) l = l.
Proof. induction l as [|x r IH]; cbn [filter]; [reflexivity|rewrite IH; reflexivity]. Qed.

(* ------------------------------------------------------------------ eligibility *)
Lemma supports_saml2_iff r : supports_saml2 r = true <-> saml2 r.
Proof. unfold supports_saml2, saml2. apply mem_In. Qed.

Lemma flag_iff e : flag e = true <-> servable e.
Proof.
  unfold flag, servable. rewrite orb_true_iff, existsb_exists. split.
  - intros [[r [Hr Hs]]|Ha]; [left; exists r; split; [exact Hr|apply supports_saml2_iff; exact Hs]|right; exact Ha].
  - intros [[r [Hr Hs]]|Ha]; [left; exists r; split; [exact Hr|apply supports_saml2_iff; exact Hs]|right; exact Ha].
Qed.

Lemma current_iff cv now e : negb (cv && expired now (e_vu e)) = true <-> current cv now e.
Proof.
  unfold current, expired. destruct cv; cbn [andb negb].
  - destruct (e_vu e) as [t|].
    + rewrite negb_true_iff, Z.ltb_ge. split.
      * intros H _ t' E. inversion E; subst. exact H.
      * intros H. apply (H eq_refl t eq_refl).
    + split; [intros _ _ t E; discriminate|reflexivity].
  - split; [intros _ H; discriminate|reflexivity].
Qed.

Lemma eligible_b_iff cv now e : eligible_b cv now e = true <-> eligible cv now e.
Proof.
  unfold eligible_b, eligible. rewrite andb_true_iff, current_iff. fold (flag e). rewrite flag_iff. tauto.
Qed.

(* do_entity in terms of eligibility *)
Lemma do_entity_eq cv now m e :
  do_entity cv now m e =
  if eligible_b cv now e && negb (has_key (e_id e) m) then m ++ [(e_id e, prune e)] else m.
Proof.
  unfold do_entity, eligible_b. fold (flag e).
  destruct (cv && expired now (e_vu e)); cbn [negb andb]; [reflexivity|].
  destruct (has_key (e_id e) m); cbn [negb]; [rewrite andb_false_r; reflexivity|].
  rewrite andb_true_r. destruct (flag e); reflexivity.
Qed.

(* ------------------------------------------------------------------ parse = view *)
Definition drop_keys (m l : emap) : emap := filter (fun kv => negb (has_key (fst kv) m)) l.

Lemma fold_do_entity cv now es : forall m,
  fold_left (do_entity cv now) es m = m ++ drop_keys m (view cv now es).
Proof.
  induction es as [|e r IH]; intros m; cbn [fold_left view].
  - unfold drop_keys. cbn. rewrite app_nil_r. reflexivity.
  - rewrite do_entity_eq. destruct (eligible_b cv now e) eqn:El; cbn [andb].
    + destruct (has_key (e_id e) m) eqn:Hk; cbn [negb].
      * rewrite IH. f_equal. unfold drop_keys. cbn [filter fst]. rewrite Hk. cbn [negb].
        rewrite remove_key_filter, filter_filter. apply filter_ext_in'. intros [k v] _. cbn [fst].
        destruct (String.eqb (e_id e) k) eqn:E; cbn [negb andb]; [|reflexivity].
        apply String.eqb_eq in E. subst k. rewrite Hk. reflexivity.
      * rewrite IH. rewrite <- app_assoc. f_equal. cbn [app]. unfold drop_keys. cbn [filter fst]. rewrite Hk.
        cbn [negb]. f_equal. rewrite remove_key_filter, filter_filter. apply filter_ext_in'.
        intros [k v] _. cbn [fst]. rewrite has_key_app. unfold has_key at 2. cbn [lookup].
        rewrite (String.eqb_sym k (e_id e)).
        destruct (String.eqb (e_id e) k); cbn [negb andb orb]; [rewrite orb_true_r; reflexivity|].
        rewrite orb_false_r. reflexivity.
    + apply IH.
Qed.

Lemma parse_entities_view cv now es : fold_left (do_entity cv now) es [] = view cv now es.
Proof. rewrite fold_do_entity. cbn [app]. unfold drop_keys. cbn. apply filter_true. Qed.

(* the static part of parse(), in terms of the specification's doc_says / view *)
Lemma parse_doc_says cv now p :
  parse cv now [] p = match doc_says cv now p with Some es => Some (view cv now es) | None => None end.
Proof.
  destruct p as [| |[e|vu es]]; cbn [parse doc_says]; try reflexivity.
  - change (do_entity cv now [] e) with (fold_left (do_entity cv now) [e] []).
    rewrite parse_entities_view. reflexivity.
  - destruct (schema_check es); try reflexivity.
    destruct (cv && expired now vu); [reflexivity|]. rewrite parse_entities_view. reflexivity.
Qed.

(* ------------------------------------------------------------------ view = the declarative "chosen" *)
Lemma view_chosen cv now es id en :
  lookup id (view cv now es) = Some en <-> exists e, chosen cv now es id e /\ en = prune e.
Proof.
  induction es as [|e r IH]; cbn [view].
  - cbn [lookup]. split; [discriminate|]. intros [e [[l1 [l2 [H _]]] _]]. destruct l1; discriminate.
  - destruct (eligible_b cv now e) eqn:El.
    + cbn [lookup]. destruct (String.eqb id (e_id e)) eqn:E.
      * apply String.eqb_eq in E. split.
        -- intros H. inversion H; subst en. exists e. split; [|reflexivity].
           exists [], r. split; [reflexivity|]. split; [symmetry; exact E|]. split; [apply eligible_b_iff; exact El|].
           intros x [].
        -- intros [e' [[l1 [l2 [H1 [H2 [H3 H4]]]]] ->]]. destruct l1 as [|y l1].
           ++ cbn in H1. inversion H1; subst. reflexivity.
           ++ cbn in H1. inversion H1; subst y. exfalso. apply (H4 e (or_introl eq_refl)); [symmetry; exact E|].
              apply eligible_b_iff; exact El.
      * apply String.eqb_neq in E. rewrite (lookup_remove_other _ _ _ E), IH. split.
        -- intros [e' [[l1 [l2 [H1 [H2 [H3 H4]]]]] ->]]. exists e'. split; [|reflexivity].
           exists (e :: l1), l2. split; [cbn; rewrite H1; reflexivity|]. split; [exact H2|]. split; [exact H3|].
           intros x [<-|Hx] Hid; [congruence|apply H4; assumption].
        -- intros [e' [[l1 [l2 [H1 [H2 [H3 H4]]]]] ->]]. exists e'. split; [|reflexivity].
           destruct l1 as [|y l1]; cbn in H1; inversion H1; subst; [congruence|].
           exists l1, l2. split; [reflexivity|]. split; [reflexivity|]. split; [exact H3|].
           intros x Hx. apply H4. right; exact Hx.
    + rewrite IH. split.
      * intros [e' [[l1 [l2 [H1 [H2 [H3 H4]]]]] ->]]. exists e'. split; [|reflexivity].
        exists (e :: l1), l2. split; [cbn; rewrite H1; reflexivity|]. split; [exact H2|]. split; [exact H3|].
        intros x [<-|Hx] Hid; [rewrite <- eligible_b_iff, El; discriminate|apply H4; assumption].
      * intros [e' [[l1 [l2 [H1 [H2 [H3 H4]]]]] ->]]. exists e'. split; [|reflexivity].
        destruct l1 as [|y l1]; cbn in H1; inversion H1; subst.
        -- apply eligible_b_iff in H3. congruence.
        -- exists l1, l2. split; [reflexivity|]. split; [reflexivity|]. split; [exact H3|].
           intros x Hx. apply H4. right; exact Hx.
Qed.

Lemma view_none cv now es id :
  lookup id (view cv now es) = None <-> forall e, In e es -> e_id e = id -> ~ eligible cv now e.
Proof.
  induction es as [|e r IH]; cbn [view].
  - cbn. split; [intros _ e []|reflexivity].
  - destruct (eligible_b cv now e) eqn:El.
    + cbn [lookup]. destruct (String.eqb id (e_id e)) eqn:E.
      * apply String.eqb_eq in E. split; [discriminate|]. intros H. exfalso.
        apply (H e (or_introl eq_refl) (eq_sym E)). apply eligible_b_iff; exact El.
      * apply String.eqb_neq in E. rewrite (lookup_remove_other _ _ _ E), IH. split.
        -- intros H x [<-|Hx] Hid; [congruence|apply H; assumption].
        -- intros H x Hx. apply H. right; exact Hx.
    + rewrite IH. split.
      * intros H x [<-|Hx] Hid; [rewrite <- eligible_b_iff, El; discriminate|apply H; assumption].
      * intros H x Hx. apply H. right; exact Hx.
Qed.

(* ------------------------------------------------------------------ the executable spec IS the spec *)
Lemma load_class_nz ns now sp f : load_class ns now sp f <> 0.
Proof.
  unfold load_class. destruct f as [|[| |d] sg]; try discriminate.
  destruct (_ && _ && _); [|discriminate]. destruct (sp_kind sp), sg; discriminate.
Qed.

Lemma items_class_nz ns now items : items_class ns now items <> 0.
Proof. unfold items_class. destruct (find _ items); [apply load_class_nz|discriminate]. Qed.

Lemma query_class_nz w seen q a : query_class w seen q a <> 0.
Proof.
  unfold query_class.
  repeat match goal with |- context [if ?c then _ else _] => destruct c; try discriminate end;
    destruct q; try discriminate;
    repeat match goal with |- context [if ?c then _ else _] => destruct c; try discriminate end.
Qed.

Lemma check_spec h : forall w seen obs, check w seen h obs = 0 <-> spec w h obs.
Proof.
  induction h as [|o r IH]; intros w seen obs.
  - cbn [check spec]. destruct obs; split; congruence.
  - destruct o as [ns sp f|ns items|dt|tbl|q]; cbn [check spec].
    + destruct obs as [|a obs']; [split; [discriminate|contradiction]|].
      destruct a; try (split; [discriminate|contradiction]). destruct ok.
      * destruct (ref_load1 ns (r_now w) (r_srcs w) sp f) as [s|].
        -- rewrite IH. split; [intros H; exists s; auto|intros [s' [E H]]; inversion E; subst; exact H].
        -- split; [intros H; exfalso; eapply load_class_nz; eauto|intros [s' [E _]]; discriminate].
      * apply IH.
    + destruct obs as [|a obs']; [split; [discriminate|contradiction]|].
      destruct a; try (split; [discriminate|contradiction]). destruct ok.
      * destruct (ref_imp ns (r_now w) [] items) as [s|].
        -- rewrite IH. split; [intros H; exists s; auto|intros [s' [E H]]; inversion E; subst; exact H].
        -- split; [intros H; exfalso; eapply items_class_nz; eauto|intros [s' [E _]]; discriminate].
      * apply IH.
    + apply IH.
    + apply IH.
    + destruct obs as [|a obs']; [split; [discriminate|contradiction]|].
      destruct (answer_eqb (norm a) (norm (snd (ref_answer (r_now w) (r_srv w) (r_srcs w) q)))) eqn:E.
      * apply answer_eqb_eq in E. rewrite IH. tauto.
      * split; [intros H; exfalso; eapply query_class_nz; eauto|].
        intros [H _]. apply answer_eqb_eq in H. congruence.
Qed.

Lemma spec_b_iff w h obs : spec_b w h obs = true <-> spec w h obs.
Proof. unfold spec_b. rewrite Nat.eqb_eq. apply check_spec. Qed.

(* ------------------------------------------------------------------ more dictionary facts *)
Lemma lookup_upsert_same {A} k (v : A) l : lookup k (upsert k v l) = Some v.
Proof.
  induction l as [|[k' v'] r IH]; cbn [upsert lookup].
  - rewrite String.eqb_refl. reflexivity.
  - destruct (String.eqb k k') eqn:E; cbn [lookup]; [rewrite String.eqb_refl; reflexivity|rewrite E; exact IH].
Qed.

Lemma lookup_upsert_other {A} k k2 (v : A) l : k2 <> k -> lookup k2 (upsert k v l) = lookup k2 l.
Proof.
  intros Hne. induction l as [|[k' v'] r IH]; cbn [upsert lookup].
  - destruct (String.eqb k2 k) eqn:E; [apply String.eqb_eq in E; contradiction|reflexivity].
  - destruct (String.eqb k k') eqn:E; cbn [lookup].
    + apply String.eqb_eq in E. subst k'.
      destruct (String.eqb k2 k) eqn:E2; [apply String.eqb_eq in E2; contradiction|reflexivity].
    + destruct (String.eqb k2 k'); [reflexivity|exact IH].
Qed.

Lemma has_key_upsert {A} k k2 (v : A) l : has_key k2 (upsert k v l) = String.eqb k2 k || has_key k2 l.
Proof.
  unfold has_key. destruct (String.eqb k2 k) eqn:E.
  - apply String.eqb_eq in E. subst. rewrite lookup_upsert_same. reflexivity.
  - apply String.eqb_neq in E. rewrite (lookup_upsert_other _ _ _ _ E). reflexivity.
Qed.

Lemma lookup_none_key {A} k (l : list (string * A)) kv : lookup k l = None -> In kv l -> fst kv <> k.
Proof.
  induction l as [|[k' v'] r IH]; cbn [lookup]; [intros _ []|].
  destruct (String.eqb k k') eqn:E; [discriminate|]. intros H [<-|Hin].
  - cbn. apply String.eqb_neq in E. congruence.
  - apply IH; assumption.
Qed.

Lemma lookup_some_haskey {A} k (l : list (string * A)) v : lookup k l = Some v -> has_key k l = true.
Proof. unfold has_key. intros ->. reflexivity. Qed.

Lemma has_key_remove {A} k k2 (l : list (string * A)) : has_key k2 (remove_key k l) = true -> has_key k2 l = true.
Proof.
  destruct (String.eqb k2 k) eqn:E.
  - apply String.eqb_eq in E. subst. unfold has_key. rewrite lookup_remove_same. discriminate.
  - apply String.eqb_neq in E. unfold has_key. rewrite (lookup_remove_other _ _ _ E). auto.
Qed.

