(* C11/Facts.v — facts about the model that hold for ALL inputs: what the code does now ([cur]), what it
   did before the repairs ([v0], with one refutation witness per repaired finding class), and an example history. *)
From Coq Require Import String List Bool ZArith Arith Lia.
From Verif Require Import Base.Str C11.Model C11.Dec C11.Spec C11.Proofs C11.Lookup C11.Sim.
Import ListNotations.
Open Scope string_scope.
Open Scope list_scope.

(* ------------------------------------------------------------------ load / reload (any flags) *)
Lemma reload_atomic fl ns now st items st' : reload fl ns now st items = (st', false) -> st_srcs st' = st_srcs st.
Proof.
  unfold reload. destruct (imp fl ns now _ items) as [st1 ok]. destruct ok; intros H; inversion H; reflexivity.
Qed.

Lemma reload_replaces fl ns now st items st' :
  reload fl ns now st items = (st', true) -> imp fl ns now {| st_srcs := []; st_ii := st_ii st |} items = (st', true).
Proof.
  unfold reload. destruct (imp fl ns now _ items) as [st1 ok]. destruct ok; intros H; inversion H; reflexivity.
Qed.

Lemma load_failure_adds_nothing fl ns now st sp f st' : load1 fl ns now st sp f = (st', false) -> st_srcs st' = st_srcs st.
Proof.
  unfold load1. destruct (sp_kind sp).
  1-3: destruct (load_static fl ns sp now f); intros H; inversion H; reflexivity.
  destruct ns; intros H; inversion H; reflexivity.
Qed.

Lemma imp_failure fl ns now : forall items st st',
  imp fl ns now st items = (st', false) ->
  exists pre it post st1 st2,
    items = pre ++ it :: post /\ imp fl ns now st pre = (st1, true) /\
    load1 fl ns now st1 (fst it) (snd it) = (st2, false) /\ st_srcs st' = st_srcs st1.
Proof.
  induction items as [|[sp f] r IH]; intros st st' H; [discriminate|].
  cbn [imp] in H. destruct (load1 fl ns now st sp f) as [st1 ok] eqn:El. destruct ok.
  - destruct (IH st1 st' H) as [pre [it [post [sa [sb [E1 [E2 [E3 E4]]]]]]]].
    exists ((sp, f) :: pre), it, post, sa, sb. subst r. split; [reflexivity|]. cbn [imp]. rewrite El. auto.
  - inversion H; subst. exists [], (sp, f), r, st, st'. cbn [fst snd app imp]. repeat split; auto.
    apply (load_failure_adds_nothing _ _ _ _ _ _ _ El).
Qed.

Lemma in_kupsert_new k v : forall l, In (k, v) (kupsert k v l).
Proof.
  induction l as [|[k0 v0] r IH]; cbn [kupsert]; [left; reflexivity|].
  destruct (key_eqb k k0); [left; reflexivity|right; exact IH].
Qed.

Lemma static_load_serves_view fl ns now st sp f st' :
  sp_kind sp <> KMdq -> load1 fl ns now st sp f = (st', true) ->
  exists p sg es k,
    f = FBody p sg /\ doc_says (eff_cv ns sp) now p = Some es /\
    sig_gate fl (eff_cert fl ns sp) (sp_kind sp) (eff_node ns sp) p sg = true /\
    In (k, SStatic (view (eff_cv ns sp) now es)) (st_srcs st').
Proof.
  intros Hk. unfold load1.
  assert (X : forall k ii, match load_static fl ns sp now f with
                 | Some m => ({| st_srcs := kupsert k (SStatic m) (st_srcs st); st_ii := ii |}, true)
                 | None => ({| st_srcs := st_srcs st; st_ii := ii |}, false)
                 end = (st', true) ->
          exists p sg es k, f = FBody p sg /\ doc_says (eff_cv ns sp) now p = Some es /\
            sig_gate fl (eff_cert fl ns sp) (sp_kind sp) (eff_node ns sp) p sg = true /\
            In (k, SStatic (view (eff_cv ns sp) now es)) (st_srcs st')).
  { intros k ii. unfold load_static. destruct f as [|p sg]; [discriminate|]. rewrite parse_doc_says.
    destruct (doc_says (eff_cv ns sp) now p) as [es|] eqn:Ed; [|discriminate].
    destruct (sig_gate _ _ _ _ p sg) eqn:Eg; [|discriminate]. intros H; inversion H; subst.
    exists p, sg, es, k. repeat split; auto. apply in_kupsert_new. }
  destruct (sp_kind sp); try apply X. contradiction.
Qed.

(* ---- validity checking: which sources have it on, and what that means for what is served.
   A source whose specification says nothing about check_validity (the ordinary way to configure one) has
   validity checking ON in a store whose own check_validity is on, whatever its kind and however it is handed
   to the store; only a remote source described by a dictionary can have it switched off. *)
Theorem validity_switch ns sp : eff_cv ns sp = cfg_cv ns sp.
Proof. apply eff_cv_cfg. Qed.

Theorem validity_default_on ns sp : sp_cv sp = None -> sp_scv sp = true -> eff_cv ns sp = true.
Proof.
  intros Hc Hs. unfold eff_cv. rewrite Hc, Hs. destruct (sp_kind sp), ns, (sp_imp sp); reflexivity.
Qed.

Theorem validity_off_only_remote_dict ns sp :
  eff_cv ns sp = false ->
  sp_kind sp = KRemote /\ ns = false /\ (sp_cv sp = Some false \/ (sp_imp sp = true /\ sp_scv sp = false)).
Proof.
  unfold eff_cv. destruct (sp_kind sp); try discriminate. destruct ns; [discriminate|].
  destruct (sp_imp sp), (sp_scv sp); cbn [andb negb]; destruct (sp_cv sp) as [[|]|]; try discriminate; intros _; auto.
Qed.

(* while validity checking is on for the source, a successful load serves no entity all of whose descriptors in the
   document are past their validUntil, and an EntitiesDescriptor past its own validUntil is a failed load *)
Theorem expired_entity_not_served fl ns sp now p sg m id :
  load_static fl ns sp now (FBody p sg) = Some m -> cfg_cv ns sp = true ->
  (forall es, doc_says true now p = Some es -> forall e, In e es -> e_id e = id -> expired now (e_vu e) = true) ->
  lookup id m = None.
Proof.
  unfold load_static. rewrite parse_doc_says, eff_cv_cfg. intros H Hcv Hexp. rewrite Hcv in H.
  destruct (doc_says true now p) as [es|] eqn:Ed; [|discriminate].
  destruct (sig_gate _ _ _ _ p sg); [|discriminate]. inversion H; subst. clear H.
  apply view_none. intros e Hin Hid [Hcur _].
  specialize (Hexp es eq_refl e Hin Hid). unfold expired in Hexp.
  destruct (e_vu e) as [t|] eqn:Ev; [|discriminate].
  specialize (Hcur eq_refl t Ev). apply Z.ltb_lt in Hexp. lia.
Qed.

(* (a schema-invalid EntitiesDescriptor says nothing at all: NotValid is swallowed before validUntil is looked at) *)
Theorem expired_group_adds_nothing fl ns sp now vu es sg m :
  cfg_cv ns sp = true -> expired now vu = true ->
  load_static fl ns sp now (FBody (D (Group vu es)) sg) = Some m -> m = [] /\ schema_check es = CkNotValid.
Proof.
  intros Hcv Hexp. unfold load_static. rewrite eff_cv_cfg, Hcv. cbn [parse andb]. rewrite Hexp.
  destruct (schema_check es); try discriminate.
  destruct (sig_gate _ _ _ _ _ sg); [|discriminate]. intros H; inversion H; auto.
Qed.
Theorem expired_group_fails fl ns sp now vu es sg :
  cfg_cv ns sp = true -> expired now vu = true -> schema_check es = CkOk ->
  load_static fl ns sp now (FBody (D (Group vu es)) sg) = None.
Proof.
  intros Hcv Hexp Hs. destruct (load_static fl ns sp now (FBody (D (Group vu es)) sg)) as [m|] eqn:E; [|reflexivity].
  destruct (expired_group_adds_nothing _ _ _ _ _ _ _ _ Hcv Hexp E) as [_ H]. rewrite Hs in H. discriminate.
Qed.

(* where a certificate is configured, a metadata document is loaded only if its signature verifies —
   signed or not, for every kind of static source (fafdf54c, a8da97db) *)
Theorem cert_needs_valid ns sp now d sg m :
  load_static cur ns sp now (FBody (D d) sg) = Some m -> cfg_cert ns sp = true -> sg = SigValid.
Proof.
  unfold load_static. destruct (parse _ now [] (D d)); [|discriminate].
  rewrite eff_cert_cur, sig_gate_cur_doc. intros H Hc. rewrite Hc in H. cbn [negb orb] in H.
  destruct sg; cbn in H; try discriminate. reflexivity.
Qed.

(* ------------------------------------------------------------------ static stores: precedence *)
Definition all_static (srcs : sources) : Prop := forall k s, In (k, s) srcs -> exists m, s = SStatic m.

Lemma all_static_cons k s r : all_static ((k, s) :: r) -> (exists m, s = SStatic m) /\ all_static r.
Proof. intros H. split; [apply (H k s); left; reflexivity|intros k' s' Hin; apply (H k' s'); right; exact Hin]. Qed.

Lemma all_static_app a b : all_static (a ++ b) -> all_static a /\ all_static b.
Proof. intros H. split; intros k s Hin; apply (H k s); apply in_or_app; auto. Qed.

(* __getitem__ (hence certs, entity_categories, registration_info, ...): the FIRST source that has the
   entity answers, whatever the later sources contain *)
Theorem first_source_wins_get fl now srv : forall pre k m post e en,
  all_static pre ->
  (forall k' s', In (k', s') pre -> has_key e (ents_of s') = false) -> lookup e m = Some en ->
  store_get fl now srv (pre ++ (k, SStatic m) :: post) e = (pre ++ (k, SStatic m) :: post, ROk en).
Proof.
  induction pre as [|[k0 s0] r IH]; intros k m post e en Hs Hpre Hl; cbn [app store_get src_get].
  - rewrite Hl. reflexivity.
  - apply all_static_cons in Hs as [[m0 ->] Hr]. cbn [src_get].
    pose proof (Hpre k0 (SStatic m0) (or_introl eq_refl)) as H0. cbn [ents_of] in H0. apply has_key_false in H0. rewrite H0.
    rewrite (IH k m post e en Hr); [reflexivity| |exact Hl]. intros k' s' Hin. apply (Hpre k' s'). right; exact Hin.
Qed.

(* service() (hence single_sign_on_service, assertion_consumer_service, ...): the same — the first source
   that has the entity answers for it, also when it has no endpoint for the binding (d8b1d2a4) *)
Theorem first_source_wins_service now srv typ name b : forall pre k m post e en,
  all_static pre ->
  (forall k' s', In (k', s') pre -> has_key e (ents_of s') = false) -> lookup e m = Some en ->
  store_service cur now srv (pre ++ (k, SStatic m) :: post) e typ name b
  = (pre ++ (k, SStatic m) :: post, svc_answer en typ name b).
Proof.
  unfold store_service. cbn [f_fall cur].
  induction pre as [|[k0 s0] r IH]; intros k m post e en Hs Hpre Hl; cbn [app store_service_new src_get].
  - rewrite Hl. cbn [src_get]. rewrite ?Hl. reflexivity.
  - apply all_static_cons in Hs as [[m0 ->] Hr]. cbn [src_get].
    pose proof (Hpre k0 (SStatic m0) (or_introl eq_refl)) as H0. cbn [ents_of] in H0. apply has_key_false in H0. rewrite H0.
    rewrite (IH k m post e en Hr); [reflexivity| |exact Hl]. intros k' s' Hin. apply (Hpre k' s'). right; exact Hin.
Qed.

(* an entity nobody has: UnknownSystemEntity, nothing changes *)
Theorem service_unknown now srv typ name b e : forall srcs,
  all_static srcs -> (forall k s, In (k, s) srcs -> has_key e (ents_of s) = false) ->
  store_service cur now srv srcs e typ name b = (srcs, AUnknown).
Proof.
  unfold store_service. cbn [f_fall cur].
  induction srcs as [|[k0 s0] r IH]; intros Hs Hn; [reflexivity|]. cbn [store_service_new].
  apply all_static_cons in Hs as [[m0 ->] Hr]. cbn [src_get].
  pose proof (Hn k0 (SStatic m0) (or_introl eq_refl)) as H0. cbn [ents_of] in H0. apply has_key_false in H0. rewrite H0.
  rewrite (IH Hr); [reflexivity|]. intros k s Hin. apply (Hn k s). right; exact Hin.
Qed.

(* with_descriptor(): every entity is listed from the first source that has it (18964551) *)
Lemma notin_keys_has_key {A} e (l : list (string * A)) : ~ In e (map fst l) -> has_key e l = false.
Proof.
  intros H. apply has_key_false. induction l as [|[k v] r IH]; [reflexivity|]. cbn [lookup].
  destruct (String.eqb e k) eqn:E; [apply String.eqb_eq in E; subst; exfalso; apply H; left; reflexivity|].
  apply IH. intros Hin. apply H. right; exact Hin.
Qed.

Theorem with_descriptor_first_wins kind e l : forall srcs seen,
  In (e, l) (with_new srcs seen kind) ->
  ~ In e seen /\
  exists pre k s post en,
    srcs = pre ++ (k, s) :: post /\ (forall k' s', In (k', s') pre -> has_key e (ents_of s') = false) /\
    In (e, en) (ents_of s) /\ has_descriptor en kind = true /\ l = locs en.
Proof.
  induction srcs as [|[k s] r IH]; intros seen H; [contradiction|].
  cbn [with_new] in H. apply in_app_or in H as [H|H].
  - apply in_map_iff in H as [[e' en] [E Hin]]. cbn [fst snd] in E. inversion E; subst e' l.
    apply filter_In in Hin as [Hin Hp]. cbn [fst snd] in Hp. apply andb_true_iff in Hp as [Hs Hd].
    split.
    + intros X. apply mem_In in X. rewrite X in Hs. discriminate.
    + exists [], k, s, r, en. cbn [app]. repeat split; auto. intros k' s' [].
  - destruct (IH _ H) as [Hn [pre [k1 [s1 [post [en [E [Hp [Hin [Hd Hl]]]]]]]]]].
    split; [intros X; apply Hn; apply in_or_app; left; exact X|].
    exists ((k, s) :: pre), k1, s1, post, en. subst r. split; [reflexivity|]. repeat split; auto.
    intros k' s' [X|X]; [|apply (Hp k' s' X)]. inversion X; subst k' s'.
    apply notin_keys_has_key. intros Y. apply Hn. apply in_or_app. right; exact Y.
Qed.

(* ------------------------------------------------------------------ what the code did before the repairs *)
Definition svc_nonempty (a : sres) : bool :=
  match a with SList (_ :: _) | SDict (_ :: _) => true | _ => false end.
(* service() before d8b1d2a4: the first source with a NON-EMPTY answer won *)
Theorem service_first_nonempty_v0 fl now srv e typ name b : forall pre k m post en known,
  all_static pre ->
  (forall k' m' en', In (k', SStatic m') pre -> lookup e m' = Some en' -> svc_nonempty (ent_service en' typ name b) = false) ->
  lookup e m = Some en -> svc_nonempty (ent_service en typ name b) = true ->
  snd (store_service_v0 fl now srv (pre ++ (k, SStatic m) :: post) e typ name b known) = svc_answer en typ name b.
Proof.
  induction pre as [|[k0 s0] r IH]; intros k m post en known Hs Hpre Hl Hn; cbn [app store_service_v0 src_get].
  - rewrite Hl. unfold svc_answer. destruct (ent_service en typ name b) as [| |[|x l]|[|x d]]; try discriminate; reflexivity.
  - apply all_static_cons in Hs as [[m0 ->] Hr]. cbn [src_get].
    assert (Hpre' : forall k' m' en', In (k', SStatic m') r -> lookup e m' = Some en' -> svc_nonempty (ent_service en' typ name b) = false)
      by (intros k' m' en' Hin; apply (Hpre k' m' en'); right; exact Hin).
    destruct (lookup e m0) as [en0|] eqn:E0.
    + pose proof (Hpre k0 m0 en0 (or_introl eq_refl) E0) as Hz.
      destruct (ent_service en0 typ name b) as [| |[|x l]|[|x d]]; try discriminate;
        match goal with |- context [store_service_v0 fl now srv ?S e typ name b ?K] =>
          specialize (IH k m post en K Hr Hpre' Hl Hn); destruct (store_service_v0 fl now srv S e typ name b K) end; exact IH.
    + specialize (IH k m post en known Hr Hpre' Hl Hn).
      destruct (store_service_v0 fl now srv (r ++ (k, SStatic m) :: post) e typ name b known). exact IH.
Qed.

(* with_descriptor() before 18964551: dict.update, the LAST source that lists the entity won *)
Definition upsert_all {A} (l acc : list (string * A)) := fold_left (fun acc' kv => upsert (fst kv) (snd kv) acc') l acc.
Lemma lookup_upsert_all {A} e : forall (l acc : list (string * A)),
  lookup e (upsert_all l acc) = match lookup e (rev l) with Some v => Some v | None => lookup e acc end.
Proof.
  induction l as [|[k v] r IH]; intros acc; [reflexivity|].
  unfold upsert_all in *. cbn [fold_left fst snd rev]. rewrite IH, lookup_app.
  destruct (lookup e (rev r)); [reflexivity|]. cbn [lookup].
  destruct (String.eqb e k) eqn:E.
  - apply String.eqb_eq in E. subst. apply lookup_upsert_same.
  - apply String.eqb_neq in E. apply lookup_upsert_other. exact E.
Qed.

Lemma with_v0_flat kind : forall (srcs : sources) acc,
  fold_left (fun acc ks => fold_left (fun acc' kv => upsert (fst kv) (snd kv) acc') (src_with (snd ks) kind) acc) srcs acc
  = upsert_all (flat_map (fun ks => src_with (snd ks) kind) srcs) acc.
Proof.
  induction srcs as [|ks r IH]; intros acc; [reflexivity|].
  cbn [fold_left flat_map]. rewrite IH. unfold upsert_all. rewrite fold_left_app. reflexivity.
Qed.

Theorem with_descriptor_last_wins_v0 srcs kind e :
  lookup e (with_v0 srcs kind) = lookup e (rev (flat_map (fun ks => src_with (snd ks) kind) srcs)).
Proof.
  unfold with_v0. rewrite with_v0_flat, lookup_upsert_all. destruct (lookup e (rev _)); reflexivity.
Qed.

(* ------------------------------------------------------------------ MDQ *)
Theorem mdq_fresh_served fl x now srv e en t :
  lookup e (x_ents x) = Some en -> lookup e (x_exp x) = Some t -> (now <= t)%Z -> mdx_get fl x now srv e = (x, ROk en).
Proof. intros H1 H2 H3. unfold mdx_get. rewrite H1, H2. apply Z.leb_le in H3. rewrite H3. reflexivity. Qed.

(* an expired entry is never answered from the cache: it is dropped and fetched again *)
Theorem mdq_expired_refetched fl x now srv e en t :
  lookup e (x_ents x) = Some en -> lookup e (x_exp x) = Some t -> (t < now)%Z ->
  mdx_get fl x now srv e =
  mdx_fetch fl {| x_ents := remove_key e (x_ents x); x_exp := x_exp x; x_cert := x_cert x; x_period := x_period x |} now srv e.
Proof.
  intros H1 H2 H3. unfold mdx_get. rewrite H1, H2.
  assert (E : (now <=? t)%Z = false) by (apply Z.leb_gt; exact H3). rewrite E. reflexivity.
Qed.

(* a fetch stores nothing but the entity that was asked for (254349bd): every other entry is untouched,
   whatever the server answers *)
Theorem mdq_only_asked_entity_stored x now srv e x' g k :
  mdx_fetch cur x now srv e = (x', g) -> k <> e -> lookup k (x_ents x') = lookup k (x_ents x).
Proof.
  unfold mdx_fetch. cbn [f_mdq f_group cur]. destruct (ask srv e) as [|p sg]; [intros H; inversion H; reflexivity|].
  destruct (parse true now [] p) as [m|]; [|intros H; inversion H; reflexivity].
  destruct (sig_gate cur (x_cert x) KMdq (Some false) p sg); [|intros H; inversion H; reflexivity].
  destruct (lookup e m); intros H Hk; inversion H; subst; cbn [x_ents]; [apply lookup_upsert_other; exact Hk|reflexivity].
Qed.

(* what a fetch serves passed the signature gate; under a certificate that means a metadata document
   with a VALID signature (fafdf54c + 254349bd) *)
Theorem mdq_served_verified x now srv e x' en :
  mdx_fetch cur x now srv e = (x', ROk en) ->
  exists d sg, ask srv e = FBody (D d) sg /\ (x_cert x = true -> sg = SigValid /\ is_group (D d) = false)
               /\ lookup e (x_ents x') = Some en.
Proof.
  unfold mdx_fetch. cbn [f_mdq f_group cur]. destruct (ask srv e) as [|p sg]; [discriminate|].
  destruct (parse true now [] p) as [m|] eqn:Ep; [|discriminate].
  destruct (sig_gate cur (x_cert x) KMdq (Some false) p sg) eqn:Eg; [|discriminate].
  destruct (lookup e m) as [en'|] eqn:El; [|discriminate]. intros H; inversion H; subst.
  destruct p as [| |d]; cbn in Ep; try discriminate.
  - inversion Ep; subst. discriminate.
  - exists d, sg. split; [reflexivity|]. split; [|cbn [x_ents]; apply lookup_upsert_same].
    intros Hc. rewrite sig_gate_cur_doc, Hc in Eg. cbn [negb orb] in Eg. apply andb_true_iff in Eg as [E1 E2].
    split; [destruct sg; try discriminate; reflexivity|]. destruct (is_group (D d)); [discriminate|reflexivity].
Qed.

(* a failed refresh of an expired entry (error status, malformed answer) serves nothing and nothing stays cached *)
Theorem mdq_failed_refresh x now srv e en t :
  lookup e (x_ents x) = Some en -> lookup e (x_exp x) = Some t -> (t < now)%Z ->
  (ask srv e = FMissing \/ exists sg, ask srv e = FBody Garbage sg) ->
  exists x', mdx_get cur x now srv e = (x', RKeyErr) /\ lookup e (x_ents x') = None.
Proof.
  intros H1 H2 H3 Ha. rewrite (mdq_expired_refetched cur x now srv e en t H1 H2 H3). unfold mdx_fetch. cbn [f_mdq f_group cur].
  destruct Ha as [Ha|[sg Ha]]; rewrite Ha; cbn [parse]; eexists; (split; [reflexivity|]); cbn [x_ents]; apply lookup_remove_same.
Qed.

Lemma mdq_get_none cert period now srv c e c' : mdq_get cert period now srv c e = (c', None) -> lookup e c' = None.
Proof.
  rewrite mdq_get_unfold. unfold refresh. destruct (lookup e c) as [[en t]|] eqn:El.
  - destruct (now <=? t)%Z; [discriminate|]. destruct (mdq_fresh cert now srv e); [discriminate|].
    intros H; inversion H; subst. apply lookup_remove_same.
  - destruct (mdq_fresh cert now srv e); [discriminate|]. intros H; inversion H; subst. exact El.
Qed.

(* whenever the MDQ source serves nothing for an entity it has nothing cached for it, and it never raises,
   whatever the server answers (254349bd, ab8ae013) *)
Theorem mdq_nothing_served_nothing_cached x now srv e x' g :
  mdx_inv x -> mdx_get cur x now srv e = (x', g) ->
  g <> RRaise /\ (res_opt g = None -> lookup e (x_ents x') = None).
Proof.
  intros Hi Hg. destruct (mdx_get_sim x now srv e x' g Hi Hg) as [H1 [_ [_ [_ H5]]]]. split; [exact H5|].
  intros Hn. rewrite Hn in H1.
  apply mdq_get_none in H1. rewrite lookup_abs_cache in H1. destruct (lookup e (x_ents x')); [discriminate|reflexivity].
Qed.

(* ------------------------------------------------------------------ refutations *)
Definition bRd := BINDING_HTTP_REDIRECT.
Definition bPo := BINDING_HTTP_POST.
Definition idp_ent (id loc binding : string) : ent :=
  Ent id None [Role K_IDPSSO [NS_SAML2P] [Svc N_SSO binding loc None] [Key (Some "signing") "idp"] []] false [] [].
Definition w_inline : srcspec :=
  {| sp_kind := KInline; sp_key := ""; sp_cert := false; sp_cv := None; sp_node := None; sp_period := 43200; sp_scv := true; sp_imp := false |}.
Definition w_remote_cert : srcspec :=
  {| sp_kind := KRemote; sp_key := "http://md.example.org/s1"; sp_cert := true; sp_cv := None; sp_node := None; sp_period := 43200; sp_scv := true; sp_imp := false |}.
Definition w_mdq (cert : bool) : srcspec :=
  {| sp_kind := KMdq; sp_key := "http://mdq.example.org/q1"; sp_cert := cert; sp_cv := None; sp_node := None; sp_period := 3600; sp_scv := true; sp_imp := false |}.
Definition docA := FBody (D (Single (idp_ent "urn:e1" "https://a.example.org/sso" bRd))) Unsigned.
Definition docB := FBody (D (Single (idp_ent "urn:e1" "https://b.example.org/sso" bPo))) Unsigned.

(* 1: the first source knows urn:e1 (Redirect only); the POST endpoint of the second source is served *)
Definition witness1 : list op :=
  [OLoad false w_inline docA; OLoad false w_inline docB; OQuery (QService "urn:e1" K_IDPSSO N_SSO (Some bPo))].
(* 2: with_descriptor returns the second source's descriptor for urn:e1 *)
Definition witness2 : list op :=
  [OLoad false w_inline docA; OLoad false w_inline docB; OQuery (QWith K_IDPSSO)].
(* 3: a certificate is configured, the document is not signed at all, and it is served *)
Definition witness3 : list op :=
  [OLoad false w_remote_cert docA; OQuery (QSso "urn:e1" None)].
(* 4: the MDQ answer's signature does not verify; the lookup fails, yet keys() lists the entity *)
Definition witness4 : list op :=
  [OServer [("urn:e1", FBody (D (Single (idp_ent "urn:e1" "https://a.example.org/sso" bRd))) SigTampered)];
   OLoad false (w_mdq true) FMissing; OQuery (QGet "urn:e1"); OQuery QKeys].
(* 4b: the residue is SERVED by a lookup: urn:e1 was fetched earlier (verified answer without SAML 2.0 role: an
   expiration date but no entry); the tampered answer to a query for urn:e2 describes urn:e1; single_sign_on_service
   then serves the endpoint of the document whose signature failed *)
Definition idp11_ent : ent :=
  Ent "urn:e1" None [Role K_IDPSSO ["urn:oasis:names:tc:SAML:1.1:protocol"] [Svc N_SSO bRd "https://old.example.org/sso" None] [] []] false [] [].
Definition witness4b : list op :=
  [OServer [("urn:e1", FBody (D (Single idp11_ent)) SigValid)];
   OLoad false (w_mdq true) FMissing; OQuery (QSso "urn:e1" None);
   OServer [("urn:e2", FBody (D (Single (idp_ent "urn:e1" "https://evil.example.org/sso" bRd))) SigTampered)];
   OQuery (QGet "urn:e2"); OQuery (QSso "urn:e1" None)].
(* 5: a malformed MDQ answer raises; the later source that has the entity is not consulted *)
Definition witness5 : list op :=
  [OServer [("urn:e1", FBody Garbage Unsigned)];
   OLoad false (w_mdq false) FMissing; OLoad false w_inline docA; OQuery (QGet "urn:e1")].

(* 6: an inline source configured as list-style item (text, cert): a tampered signature is not noticed *)
Definition w_inline_cert : srcspec :=
  {| sp_kind := KInline; sp_key := "inline:1"; sp_cert := true; sp_cv := None; sp_node := None; sp_period := 43200; sp_scv := true; sp_imp := false |}.
Definition witness6 : list op :=
  [OLoad true w_inline_cert (FBody (D (Single (idp_ent "urn:e1" "https://a.example.org/sso" bRd))) SigTampered);
   OQuery (QSso "urn:e1" None)].


(* 7: an expired EntitiesDescriptor answer raised TooOld, which was not turned into KeyError: the later
   source that has the entity was not consulted (repaired by ab8ae013) *)
Definition witness7 : list op :=
  [OServer [("urn:e1", FBody (D (Group (Some 1699999995%Z) [idp_ent "urn:e1" "https://a.example.org/sso" bRd])) Unsigned)];
   OLoad false (w_mdq false) FMissing; OLoad false w_inline docA; OQuery (QGet "urn:e1")].

Definition T0 := 1700000000%Z.
Definition fails (fl : flags) (h : list op) : Prop := ~ spec (rinit T0) h (run fl (init T0) h).
Definition fails_at (now : Z) (fl : flags) (h : list op) : Prop := ~ spec (rinit now) h (run fl (init now) h).
Ltac refute := unfold fails; intros H; apply spec_b_iff in H; vm_compute in H; discriminate.

(* exactly one repair reverted *)
Definition rev_fall := {| f_fall := true; f_last := false; f_unsigned := false; f_mdq := false; f_inline := false; f_group := false; f_zone := None |}.
Definition rev_last := {| f_fall := false; f_last := true; f_unsigned := false; f_mdq := false; f_inline := false; f_group := false; f_zone := None |}.
Definition rev_unsigned := {| f_fall := false; f_last := false; f_unsigned := true; f_mdq := false; f_inline := false; f_group := false; f_zone := None |}.
Definition rev_mdq := {| f_fall := false; f_last := false; f_unsigned := false; f_mdq := true; f_inline := false; f_group := false; f_zone := None |}.
Definition rev_group := {| f_fall := false; f_last := false; f_unsigned := false; f_mdq := false; f_inline := false; f_group := true; f_zone := None |}.
Definition rev_inline := {| f_fall := false; f_last := false; f_unsigned := false; f_mdq := false; f_inline := true; f_group := false; f_zone := None |}.

(* the code before the repairs violated the property (and reverting the one commit is enough) *)
Lemma fallthrough_v0_refuted : fails v0 witness1 /\ fails rev_fall witness1. Proof. split; refute. Qed.
Lemma with_last_wins_v0_refuted : fails v0 witness2 /\ fails rev_last witness2. Proof. split; refute. Qed.
Lemma unsigned_under_cert_v0_refuted : fails v0 witness3 /\ fails rev_unsigned witness3. Proof. split; refute. Qed.
Lemma mdq_residue_v0_refuted : fails v0 witness4 /\ fails rev_mdq witness4. Proof. split; refute. Qed.
Lemma mdq_residue_served_v0_refuted : fails v0 witness4b /\ fails rev_mdq witness4b. Proof. split; refute. Qed.
Lemma mdq_raise_v0_refuted : fails v0 witness5 /\ fails rev_mdq witness5. Proof. split; refute. Qed.
Lemma inline_cert_ignored_v0_refuted : fails v0 witness6 /\ fails rev_inline witness6. Proof. split; refute. Qed.
Lemma mdq_group_raise_v0_refuted : fails v0 witness7 /\ fails rev_group witness7. Proof. split; refute. Qed.

(* the code as it is now conforms on all of them *)
Lemma witnesses_conform_now :
  forallb (fun h => spec_b (rinit T0) h (run cur (init T0) h)) [witness1; witness2; witness3; witness4; witness4b; witness5; witness6; witness7] = true.
Proof. vm_compute. reflexivity. Qed.

Example witness1_out_v0 : run v0 (init 0) witness1 =
  [AFlag true; AFlag true; ASvcs [Svc N_SSO bPo "https://b.example.org/sso" None]].
Proof. vm_compute. reflexivity. Qed.
Example witness1_out : run cur (init 0) witness1 = [AFlag true; AFlag true; AUnsupported].
Proof. vm_compute. reflexivity. Qed.
Example witness4b_out_v0 : run v0 (init 0) witness4b =
  [AFlag true; AUnknown; ARaise; ASvcs [Svc N_SSO bRd "https://evil.example.org/sso" None]].
Proof. vm_compute. reflexivity. Qed.
Example witness4b_out : run cur (init 0) witness4b = [AFlag true; AUnknown; AKeyErr; AUnknown].
Proof. vm_compute. reflexivity. Qed.

(* ------------------------------------------------------------------ a history over all operation kinds, and its outputs *)
Definition sp_ent : ent :=
  Ent "urn:e2" (Some 1700100000%Z)
      [Role K_SPSSO ["urn:oasis:names:tc:SAML:1.1:protocol"; NS_SAML2P]
            [Svc N_ACS bPo "https://sp.example.org/acs" (Some "0")] [Key None "sp"]
            [ACS "1" [RA "mail" (Some "true"); RA "cn" None]];
       Role K_SPSSO ["urn:oasis:names:tc:SAML:1.1:protocol"] [Svc N_ACS bPo "https://sp.example.org/acs11" (Some "0")] [] []]
      false [(ENTITY_CATEGORY, ["http://cat.example.org/1"])] [Reg "http://ra1.example.org" None [("en", "http://ra.example.org/pol1")]].
Definition w_file : srcspec :=
  {| sp_kind := KFile; sp_key := "/md/s2.xml"; sp_cert := false; sp_cv := None; sp_node := None; sp_period := 43200; sp_scv := true; sp_imp := false |}.
Definition good_history : list op :=
  [OLoad false w_inline docA;
   OLoad false w_file (FBody (D (Group None [sp_ent; idp_ent "urn:e3" "https://c.example.org/sso" bRd])) Unsigned);
   OQuery (QSso "urn:e1" None); OQuery (QAcs "urn:e2" None); OQuery (QCerts "urn:e2" K_SPSSO "encryption");
   OQuery (QAttrReq "urn:e2" None); OQuery (QCats "urn:e2"); OQuery (QReg "urn:e2"); OQuery QKeys; OQuery (QWith K_IDPSSO);
   OReload false [(w_remote_cert, FBody (D (Single (idp_ent "urn:e1" "https://a.example.org/sso" bRd))) SigTampered)];
   OQuery (QSso "urn:e1" None);
   OServer [("urn:e4", FBody (D (Single (idp_ent "urn:e4" "https://d.example.org/sso" bRd))) SigValid)];
   OLoad false (w_mdq true) FMissing;
   OQuery (QSso "urn:e4" None); OQuery (QGet "urn:e1");
   OTick 3601; OServer []; OQuery (QSso "urn:e4" None); OQuery QKeys].


Example good_history_out :
  map norm (run cur (init 1700000000) good_history) =
  [AFlag true; AFlag true;
   ASvcs [Svc N_SSO bRd "https://a.example.org/sso" None];
   ASvcs [Svc N_ACS bPo "https://sp.example.org/acs" (Some "0")];
   ACerts ["sp"];
   AReq ["mail"] ["cn"]; ACats ["http://cat.example.org/1"];
   AReg (Some "http://ra1.example.org") None [("en", "http://ra.example.org/pol1")];
   AKeys ["urn:e1"; "urn:e2"; "urn:e3"]; AWith [("urn:e1", ["https://a.example.org/sso"]); ("urn:e3", ["https://c.example.org/sso"])];
   AFlag false;
   ASvcs [Svc N_SSO bRd "https://a.example.org/sso" None];
   AFlag true;
   ASvcs [Svc N_SSO bRd "https://d.example.org/sso" None];
   AEnt false [Role K_IDPSSO [NS_SAML2P] [Svc N_SSO bRd "https://a.example.org/sso" None] [Key (Some "signing") "idp"] []];
   ANone; AKeys ["urn:e1"; "urn:e2"; "urn:e3"]].
Proof. vm_compute. reflexivity. Qed.

(* ------------------------------------------------------------------ validity checking by default (round 5)
   A remote source configured the ordinary way ({"url": ...}: nothing said about check_validity) in a store whose
   validity checking is on; the document holds an entity past its validUntil beside a current one.  The code serves
   the current one only; an implementation that served both (check_validity arriving as None instead of the
   default) fails the spec, and so does one that loads an EntitiesDescriptor past its own validUntil. *)
Definition w_remote_plain : srcspec :=
  {| sp_kind := KRemote; sp_key := "http://md.example.org/s1"; sp_cert := false; sp_cv := None; sp_node := None;
     sp_period := 43200; sp_scv := true; sp_imp := true |}.
Definition old_ent (id : string) : ent :=
  Ent id (Some 1699999000%Z) [Role K_IDPSSO [NS_SAML2P] [Svc N_SSO bRd "https://old.example.org/sso" None] [] []] false [] [].
Definition fed_doc := FBody (D (Group None [old_ent "urn:e1"; idp_ent "urn:e2" "https://a.example.org/sso" bRd])) Unsigned.
Definition old_fed := FBody (D (Group (Some 1699999995%Z) [idp_ent "urn:e3" "https://c.example.org/sso" bRd])) Unsigned.
Definition validity_history : list op :=
  [OLoad false w_remote_plain fed_doc; OQuery QKeys; OQuery (QSso "urn:e1" None);
   OLoad false w_remote_plain old_fed; OQuery QKeys].

Example validity_history_out :
  run cur (init T0) validity_history = [AFlag true; AKeys ["urn:e2"]; AUnknown; AFlag false; AKeys ["urn:e2"]].
Proof. vm_compute. reflexivity. Qed.
Example validity_default_teeth_entity :
  spec_b (rinit T0) validity_history
    [AFlag true; AKeys ["urn:e1"; "urn:e2"]; ASvcs [Svc N_SSO bRd "https://old.example.org/sso" None]; AFlag false; AKeys ["urn:e1"; "urn:e2"]] = false.
Proof. vm_compute. reflexivity. Qed.
Example validity_default_teeth_group :
  spec_b (rinit T0) validity_history [AFlag true; AKeys ["urn:e2"]; AUnknown; AFlag true; AKeys ["urn:e3"]] = false.
Proof. vm_compute. reflexivity. Qed.
(* the store-wide switch reaches a dictionary item through imp() only, and overrides what the item says *)
Example validity_store_switch :
  let sp b i := {| sp_kind := KRemote; sp_key := "u"; sp_cert := false; sp_cv := Some true; sp_node := None;
                   sp_period := 43200; sp_scv := b; sp_imp := i |} in
  (eff_cv false (sp false true), eff_cv false (sp false false), eff_cv true (sp false true), eff_cv false (sp true true))
  = (false, true, true, true).
Proof. reflexivity. Qed.

(* ------------------------------------------------------------------ the process time zone (finding C11-F8, repaired
   by 7137d601).  Before the commit MetaDataMDX._fetch_metadata computed the expiration date with an add_duration
   that sent the broken-down UTC time through the LOCAL calendar (time.localtime(time.mktime(...))): in a zone with
   daylight saving an instant whose UTC reading falls into the hour that the local calendar skips came back one hour
   later, and the cached entry was served, without a new query, for an hour after its freshness period had run out.
   [zone_v0 gaps] is that code in such a zone.  [cur], the code now, computes in UTC: no gap table enters it at
   all, so everything proved for [cur] holds in every zone. *)
Lemma expiry_cur now period : expiry cur now period = (now + period)%Z.
Proof. reflexivity. Qed.

(* the current code's expiration date is that of the old code in a zone without gaps - and of no other table *)
Lemma expiry_zone_v0 g now period : expiry (zone_v0 g) now period = zone_fix g (now + period).
Proof. reflexivity. Qed.

Lemma zone_fix_outside gaps t :
  (forall a len sh, In (a, len, sh) gaps -> (t < a \/ a + len <= t)%Z) -> zone_fix gaps t = t.
Proof.
  induction gaps as [|[[a len] sh] r IH]; intros H; cbn [zone_fix]; [reflexivity|].
  destruct (H a len sh (or_introl eq_refl)) as [Hl|Hr].
  - replace (a <=? t)%Z with false by (symmetry; apply Z.leb_gt; lia). cbn [andb]. apply IH. intros; apply (H a0 len0 sh0). right; assumption.
  - replace (t <? a + len)%Z with false by (symmetry; apply Z.ltb_ge; lia). rewrite andb_false_r. apply IH. intros; apply (H a0 len0 sh0). right; assumption.
Qed.

(* what the repair changed: a fetch of the old code whose expiration date is outside every gap is the fetch of the
   code now (so the two differ only on fetches made while now + period lies inside a gap) *)
Theorem mdx_fetch_zone_outside g x now srv e :
  zone_fix g (now + x_period x) = (now + x_period x)%Z -> mdx_fetch (zone_v0 g) x now srv e = mdx_fetch cur x now srv e.
Proof.
  intros H. unfold mdx_fetch, expiry. cbn [f_mdq f_group f_zone zone_v0 cur]. rewrite H. reflexivity.
Qed.

(* US Pacific time, 2024-03-10: 02:00 - 03:00 does not exist; expressed over UTC readings *)
Definition Tz := 1710034200%Z.                             (* 2024-03-10T01:30:00Z *)
Definition us_gap : list (Z * Z * Z) := [(1710036000, 3600, 3600)%Z].
Definition zone_witness : list op :=
  [OServer [("urn:e1", FBody (D (Single (idp_ent "urn:e1" "https://first.example.org/sso" bRd))) Unsigned)];
   OLoad false (w_mdq false) FMissing; OQuery (QSso "urn:e1" None);
   OServer [("urn:e1", FBody (D (Single (idp_ent "urn:e1" "https://second.example.org/sso" bRd))) Unsigned)];
   OTick 5400;                                             (* 03:00Z: half an hour after the entry ran out *)
   OQuery (QSso "urn:e1" None)].

Example zone_witness_out :
  run (zone_v0 us_gap) (init Tz) zone_witness
  = [AFlag true; ASvcs [Svc N_SSO bRd "https://first.example.org/sso" None];
     ASvcs [Svc N_SSO bRd "https://first.example.org/sso" None]]
  /\ run cur (init Tz) zone_witness
  = [AFlag true; ASvcs [Svc N_SSO bRd "https://first.example.org/sso" None];
     ASvcs [Svc N_SSO bRd "https://second.example.org/sso" None]].
Proof. split; vm_compute; reflexivity. Qed.

Theorem zone_gap_v0_refuted : fails_at Tz (zone_v0 us_gap) zone_witness.
Proof. unfold fails_at. intros H; apply spec_b_iff in H; vm_compute in H; discriminate. Qed.
Theorem zone_gap_v0_refuted_ex : exists g now h, ~ spec (rinit now) h (run (zone_v0 g) (init now) h).
Proof. exists us_gap, Tz, zone_witness. exact zone_gap_v0_refuted. Qed.
(* ... and the witness conforms now (an instance of model_satisfies_spec) *)
Theorem zone_witness_conforms_now : spec (rinit Tz) zone_witness (run cur (init Tz) zone_witness).
Proof. apply model_satisfies_spec. Qed.
