(* C11/Sim.v — the model refines the reference store of Spec.v.

   [abs] maps a model state to the reference state it stands for.  Every operation of the
   model is matched by the reference transition, provided the situation is outside the
   finding classes (Corr.cls):
     3  an unsigned document is accepted although a certificate reaches the source  (class3_b)
     4/5 an MDQ answer that is not "tolerable" [tol]: a group, a foreign entity, or (with a
        certificate) a document whose signature does not verify;  a malformed answer is
        tolerable (the exception it causes serves nothing) as long as no later source could
        serve the entity (homes <= 1)
     1  service(): the entity asked for has more than one possible home  (homes <= 1)
     2  with_descriptor(): some entityID is present in two sources  (ids_nodup)            *)
From Coq Require Import String List Bool ZArith Arith Lia.
From Verif Require Import Base.Str C11.Model C11.Dec C11.Spec C11.Proofs.
Import ListNotations.
Open Scope string_scope.
Open Scope list_scope.

(* ------------------------------------------------------------------ more dictionary facts *)
Lemma lookup_upsert_same {A} k (v : A) l : lookup k (upsert k v l) = Some v.
Proof.
  induction l as [|[k' v'] r IH]; cbn [upsert lookup].
  - rewrite String.eqb_refl. reflexivity.
  - destruct (String.eqb k k') eqn:E; cbn [lookup]; [rewrite String.eqb_refl; reflexivity|rewrite E; exact IH].
Qed.

Lemma lookup_upsert_other {A} k k2 (v : A) l : k2 <> k -> lookup k2 (upsert k v l) = lookup k2 l.
Proof.
  intros Hne. induction l as [|[k' v'] r IH]; cbn [upsert lookup].
  - destruct (String.eqb k2 k) eqn:E; [apply String.eqb_eq in E; contradiction|reflexivity].
  - destruct (String.eqb k k') eqn:E; cbn [lookup].
    + apply String.eqb_eq in E. subst k'.
      destruct (String.eqb k2 k) eqn:E2; [apply String.eqb_eq in E2; contradiction|reflexivity].
    + destruct (String.eqb k2 k'); [reflexivity|exact IH].
Qed.

Lemma has_key_upsert {A} k k2 (v : A) l : has_key k2 (upsert k v l) = String.eqb k2 k || has_key k2 l.
Proof.
  unfold has_key. destruct (String.eqb k2 k) eqn:E.
  - apply String.eqb_eq in E. subst. rewrite lookup_upsert_same. reflexivity.
  - apply String.eqb_neq in E. rewrite (lookup_upsert_other _ _ _ _ E). reflexivity.
Qed.

Lemma lookup_none_key {A} k (l : list (string * A)) kv : lookup k l = None -> In kv l -> fst kv <> k.
Proof.
  induction l as [|[k' v'] r IH]; cbn [lookup]; [intros _ []|].
  destruct (String.eqb k k') eqn:E; [discriminate|]. intros H [<-|Hin].
  - cbn. apply String.eqb_neq in E. congruence.
  - apply IH; assumption.
Qed.

Lemma lookup_some_haskey {A} k (l : list (string * A)) v : lookup k l = Some v -> has_key k l = true.
Proof. unfold has_key. intros ->. reflexivity. Qed.

Lemma has_key_remove {A} k k2 (l : list (string * A)) : has_key k2 (remove_key k l) = true -> has_key k2 l = true.
Proof.
  destruct (String.eqb k2 k) eqn:E.
  - apply String.eqb_eq in E. subst. unfold has_key. rewrite lookup_remove_same. discriminate.
  - apply String.eqb_neq in E. unfold has_key. rewrite (lookup_remove_other _ _ _ E). auto.
Qed.

(* a value-wise map that keeps the keys *)
Section KeyMap.
  Context {A B : Type} (g : string -> A -> B).
  Definition kmap (l : list (string * A)) : list (string * B) := map (fun kv => (fst kv, g (fst kv) (snd kv))) l.

  Lemma lookup_kmap k l : lookup k (kmap l) = option_map (g k) (lookup k l).
  Proof.
    induction l as [|[k' v] r IH]; cbn [kmap map lookup fst snd option_map]; [reflexivity|].
    destruct (String.eqb k k') eqn:E; [apply String.eqb_eq in E; subst; reflexivity|exact IH].
  Qed.

  Lemma remove_kmap k l : remove_key k (kmap l) = kmap (remove_key k l).
  Proof.
    induction l as [|[k' v] r IH]; cbn [kmap map remove_key fst snd]; [reflexivity|].
    destruct (String.eqb k k'); [exact IH|]. cbn [map fst snd]. f_equal. exact IH.
  Qed.

  Lemma has_key_kmap k l : has_key k (kmap l) = has_key k l.
  Proof. unfold has_key. rewrite lookup_kmap. destruct (lookup k l); reflexivity. Qed.
End KeyMap.

(* ------------------------------------------------------------------ abstraction *)
Definition abs_key (k : key) : option string := match k with KI _ => None | KS s => Some s end.
Definition exp_of (ex : list (string * Z)) (e : string) : Z := match lookup e ex with Some t => t | None => 0%Z end.
Definition abs_cache (x : mdx) : list (string * (ent * Z)) := kmap (fun k en => (en, exp_of (x_exp x) k)) (x_ents x).
Definition abs_src (s : source) : rsource :=
  match s with SStatic m => RStatic m | SMdx x => RMdq (x_cert x) (x_period x) (abs_cache x) end.
Definition abs_srcs (l : sources) : rsources := map (fun ks => (abs_key (fst ks), abs_src (snd ks))) l.
Definition abs (w : world) : rworld :=
  {| r_srcs := abs_srcs (st_srcs (w_store w)); r_now := w_now w; r_srv := w_srv w |}.

Definition res_opt (g : res ent) : option ent := match g with ROk en => Some en | _ => None end.

(* an MDQ answer outside the finding classes 3 and 4 *)
Definition tol (cert : bool) (e : string) (f : fetched) : bool :=
  match f with
  | FMissing => true
  | FBody Garbage _ => true
  | FBody WrongRoot _ => true
  | FBody (D (Single d)) sg => String.eqb (e_id d) e && (negb cert || sig_valid sg)
  | FBody (D (Group _ _)) _ => false
  end.
(* ... that does not make the fetch raise *)
Definition quiet (f : fetched) : bool := match f with FBody Garbage _ => false | _ => true end.

(* every cached entity has an expiration date *)
Definition mdx_inv (x : mdx) : Prop := forall e, has_key e (x_ents x) = true -> has_key e (x_exp x) = true.

Definition refresh (cert : bool) (period now : Z) (srv : server) (e : string) (c : list (string * (ent * Z))) :=
  match mdq_fresh cert now srv e with
  | Some en => (c ++ [(e, (en, (now + period)%Z))], Some en)
  | None => (c, None)
  end.

Lemma mdq_get_unfold cert period now srv c e :
  mdq_get cert period now srv c e =
  match lookup e c with
  | Some (en, t) => if (now <=? t)%Z then (c, Some en) else refresh cert period now srv e (remove_key e c)
  | None => refresh cert period now srv e c
  end.
Proof. reflexivity. Qed.

Lemma abs_cache_exp_other x e t (m : emap) :
  lookup e m = None ->
  kmap (fun k en => (en, exp_of (upsert e t (x_exp x)) k)) m = kmap (fun k en => (en, exp_of (x_exp x) k)) m.
Proof.
  intros Hn. unfold kmap. apply map_ext_in. intros kv Hin. f_equal. f_equal.
  unfold exp_of. rewrite lookup_upsert_other; [reflexivity|]. eapply lookup_none_key; eassumption.
Qed.

Lemma exp_of_upsert_same e t ex : exp_of (upsert e t ex) e = t.
Proof. unfold exp_of. rewrite lookup_upsert_same. reflexivity. Qed.

Lemma sig_gate_mdq_single cert d sg : negb cert || sig_valid sg = true -> sig_gate cert KMdq (Some false) (D (Single d)) sg = true.
Proof.
  unfold sig_gate. destruct cert; cbn [negb orb]; [|reflexivity].
  destruct sg; cbn; congruence.
Qed.

Lemma sig_gate_wrongroot cert k node sg : sig_gate cert k node WrongRoot sg = true.
Proof. unfold sig_gate. destruct cert; reflexivity. Qed.

Lemma fetch_sim x now srv e x' g :
  lookup e (x_ents x) = None -> tol (x_cert x) e (ask srv e) = true ->
  mdx_fetch x now srv e = (x', g) ->
  refresh (x_cert x) (x_period x) now srv e (abs_cache x) = (abs_cache x', res_opt g)
  /\ x_cert x' = x_cert x /\ x_period x' = x_period x
  /\ (mdx_inv x -> mdx_inv x') /\ (quiet (ask srv e) = true -> g <> RRaise).
Proof.
  intros Hn Htol. unfold mdx_fetch, refresh, mdq_fresh.
  destruct (ask srv e) as [|p sg] eqn:Ea.
  { intros H; inversion H; subst. cbn. repeat split; auto; discriminate. }
  destruct p as [| |[d|vu es]]; cbn [tol] in Htol; try discriminate.
  - (* Garbage *) cbn [parse]. intros H; inversion H; subst. cbn. repeat split; auto. discriminate.
  - (* WrongRoot *) cbn [parse]. rewrite sig_gate_wrongroot, Hn. intros H; inversion H; subst. clear H.
    unfold abs_cache. cbn [x_ents x_exp x_cert x_period res_opt]. rewrite (abs_cache_exp_other x e _ _ Hn).
    repeat split; try discriminate.
    intros Hi k Hk. cbn [x_ents x_exp] in *. rewrite has_key_upsert, (Hi k Hk). apply orb_true_r.
  - (* Single *) apply andb_true_iff in Htol as [Hid Hsig]. apply String.eqb_eq in Hid.
    cbn [parse]. rewrite (sig_gate_mdq_single _ _ _ Hsig), do_entity_eq, Hid.
    assert (Hk : has_key e (x_ents x) = false) by (apply has_key_false; exact Hn).
    rewrite Hk, String.eqb_refl, Hsig. cbn [negb]. rewrite andb_true_r. cbn [andb].
    destruct (eligible_b true now d) eqn:El.
    + rewrite lookup_app, Hn. cbn [lookup]. rewrite String.eqb_refl.
      intros H; inversion H; subst x' g. clear H.
      unfold abs_cache, kmap. cbn [x_ents x_exp x_cert x_period res_opt]. rewrite map_app.
      fold (kmap (fun k en => (en, exp_of (upsert e (now + x_period x)%Z (x_exp x)) k)) (x_ents x)).
      rewrite (abs_cache_exp_other x e _ _ Hn). cbn [map fst snd andb]. rewrite exp_of_upsert_same.
      repeat split; try discriminate.
      intros Hi k Hkk. cbn [x_ents x_exp] in *. rewrite has_key_upsert. rewrite has_key_app in Hkk.
      apply orb_true_iff in Hkk as [Hkk|Hkk]; [rewrite (Hi k Hkk); apply orb_true_r|].
      unfold has_key in Hkk. cbn [lookup] in Hkk. destruct (String.eqb k e); [reflexivity|discriminate].
    + rewrite Hn. intros H; inversion H; subst x' g. clear H.
      unfold abs_cache. cbn [x_ents x_exp x_cert x_period res_opt]. rewrite (abs_cache_exp_other x e _ _ Hn).
      repeat split; try discriminate.
      intros Hi k Hkk. cbn [x_ents x_exp] in *. rewrite has_key_upsert, (Hi k Hkk). apply orb_true_r.
Qed.

Lemma lookup_abs_cache x e :
  lookup e (abs_cache x) = option_map (fun en => (en, exp_of (x_exp x) e)) (lookup e (x_ents x)).
Proof. unfold abs_cache. apply lookup_kmap. Qed.

Lemma mdx_get_sim x now srv e x' g :
  mdx_inv x -> tol (x_cert x) e (ask srv e) = true ->
  mdx_get x now srv e = (x', g) ->
  mdq_get (x_cert x) (x_period x) now srv (abs_cache x) e = (abs_cache x', res_opt g)
  /\ x_cert x' = x_cert x /\ x_period x' = x_period x /\ mdx_inv x' /\ (quiet (ask srv e) = true -> g <> RRaise).
Proof.
  intros Hi Htol. rewrite mdq_get_unfold, lookup_abs_cache. unfold mdx_get.
  destruct (lookup e (x_ents x)) as [en|] eqn:El; cbn [option_map].
  - assert (Hk : has_key e (x_exp x) = true) by (apply Hi; eapply lookup_some_haskey; eauto).
    unfold exp_of. unfold has_key in Hk. destruct (lookup e (x_exp x)) as [t|] eqn:Ex; [|discriminate].
    destruct (now <=? t)%Z.
    + intros H; inversion H; subst. repeat split; auto. discriminate.
    + intros H.
      match type of H with mdx_fetch ?X _ _ _ = _ => set (x0 := X) in * end.
      assert (Hn0 : lookup e (x_ents x0) = None) by (unfold x0; cbn [x_ents]; apply lookup_remove_same).
      destruct (fetch_sim x0 now srv e x' g Hn0 Htol H) as [H1 [H2 [H3 [H4 H5]]]].
      assert (Ea : abs_cache x0 = remove_key e (abs_cache x)).
      { unfold abs_cache, x0. cbn [x_ents x_exp]. symmetry. apply remove_kmap. }
      rewrite <- Ea. change (x_cert x) with (x_cert x0). change (x_period x) with (x_period x0).
      repeat split; auto. apply H4. intros k Hkk. unfold x0 in *. cbn [x_ents x_exp] in *.
      apply Hi. eapply has_key_remove; eauto.
  - intros H. destruct (fetch_sim x now srv e x' g El Htol H) as [H1 [H2 [H3 [H4 H5]]]]. repeat split; auto.
Qed.

Definition src_inv (s : source) : Prop := match s with SStatic _ => True | SMdx x => mdx_inv x end.
Definition src_tol (srv : server) (e : string) (s : source) : bool :=
  match s with SStatic _ => true | SMdx x => tol (x_cert x) e (ask srv e) end.
Definition src_quiet (srv : server) (e : string) (s : source) : bool :=
  match s with SStatic _ => true | SMdx _ => quiet (ask srv e) end.
(* could this source produce the entity? *)
Definition can_have (s : source) (e : string) : bool := match s with SStatic m => has_key e m | SMdx _ => true end.

Lemma src_get_sim now srv s e s' g :
  src_inv s -> src_tol srv e s = true -> src_get now srv s e = (s', g) ->
  rsrc_get now srv (abs_src s) e = (abs_src s', res_opt g) /\ src_inv s'
  /\ (src_quiet srv e s = true -> g <> RRaise) /\ (can_have s e = false -> s' = s /\ g = RKeyErr).
Proof.
  destruct s as [m|x]; cbn [src_inv src_tol src_get abs_src rsrc_get src_quiet can_have].
  - intros _ _ H. inversion H; subst. repeat split; auto.
    + destruct (lookup e m); reflexivity.
    + destruct (lookup e m); discriminate.
    + apply has_key_false in H0. rewrite H0. reflexivity.
  - intros Hi Ht. destruct (mdx_get x now srv e) as [x1 g1] eqn:Eg. intros H; inversion H; subst.
    destruct (mdx_get_sim x now srv e x1 g Hi Ht Eg) as [H1 [H2 [H3 [H4 H5]]]].
    rewrite H1. cbn [abs_src src_inv]. rewrite H2, H3. repeat split; auto; discriminate.
Qed.

Definition homes (srcs : sources) (e : string) : nat := length (filter (fun ks => can_have (snd ks) e) srcs).
Definition all_inv (srcs : sources) : Prop := Forall (fun ks => src_inv (snd ks)) srcs.
Definition all_tol (srv : server) (e : string) (srcs : sources) : bool := forallb (fun ks => src_tol srv e (snd ks)) srcs.
Definition all_quiet (srv : server) (e : string) (srcs : sources) : bool := forallb (fun ks => src_quiet srv e (snd ks)) srcs.

Lemma abs_srcs_cons k s r : abs_srcs ((k, s) :: r) = (abs_key k, abs_src s) :: abs_srcs r.
Proof. reflexivity. Qed.

(* nobody can have the entity: every lookup walks through without finding or changing anything *)
Lemma no_home now srv srcs e :
  homes srcs e = 0 ->
  store_get now srv srcs e = (srcs, RKeyErr)
  /\ ref_get now srv (abs_srcs srcs) e = (abs_srcs srcs, None)
  /\ forall typ name b known, store_service now srv srcs e typ name b known = (srcs, if known then AUnsupported else AUnknown).
Proof.
  induction srcs as [|[k s] r IH]; intros H.
  - repeat split; reflexivity.
  - unfold homes in H. cbn [filter snd] in H. destruct (can_have s e) eqn:Ec; [cbn in H; discriminate|].
    destruct (IH H) as [I1 [I2 I3]].
    destruct s as [m|x]; [|discriminate]. cbn [can_have] in Ec. apply has_key_false in Ec.
    rewrite abs_srcs_cons. cbn [store_get store_service src_get ref_get rsrc_get abs_src]. rewrite Ec, I1, I2.
    repeat split; try reflexivity. intros typ name b known. rewrite I3. reflexivity.
Qed.

Lemma homes_cons k s r e : homes ((k, s) :: r) e = (if can_have s e then 1 else 0) + homes r e.
Proof. unfold homes. cbn [filter snd]. destruct (can_have s e); reflexivity. Qed.

(* __getitem__ of the store = the reference's "first source that has it" *)
Lemma store_get_sim now srv e : forall srcs srcs' g,
  all_inv srcs -> all_tol srv e srcs = true -> (homes srcs e <= 1 \/ all_quiet srv e srcs = true) ->
  store_get now srv srcs e = (srcs', g) ->
  ref_get now srv (abs_srcs srcs) e = (abs_srcs srcs', res_opt g) /\ all_inv srcs'.
Proof.
  induction srcs as [|[k s] r IH]; intros srcs' g Hi Ht Hg H.
  - cbn in H. inversion H; subst. split; [reflexivity|constructor].
  - inversion Hi as [|? ? Hs Hr]; subst. cbn [all_tol forallb snd] in Ht. apply andb_true_iff in Ht as [Hts Htr].
    rewrite abs_srcs_cons. cbn [store_get ref_get] in *.
    destruct (src_get now srv s e) as [s1 g1] eqn:Eg.
    destruct (src_get_sim now srv s e s1 g1 Hs Hts Eg) as [S1 [S2 [S3 S4]]]. rewrite S1.
    assert (Hg' : homes r e <= 1 \/ all_quiet srv e r = true).
    { destruct Hg as [Hg|Hg]; [left; rewrite homes_cons in Hg; lia|right].
      cbn [all_quiet forallb] in Hg. apply andb_true_iff in Hg as [_ Hg]. exact Hg. }
    destruct g1 as [en| |]; cbn [res_opt].
    + inversion H; subst. split; [reflexivity|]. constructor; assumption.
    + destruct (store_get now srv r e) as [r1 a1] eqn:Er. inversion H; subst.
      destruct (IH r1 g Hr Htr Hg' eq_refl) as [I1 I2]. rewrite I1. split; [reflexivity|]. constructor; assumption.
    + inversion H; subst. cbn [res_opt].
      assert (H0 : homes r e = 0).
      { destruct Hg as [Hg|Hg].
        - rewrite homes_cons in Hg. destruct (can_have s e) eqn:Ec; [lia|].
          destruct (S4 eq_refl) as [_ Hx]. discriminate.
        - cbn [all_quiet forallb snd] in Hg. apply andb_true_iff in Hg as [Hg _]. exfalso. apply (S3 Hg). reflexivity. }
      destruct (no_home now srv r e H0) as [_ [N2 _]]. rewrite N2. split; [reflexivity|]. constructor; assumption.
Qed.

(* service(): the reference answers from the entity's first home *)
Lemma store_service_sim now srv e typ name b : forall srcs srcs' a,
  all_inv srcs -> all_tol srv e srcs = true -> homes srcs e <= 1 ->
  store_service now srv srcs e typ name b false = (srcs', a) ->
  exists a', ref_via now srv (abs_srcs srcs) e AUnknown (fun en => svc_answer en typ name b) = (abs_srcs srcs', a')
             /\ norm a = norm a' /\ all_inv srcs'.
Proof.
  unfold ref_via.
  induction srcs as [|[k s] r IH]; intros srcs' a Hi Ht Hg H.
  - cbn in H. inversion H; subst. exists AUnknown. repeat split; constructor.
  - inversion Hi as [|? ? Hs Hr]; subst. cbn [all_tol forallb snd] in Ht. apply andb_true_iff in Ht as [Hts Htr].
    rewrite abs_srcs_cons. cbn [store_service ref_get] in *.
    destruct (src_get now srv s e) as [s1 g1] eqn:Eg.
    destruct (src_get_sim now srv s e s1 g1 Hs Hts Eg) as [S1 [S2 [S3 S4]]]. rewrite S1.
    rewrite homes_cons in Hg.
    destruct (can_have s e) eqn:Ec.
    + assert (H0 : homes r e = 0) by lia.
      destruct (no_home now srv r e H0) as [_ [N2 N3]].
      destruct g1 as [en| |]; cbn [res_opt].
      * unfold svc_answer.
        destruct (ent_service en typ name b) as [| |[|x l]|[|x d]] eqn:Es; rewrite ?N3 in H; inversion H; subst;
          eexists; (split; [reflexivity|]); (split; [reflexivity|]); constructor; assumption.
      * rewrite N3 in H. inversion H; subst. rewrite N2. eexists. split; [reflexivity|]. split; [reflexivity|].
        constructor; assumption.
      * inversion H; subst. rewrite N2. eexists. split; [reflexivity|]. split; [reflexivity|]. constructor; assumption.
    + destruct (S4 eq_refl) as [-> ->]. cbn [res_opt].
      destruct (store_service now srv r e typ name b false) as [r1 a1] eqn:Er. inversion H; subst.
      destruct (IH r1 a Hr Htr ltac:(lia) eq_refl) as [a' [I1 [I2 I3]]].
      destruct (ref_get now srv (abs_srcs r) e) as [rr og] eqn:Erg. inversion I1; subst.
      eexists. split; [reflexivity|]. split; [exact I2|]. constructor; assumption.
Qed.

(* ------------------------------------------------------------------ attribute_requirement, keys, with_descriptor *)
Lemma rents_abs s : rents (abs_src s) = ents_of s.
Proof.
  destruct s as [m|x]; [reflexivity|]. cbn [abs_src rents ents_of]. unfold abs_cache, kmap. rewrite map_map.
  cbn [fst snd]. rewrite <- (map_id (x_ents x)) at 2. apply map_ext. intros [k v]. reflexivity.
Qed.

Lemma store_attr_req_sim now srv e index : forall srcs srcs' a,
  all_inv srcs -> all_tol srv e srcs = true ->
  store_attr_req now srv srcs e index = (srcs', a) ->
  exists a', ref_attr_req now srv (abs_srcs srcs) e index = (abs_srcs srcs', a') /\ norm a = norm a' /\ all_inv srcs'.
Proof.
  induction srcs as [|[k s] r IH]; intros srcs' a Hi Ht H.
  - cbn in H. inversion H; subst. exists ANone. repeat split; constructor.
  - inversion Hi as [|? ? Hs Hr]; subst. cbn [all_tol forallb snd] in Ht. apply andb_true_iff in Ht as [Hts Htr].
    rewrite abs_srcs_cons. cbn [store_attr_req ref_attr_req] in *. rewrite rents_abs.
    destruct (has_key e (ents_of s)).
    + destruct (src_get now srv s e) as [s1 g1] eqn:Eg.
      destruct (src_get_sim now srv s e s1 g1 Hs Hts Eg) as [S1 [S2 _]]. rewrite S1. inversion H; subst.
      eexists. split; [reflexivity|]. split; [|constructor; assumption].
      destruct g1; reflexivity.
    + destruct (store_attr_req now srv r e index) as [r1 a1] eqn:Er. inversion H; subst.
      destruct (IH r1 a Hr Htr eq_refl) as [a' [I1 [I2 I3]]]. rewrite I1.
      eexists. split; [reflexivity|]. split; [exact I2|]. constructor; assumption.
Qed.

Lemma keys_abs srcs :
  flat_map (fun ks => map fst (rents (snd ks))) (abs_srcs srcs) = flat_map (fun ks => map fst (ents_of (snd ks))) srcs.
Proof.
  induction srcs as [|[k s] r IH]; [reflexivity|]. rewrite abs_srcs_cons. cbn [flat_map snd]. rewrite rents_abs, IH. reflexivity.
Qed.

Definition all_ids (srcs : sources) : list string := flat_map (fun ks => map fst (ents_of (snd ks))) srcs.
Fixpoint nodup_b (l : list string) : bool :=
  match l with [] => true | x :: r => negb (mem x r) && nodup_b r end.
Lemma nodup_b_iff l : nodup_b l = true <-> NoDup l.
Proof.
  induction l as [|x r IH]; cbn [nodup_b].
  - split; [constructor|reflexivity].
  - rewrite andb_true_iff, negb_true_iff, IH. split.
    + intros [H1 H2]. constructor; [|exact H2]. intros Hin. apply mem_In in Hin. congruence.
    + intros H. inversion H; subst. split; [|assumption].
      destruct (mem x r) eqn:E; [apply mem_In in E; contradiction|reflexivity].
Qed.

Lemma NoDup_app_inv {A} (l1 l2 : list A) :
  NoDup (l1 ++ l2) -> NoDup l1 /\ NoDup l2 /\ forall x, In x l1 -> ~ In x l2.
Proof.
  induction l1 as [|a l1 IH]; cbn [app]; intros H.
  - repeat split; [constructor|exact H|intros x []].
  - inversion H as [|? ? Hn Hr]; subst. destruct (IH Hr) as [I1 [I2 I3]]. repeat split.
    + constructor; [|exact I1]. intros Hin. apply Hn. apply in_or_app. left; exact Hin.
    + exact I2.
    + intros x [<-|Hx] Hin; [apply Hn; apply in_or_app; right; exact Hin|apply (I3 x Hx Hin)].
Qed.

Lemma upsert_fresh {A} k (v : A) acc : ~ In k (map fst acc) -> upsert k v acc = acc ++ [(k, v)].
Proof.
  induction acc as [|[k' v'] r IH]; cbn [upsert map fst app In]; intros H; [reflexivity|].
  destruct (String.eqb k k') eqn:E; [apply String.eqb_eq in E; subst; exfalso; apply H; left; reflexivity|].
  rewrite IH; [reflexivity|]. intros Hin. apply H. right; exact Hin.
Qed.

Lemma fold_upsert_fresh {A} : forall (l acc : list (string * A)),
  NoDup (map fst l) -> (forall k, In k (map fst l) -> ~ In k (map fst acc)) ->
  fold_left (fun acc' kv => upsert (fst kv) (snd kv) acc') l acc = acc ++ l.
Proof.
  induction l as [|[k v] r IH]; intros acc Hnd Hd; cbn [fold_left fst snd].
  - rewrite app_nil_r. reflexivity.
  - cbn [map fst] in Hnd. inversion Hnd as [|? ? Hk Hr]; subst.
    rewrite upsert_fresh; [|apply Hd; left; reflexivity].
    rewrite IH; [rewrite <- app_assoc; reflexivity|exact Hr|].
    intros k' Hin. rewrite map_app, in_app_iff. cbn [map fst In]. intros [H|[<-|[]]].
    + apply (Hd k' (or_intror Hin) H).
    + exact (Hk Hin).
Qed.

Lemma src_with_keys s kind k : In k (map fst (src_with s kind)) -> In k (map fst (ents_of s)).
Proof.
  unfold src_with. rewrite map_map. cbn [fst]. intros H. apply in_map_iff in H as [kv [<- Hin]].
  apply filter_In in Hin as [Hin _]. apply in_map. exact Hin.
Qed.

Lemma NoDup_map_filter {A B} (f : A -> B) p (l : list A) : NoDup (map f l) -> NoDup (map f (filter p l)).
Proof.
  induction l as [|x r IH]; cbn [map filter]; intros H; [constructor|].
  inversion H as [|? ? Hn Hr]; subst. destruct (p x); [|apply IH; exact Hr].
  cbn [map]. constructor; [|apply IH; exact Hr]. intros Hin. apply Hn.
  apply in_map_iff in Hin as [y [Hy Hin]]. apply filter_In in Hin as [Hin _]. rewrite <- Hy. apply in_map. exact Hin.
Qed.

Lemma src_with_nodup s kind : NoDup (map fst (ents_of s)) -> NoDup (map fst (src_with s kind)).
Proof. unfold src_with. rewrite map_map. cbn [fst]. apply NoDup_map_filter. Qed.

(* the store's with_descriptor when no entityID is present twice: the concatenation of the sources' answers *)
Lemma model_with_concat kind : forall srcs acc,
  NoDup (all_ids srcs) -> (forall k, In k (all_ids srcs) -> ~ In k (map fst acc)) ->
  fold_left (fun acc ks => fold_left (fun acc' kv => upsert (fst kv) (snd kv) acc') (src_with (snd ks) kind) acc) srcs acc
  = acc ++ flat_map (fun ks => src_with (snd ks) kind) srcs.
Proof.
  induction srcs as [|[k s] r IH]; intros acc Hnd Hd; cbn [fold_left flat_map snd].
  - rewrite app_nil_r. reflexivity.
  - unfold all_ids in Hnd, Hd. cbn [flat_map snd] in Hnd, Hd. fold (all_ids r) in Hnd, Hd.
    destruct (NoDup_app_inv _ _ Hnd) as [N1 [N2 N3]].
    rewrite fold_upsert_fresh.
    + rewrite IH; [rewrite <- app_assoc; reflexivity|exact N2|].
      intros k' Hin. rewrite map_app, in_app_iff. intros [H|H].
      * apply (Hd k'); [apply in_or_app; right; exact Hin|exact H].
      * apply src_with_keys in H. apply (N3 k' H Hin).
    + apply src_with_nodup. exact N1.
    + intros k' Hin. apply Hd. apply in_or_app. left. eapply src_with_keys; eauto.
Qed.

Lemma ref_with_concat kind : forall srcs seen,
  NoDup (all_ids srcs) -> (forall k, In k (all_ids srcs) -> ~ In k seen) ->
  ref_with (abs_srcs srcs) seen kind = flat_map (fun ks => src_with (snd ks) kind) srcs.
Proof.
  induction srcs as [|[k s] r IH]; intros seen Hnd Hd; [reflexivity|].
  rewrite abs_srcs_cons. cbn [ref_with flat_map snd]. rewrite rents_abs.
  unfold all_ids in Hnd, Hd. cbn [flat_map snd] in Hnd, Hd. fold (all_ids r) in Hnd, Hd.
  destruct (NoDup_app_inv _ _ Hnd) as [N1 [N2 N3]].
  rewrite IH.
  - f_equal. unfold src_with. f_equal. apply filter_ext_in'. intros [k' v'] Hin. cbn [fst snd].
    destruct (mem k' seen) eqn:E; [|reflexivity]. apply mem_In in E. exfalso.
    apply (Hd k'); [apply in_or_app; left; apply (in_map fst _ _ Hin)|exact E].
  - exact N2.
  - intros k' Hin. rewrite in_app_iff. intros [H|H].
    + apply (Hd k'); [apply in_or_app; right; exact Hin|exact H].
    + apply (N3 k' H Hin).
Qed.

Lemma with_sim kind srcs :
  nodup_b (all_ids srcs) = true ->
  fold_left (fun acc ks => fold_left (fun acc' kv => upsert (fst kv) (snd kv) acc') (src_with (snd ks) kind) acc) srcs []
  = ref_with (abs_srcs srcs) [] kind.
Proof.
  intros H. apply nodup_b_iff in H.
  rewrite model_with_concat, ref_with_concat; auto.
Qed.

(* ------------------------------------------------------------------ one query *)
Definition guard_query (srv : server) (srcs : sources) (q : query) : bool :=
  match q with
  | QGet e | QCerts e _ _ | QCats e | QReg e =>
      all_tol srv e srcs && ((homes srcs e <=? 1)%nat || all_quiet srv e srcs)
  | QService e _ _ _ | QSso e _ | QAcs e _ => all_tol srv e srcs && (homes srcs e <=? 1)%nat
  | QAttrReq e _ => all_tol srv e srcs
  | QKeys => true
  | QWith _ => nodup_b (all_ids srcs)
  end.

Lemma via_get_sim now srv srcs e none f srcs' a :
  norm none = ANone ->
  all_inv srcs -> all_tol srv e srcs && ((homes srcs e <=? 1)%nat || all_quiet srv e srcs) = true ->
  via_get now srv srcs e none f = (srcs', a) ->
  exists a', ref_via now srv (abs_srcs srcs) e none f = (abs_srcs srcs', a') /\ norm a = norm a' /\ all_inv srcs'.
Proof.
  intros Hn Hi Hg. apply andb_true_iff in Hg as [Ht Hg]. unfold via_get, ref_via.
  destruct (store_get now srv srcs e) as [s1 g] eqn:Eg. intros H; inversion H; subst.
  assert (Hg' : homes srcs e <= 1 \/ all_quiet srv e srcs = true).
  { apply orb_true_iff in Hg as [Hg|Hg]; [left; apply Nat.leb_le; exact Hg|right; exact Hg]. }
  destruct (store_get_sim now srv e srcs srcs' g Hi Ht Hg' Eg) as [S1 S2]. rewrite S1.
  eexists. split; [reflexivity|]. split; [|exact S2].
  destruct g; cbn [res_opt]; try reflexivity. rewrite Hn. reflexivity.
Qed.

Lemma query_sim now srv srcs q srcs' a :
  all_inv srcs -> guard_query srv srcs q = true ->
  answer_query now srv srcs q = (srcs', a) ->
  exists a', ref_answer now srv (abs_srcs srcs) q = (abs_srcs srcs', a') /\ norm a = norm a' /\ all_inv srcs'.
Proof.
  intros Hi Hg. destruct q; cbn [guard_query answer_query ref_answer] in *.
  - apply via_get_sim; auto.
  - apply andb_true_iff in Hg as [Ht Hh]. apply Nat.leb_le in Hh. apply store_service_sim; auto.
  - apply andb_true_iff in Hg as [Ht Hh]. apply Nat.leb_le in Hh. apply store_service_sim; auto.
  - apply andb_true_iff in Hg as [Ht Hh]. apply Nat.leb_le in Hh. apply store_service_sim; auto.
  - apply via_get_sim; auto.
  - apply store_attr_req_sim; auto.
  - apply via_get_sim; auto.
  - apply via_get_sim; auto.
  - intros H; inversion H; subst. eexists. split; [reflexivity|]. rewrite keys_abs. split; [reflexivity|exact Hi].
  - intros H; inversion H; subst. eexists. split; [reflexivity|]. rewrite (with_sim kind srcs' Hg). split; [reflexivity|exact Hi].
Qed.

(* queries never add, remove or reorder sources *)
Lemma src_get_static now srv m e : src_get now srv (SStatic m) e = (SStatic m, match lookup e m with Some en => ROk en | None => RKeyErr end).
Proof. reflexivity. Qed.

Lemma store_get_keys now srv e : forall srcs, map fst (fst (store_get now srv srcs e)) = map fst srcs.
Proof.
  induction srcs as [|[k s] r IH]; [reflexivity|]. cbn [store_get].
  destruct (src_get now srv s e) as [s1 g]. destruct g; try reflexivity.
  destruct (store_get now srv r e) as [r1 a1]. cbn [fst map] in *. rewrite IH. reflexivity.
Qed.

Lemma store_service_keys now srv e typ name b : forall srcs known,
  map fst (fst (store_service now srv srcs e typ name b known)) = map fst srcs.
Proof.
  induction srcs as [|[k s] r IH]; intros known; [reflexivity|]. cbn [store_service].
  destruct (src_get now srv s e) as [s1 g]. destruct g as [en| |]; try reflexivity.
  - destruct (ent_service en typ name b) as [| |[|x l]|[|x d]]; try reflexivity;
      match goal with |- context [store_service now srv r e typ name b ?K] =>
        specialize (IH K); destruct (store_service now srv r e typ name b K) as [r1 a1] end;
      cbn [fst map] in *; rewrite IH; reflexivity.
  - specialize (IH known). destruct (store_service now srv r e typ name b known) as [r1 a1].
    cbn [fst map] in *. rewrite IH. reflexivity.
Qed.

Lemma store_attr_req_keys now srv e index : forall srcs,
  map fst (fst (store_attr_req now srv srcs e index)) = map fst srcs.
Proof.
  induction srcs as [|[k s] r IH]; [reflexivity|]. cbn [store_attr_req].
  destruct (has_key e (ents_of s)).
  - destruct (src_get now srv s e) as [s1 g]. reflexivity.
  - destruct (store_attr_req now srv r e index) as [r1 a1]. cbn [fst map] in *. rewrite IH. reflexivity.
Qed.

Lemma answer_query_keys now srv srcs q : map fst (fst (answer_query now srv srcs q)) = map fst srcs.
Proof.
  destruct q; cbn [answer_query]; unfold via_get;
    try (pose proof (store_get_keys now srv e srcs) as H; destruct (store_get now srv srcs e); exact H);
    try apply store_service_keys; try apply store_attr_req_keys; reflexivity.
Qed.

(* ------------------------------------------------------------------ load / reload *)
Definition keys_ok (st : store) : Prop := forall n, In (KI n) (map fst (st_srcs st)) -> n <= st_ii st.

Definition nonempty {A} (l : list A) : bool := match l with [] => false | _ => true end.
(* finding class 3: an unsigned document that says something is accepted under a configured certificate *)
Definition class3_b (ns : bool) (now : Z) (sp : srcspec) (f : fetched) : bool :=
  eff_cert ns sp &&
  match f with
  | FBody (D d) Unsigned => match doc_says (eff_cv ns sp) now (D d) with
                            | Some es => nonempty (view (eff_cv ns sp) now es)
                            | None => false
                            end
  | _ => false
  end.

Lemma load_static_accept ns sp now f m :
  load_static ns sp now f = Some m -> class3_b ns now sp f = false -> accept ns now sp f = Some m.
Proof.
  unfold load_static, accept, class3_b. destruct f as [|p sg]; [discriminate|].
  rewrite parse_doc_says. destruct (doc_says (eff_cv ns sp) now p) as [es|] eqn:Ed; [|discriminate].
  destruct (sig_gate (eff_cert ns sp) (sp_kind sp) (eff_node ns sp) p sg) eqn:Eg; [|discriminate].
  intros H; inversion H; subst. clear H. intros Hc.
  destruct (eff_cert ns sp); [|reflexivity]. cbn [andb] in *.
  unfold sig_gate in Eg. cbn [negb] in Eg.
  destruct sg; cbn [sig_valid negb andb]; try reflexivity.
  - (* Unsigned *) destruct p as [| |d]; cbn in Ed; try discriminate.
    + inversion Ed; subst. reflexivity.
    + change (doc_says (eff_cv ns sp) now (D d)) with (doc_says (eff_cv ns sp) now (D d)) in Hc.
      unfold doc_says in Hc, Ed. rewrite Ed in Hc. unfold nonempty in Hc.
      destruct (view (eff_cv ns sp) now es); [reflexivity|discriminate].
  - (* Tampered *) destruct p as [| |d]; cbn in Ed, Eg; try discriminate.
    + inversion Ed; subst. reflexivity.
    + unfold verify in Eg. destruct (sp_kind sp); discriminate.
  - (* WrongKey *) destruct p as [| |d]; cbn in Ed, Eg; try discriminate.
    + inversion Ed; subst. reflexivity.
    + unfold verify in Eg. destruct (sp_kind sp); discriminate.
Qed.

Lemma in_kupsert k v : forall l k', In k' (map fst (kupsert k v l)) -> k' = k \/ In k' (map fst l).
Proof.
  induction l as [|[k0 v0] r IH]; cbn [kupsert map fst In]; intros k' H.
  - destruct H as [<-|[]]. left; reflexivity.
  - destruct (key_eqb k k0); cbn [map fst In] in H.
    + destruct H as [<-|H]; [left; reflexivity|right; right; exact H].
    + destruct H as [<-|H]; [right; left; reflexivity|]. destruct (IH k' H) as [->|H']; [left; reflexivity|right; right; exact H'].
Qed.

Lemma all_inv_kupsert k v : forall l, src_inv v -> all_inv l -> all_inv (kupsert k v l).
Proof.
  induction l as [|[k0 v0] r IH]; intros Hv Hl; cbn [kupsert].
  - constructor; [exact Hv|constructor].
  - inversion Hl; subst. destruct (key_eqb k k0); constructor; auto. apply IH; assumption.
Qed.

Lemma abs_kupsert k v : forall l,
  (forall k', In k' (map fst l) -> key_eqb k k' = okey_eqb (abs_key k) (abs_key k')) ->
  abs_srcs (kupsert k v l) = oupsert (abs_key k) (abs_src v) (abs_srcs l).
Proof.
  induction l as [|[k0 v0] r IH]; intros H; [reflexivity|].
  rewrite abs_srcs_cons. cbn [kupsert oupsert]. rewrite <- (H k0) by (left; reflexivity).
  destruct (key_eqb k k0); [reflexivity|]. rewrite abs_srcs_cons. f_equal. apply IH.
  intros k' Hin. apply H. right; exact Hin.
Qed.

Lemma key_match_S st k' : keys_ok st -> In k' (map fst (st_srcs st)) ->
  key_eqb (KI (S (st_ii st))) k' = okey_eqb (abs_key (KI (S (st_ii st)))) (abs_key k').
Proof.
  intros Hk Hin. destruct k' as [n|s]; cbn [key_eqb abs_key okey_eqb]; [|reflexivity].
  specialize (Hk n Hin). apply Nat.eqb_neq. lia.
Qed.
Lemma key_match_str s k' : key_eqb (KS s) k' = okey_eqb (abs_key (KS s)) (abs_key k').
Proof. destruct k'; reflexivity. Qed.

Lemma mdx_inv_empty c p : mdx_inv {| x_ents := []; x_exp := []; x_cert := c; x_period := p |}.
Proof. intros e H. discriminate. Qed.

Lemma load1_sim ns now st sp f st' ok :
  keys_ok st -> all_inv (st_srcs st) -> load1 ns now st sp f = (st', ok) ->
  keys_ok st' /\ all_inv (st_srcs st') /\ st_ii st <= st_ii st' /\
  (if ok then class3_b ns now sp f = false ->
              ref_load1 ns now (abs_srcs (st_srcs st)) sp f = Some (abs_srcs (st_srcs st'))
   else st_srcs st' = st_srcs st).
Proof.
  intros Hk Hi. unfold load1, ref_load1, okey.
  set (ii' := match sp_kind sp with KInline => if ns then st_ii st else S (st_ii st) | _ => st_ii st end).
  assert (Hii : st_ii st <= ii') by (unfold ii'; destruct (sp_kind sp), ns; lia).
  set (k := match sp_kind sp with KInline => if ns then KS (sp_key sp) else KI ii' | _ => KS (sp_key sp) end).
  assert (Hkm : forall k', In k' (map fst (st_srcs st)) -> key_eqb k k' = okey_eqb (abs_key k) (abs_key k')).
  { intros k' Hin. unfold k, ii'. destruct (sp_kind sp), ns; try apply key_match_str. apply key_match_S; assumption. }
  assert (Hak : abs_key k = match sp_kind sp with KInline => if ns then Some (sp_key sp) else None | _ => Some (sp_key sp) end).
  { unfold k. destruct (sp_kind sp), ns; reflexivity. }
  assert (Hko : forall v, keys_ok {| st_srcs := kupsert k v (st_srcs st); st_ii := ii' |}).
  { intros v n Hin. cbn [st_srcs st_ii] in *. apply in_kupsert in Hin as [Hin|Hin].
    - unfold k in Hin. destruct (sp_kind sp), ns; try discriminate. inversion Hin. lia.
    - specialize (Hk n Hin). lia. }
  assert (Hko' : keys_ok {| st_srcs := st_srcs st; st_ii := ii' |}).
  { intros n Hin. cbn [st_srcs st_ii] in *. specialize (Hk n Hin). lia. }
  destruct (sp_kind sp) eqn:Ek.
  1-3: destruct (load_static ns sp now f) as [m|] eqn:El; intros H; inversion H; subst; cbn [st_srcs st_ii];
       [split; [apply Hko|]; split; [apply all_inv_kupsert; [exact I|exact Hi]|]; split; [exact Hii|];
        intros Hc; rewrite (load_static_accept _ _ _ _ _ El Hc), <- Hak; f_equal; symmetry; apply abs_kupsert; exact Hkm
       |split; [exact Hko'|]; split; [exact Hi|]; split; [exact Hii|reflexivity]].
  destruct ns; intros H; inversion H; subst; cbn [st_srcs st_ii].
  - split; [exact Hko'|]. split; [exact Hi|]. split; [exact Hii|reflexivity].
  - split; [apply Hko|]. split; [apply all_inv_kupsert; [apply mdx_inv_empty|exact Hi]|]. split; [exact Hii|].
    intros _. rewrite <- Hak. f_equal. symmetry. rewrite abs_kupsert by exact Hkm. reflexivity.
Qed.

Definition items_guard (ns : bool) (now : Z) (items : list (srcspec * fetched)) : bool :=
  forallb (fun it => negb (class3_b ns now (fst it) (snd it))) items.

Lemma imp_sim ns now : forall items st st' ok,
  keys_ok st -> all_inv (st_srcs st) -> imp ns now st items = (st', ok) ->
  st_ii st <= st_ii st' /\
  (ok = true -> keys_ok st' /\ all_inv (st_srcs st') /\
                (items_guard ns now items = true ->
                 ref_imp ns now (abs_srcs (st_srcs st)) items = Some (abs_srcs (st_srcs st')))).
Proof.
  induction items as [|[sp f] r IH]; intros st st' ok Hk Hi H.
  - cbn in H. inversion H; subst. split; [lia|]. intros _. split; [exact Hk|]. split; [exact Hi|]. reflexivity.
  - cbn [imp] in H. destruct (load1 ns now st sp f) as [st1 ok1] eqn:El.
    destruct (load1_sim ns now st sp f st1 ok1 Hk Hi El) as [L1 [L2 [L3 L4]]].
    destruct ok1.
    + destruct (IH st1 st' ok L1 L2 H) as [I1 I2]. split; [lia|]. intros Hok.
      destruct (I2 Hok) as [J1 [J2 J3]]. split; [exact J1|]. split; [exact J2|].
      unfold items_guard. cbn [forallb fst snd ref_imp]. intros Hg. apply andb_true_iff in Hg as [Hg1 Hg2].
      apply negb_true_iff in Hg1. rewrite (L4 Hg1). apply J3. exact Hg2.
    + inversion H; subst. split; [exact L3|]. discriminate.
Qed.

Lemma reload_sim ns now st items st' ok :
  keys_ok st -> all_inv (st_srcs st) -> reload ns now st items = (st', ok) ->
  keys_ok st' /\ all_inv (st_srcs st') /\
  (if ok then items_guard ns now items = true -> ref_imp ns now [] items = Some (abs_srcs (st_srcs st'))
   else st_srcs st' = st_srcs st).
Proof.
  intros Hk Hi. unfold reload.
  destruct (imp ns now {| st_srcs := []; st_ii := st_ii st |} items) as [st1 ok1] eqn:Ei.
  assert (Hk0 : keys_ok {| st_srcs := []; st_ii := st_ii st |}) by (intros n []).
  assert (Hi0 : all_inv (st_srcs {| st_srcs := []; st_ii := st_ii st |})) by constructor.
  destruct (imp_sim ns now items _ st1 ok1 Hk0 Hi0 Ei) as [I1 I2]. cbn [st_ii st_srcs] in *.
  destruct ok1; intros H; inversion H; subst.
  - destruct (I2 eq_refl) as [J1 [J2 J3]]. split; [exact J1|]. split; [exact J2|exact J3].
  - cbn [st_srcs]. split; [|split; [exact Hi|reflexivity]].
    intros n Hin. cbn [st_srcs st_ii] in *. specialize (Hk n Hin). lia.
Qed.

(* ------------------------------------------------------------------ whole histories *)
Definition winv (w : world) : Prop := keys_ok (w_store w) /\ all_inv (st_srcs (w_store w)).

(* the situation of operation [o] in state [w] is outside every finding class *)
Definition guard_op (w : world) (o : op) : bool :=
  match o with
  | OLoad ns sp f => negb (class3_b ns (w_now w) sp f)
  | OReload ns items => items_guard ns (w_now w) items
  | OQuery q => guard_query (w_srv w) (st_srcs (w_store w)) q
  | OTick _ | OServer _ => true
  end.

Fixpoint guarded (w : world) (h : list op) : Prop :=
  match h with
  | [] => True
  | o :: r => guard_op w o = true /\ guarded (fst (step w o)) r
  end.

Fixpoint guarded_b (w : world) (h : list op) : bool :=
  match h with
  | [] => true
  | o :: r => guard_op w o && guarded_b (fst (step w o)) r
  end.
Lemma guarded_b_iff h : forall w, guarded_b w h = true <-> guarded w h.
Proof.
  induction h as [|o r IH]; intros w; cbn [guarded_b guarded]; [tauto|].
  rewrite andb_true_iff, IH. tauto.
Qed.

Lemma winv_init now : winv (init now).
Proof. split; [intros n []|constructor]. Qed.

Lemma abs_init now : abs (init now) = rinit now.
Proof. reflexivity. Qed.

Lemma abs_same_srcs w st :
  st_srcs st = st_srcs (w_store w) ->
  abs {| w_store := st; w_now := w_now w; w_srv := w_srv w |} = abs w.
Proof. intros H. unfold abs. cbn [w_store w_now w_srv]. rewrite H. reflexivity. Qed.

Theorem refines : forall h w, winv w -> guarded w h -> spec (abs w) h (run w h).
Proof.
  induction h as [|o r IH]; intros w [Hk Hi] Hg; [reflexivity|].
  destruct Hg as [Hgo Hg]. destruct o as [ns sp f|ns items|dt|tbl|q]; cbn [run step spec guard_op] in *.
  - destruct (load1 ns (w_now w) (w_store w) sp f) as [st ok] eqn:El. cbn [fst] in Hg.
    destruct (load1_sim _ _ _ _ _ _ _ Hk Hi El) as [L1 [L2 [_ L4]]].
    apply negb_true_iff in Hgo. cbn [app].
    destruct ok.
    + exists (abs_srcs (st_srcs st)). split; [apply L4; exact Hgo|].
      apply (IH {| w_store := st; w_now := w_now w; w_srv := w_srv w |}); [split; assumption|exact Hg].
    + rewrite <- (abs_same_srcs w st L4).
      apply (IH {| w_store := st; w_now := w_now w; w_srv := w_srv w |}); [split; assumption|exact Hg].
  - destruct (reload ns (w_now w) (w_store w) items) as [st ok] eqn:El. cbn [fst] in Hg.
    destruct (reload_sim _ _ _ _ _ _ Hk Hi El) as [L1 [L2 L4]]. cbn [app].
    destruct ok.
    + exists (abs_srcs (st_srcs st)). split; [apply L4; exact Hgo|].
      apply (IH {| w_store := st; w_now := w_now w; w_srv := w_srv w |}); [split; assumption|exact Hg].
    + rewrite <- (abs_same_srcs w st L4).
      apply (IH {| w_store := st; w_now := w_now w; w_srv := w_srv w |}); [split; assumption|exact Hg].
  - cbn [fst app] in *.
    apply (IH {| w_store := w_store w; w_now := (w_now w + dt)%Z; w_srv := w_srv w |}); [split; assumption|exact Hg].
  - cbn [fst app] in *.
    apply (IH {| w_store := w_store w; w_now := w_now w; w_srv := tbl |}); [split; assumption|exact Hg].
  - destruct (answer_query (w_now w) (w_srv w) (st_srcs (w_store w)) q) as [srcs a] eqn:Ea. cbn [fst app] in *.
    destruct (query_sim _ _ _ _ _ _ Hi Hgo Ea) as [a' [Q1 [Q2 Q3]]].
    cbn [abs r_srcs r_now r_srv]. rewrite Q1. cbn [fst snd]. split; [exact Q2|].
    apply (IH {| w_store := {| st_srcs := srcs; st_ii := st_ii (w_store w) |}; w_now := w_now w; w_srv := w_srv w |});
      [|exact Hg].
    split; [|exact Q3]. intros n Hin. cbn [w_store st_srcs st_ii] in *.
    pose proof (answer_query_keys (w_now w) (w_srv w) (st_srcs (w_store w)) q) as Hkeys. rewrite Ea in Hkeys.
    cbn [fst] in Hkeys. rewrite Hkeys in Hin. apply Hk. exact Hin.
Qed.

(* the model, run on any history that stays outside the finding classes, satisfies the property *)
Theorem model_satisfies_spec now h : guarded (init now) h -> spec (rinit now) h (run (init now) h).
Proof. intros H. rewrite <- abs_init. apply refines; [apply winv_init|exact H]. Qed.
