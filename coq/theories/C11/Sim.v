(* C11/Sim.v — the model of the code as it is now ([cur]) refines the reference store of Spec.v.

   [abs] maps a model state to the reference state it stands for; every operation of the model is matched
   EXACTLY by the reference transition, for ALL histories, without any hypothesis on the inputs. *)
From Coq Require Import String List Bool ZArith Arith Lia.
From Verif Require Import Base.Str C11.Model C11.Dec C11.Spec C11.Proofs.
Import ListNotations.
Open Scope string_scope.
Open Scope list_scope.

(* a value-wise map that keeps the keys *)
Section KeyMap.
  Context {A B : Type} (g : string -> A -> B).
  Definition kmap (l : list (string * A)) : list (string * B) := map (fun kv => (fst kv, g (fst kv) (snd kv))) l.

  Lemma lookup_kmap k l : lookup k (kmap l) = option_map (g k) (lookup k l).
  Proof.
    induction l as [|[k' v] r IH]; cbn [kmap map lookup fst snd option_map]; [reflexivity|].
    destruct (String.eqb k k') eqn:E; [apply String.eqb_eq in E; subst; reflexivity|exact IH].
  Qed.

  Lemma remove_kmap k l : remove_key k (kmap l) = kmap (remove_key k l).
  Proof.
    induction l as [|[k' v] r IH]; cbn [kmap map remove_key fst snd]; [reflexivity|].
    destruct (String.eqb k k'); [exact IH|]. cbn [map fst snd]. f_equal. exact IH.
  Qed.

  Lemma has_key_kmap k l : has_key k (kmap l) = has_key k l.
  Proof. unfold has_key. rewrite lookup_kmap. destruct (lookup k l); reflexivity. Qed.
End KeyMap.

(* ------------------------------------------------------------------ abstraction *)
Definition abs_key (k : key) : option string := match k with KI _ => None | KS s => Some s end.
Definition exp_of (ex : list (string * Z)) (e : string) : Z := match lookup e ex with Some t => t | None => 0%Z end.
Definition abs_cache (x : mdx) : list (string * (ent * Z)) := kmap (fun k en => (en, exp_of (x_exp x) k)) (x_ents x).
Definition abs_src (s : source) : rsource :=
  match s with SStatic m => RStatic m | SMdx x => RMdq (x_cert x) (x_period x) (abs_cache x) end.
Definition abs_srcs (l : sources) : rsources := map (fun ks => (abs_key (fst ks), abs_src (snd ks))) l.
Definition abs (w : world) : rworld :=
  {| r_srcs := abs_srcs (st_srcs (w_store w)); r_now := w_now w; r_srv := w_srv w |}.

Definition res_opt (g : res ent) : option ent := match g with ROk en => Some en | _ => None end.


(* every cached entity has an expiration date *)
Definition mdx_inv (x : mdx) : Prop := forall e, has_key e (x_ents x) = true -> has_key e (x_exp x) = true.

Definition refresh (cert : bool) (period now : Z) (srv : server) (e : string) (c : list (string * (ent * Z))) :=
  match mdq_fresh cert now srv e with
  | Some en => (c ++ [(e, (en, (now + period)%Z))], Some en)
  | None => (c, None)
  end.

Lemma mdq_get_unfold cert period now srv c e :
  mdq_get cert period now srv c e =
  match lookup e c with
  | Some (en, t) => if (now <=? t)%Z then (c, Some en) else refresh cert period now srv e (remove_key e c)
  | None => refresh cert period now srv e c
  end.
Proof. reflexivity. Qed.

Lemma abs_cache_exp_other x e t (m : emap) :
  lookup e m = None ->
  kmap (fun k en => (en, exp_of (upsert e t (x_exp x)) k)) m = kmap (fun k en => (en, exp_of (x_exp x) k)) m.
Proof.
  intros Hn. unfold kmap. apply map_ext_in. intros kv Hin. f_equal. f_equal.
  unfold exp_of. rewrite lookup_upsert_other; [reflexivity|]. eapply lookup_none_key; eassumption.
Qed.

Lemma exp_of_upsert_same e t ex : exp_of (upsert e t ex) e = t.
Proof. unfold exp_of. rewrite lookup_upsert_same. reflexivity. Qed.

(* the signature gate of the code as it is now *)
Lemma sig_gate_cur_doc cert k node d sg :
  sig_gate cur cert k node (D d) sg = negb cert || (sig_valid sg && match node with None => true | Some g => Bool.eqb g (is_group (D d)) end).
Proof. unfold sig_gate, verify. destruct cert, k, sg; reflexivity. Qed.

Lemma sig_gate_wrongroot cert k node sg : sig_gate cur cert k node WrongRoot sg = true.
Proof. unfold sig_gate. destruct cert; reflexivity. Qed.

Lemma sig_gate_mdq_doc cert d sg : sig_gate cur cert KMdq (Some false) (D d) sg = mdq_sig_ok cert (D d) sg.
Proof. rewrite sig_gate_cur_doc. unfold mdq_sig_ok. destruct (is_group (D d)); reflexivity. Qed.

Lemma upsert_absent {A} k (v : A) l : lookup k l = None -> upsert k v l = l ++ [(k, v)].
Proof.
  induction l as [|[k' v'] r IH]; cbn [lookup upsert app]; [reflexivity|].
  destruct (String.eqb k k'); [discriminate|]. intros H. rewrite IH by exact H. reflexivity.
Qed.

Lemma fetch_sim x now srv e x' g :
  lookup e (x_ents x) = None ->
  mdx_fetch cur x now srv e = (x', g) ->
  refresh (x_cert x) (x_period x) now srv e (abs_cache x) = (abs_cache x', res_opt g)
  /\ x_cert x' = x_cert x /\ x_period x' = x_period x
  /\ (mdx_inv x -> mdx_inv x') /\ g <> RRaise.
Proof.
  intros Hn. unfold mdx_fetch. cbn [f_mdq f_group cur].
  change (expiry cur now (x_period x)) with (now + x_period x)%Z.   (* the code now: no zone enters *)
  unfold refresh, mdq_fresh.
  destruct (ask srv e) as [|p sg] eqn:Ea.
  { intros H; inversion H; subst. cbn. repeat split; auto; discriminate. }
  assert (Hexp : forall t, abs_cache {| x_ents := x_ents x; x_exp := upsert e t (x_exp x); x_cert := x_cert x; x_period := x_period x |}
                           = abs_cache x).
  { intros t. unfold abs_cache. cbn [x_ents x_exp]. apply abs_cache_exp_other. exact Hn. }
  assert (Hinv : forall t, mdx_inv x ->
                 mdx_inv {| x_ents := x_ents x; x_exp := upsert e t (x_exp x); x_cert := x_cert x; x_period := x_period x |}).
  { intros t Hi k Hk. cbn [x_ents x_exp] in *. rewrite has_key_upsert, (Hi k Hk). apply orb_true_r. }
  rewrite parse_doc_says. destruct (doc_says true now p) as [es|] eqn:Ed.
  2:{ intros H; inversion H; subst. cbn. repeat split; auto. discriminate. }
  (* the gate of the code = the reference's, whenever it matters *)
  assert (Hgate : sig_gate cur (x_cert x) KMdq (Some false) p sg = mdq_sig_ok (x_cert x) p sg
                  \/ (sig_gate cur (x_cert x) KMdq (Some false) p sg = true /\ lookup e (view true now es) = None)).
  { destruct p as [| |d].
    - cbn in Ed. discriminate.
    - right. cbn in Ed. inversion Ed; subst. split; [apply sig_gate_wrongroot|reflexivity].
    - left. apply sig_gate_mdq_doc. }
  assert (Hcase : (sig_gate cur (x_cert x) KMdq (Some false) p sg = true /\
                   (if mdq_sig_ok (x_cert x) p sg then lookup e (view true now es) else None) = lookup e (view true now es))
                  \/ (sig_gate cur (x_cert x) KMdq (Some false) p sg = false /\ mdq_sig_ok (x_cert x) p sg = false)).
  { destruct Hgate as [Hg|[Hg Hl]].
    - rewrite Hg. destruct (mdq_sig_ok (x_cert x) p sg); [left|right]; auto.
    - left. split; [exact Hg|]. rewrite Hl. destruct (mdq_sig_ok (x_cert x) p sg); reflexivity. }
  destruct Hcase as [[Hg Hl]|[Hg Hm]]; rewrite Hg.
  - rewrite Hl. destruct (lookup e (view true now es)) as [en|] eqn:El.
    + intros H; inversion H; subst x' g. clear H.
      rewrite (upsert_absent _ _ _ Hn). unfold abs_cache, kmap. cbn [x_ents x_exp x_cert x_period res_opt]. rewrite map_app.
      fold (kmap (fun k en => (en, exp_of (upsert e (now + x_period x)%Z (x_exp x)) k)) (x_ents x)).
      rewrite (abs_cache_exp_other x e _ _ Hn). cbn [map fst snd]. rewrite exp_of_upsert_same.
      repeat split; try discriminate.
      intros Hi k Hkk. cbn [x_ents x_exp] in *. rewrite has_key_upsert. rewrite has_key_app in Hkk.
      apply orb_true_iff in Hkk as [Hkk|Hkk]; [rewrite (Hi k Hkk); apply orb_true_r|].
      unfold has_key in Hkk. cbn [lookup] in Hkk. destruct (String.eqb k e); [reflexivity|discriminate].
    + intros H; inversion H; subst. clear H. rewrite Hexp. cbn [x_cert x_period res_opt]. repeat split; auto. discriminate.
  - rewrite Hm. intros H; inversion H; subst. cbn. repeat split; auto. discriminate.
Qed.

Lemma lookup_abs_cache x e :
  lookup e (abs_cache x) = option_map (fun en => (en, exp_of (x_exp x) e)) (lookup e (x_ents x)).
Proof. unfold abs_cache. apply lookup_kmap. Qed.

Lemma mdx_get_sim x now srv e x' g :
  mdx_inv x ->
  mdx_get cur x now srv e = (x', g) ->
  mdq_get (x_cert x) (x_period x) now srv (abs_cache x) e = (abs_cache x', res_opt g)
  /\ x_cert x' = x_cert x /\ x_period x' = x_period x /\ mdx_inv x' /\ g <> RRaise.
Proof.
  intros Hi. rewrite mdq_get_unfold, lookup_abs_cache. unfold mdx_get.
  destruct (lookup e (x_ents x)) as [en|] eqn:El; cbn [option_map].
  - assert (Hk : has_key e (x_exp x) = true) by (apply Hi; eapply lookup_some_haskey; eauto).
    unfold exp_of. unfold has_key in Hk. destruct (lookup e (x_exp x)) as [t|] eqn:Ex; [|discriminate].
    destruct (now <=? t)%Z.
    + intros H; inversion H; subst. repeat split; auto. discriminate.
    + intros H.
      match type of H with mdx_fetch _ ?X _ _ _ = _ => set (x0 := X) in * end.
      assert (Hn0 : lookup e (x_ents x0) = None) by (unfold x0; cbn [x_ents]; apply lookup_remove_same).
      destruct (fetch_sim x0 now srv e x' g Hn0 H) as [H1 [H2 [H3 [H4 H5]]]].
      assert (Ea : abs_cache x0 = remove_key e (abs_cache x)).
      { unfold abs_cache, x0. cbn [x_ents x_exp]. symmetry. apply remove_kmap. }
      rewrite <- Ea. change (x_cert x) with (x_cert x0). change (x_period x) with (x_period x0).
      repeat split; auto. apply H4. intros k Hkk. unfold x0 in *. cbn [x_ents x_exp] in *.
      apply Hi. eapply has_key_remove; eauto.
  - intros H. destruct (fetch_sim x now srv e x' g El H) as [H1 [H2 [H3 [H4 H5]]]]. repeat split; auto.
Qed.

(* looking an entity up a second time changes nothing (the store's service() does it) *)
Lemma remove_key_absent {A} k (l : list (string * A)) : lookup k l = None -> remove_key k l = l.
Proof.
  induction l as [|[k' v'] r IH]; cbn [lookup remove_key]; [reflexivity|].
  destruct (String.eqb k k'); [discriminate|]. intros H. rewrite IH by exact H. reflexivity.
Qed.

Lemma mdq_get_idem cert period now srv c e c1 en :
  mdq_get cert period now srv c e = (c1, Some en) -> mdq_get cert period now srv c1 e = (c1, Some en).
Proof.
  rewrite !mdq_get_unfold.
  assert (R : forall c0, lookup e c0 = None -> refresh cert period now srv e c0 = (c1, Some en) ->
              match lookup e c1 with
              | Some (en0, t) => if (now <=? t)%Z then (c1, Some en0) else refresh cert period now srv e (remove_key e c1)
              | None => refresh cert period now srv e c1
              end = (c1, Some en)).
  { intros c0 Hn. unfold refresh. destruct (mdq_fresh cert now srv e) as [en1|] eqn:Ef; [|discriminate].
    intros H; inversion H; subst. rewrite lookup_app, Hn. cbn [lookup]. rewrite String.eqb_refl.
    destruct (now <=? now + period)%Z; [reflexivity|].
    rewrite remove_key_filter, filter_app, <- remove_key_filter, (remove_key_absent _ _ Hn).
    cbn [filter fst]. rewrite String.eqb_refl. cbn [negb]. rewrite app_nil_r. reflexivity. }
  destruct (lookup e c) as [[en0 t]|] eqn:El.
  - destruct (now <=? t)%Z eqn:Et.
    + intros H; inversion H; subst. rewrite El, Et. reflexivity.
    + apply R. apply lookup_remove_same.
  - apply R. exact El.
Qed.

Definition src_inv (s : source) : Prop := match s with SStatic _ => True | SMdx x => mdx_inv x end.

Lemma src_get_sim now srv s e s' g :
  src_inv s -> src_get cur now srv s e = (s', g) ->
  rsrc_get now srv (abs_src s) e = (abs_src s', res_opt g) /\ src_inv s' /\ g <> RRaise.
Proof.
  destruct s as [m|x]; cbn [src_inv src_get abs_src rsrc_get].
  - intros _ H. inversion H; subst. repeat split; auto; destruct (lookup e m); try reflexivity; discriminate.
  - intros Hi. destruct (mdx_get cur x now srv e) as [x1 g1] eqn:Eg. intros H; inversion H; subst.
    destruct (mdx_get_sim x now srv e x1 g Hi Eg) as [H1 [H2 [H3 [H4 H5]]]].
    rewrite H1. cbn [abs_src src_inv]. rewrite H2, H3. repeat split; auto.
Qed.

Lemma rsrc_get_idem now srv s e s1 en :
  rsrc_get now srv s e = (s1, Some en) -> rsrc_get now srv s1 e = (s1, Some en).
Proof.
  destruct s as [v|cert period c]; cbn [rsrc_get].
  - intros H; inversion H; subst. cbn [rsrc_get]. rewrite H2. reflexivity.
  - destruct (mdq_get cert period now srv c e) as [c1 r] eqn:Eg. intros H; inversion H; subst.
    cbn [rsrc_get]. rewrite (mdq_get_idem _ _ _ _ _ _ _ _ Eg). reflexivity.
Qed.

Definition all_inv (srcs : sources) : Prop := Forall (fun ks => src_inv (snd ks)) srcs.

Lemma abs_srcs_cons k s r : abs_srcs ((k, s) :: r) = (abs_key k, abs_src s) :: abs_srcs r.
Proof. reflexivity. Qed.

(* __getitem__ of the store = the reference's "first source that has it" *)
Lemma store_get_sim now srv e : forall srcs srcs' g,
  all_inv srcs -> store_get cur now srv srcs e = (srcs', g) ->
  ref_get now srv (abs_srcs srcs) e = (abs_srcs srcs', res_opt g) /\ all_inv srcs' /\ g <> RRaise.
Proof.
  induction srcs as [|[k s] r IH]; intros srcs' g Hi H.
  - cbn in H. inversion H; subst. repeat split; [constructor|discriminate].
  - inversion Hi as [|? ? Hs Hr]; subst. rewrite abs_srcs_cons. cbn [store_get ref_get] in *.
    destruct (src_get cur now srv s e) as [s1 g1] eqn:Eg.
    destruct (src_get_sim now srv s e s1 g1 Hs Eg) as [S1 [S2 S3]]. rewrite S1.
    destruct g1 as [en| |]; cbn [res_opt]; [| |contradiction].
    + inversion H; subst. repeat split; [constructor; assumption|discriminate].
    + destruct (store_get cur now srv r e) as [r1 a1] eqn:Er. inversion H; subst.
      destruct (IH r1 g Hr eq_refl) as [I1 [I2 I3]]. rewrite I1. repeat split; [constructor; assumption|exact I3].
Qed.

(* service(): the first source that has the entity answers — exactly the reference *)
Lemma store_service_sim now srv e typ name b : forall srcs srcs' a,
  all_inv srcs -> store_service cur now srv srcs e typ name b = (srcs', a) ->
  ref_via now srv (abs_srcs srcs) e AUnknown (fun en => svc_answer en typ name b) = (abs_srcs srcs', a) /\ all_inv srcs'.
Proof.
  unfold store_service, ref_via. cbn [f_fall cur].
  induction srcs as [|[k s] r IH]; intros srcs' a Hi H.
  - cbn in H. inversion H; subst. split; [reflexivity|constructor].
  - inversion Hi as [|? ? Hs Hr]; subst. rewrite abs_srcs_cons. cbn [store_service_new ref_get] in *.
    destruct (src_get cur now srv s e) as [s1 g1] eqn:Eg.
    destruct (src_get_sim now srv s e s1 g1 Hs Eg) as [S1 [S2 S3]]. rewrite S1.
    destruct g1 as [en| |]; cbn [res_opt]; [| |contradiction].
    + destruct (src_get cur now srv s1 e) as [s2 g2] eqn:Eg2.
      destruct (src_get_sim now srv s1 e s2 g2 S2 Eg2) as [T1 [T2 T3]].
      rewrite (rsrc_get_idem _ _ _ _ _ _ S1) in T1. inversion T1 as [[Ta Tb]].
      destruct g2 as [en2| |]; cbn [res_opt] in Tb; try discriminate. inversion Tb; subst en2.
      inversion H; subst. rewrite abs_srcs_cons, <- Ta. split; [reflexivity|]. constructor; assumption.
    + destruct (store_service_new cur now srv r e typ name b) as [r1 a1] eqn:Er. inversion H; subst.
      destruct (IH r1 a Hr eq_refl) as [I1 I2].
      destruct (ref_get now srv (abs_srcs r) e) as [rr og] eqn:Erg. inversion I1; subst.
      split; [reflexivity|]. constructor; assumption.
Qed.

(* ------------------------------------------------------------------ attribute_requirement, keys, with_descriptor *)
Lemma rents_abs s : rents (abs_src s) = ents_of s.
Proof.
  destruct s as [m|x]; [reflexivity|]. cbn [abs_src rents ents_of]. unfold abs_cache, kmap. rewrite map_map.
  cbn [fst snd]. rewrite <- (map_id (x_ents x)) at 2. apply map_ext. intros [k v]. reflexivity.
Qed.


Lemma store_attr_req_sim now srv e index : forall srcs srcs' a,
  all_inv srcs -> store_attr_req cur now srv srcs e index = (srcs', a) ->
  ref_attr_req now srv (abs_srcs srcs) e index = (abs_srcs srcs', a) /\ all_inv srcs'.
Proof.
  induction srcs as [|[k s] r IH]; intros srcs' a Hi H.
  - cbn in H. inversion H; subst. split; [reflexivity|constructor].
  - inversion Hi as [|? ? Hs Hr]; subst. rewrite abs_srcs_cons. cbn [store_attr_req ref_attr_req] in *. rewrite rents_abs.
    destruct (has_key e (ents_of s)).
    + destruct (src_get cur now srv s e) as [s1 g1] eqn:Eg.
      destruct (src_get_sim now srv s e s1 g1 Hs Eg) as [S1 [S2 S3]]. rewrite S1. inversion H; subst.
      split; [|constructor; assumption]. destruct g1; try reflexivity. contradiction.
    + destruct (store_attr_req cur now srv r e index) as [r1 a1] eqn:Er. inversion H; subst.
      destruct (IH r1 a Hr eq_refl) as [I1 I2]. rewrite I1. split; [reflexivity|]. constructor; assumption.
Qed.

Lemma keys_abs srcs :
  flat_map (fun ks => map fst (rents (snd ks))) (abs_srcs srcs) = flat_map (fun ks => map fst (ents_of (snd ks))) srcs.
Proof.
  induction srcs as [|[k s] r IH]; [reflexivity|]. rewrite abs_srcs_cons. cbn [flat_map snd]. rewrite rents_abs, IH. reflexivity.
Qed.


Lemma with_sim kind : forall srcs seen, with_new srcs seen kind = ref_with (abs_srcs srcs) seen kind.
Proof.
  induction srcs as [|[k s] r IH]; intros seen; [reflexivity|].
  rewrite abs_srcs_cons. cbn [with_new ref_with]. rewrite rents_abs, IH. reflexivity.
Qed.

(* ------------------------------------------------------------------ one query *)
Lemma via_get_sim now srv srcs e none f srcs' a :
  all_inv srcs ->
  via_get cur now srv srcs e none f = (srcs', a) ->
  ref_via now srv (abs_srcs srcs) e none f = (abs_srcs srcs', a) /\ all_inv srcs'.
Proof.
  intros Hi. unfold via_get, ref_via.
  destruct (store_get cur now srv srcs e) as [s1 g] eqn:Eg. intros H; inversion H; subst.
  destruct (store_get_sim now srv e srcs srcs' g Hi Eg) as [S1 [S2 S3]]. rewrite S1.
  split; [|exact S2]. destruct g; try reflexivity. contradiction.
Qed.

(* every query is answered exactly as the reference store answers it *)
Lemma query_sim now srv srcs q srcs' a :
  all_inv srcs ->
  answer_query cur now srv srcs q = (srcs', a) ->
  ref_answer now srv (abs_srcs srcs) q = (abs_srcs srcs', a) /\ all_inv srcs'.
Proof.
  intros Hi. destruct q; cbn [answer_query ref_answer f_last cur] in *.
  - apply via_get_sim; auto.
  - apply store_service_sim; auto.
  - apply store_service_sim; auto.
  - apply store_service_sim; auto.
  - apply via_get_sim; auto.
  - apply store_attr_req_sim; auto.
  - apply via_get_sim; auto.
  - apply via_get_sim; auto.
  - intros H; inversion H; subst. rewrite keys_abs. split; [reflexivity|exact Hi].
  - intros H; inversion H; subst. rewrite with_sim. split; [reflexivity|exact Hi].
Qed.

(* queries never add, remove or reorder sources *)
Lemma store_get_keys fl now srv e : forall srcs, map fst (fst (store_get fl now srv srcs e)) = map fst srcs.
Proof.
  induction srcs as [|[k s] r IH]; [reflexivity|]. cbn [store_get].
  destruct (src_get fl now srv s e) as [s1 g]. destruct g; try reflexivity.
  destruct (store_get fl now srv r e) as [r1 a1]. cbn [fst map] in *. rewrite IH. reflexivity.
Qed.

Lemma store_service_v0_keys fl now srv e typ name b : forall srcs known,
  map fst (fst (store_service_v0 fl now srv srcs e typ name b known)) = map fst srcs.
Proof.
  induction srcs as [|[k s] r IH]; intros known; [reflexivity|]. cbn [store_service_v0].
  destruct (src_get fl now srv s e) as [s1 g]. destruct g as [en| |]; try reflexivity.
  - destruct (ent_service en typ name b) as [| |[|x l]|[|x d]]; try reflexivity;
      match goal with |- context [store_service_v0 fl now srv r e typ name b ?K] =>
        specialize (IH K); destruct (store_service_v0 fl now srv r e typ name b K) as [r1 a1] end;
      cbn [fst map] in *; rewrite IH; reflexivity.
  - specialize (IH known). destruct (store_service_v0 fl now srv r e typ name b known) as [r1 a1].
    cbn [fst map] in *. rewrite IH. reflexivity.
Qed.

Lemma store_service_new_keys fl now srv e typ name b : forall srcs,
  map fst (fst (store_service_new fl now srv srcs e typ name b)) = map fst srcs.
Proof.
  induction srcs as [|[k s] r IH]; [reflexivity|]. cbn [store_service_new].
  destruct (src_get fl now srv s e) as [s1 g]. destruct g as [en| |]; try reflexivity.
  - destruct (src_get fl now srv s1 e) as [s2 g2]. reflexivity.
  - destruct (store_service_new fl now srv r e typ name b) as [r1 a1]. cbn [fst map] in *. rewrite IH. reflexivity.
Qed.

Lemma store_attr_req_keys fl now srv e index : forall srcs,
  map fst (fst (store_attr_req fl now srv srcs e index)) = map fst srcs.
Proof.
  induction srcs as [|[k s] r IH]; [reflexivity|]. cbn [store_attr_req].
  destruct (has_key e (ents_of s)).
  - destruct (src_get fl now srv s e) as [s1 g]. reflexivity.
  - destruct (store_attr_req fl now srv r e index) as [r1 a1]. cbn [fst map] in *. rewrite IH. reflexivity.
Qed.

Lemma answer_query_keys fl now srv srcs q : map fst (fst (answer_query fl now srv srcs q)) = map fst srcs.
Proof.
  destruct q; cbn [answer_query]; unfold via_get, store_service;
    try (pose proof (store_get_keys fl now srv e srcs) as H; destruct (store_get fl now srv srcs e); exact H);
    try (destruct (f_fall fl); [apply store_service_v0_keys|apply store_service_new_keys]);
    try apply store_attr_req_keys; reflexivity.
Qed.

(* ------------------------------------------------------------------ load / reload *)
Definition keys_ok (st : store) : Prop := forall n, In (KI n) (map fst (st_srcs st)) -> n <= st_ii st.

Lemma eff_cert_cur ns sp : eff_cert cur ns sp = cfg_cert ns sp.
Proof. unfold eff_cert, cfg_cert. destruct (sp_kind sp); reflexivity. Qed.

(* the code's routing of check_validity (Model.eff_cv) switches validity checking off for a source exactly
   when the specification switched it off (Spec.cfg_cv): an absent key leaves it on *)
Lemma eff_cv_cfg ns sp : eff_cv ns sp = cfg_cv ns sp.
Proof.
  unfold eff_cv, cfg_cv, cv_switched_off.
  destruct (sp_kind sp), ns, (sp_imp sp), (sp_scv sp), (sp_cv sp) as [[|]|]; reflexivity.
Qed.

(* a load the code reports as successful was acceptable, and contributes exactly the document's view *)
Lemma load_static_accept ns sp now f m : load_static cur ns sp now f = Some m -> accept ns now sp f = Some m.
Proof.
  unfold load_static, accept. destruct f as [|p sg]; [discriminate|].
  rewrite parse_doc_says, eff_cert_cur, eff_cv_cfg. destruct (doc_says (cfg_cv ns sp) now p) as [es|] eqn:Ed; [|discriminate].
  destruct (sig_gate cur (cfg_cert ns sp) (sp_kind sp) (eff_node ns sp) p sg) eqn:Eg; [|discriminate].
  intros H; inversion H; subst. clear H. cbv zeta.
  destruct (cfg_cert ns sp) eqn:Ecc; [|reflexivity]. cbn [andb].
  destruct (sig_valid sg) eqn:Esv; [reflexivity|]. cbn [negb andb].
  destruct (nonempty (view (cfg_cv ns sp) now es)) eqn:Ene; [|reflexivity]. exfalso.
  destruct p as [| |d].
  - cbn in Ed. discriminate.
  - cbn in Ed. inversion Ed; subst. cbn in Ene. discriminate.
  - rewrite sig_gate_cur_doc, Esv in Eg. cbn in Eg. discriminate.
Qed.

Lemma in_kupsert k v : forall l k', In k' (map fst (kupsert k v l)) -> k' = k \/ In k' (map fst l).
Proof.
  induction l as [|[k0 v0] r IH]; cbn [kupsert map fst In]; intros k' H.
  - destruct H as [<-|[]]. left; reflexivity.
  - destruct (key_eqb k k0); cbn [map fst In] in H.
    + destruct H as [<-|H]; [left; reflexivity|right; right; exact H].
    + destruct H as [<-|H]; [right; left; reflexivity|]. destruct (IH k' H) as [->|H']; [left; reflexivity|right; right; exact H'].
Qed.

Lemma all_inv_kupsert k v : forall l, src_inv v -> all_inv l -> all_inv (kupsert k v l).
Proof.
  induction l as [|[k0 v0] r IH]; intros Hv Hl; cbn [kupsert].
  - constructor; [exact Hv|constructor].
  - inversion Hl; subst. destruct (key_eqb k k0); constructor; auto. apply IH; assumption.
Qed.

Lemma abs_kupsert k v : forall l,
  (forall k', In k' (map fst l) -> key_eqb k k' = okey_eqb (abs_key k) (abs_key k')) ->
  abs_srcs (kupsert k v l) = oupsert (abs_key k) (abs_src v) (abs_srcs l).
Proof.
  induction l as [|[k0 v0] r IH]; intros H; [reflexivity|].
  rewrite abs_srcs_cons. cbn [kupsert oupsert]. rewrite <- (H k0) by (left; reflexivity).
  destruct (key_eqb k k0); [reflexivity|]. rewrite abs_srcs_cons. f_equal. apply IH.
  intros k' Hin. apply H. right; exact Hin.
Qed.

Lemma key_match_S st k' : keys_ok st -> In k' (map fst (st_srcs st)) ->
  key_eqb (KI (S (st_ii st))) k' = okey_eqb (abs_key (KI (S (st_ii st)))) (abs_key k').
Proof.
  intros Hk Hin. destruct k' as [n|s]; cbn [key_eqb abs_key okey_eqb]; [|reflexivity].
  specialize (Hk n Hin). apply Nat.eqb_neq. lia.
Qed.
Lemma key_match_str s k' : key_eqb (KS s) k' = okey_eqb (abs_key (KS s)) (abs_key k').
Proof. destruct k'; reflexivity. Qed.

Lemma mdx_inv_empty c p : mdx_inv {| x_ents := []; x_exp := []; x_cert := c; x_period := p |}.
Proof. intros e H. discriminate. Qed.


Lemma load1_sim ns now st sp f st' ok :
  keys_ok st -> all_inv (st_srcs st) -> load1 cur ns now st sp f = (st', ok) ->
  keys_ok st' /\ all_inv (st_srcs st') /\ st_ii st <= st_ii st' /\
  (if ok then ref_load1 ns now (abs_srcs (st_srcs st)) sp f = Some (abs_srcs (st_srcs st'))
   else st_srcs st' = st_srcs st).
Proof.
  intros Hk Hi. unfold load1, ref_load1, okey.
  set (ii' := match sp_kind sp with KInline => if ns then st_ii st else S (st_ii st) | _ => st_ii st end).
  assert (Hii : st_ii st <= ii') by (unfold ii'; destruct (sp_kind sp), ns; lia).
  set (k := match sp_kind sp with KInline => if ns then KS (sp_key sp) else KI ii' | _ => KS (sp_key sp) end).
  assert (Hkm : forall k', In k' (map fst (st_srcs st)) -> key_eqb k k' = okey_eqb (abs_key k) (abs_key k')).
  { intros k' Hin. unfold k, ii'. destruct (sp_kind sp), ns; try apply key_match_str. apply key_match_S; assumption. }
  assert (Hak : abs_key k = match sp_kind sp with KInline => if ns then Some (sp_key sp) else None | _ => Some (sp_key sp) end).
  { unfold k. destruct (sp_kind sp), ns; reflexivity. }
  assert (Hko : forall v, keys_ok {| st_srcs := kupsert k v (st_srcs st); st_ii := ii' |}).
  { intros v n Hin. cbn [st_srcs st_ii] in *. apply in_kupsert in Hin as [Hin|Hin].
    - unfold k in Hin. destruct (sp_kind sp), ns; try discriminate. inversion Hin. lia.
    - specialize (Hk n Hin). lia. }
  assert (Hko' : keys_ok {| st_srcs := st_srcs st; st_ii := ii' |}).
  { intros n Hin. cbn [st_srcs st_ii] in *. specialize (Hk n Hin). lia. }
  destruct (sp_kind sp) eqn:Ek.
  1-3: destruct (load_static cur ns sp now f) as [m|] eqn:El; intros H; inversion H; subst; cbn [st_srcs st_ii];
       [split; [apply Hko|]; split; [apply all_inv_kupsert; [exact I|exact Hi]|]; split; [exact Hii|];
        rewrite (load_static_accept _ _ _ _ _ El), <- Hak; f_equal; symmetry; apply abs_kupsert; exact Hkm
       |split; [exact Hko'|]; split; [exact Hi|]; split; [exact Hii|reflexivity]].
  destruct ns; intros H; inversion H; subst; cbn [st_srcs st_ii].
  - split; [exact Hko'|]. split; [exact Hi|]. split; [exact Hii|reflexivity].
  - split; [apply Hko|]. split; [apply all_inv_kupsert; [apply mdx_inv_empty|exact Hi]|]. split; [exact Hii|].
    rewrite <- Hak. f_equal. symmetry. rewrite abs_kupsert by exact Hkm. reflexivity.
Qed.

Lemma imp_sim ns now : forall items st st' ok,
  keys_ok st -> all_inv (st_srcs st) -> imp cur ns now st items = (st', ok) ->
  st_ii st <= st_ii st' /\
  (ok = true -> keys_ok st' /\ all_inv (st_srcs st') /\
                ref_imp ns now (abs_srcs (st_srcs st)) items = Some (abs_srcs (st_srcs st'))).
Proof.
  induction items as [|[sp f] r IH]; intros st st' ok Hk Hi H.
  - cbn in H. inversion H; subst. split; [lia|]. intros _. split; [exact Hk|]. split; [exact Hi|]. reflexivity.
  - cbn [imp] in H. destruct (load1 cur ns now st sp f) as [st1 ok1] eqn:El.
    destruct (load1_sim ns now st sp f st1 ok1 Hk Hi El) as [L1 [L2 [L3 L4]]].
    destruct ok1.
    + destruct (IH st1 st' ok L1 L2 H) as [I1 I2]. split; [lia|]. intros Hok.
      destruct (I2 Hok) as [J1 [J2 J3]]. split; [exact J1|]. split; [exact J2|].
      cbn [ref_imp]. rewrite L4. exact J3.
    + inversion H; subst. split; [exact L3|]. discriminate.
Qed.

Lemma reload_sim ns now st items st' ok :
  keys_ok st -> all_inv (st_srcs st) -> reload cur ns now st items = (st', ok) ->
  keys_ok st' /\ all_inv (st_srcs st') /\
  (if ok then ref_imp ns now [] items = Some (abs_srcs (st_srcs st')) else st_srcs st' = st_srcs st).
Proof.
  intros Hk Hi. unfold reload.
  destruct (imp cur ns now {| st_srcs := []; st_ii := st_ii st |} items) as [st1 ok1] eqn:Ei.
  assert (Hk0 : keys_ok {| st_srcs := []; st_ii := st_ii st |}) by (intros n []).
  assert (Hi0 : all_inv (st_srcs {| st_srcs := []; st_ii := st_ii st |})) by constructor.
  destruct (imp_sim ns now items _ st1 ok1 Hk0 Hi0 Ei) as [I1 I2]. cbn [st_ii st_srcs] in *.
  destruct ok1; intros H; inversion H; subst.
  - destruct (I2 eq_refl) as [J1 [J2 J3]]. split; [exact J1|]. split; [exact J2|exact J3].
  - cbn [st_srcs]. split; [|split; [exact Hi|reflexivity]].
    intros n Hin. cbn [st_srcs st_ii] in *. specialize (Hk n Hin). lia.
Qed.

(* ------------------------------------------------------------------ whole histories *)
Definition winv (w : world) : Prop := keys_ok (w_store w) /\ all_inv (st_srcs (w_store w)).

Lemma winv_init now : winv (init now).
Proof. split; [intros n []|constructor]. Qed.

Lemma abs_init now : abs (init now) = rinit now.
Proof. reflexivity. Qed.

Lemma abs_same_srcs w st :
  st_srcs st = st_srcs (w_store w) ->
  abs {| w_store := st; w_now := w_now w; w_srv := w_srv w |} = abs w.
Proof. intros H. unfold abs. cbn [w_store w_now w_srv]. rewrite H. reflexivity. Qed.

Theorem refines : forall h w, winv w -> spec (abs w) h (run cur w h).
Proof.
  induction h as [|o r IH]; intros w [Hk Hi]; [reflexivity|].
  destruct o as [ns sp f|ns items|dt|tbl|q]; cbn [run step spec] in *.
  - destruct (load1 cur ns (w_now w) (w_store w) sp f) as [st ok] eqn:El.
    destruct (load1_sim _ _ _ _ _ _ _ Hk Hi El) as [L1 [L2 [_ L4]]]. cbn [app].
    destruct ok.
    + exists (abs_srcs (st_srcs st)). split; [exact L4|].
      apply (IH {| w_store := st; w_now := w_now w; w_srv := w_srv w |}); split; assumption.
    + rewrite <- (abs_same_srcs w st L4).
      apply (IH {| w_store := st; w_now := w_now w; w_srv := w_srv w |}); split; assumption.
  - destruct (reload cur ns (w_now w) (w_store w) items) as [st ok] eqn:El.
    destruct (reload_sim _ _ _ _ _ _ Hk Hi El) as [L1 [L2 L4]]. cbn [app].
    destruct ok.
    + exists (abs_srcs (st_srcs st)). split; [exact L4|].
      apply (IH {| w_store := st; w_now := w_now w; w_srv := w_srv w |}); split; assumption.
    + rewrite <- (abs_same_srcs w st L4).
      apply (IH {| w_store := st; w_now := w_now w; w_srv := w_srv w |}); split; assumption.
  - cbn [app]. apply (IH {| w_store := w_store w; w_now := (w_now w + dt)%Z; w_srv := w_srv w |}); split; assumption.
  - cbn [app]. apply (IH {| w_store := w_store w; w_now := w_now w; w_srv := tbl |}); split; assumption.
  - destruct (answer_query cur (w_now w) (w_srv w) (st_srcs (w_store w)) q) as [srcs a] eqn:Ea. cbn [app].
    destruct (query_sim _ _ _ _ _ _ Hi Ea) as [Q1 Q3].
    cbn [abs r_srcs r_now r_srv]. rewrite Q1. cbn [fst snd]. split; [reflexivity|].
    apply (IH {| w_store := {| st_srcs := srcs; st_ii := st_ii (w_store w) |}; w_now := w_now w; w_srv := w_srv w |}).
    split; [|exact Q3]. intros n Hin. cbn [w_store st_srcs st_ii] in *.
    pose proof (answer_query_keys cur (w_now w) (w_srv w) (st_srcs (w_store w)) q) as Hkeys. rewrite Ea in Hkeys.
    cbn [fst] in Hkeys. rewrite Hkeys in Hin. apply Hk. exact Hin.
Qed.

(* the model of the code as it is now satisfies the property on EVERY history *)
Theorem model_satisfies_spec now h : spec (rinit now) h (run cur (init now) h).
Proof. rewrite <- abs_init. apply refines. apply winv_init. Qed.
