(* C11/Source2.v — source tie, translator v2.

   coq/gen/C11Src2.v is re-translated by harness/py2coq2.py from the CURRENT text of /repo/src/saml2/mdstore.py
   on every run (harness/c11.py: source2_items).  Each theorem below says, for ALL inputs of the model's domain:
   the translated function applied to the encoding of the model's input = the encoding of what the hand-written
   model function (C11/Model.v) computes, exceptions included.

     src2_do_entity_descriptor  ~  Model.do_entity   (validUntil, duplicate entityID, SAML 2.0 filter, flag)
     src2_extract_certs         ~  Model.extract_certs (KeyDescriptor use filter)
     src2_is_fresh + src2_mdx_getitem ~ Model.mdx_get (cached / expiration missing / fresh / pop and refetch)
     src2_store_getitem         ~  Model.store_get over static sources (first source that has the entity)
     src2_reload                ~  Model.reload (failure: the previous sources are put back, the exception goes on)
     src2_signed                ~  Model.payload_signed

   External calls are Section variables with hypotheses (each Section has an Example showing that they can be
   met): time_util.valid / before, mdie.to_dict, repack_cert, _fetch_metadata, imp.
   Encodings: objects carry "__class__" first; dict forms (entity dicts, role descriptor dicts, the store's
   metadata dict) do not.  A static source object is encoded by its entity dict (InMemoryMetaData.__getitem__ is
   `self.entity[item]`). *)
From Coq Require Import String Ascii List Bool ZArith Arith Lia.
From Verif Require Import Base.Str Base.Py Base.Py2 C11.Model.
From VerifGen Require Import C11Src2.
Import ListNotations.
Open Scope string_scope.
Open Scope list_scope.

(* Every sentence of this file takes well under a second on the unchanged source.  When the source (hence
   coq/gen/C11Src2.v) changes, a tactic may meet a term it was not written for: it must FAIL, not search. *)
Local Set Default Timeout 20.

(* ================================================================== encodings *)
Definition PSE := "protocol_support_enumeration".

Definition opt_field (k : string) (l : list pyval) : list (string * pyval) :=
  match l with [] => [] | _ => [(k, PList l)] end.
Definition opt_str (k : string) (o : option string) : list (string * pyval) :=
  match o with Some s => [(k, PStr s)] | None => [] end.

Definition enc_svc (s : svc) : pyval :=
  PObj ([("binding", PStr (s_binding s)); ("location", PStr (s_loc s))] ++ opt_str "index" (s_index s)).
(* every KeyDescriptor carries exactly one X509Certificate and no KeyName (ASSUMPTIONS of the harness) *)
Definition enc_key (k : keyd) : pyval :=
  PObj (opt_str "use" (k_use k) ++
        [("key_info", PObj [("x509_data", PList [PObj [("x509_certificate", PObj [("text", PStr (k_cert k))])]])])]).
Definition enc_ra (a : reqattr) : pyval := PObj (("name", PStr (ra_name a)) :: opt_str "is_required" (ra_req a)).
Definition enc_acs (a : acsv) : pyval :=
  PObj [("index", PStr (ac_index a)); ("requested_attribute", PList (map enc_ra (ac_attrs a)))].

(* what a role descriptor dict carries besides protocol_support_enumeration (to_dict drops empty values) *)
Definition role_rest (r : role) : list (string * pyval) :=
  opt_field "key_descriptor" (map enc_key (r_keys r)) ++
  flat_map (fun n => opt_field n (map enc_svc (filter (fun s => String.eqb (s_name s) n) (r_svcs r)))) SVC_ORDER ++
  opt_field "attribute_consuming_service" (map enc_acs (r_acs r)).
(* r_protos = the ITEMS of protocolSupportEnumeration: value.split() (9be4974e; before: value.split(" ")).  The role
   is encoded with its items joined by one blank; [protos_wf]: the list IS the split of that value (no empty item, no
   white space inside an item) and the value is ASCII (str.split() also splits at non-ASCII spaces, which the
   translator's p2_split_ws does not model: PErr) *)
Definition enc_role (r : role) : pyval := PObj ((PSE, PStr (join " " (r_protos r))) :: role_rest r).
Definition protos_wf (r : role) : Prop :=
  all_ascii (join " " (r_protos r)) = true /\ split_ws_go None (join " " (r_protos r)) = r_protos r.

(* the dict form of an entity: "<kind>_descriptor" -> list of role descriptor dicts, in the order of mdstore's own
   list of kinds; kinds without a descriptor have no key *)
Definition SHORT6 := ["spsso"; "idpsso"; "role"; "authn_authority"; "attribute_authority"; "pdp"].
Definition dkey (k : string) : string := k ++ "_descriptor".
Example dkeys_are_proto_kinds : map dkey SHORT6 = PROTO_KINDS.
Proof. reflexivity. Qed.

Definition roles_kind (key : string) (rs : list role) : list role := filter (fun r => String.eqb (r_kind r) key) rs.
Definition KF (ks : list string) (rs : list role) : list (string * pyval) :=
  flat_map (fun k => opt_field (dkey k) (map enc_role (roles_kind (dkey k) rs))) ks.

Definition enc_vu (vu : option Z) : pyval := match vu with Some t => PInt t | None => PNone end.
Definition enc_reg (g : reginfo) : pyval :=
  PObj (("registration_authority", PStr (rg_auth g)) :: opt_str "registration_instant" (rg_inst g) ++
        [("registration_policy", PList (map (fun lt => PObj [("lang", PStr (fst lt)); ("text", PStr (snd lt))]) (rg_pols g)))]).
Definition ent_post (e : ent) : list (string * pyval) :=
  (if e_affil e then [("affiliation_descriptor", PList [PObj [("affiliate_member", PList [])]])] else []) ++
  [("extensions", PObj [("entity_attributes",
                         PList (map (fun nv => PObj [("name", PStr (fst nv)); ("values", PList (map PStr (snd nv)))]) (e_attrs e)));
                        ("registration_info", PList (map enc_reg (e_regs e)))]);
   ("valid_until", enc_vu (e_vu e))].
Definition enc_ent (e : ent) : pyval := PObj (("entity_id", PStr (e_id e)) :: KF SHORT6 (e_roles e) ++ ent_post e).

Definition enc_emap_f (m : emap) : list (string * pyval) := map (fun ke => (fst ke, enc_ent (snd ke))) m.
Definition enc_emap (m : emap) : pyval := PObj (enc_emap_f m).
(* "__class__" is not an entity id (the embedding tells objects from dicts by that key) *)
Definition ids_ok (m : emap) : Prop := Forall (fun ke => fst ke <> "__class__") m.

Definition prune_roles (rs : list role) : list role := map norm_role (filter supports_saml2 rs).

(* ================================================================== association list facts *)
Lemma assoc_app_none k (a b : list (string * pyval)) : assoc_py k a = None -> assoc_py k (a ++ b) = assoc_py k b.
Proof.
  induction a as [|[k' v] r IH]; cbn [assoc_py app]; [reflexivity|]. destruct (String.eqb k k'); [discriminate|exact IH].
Qed.
Lemma del_app_none k (a b : list (string * pyval)) : assoc_py k a = None -> del_assoc k (a ++ b) = a ++ del_assoc k b.
Proof.
  induction a as [|[k' v] r IH]; cbn [assoc_py app del_assoc]; [reflexivity|].
  destruct (String.eqb k k'); [discriminate|]. intros H. rewrite IH by exact H. reflexivity.
Qed.
Lemma set_app_none k v (a b : list (string * pyval)) : assoc_py k a = None -> set_assoc k v (a ++ b) = a ++ set_assoc k v b.
Proof.
  induction a as [|[k' w] r IH]; cbn [assoc_py app set_assoc]; [reflexivity|].
  destruct (String.eqb k k'); [discriminate|]. intros H. rewrite IH by exact H. reflexivity.
Qed.
Lemma assoc_app_snoc_none k k' v (a : list (string * pyval)) : assoc_py k a = None -> k <> k' -> assoc_py k (a ++ [(k', v)]) = None.
Proof.
  intros Ha Hne. rewrite assoc_app_none by exact Ha. cbn [assoc_py]. apply String.eqb_neq in Hne. rewrite Hne. reflexivity.
Qed.

Definition hd_ok (f : list (string * pyval)) : bool :=
  match f with (k, _) :: _ => negb (String.eqb k "__class__") | [] => false end.
Lemma hd_ok_app f g : hd_ok f = true -> hd_ok (f ++ g) = true.
Proof. destruct f as [|[k v] r]; [discriminate|]. intros H. exact H. Qed.
Lemma hd_ok_dict f : hd_ok f = true -> is_obj f = false.
Proof. destruct f as [|[k v] r]; [discriminate|]. cbn. intros H. apply negb_true_iff in H. exact H. Qed.

Lemma assoc_KF_none key ks rs : ~ In key (map dkey ks) -> assoc_py key (KF ks rs) = None.
Proof.
  induction ks as [|k r IH]; cbn [KF flat_map map In]; [reflexivity|]. intros H. fold (KF r rs).
  assert (Hk : key <> dkey k) by (intros E; apply H; left; symmetry; exact E).
  assert (Hr : ~ In key (map dkey r)) by (intros E; apply H; right; exact E).
  destruct (map enc_role (roles_kind (dkey k) rs)); cbn [opt_field app]; [apply IH, Hr|].
  cbn [assoc_py]. apply String.eqb_neq in Hk. rewrite Hk. apply IH, Hr.
Qed.

(* lookups in an encoded entity map *)
Lemma assoc_emap k m : assoc_py k (enc_emap_f m) = option_map enc_ent (lookup k m).
Proof.
  induction m as [|[k' e] r IH]; [reflexivity|]. cbn [enc_emap_f map assoc_py lookup fst snd].
  destruct (String.eqb k k'); [reflexivity|exact IH].
Qed.
Lemma emap_is_dict m : ids_ok m -> is_obj (enc_emap_f m) = false.
Proof.
  destruct m as [|[k e] r]; [reflexivity|]. intros H. inversion H as [|? ? Hk _]; subst. cbn in *.
  apply String.eqb_neq. exact Hk.
Qed.

(* ================================================================== do_entity_descriptor *)
(* the three loop bodies, copied from the generated definition (bound names are immaterial) *)
Definition prot_body : list pyval -> pyval -> ctl2 := fun st x => match st with [v_item; v__res] =>
  (let v_prot := x in
   (match p2_branch (p2_eq v_prot (PStr NS_SAML2P)) with
    | BTrue => (py_bindS (fun n => (ExcS n [v_item; v__res])) v_prot (fun a_40 =>
      (py_bindS (fun n => (ExcS n [v_item; v__res])) (p2_setitem v_item (PStr "protocol_support_enumeration") a_40) (fun v_item =>
      (py_bindS (fun n => (ExcS n [v_item; v__res])) (p2_append v__res v_item) (fun v__res =>
      (BrkS [v_item; v__res])))))))
    | BFalse => (NextS [v_item; v__res])
    | BExc n => (ExcS n [v_item; v__res])
    | BErr => (RetS PErr)
    end))
  | _ => RetS PErr end.

Definition item_body : list pyval -> pyval -> ctl2 := fun st x => match st with [v_item; v__res] =>
  (let v_item := x in
   (py_bindS (fun n => (ExcS n [v_item; v__res])) (p2_iter_check (p2_split_ws (p2_getitem v_item (PStr "protocol_support_enumeration")))) (fun it =>
   (match pyfor2 (py_iter2 it) [v_item; v__res] prot_body with
    | NextS st' => match st' with [v_item; v__res] => (NextS [v_item; v__res]) | _ => (RetS PErr) end
    | BrkS st' => match st' with [v_item; v__res] => (NextS [v_item; v__res]) | _ => (RetS PErr) end
    | RetS r => (RetS r)
    | ExcS n st' => match st' with [v_item; v__res] => (ExcS n [v_item; v__res]) | _ => (RetS PErr) end
    end))))
  | _ => RetS PErr end.

Definition outer_body : list pyval -> pyval -> ctl2 := fun st x => match st with [v__res; v__items; v_flag; v_item; v__ent] =>
  (let v_descr := x in
   (let v__res := (PList []) in
   (py_bindS (fun n => (if exc_matches n ["KeyError"]
      then (NextS [v__res; v__items; v_flag; v_item; v__ent])
      else (ExcS n [v__res; v__items; v_flag; v_item; v__ent]))) (p2_getitem v__ent (p2_fconcat [p2_str v_descr; PStr "_descriptor"])) (fun v__items =>
   (match p2_branch (p2_eq v_descr (PStr "affiliation")) with
    | BTrue => (py_bindS (fun n => (ExcS n [v__res; v__items; v_flag; v_item; v__ent])) (p2_add v_flag (PInt (1)%Z)) (fun v_flag =>
      (NextS [v__res; v__items; v_flag; v_item; v__ent])))
    | BFalse => (py_bindS (fun n => (ExcS n [v__res; v__items; v_flag; v_item; v__ent])) (p2_iter_check v__items) (fun it =>
      (match pyfor2 (py_iter2 it) [v_item; v__res] item_body with
       | NextS st' => match st' with [v_item; v__res] => (match p2_branch (p2_not v__res) with
          | BTrue => (py_bindS (fun n => (ExcS n [v__res; v__items; v_flag; v_item; v__ent])) (p2_fconcat [p2_str v_descr; PStr "_descriptor"]) (fun a_19 =>
            (py_bindS (fun n => (ExcS n [v__res; v__items; v_flag; v_item; v__ent])) (p2_delitem v__ent a_19) (fun v__ent =>
            (NextS [v__res; v__items; v_flag; v_item; v__ent])))))
          | BFalse => (py_bindS (fun n => (ExcS n [v__res; v__items; v_flag; v_item; v__ent])) v__res (fun a_22 =>
            (py_bindS (fun n => (ExcS n [v__res; v__items; v_flag; v_item; v__ent])) (p2_fconcat [p2_str v_descr; PStr "_descriptor"]) (fun a_23 =>
            (py_bindS (fun n => (ExcS n [v__res; v__items; v_flag; v_item; v__ent])) (p2_setitem v__ent a_23 a_22) (fun v__ent =>
            (py_bindS (fun n => (ExcS n [v__res; v__items; v_flag; v_item; v__ent])) (p2_add v_flag (PInt (1)%Z)) (fun v_flag =>
            (NextS [v__res; v__items; v_flag; v_item; v__ent])))))))))
          | BExc n => (ExcS n [v__res; v__items; v_flag; v_item; v__ent])
          | BErr => (RetS PErr)
          end) | _ => (RetS PErr) end
       | BrkS _ => (RetS PErr)
       | RetS r => (RetS r)
       | ExcS n st' => match st' with [v_item; v__res] => (ExcS n [v__res; v__items; v_flag; v_item; v__ent]) | _ => (RetS PErr) end
       end)))
    | BExc n => (ExcS n [v__res; v__items; v_flag; v_item; v__ent])
    | BErr => (RetS PErr)
    end)))))
  | _ => RetS PErr end.

(* innermost loop: the first SAML 2.0 entry rewrites the enumeration, keeps the descriptor and stops *)
Lemma prot_loop protos pse rest res :
  pyfor2 (map PStr protos) [PObj ((PSE, PStr pse) :: rest); PList res] prot_body
  = if mem NS_SAML2P protos
    then BrkS [PObj ((PSE, PStr NS_SAML2P) :: rest); PList (res ++ [PObj ((PSE, PStr NS_SAML2P) :: rest)])]
    else NextS [PObj ((PSE, PStr pse) :: rest); PList res].
Proof.
  induction protos as [|p r IH]; cbn [map pyfor2 mem]; [reflexivity|].
  unfold prot_body at 1. cbv zeta. rewrite p2_eq_str, p2_branch_bool, (String.eqb_sym NS_SAML2P p).
  destruct (String.eqb p NS_SAML2P) eqn:E; cbn [orb].
  - apply String.eqb_eq in E. subst p. reflexivity.
  - exact IH.
Qed.

Lemma enc_norm_role r : enc_role (norm_role r) = PObj ((PSE, PStr NS_SAML2P) :: role_rest r).
Proof. reflexivity. Qed.

Lemma item_loop l : Forall protos_wf l -> forall j res, exists j',
  pyfor2 (map enc_role l) [j; PList res] item_body = NextS [j'; PList (res ++ map enc_role (prune_roles l))].
Proof.
  induction l as [|r l IH]; intros Hwf j res.
  - exists j. cbn. rewrite app_nil_r. reflexivity.
  - inversion Hwf as [|? ? [Ha Hr] Hl]; subst. cbn [map pyfor2]. unfold item_body at 1. cbv zeta.
    change (p2_getitem (enc_role r) (PStr "protocol_support_enumeration")) with (PStr (join " " (r_protos r))).
    change (p2_split_ws (PStr (join " " (r_protos r))))
      with (if all_ascii (join " " (r_protos r)) then PList (map PStr (split_ws_go None (join " " (r_protos r)))) else PErr).
    rewrite Ha, Hr, p2_iter_check_list. cbn [py_bindS p2_bind py_iter2]. unfold enc_role at 1. rewrite prot_loop.
    unfold prune_roles. cbn [filter]. change (supports_saml2 r) with (mem NS_SAML2P (r_protos r)).
    destruct (mem NS_SAML2P (r_protos r)) eqn:E.
    + cbn [map]. rewrite enc_norm_role.
      destruct (IH Hl (PObj ((PSE, PStr NS_SAML2P) :: role_rest r)) (res ++ [PObj ((PSE, PStr NS_SAML2P) :: role_rest r)])) as [j' Hj].
      exists j'. rewrite Hj. rewrite <- app_assoc. reflexivity.
    + destruct (IH Hl (PObj ((PSE, PStr (join " " (r_protos r))) :: role_rest r)) res) as [j' Hj]. exists j'. exact Hj.
Qed.

Lemma outer_absent k f r it fl item :
  is_obj f = false -> assoc_py (dkey k) f = None ->
  outer_body [r; it; fl; item; PObj f] (PStr k) = NextS [PList []; it; fl; item; PObj f].
Proof.
  intros Hf Ha. unfold outer_body. cbv zeta.
  change (p2_fconcat [p2_str (PStr k); PStr "_descriptor"]) with (PStr (dkey k)).
  rewrite p2_getitem_dict by exact Hf. rewrite Ha. reflexivity.
Qed.

Lemma outer_present k f l r it c item :
  is_obj f = false -> k <> "affiliation" -> dkey k <> "__class__" ->
  assoc_py (dkey k) f = Some (PList (map enc_role l)) -> Forall protos_wf l ->
  exists j,
    outer_body [r; it; PInt c; item; PObj f] (PStr k) =
    match map enc_role (prune_roles l) with
    | [] => NextS [PList []; PList (map enc_role l); PInt c; j; PObj (del_assoc (dkey k) f)]
    | res => NextS [PList res; PList (map enc_role l); PInt (c + 1); j; PObj (set_assoc (dkey k) (PList res) f)]
    end.
Proof.
  intros Hf Hk Hd Ha Hwf. destruct (item_loop l Hwf item []) as [j Hj]. exists j.
  unfold outer_body. cbv zeta.
  change (p2_fconcat [p2_str (PStr k); PStr "_descriptor"]) with (PStr (dkey k)).
  rewrite p2_getitem_dict by exact Hf. rewrite Ha. cbn [py_bindS p2_bind].
  rewrite p2_eq_str. apply String.eqb_neq in Hk. rewrite Hk, p2_branch_bool, p2_iter_check_list.
  cbn [py_bindS p2_bind py_iter2]. rewrite Hj. cbn [app].
  destruct (map enc_role (prune_roles l)) as [|x res].
  - change (p2_branch (p2_not (PList []))) with BTrue. cbn [py_bindS p2_bind].
    rewrite (p2_delitem_dict f (dkey k) _ Hf Ha). reflexivity.
  - change (p2_branch (p2_not (PList (x :: res)))) with BFalse. cbn [py_bindS p2_bind].
    rewrite p2_setitem_dict by (assumption || reflexivity). reflexivity.
Qed.

Lemma roles_kind_prune key rs : roles_kind key (prune_roles rs) = prune_roles (roles_kind key rs).
Proof.
  unfold roles_kind, prune_roles. induction rs as [|r l IH]; [reflexivity|]. cbn [filter].
  destruct (supports_saml2 r) eqn:Es; cbn [map filter].
  - change (r_kind (norm_role r)) with (r_kind r). destruct (String.eqb (r_kind r) key); cbn [filter map]; rewrite ?Es; cbn [map]; rewrite IH; reflexivity.
  - destruct (String.eqb (r_kind r) key); cbn [filter]; rewrite ?Es; exact IH.
Qed.

Lemma roles_kind_wf key rs : Forall protos_wf rs -> Forall protos_wf (roles_kind key rs).
Proof. intros H. apply Forall_forall. intros r Hr. apply filter_In in Hr as [Hr _]. rewrite Forall_forall in H. apply H, Hr. Qed.

(* the six protocol-specific kinds: every kind keeps exactly its SAML 2.0 capable descriptors (rewritten), a kind
   that keeps none loses its key, every kind that keeps some counts once in flag *)
Lemma outer6 rs post : Forall protos_wf rs -> forall ks, NoDup (map dkey ks) ->
  (forall k, In k ks -> k <> "affiliation" /\ dkey k <> "__class__" /\ assoc_py (dkey k) post = None) ->
  forall pre, hd_ok pre = true -> (forall k, In k ks -> assoc_py (dkey k) pre = None) ->
  forall r it c item, exists r' it' item',
    pyfor2 (map PStr ks) [r; it; PInt (Z.of_nat c); item; PObj (pre ++ KF ks rs ++ post)] outer_body
    = NextS [r'; it'; PInt (Z.of_nat (c + length (KF ks (prune_roles rs)))); item'; PObj (pre ++ KF ks (prune_roles rs) ++ post)].
Proof.
  intros Hwf ks. induction ks as [|k ks IH]; intros Hnd Hks pre Hpre Hpk r it c item.
  - exists r, it, item. cbn. rewrite Nat.add_0_r. reflexivity.
  - cbn [map] in Hnd. inversion Hnd as [|? ? Hnotin Hnd']; subst.
    destruct (Hks k (or_introl eq_refl)) as [Hka [Hkc Hkpost]].
    assert (Hks' : forall k', In k' ks -> k' <> "affiliation" /\ dkey k' <> "__class__" /\ assoc_py (dkey k') post = None)
      by (intros k' Hk'; apply Hks; right; exact Hk').
    assert (Hpk' : forall k', In k' ks -> assoc_py (dkey k') pre = None) by (intros k' Hk'; apply Hpk; right; exact Hk').
    pose proof (Hpk k (or_introl eq_refl)) as Hprek.
    assert (Hrest : forall rs', assoc_py (dkey k) (KF ks rs' ++ post) = None)
      by (intros rs'; rewrite assoc_app_none by (apply assoc_KF_none, Hnotin); exact Hkpost).
    cbn [map pyfor2 KF flat_map]. fold (KF ks rs). fold (KF ks (prune_roles rs)).
    rewrite roles_kind_prune. pose proof (roles_kind_wf (dkey k) rs Hwf) as Hwfl.
    destruct (roles_kind (dkey k) rs) as [|x l] eqn:El.
    + cbn [map opt_field app prune_roles filter].
      rewrite outer_absent; [|apply hd_ok_dict, hd_ok_app, Hpre|rewrite assoc_app_none by exact Hprek; apply Hrest].
      apply (IH Hnd' Hks' pre Hpre Hpk').
    + set (l0 := x :: l) in *. assert (Hl0 : map enc_role l0 = enc_role x :: map enc_role l) by reflexivity.
      rewrite Hl0. cbn [opt_field app]. rewrite <- Hl0.
      destruct (outer_present k (pre ++ (dkey k, PList (map enc_role l0)) :: KF ks rs ++ post) l0 r it (Z.of_nat c) item) as [j Hj];
        [apply hd_ok_dict, hd_ok_app, Hpre|exact Hka|exact Hkc| |exact Hwfl|].
      { rewrite assoc_app_none by exact Hprek. cbn [assoc_py]. rewrite String.eqb_refl. reflexivity. }
      rewrite Hj. destruct (map enc_role (prune_roles l0)) as [|y res] eqn:Er.
      * cbn [opt_field app]. rewrite del_app_none by exact Hprek. cbn [del_assoc]. rewrite String.eqb_refl.
        apply (IH Hnd' Hks' pre Hpre Hpk').
      * cbn [opt_field app length]. rewrite set_app_none by exact Hprek. cbn [set_assoc]. rewrite String.eqb_refl.
        replace (Z.of_nat c + 1)%Z with (Z.of_nat (S c)) by lia.
        replace (c + S (length (KF ks (prune_roles rs))))%nat with (S c + length (KF ks (prune_roles rs)))%nat by lia.
        change (pre ++ (dkey k, PList (y :: res)) :: KF ks rs ++ post)
          with (pre ++ [(dkey k, PList (y :: res))] ++ KF ks rs ++ post).
        change (pre ++ (dkey k, PList (y :: res)) :: KF ks (prune_roles rs) ++ post)
          with (pre ++ [(dkey k, PList (y :: res))] ++ KF ks (prune_roles rs) ++ post).
        rewrite !(app_assoc pre). 
        apply (IH Hnd' Hks' (pre ++ [(dkey k, PList (y :: res))]) (hd_ok_app _ _ Hpre)).
        intros k' Hk'. apply assoc_app_snoc_none; [apply Hpk', Hk'|].
        intros E. apply Hnotin. rewrite <- E. apply in_map, Hk'.
Qed.

Lemma outer_affil f v r it c item :
  is_obj f = false -> assoc_py "affiliation_descriptor" f = Some v -> is_bad v = false ->
  outer_body [r; it; PInt c; item; PObj f] (PStr "affiliation") = NextS [PList []; v; PInt (c + 1); item; PObj f].
Proof.
  intros Hf Ha Hv. unfold outer_body. cbv zeta.
  change (p2_fconcat [p2_str (PStr "affiliation"); PStr "_descriptor"]) with (PStr "affiliation_descriptor").
  rewrite p2_getitem_dict by exact Hf. rewrite Ha. rewrite py_bindS_good by exact Hv. reflexivity.
Qed.

Lemma KF_nil ks : KF ks [] = [].
Proof. induction ks as [|k r IH]; [reflexivity|]. cbn [KF flat_map]. fold (KF r []). rewrite IH. reflexivity. Qed.

Lemma KF_nonempty ks rs r k : In r rs -> In k ks -> r_kind r = dkey k -> KF ks rs <> [].
Proof.
  intros Hr Hk Hkind. induction ks as [|k' ks IH]; [contradiction|]. cbn [KF flat_map]. fold (KF ks rs).
  destruct Hk as [->|Hk].
  - assert (Hin : In r (roles_kind (dkey k) rs)).
    { apply filter_In. split; [exact Hr|]. rewrite Hkind. apply String.eqb_refl. }
    destruct (roles_kind (dkey k) rs); [contradiction|]. discriminate.
  - intros E. apply app_eq_nil in E as [_ E]. exact (IH Hk E).
Qed.

Definition kinds_ok (e : ent) : Prop := forall r, In r (e_roles e) -> In (r_kind r) PROTO_KINDS.

Lemma KF_prune_empty rs : (forall r, In r rs -> In (r_kind r) PROTO_KINDS) ->
  match KF SHORT6 (prune_roles rs) with [] => existsb supports_saml2 rs = false | _ => existsb supports_saml2 rs = true end.
Proof.
  intros Hk. destruct (existsb supports_saml2 rs) eqn:Ex.
  - apply existsb_exists in Ex as [r [Hr Hs]].
    assert (Hin : In (norm_role r) (prune_roles rs)) by (apply in_map, filter_In; split; assumption).
    pose proof (Hk r Hr) as Hkind. rewrite <- dkeys_are_proto_kinds in Hkind. apply in_map_iff in Hkind as [k [Ek Hkin]].
    pose proof (KF_nonempty SHORT6 (prune_roles rs) (norm_role r) k Hin Hkin (eq_sym Ek)) as Hne.
    destruct (KF SHORT6 (prune_roles rs)); [contradiction|reflexivity].
  - assert (E : prune_roles rs = []).
    { unfold prune_roles. induction rs as [|r l IH]; [reflexivity|]. cbn [existsb] in Ex. apply orb_false_iff in Ex as [E1 E2].
      cbn [filter]. rewrite E1. apply IH; [intros r' Hr'; apply Hk; right; exact Hr'|exact E2]. }
    rewrite E, KF_nil. reflexivity.
Qed.

Lemma flag_branch z : p2_branch (PInt z) = if (z =? 0)%Z then BFalse else BTrue.
Proof. cbn. destruct (z =? 0)%Z; reflexivity. Qed.

Section DoEntityDescriptor.
  Variable now : Z.
  Variables valid to_dict filter_ : pyval -> pyval.

  (* the parsed EntityDescriptor instance: an object; its dict form is what mdie.to_dict makes of it *)
  Definition enc_descr (e : ent) : pyval :=
    PObj [("__class__", PStr "EntityDescriptor"); ("entity_id", PStr (e_id e)); ("valid_until", enc_vu (e_vu e));
          ("content", enc_ent e)].
  (* the source object; no entity filter configured *)
  Definition enc_self (cv : bool) (m : emap) (told : list pyval) : pyval :=
    PObj [("__class__", PStr "InMemoryMetaData"); ("check_validity", PBool cv); ("entity", enc_emap m);
          ("to_old", PList told); ("filter", PNone)].

  Hypothesis H_valid : forall vu, valid (enc_vu vu) = PBool (negb (expired now vu)).
  Hypothesis H_to_dict : forall e, to_dict (enc_descr e) = enc_ent e.

  Lemma short6_side e : forall k, In k SHORT6 ->
    k <> "affiliation" /\ dkey k <> "__class__" /\ assoc_py (dkey k) (ent_post e) = None.
  Proof.
    intros k Hk. unfold ent_post. destruct (e_affil e);
      cbn in Hk; repeat (destruct Hk as [<-|Hk]; [repeat split; discriminate|]); contradiction.
  Qed.

  Lemma short6_pre (v : pyval) : forall k, In k SHORT6 -> assoc_py (dkey k) [("entity_id", v)] = None.
  Proof. intros k Hk. cbn in Hk. repeat (destruct Hk as [<-|Hk]; [reflexivity|]). contradiction. Qed.

  Lemma short6_nodup : NoDup (map dkey SHORT6).
  Proof. cbn. repeat constructor; cbn; intuition discriminate. Qed.

  Theorem src2_do_entity_descriptor_is_model : forall cv m told e,
    ids_ok m -> e_id e <> "__class__" -> Forall protos_wf (e_roles e) -> kinds_ok e ->
    src2_do_entity_descriptor valid to_dict filter_ (enc_self cv m told) (enc_descr e)
    = PList [PNone; enc_self cv (do_entity cv now m e)
                             (if cv && expired now (e_vu e) then told ++ [PStr (e_id e)] else told)].
  Proof.
    intros cv m told e Hm Hid Hwf Hkinds. unfold src2_do_entity_descriptor. cbv zeta.
    change (p2_attr_x (enc_self cv m told) "check_validity") with (PBool cv).
    match goal with |- match _ with BTrue => _ | BFalse => ?K | BExc _ => _ | BErr => _ end = _ => set (Kv := K) end.
    assert (HK : cv && expired now (e_vu e) = false -> Kv = PList [PNone; enc_self cv (do_entity cv now m e) told]).
    { intros Hce. subst Kv. unfold do_entity. rewrite Hce.
      change (p2_attr_x (enc_descr e) "entity_id") with (PStr (e_id e)).
      change (p2_attr_x (enc_self cv m told) "entity") with (PObj (enc_emap_f m)).
      rewrite p2_in_dict by (apply emap_is_dict, Hm). rewrite assoc_emap. unfold has_key.
      destruct (lookup (e_id e) m) as [en|] eqn:El; cbn [option_map]; rewrite p2_branch_bool; [reflexivity|].
      rewrite (py_bind_good (enc_descr e)) by reflexivity. rewrite H_to_dict.
      rewrite py_bindh_good by reflexivity. rewrite p2_mklist_good by reflexivity. rewrite p2_iter_check_list.
      rewrite py_bindh_good by reflexivity. cbn [py_iter2].
      match goal with |- context [pyfor2 ?L ?S ?B] =>
        let b := eval cbv beta zeta delta [outer_body item_body prot_body NS_SAML2P] in outer_body in
        let B' := eval cbv beta zeta in B in
        first [constr_eq B' b | fail 2 "the translated loop body is not the one outer_body was copied from"];
        change (pyfor2 L S B) with (pyfor2 (map PStr SHORT6 ++ [PStr "affiliation"]) S outer_body) end.
      rewrite pyfor2_app.
      destruct (outer6 (e_roles e) (ent_post e) Hwf SHORT6 short6_nodup (short6_side e) [("entity_id", PStr (e_id e))]
                       eq_refl (short6_pre _) PErr PErr 0%nat PErr) as [r' [it' [item' H6]]].
      change (enc_ent e) with (PObj ([("entity_id", PStr (e_id e))] ++ KF SHORT6 (e_roles e) ++ ent_post e)).
      change (PInt 0) with (PInt (Z.of_nat 0)). rewrite H6. clear H6. cbn [pyfor2 Nat.add].
      pose proof (KF_prune_empty (e_roles e) Hkinds) as Hflag.
      set (KFp := KF SHORT6 (prune_roles (e_roles e))) in *.
      assert (Hd : is_obj ([("entity_id", PStr (e_id e))] ++ KFp ++ ent_post e) = false) by reflexivity.
      assert (Ha : assoc_py "affiliation_descriptor" ([("entity_id", PStr (e_id e))] ++ KFp ++ ent_post e)
                   = if e_affil e then Some (PList [PObj [("affiliate_member", PList [])]]) else None).
      { rewrite assoc_app_none by reflexivity. rewrite assoc_app_none.
        - unfold ent_post. destruct (e_affil e); reflexivity.
        - apply assoc_KF_none. cbn. intuition discriminate. }
      assert (Hnew : enc_emap_f (m ++ [(e_id e, prune e)])
                     = set_assoc (e_id e) (PObj ([("entity_id", PStr (e_id e))] ++ KFp ++ ent_post e)) (enc_emap_f m)).
      { rewrite set_assoc_absent by (rewrite assoc_emap, El; reflexivity). unfold enc_emap_f. rewrite map_app. reflexivity. }
      unfold flag.
      destruct (e_affil e) eqn:Eaf.
      - rewrite (outer_affil _ _ _ _ _ _ Hd Ha eq_refl). cbv iota beta.
        change (p2_attr_x (enc_self cv m told) "filter") with PNone. change (p2_branch PNone) with BFalse. cbv iota.
        rewrite flag_branch. replace (Z.of_nat (length KFp) + 1 =? 0)%Z with false by (symmetry; apply Z.eqb_neq; lia).
        rewrite orb_true_r.
        rewrite py_bindh_good by reflexivity. change (p2_attr_x (enc_descr e) "entity_id") with (PStr (e_id e)).
        rewrite py_bindh_good by reflexivity. change (p2_attr_x (enc_self cv m told) "entity") with (PObj (enc_emap_f m)).
        rewrite p2_setitem_dict by (solve [apply emap_is_dict, Hm|exact Hid|reflexivity]).
        rewrite <- Hnew. reflexivity.
      - rewrite (outer_absent "affiliation" _ _ _ _ _ Hd Ha). cbv iota beta.
        change (p2_attr_x (enc_self cv m told) "filter") with PNone. change (p2_branch PNone) with BFalse. cbv iota.
        rewrite flag_branch, orb_false_r. destruct KFp as [|kf0 KFp'] eqn:Ekf.
        + rewrite Hflag. reflexivity.
        + rewrite Hflag. replace (Z.of_nat (length (kf0 :: KFp')) =? 0)%Z with false by (symmetry; apply Z.eqb_neq; cbn [length]; lia).
          rewrite py_bindh_good by reflexivity. change (p2_attr_x (enc_descr e) "entity_id") with (PStr (e_id e)).
          rewrite py_bindh_good by reflexivity. change (p2_attr_x (enc_self cv m told) "entity") with (PObj (enc_emap_f m)).
          rewrite p2_setitem_dict by (solve [apply emap_is_dict, Hm|exact Hid|reflexivity]).
          rewrite <- Hnew. reflexivity. }
    clearbody Kv. destruct cv; [|apply HK; reflexivity]. change (p2_branch (PBool true)) with BTrue. cbv iota.
    change (p2_attr_x (enc_descr e) "valid_until") with (enc_vu (e_vu e)).
    rewrite (py_bind_good (enc_vu (e_vu e))) by (destruct (e_vu e); reflexivity).
    rewrite H_valid, p2_not_bool, negb_involutive, p2_branch_bool. cbn [andb] in *.
    destruct (expired now (e_vu e)) eqn:Ex; [|apply HK; reflexivity].
    unfold do_entity. rewrite Ex. reflexivity.
  Qed.
End DoEntityDescriptor.

Example do_entity_descriptor_hypotheses_satisfiable :
  exists valid to_dict,
    (forall vu, valid (enc_vu vu) = PBool (negb (expired 100 vu))) /\ (forall e, to_dict (enc_descr e) = enc_ent e).
Proof.
  exists (fun v => match v with PInt t => PBool (negb (t <? 100)%Z) | _ => PBool true end), (fun v => p2_attr v "content").
  split; [intros [t|]; reflexivity|reflexivity].
Qed.

(* ================================================================== MetaData.certs: extract_certs *)
Section ExtractCerts.
  Variable repack_cert : pyval -> pyval.
  Variable rp : string -> string.
  Variable use : string.
  Hypothesis H_repack : forall s, repack_cert (PStr s) = PStr (rp s).

  (* the three loop bodies, copied from the generated definition *)
  Definition dat_body (v_key_name_txt : pyval) : list pyval -> pyval -> ctl2 := fun st x => match st with [v_text; v_cert; v_res] =>
    (let v_dat := x in
     (py_bindS (fun n => (ExcS n [v_text; v_cert; v_res])) (p2_get (p2_or (p2_get v_dat (PStr "x509_certificate")) (PObj [])) (PStr "text")) (fun v_text =>
     (match p2_branch (p2_or (p2_not v_text) (p2_not (p2_strip v_text))) with
      | BTrue => (NextS [v_text; v_cert; v_res])
      | BFalse => (py_bindS (fun n => (ExcS n [v_text; v_cert; v_res])) (py_bind v_text (fun a_17 => (repack_cert a_17))) (fun v_cert =>
        (match p2_branch (p2_not_in v_cert v_res) with
         | BTrue => (py_bindS (fun n => (ExcS n [v_text; v_cert; v_res])) (p2_append v_res (p2_mklist [v_key_name_txt; v_cert])) (fun v_res =>
           (NextS [v_text; v_cert; v_res])))
         | BFalse => (NextS [v_text; v_cert; v_res])
         | BExc n => (ExcS n [v_text; v_cert; v_res])
         | BErr => (RetS PErr)
         end)))
      | BExc n => (ExcS n [v_text; v_cert; v_res])
      | BErr => (RetS PErr)
      end))))
    | _ => RetS PErr end.

  Definition key_body : list pyval -> pyval -> ctl2 := fun st x => match st with [v_key_use; v_key_info; v_key_name; v_key_name_txt; v_text; v_cert; v_res] =>
    (let v_key := x in
     (py_bindS (fun n => (ExcS n [v_key_use; v_key_info; v_key_name; v_key_name_txt; v_text; v_cert; v_res])) (p2_get v_key (PStr "use")) (fun v_key_use =>
     (py_bindS (fun n => (ExcS n [v_key_use; v_key_info; v_key_name; v_key_name_txt; v_text; v_cert; v_res])) (p2_or (p2_get v_key (PStr "key_info")) (PObj [])) (fun v_key_info =>
     (py_bindS (fun n => (ExcS n [v_key_use; v_key_info; v_key_name; v_key_name_txt; v_text; v_cert; v_res])) (p2_getitem (p2_or (p2_get v_key_info (PStr "key_name")) (p2_mklist [(p2_mkdict [("text", PNone)])])) (PInt (0)%Z)) (fun v_key_name =>
     (py_bindS (fun n => (ExcS n [v_key_use; v_key_info; v_key_name; v_key_name_txt; v_text; v_cert; v_res])) (p2_get v_key_name (PStr "text")) (fun v_key_name_txt =>
     (match p2_branch (p2_or (p2_not_in (PStr "use") v_key) (p2_eq v_key_use (PStr use))) with
      | BTrue => (py_bindS (fun n => (ExcS n [v_key_use; v_key_info; v_key_name; v_key_name_txt; v_text; v_cert; v_res])) (p2_iter_check (p2_or (p2_get v_key_info (PStr "x509_data")) (PList []))) (fun it =>
        (match pyfor2 (py_iter2 it) [v_text; v_cert; v_res] (dat_body v_key_name_txt) with
         | NextS st' => match st' with [v_text; v_cert; v_res] => (NextS [v_key_use; v_key_info; v_key_name; v_key_name_txt; v_text; v_cert; v_res]) | _ => (RetS PErr) end
         | BrkS _ => (RetS PErr)
         | RetS r => (RetS r)
         | ExcS n st' => match st' with [v_text; v_cert; v_res] => (ExcS n [v_key_use; v_key_info; v_key_name; v_key_name_txt; v_text; v_cert; v_res]) | _ => (RetS PErr) end
         end)))
      | BFalse => (NextS [v_key_use; v_key_info; v_key_name; v_key_name_txt; v_text; v_cert; v_res])
      | BExc n => (ExcS n [v_key_use; v_key_info; v_key_name; v_key_name_txt; v_text; v_cert; v_res])
      | BErr => (RetS PErr)
      end))))))))))
    | _ => RetS PErr end.

  Definition srv_body : list pyval -> pyval -> ctl2 := fun st x => match st with [v_key_use; v_key_info; v_key_name; v_key_name_txt; v_text; v_cert; v_res] =>
    (let v_srv := x in
     (py_bindS (fun n => (ExcS n [v_key_use; v_key_info; v_key_name; v_key_name_txt; v_text; v_cert; v_res])) (p2_iter_check (p2_get3 v_srv (PStr "key_descriptor") (PList []))) (fun it =>
     (match pyfor2 (py_iter2 it) [v_key_use; v_key_info; v_key_name; v_key_name_txt; v_text; v_cert; v_res] key_body with
      | NextS st' => match st' with [v_key_use; v_key_info; v_key_name; v_key_name_txt; v_text; v_cert; v_res] => (NextS [v_key_use; v_key_info; v_key_name; v_key_name_txt; v_text; v_cert; v_res]) | _ => (RetS PErr) end
      | BrkS _ => (RetS PErr)
      | RetS r => (RetS r)
      | ExcS n st' => match st' with [v_key_use; v_key_info; v_key_name; v_key_name_txt; v_text; v_cert; v_res] => (ExcS n [v_key_use; v_key_info; v_key_name; v_key_name_txt; v_text; v_cert; v_res]) | _ => (RetS PErr) end
      end))))
    | _ => RetS PErr end.

  (* a KeyDescriptor's certificate text is not blank (a blank one is skipped by the code) and strip() is decidable on it *)
  Definition cert_ok (c : string) : Prop :=
    negb (is_empty c) && negb (is_empty (strip c)) && end_ascii (strip c) = true.
  Definition cert_item (c : string) : pyval := PList [PNone; PStr (rp c)].
  Definition key_certs (k : keyd) : list string :=
    match k_use k with None => [k_cert k] | Some u => if String.eqb u use then [k_cert k] else [] end.

  (* `cert not in res` compares a str with tuples: never a duplicate (kept as it is in the model) *)
  Lemma str_not_in_items s cs : list_has (PStr s) (map cert_item cs) = Some false.
  Proof. induction cs as [|c r IH]; [reflexivity|]. cbn [map list_has]. unfold cert_item at 1. cbn [pv_eq cmp_ok is_bad is_object negb andb]. exact IH. Qed.

  Lemma key_step k cs : cert_ok (k_cert k) -> forall j1 j2 j3 j4 j5 j6, exists j1' j2' j3' j4' j5' j6',
    key_body [j1; j2; j3; j4; j5; j6; PList (map cert_item cs)] (enc_key k)
    = NextS [j1'; j2'; j3'; j4'; j5'; j6'; PList (map cert_item (cs ++ key_certs k))].
  Proof.
    intros Hok j1 j2 j3 j4 j5 j6. destruct k as [ku c]. unfold cert_ok in Hok. cbn [k_cert] in Hok.
    apply andb_true_iff in Hok as [Hok Hends]. apply andb_true_iff in Hok as [Hne Hsne].
    apply negb_true_iff in Hne. apply negb_true_iff in Hsne.
    assert (Hdat : forall t0 c0, pyfor2 [PObj [("x509_certificate", PObj [("text", PStr c)])]] [t0; c0; PList (map cert_item cs)] (dat_body PNone)
                   = NextS [PStr c; PStr (rp c); PList (map cert_item (cs ++ [c]))]).
    { intros t0 c0. cbn [pyfor2]. unfold dat_body. cbv zeta.
      change (p2_get (p2_or (p2_get (PObj [("x509_certificate", PObj [("text", PStr c)])]) (PStr "x509_certificate")) (PObj [])) (PStr "text"))
        with (PStr c).
      cbn [py_bindS p2_bind]. change (p2_not (PStr c)) with (PBool (negb (negb (is_empty c)))). rewrite Hne. cbn [negb].
      change (p2_strip (PStr c)) with (guard_ends (strip c)). unfold guard_ends. rewrite Hends.
      change (p2_not (PStr (strip c))) with (PBool (negb (negb (is_empty (strip c))))). rewrite Hsne. cbn [negb].
      change (p2_branch (p2_or (PBool false) (PBool false))) with BFalse. cbv iota.
      cbn [py_bind]. rewrite H_repack. cbn [py_bindS p2_bind].
      change (p2_not_in (PStr (rp c)) (PList (map cert_item cs)))
        with (p2_not (match list_has (PStr (rp c)) (map cert_item cs) with Some b => PBool b | None => PErr end)).
      rewrite str_not_in_items. change (p2_branch (p2_not (PBool false))) with BTrue. cbv iota.
      change (p2_append (PList (map cert_item cs)) (p2_mklist [PNone; PStr (rp c)])) with (PList (map cert_item cs ++ [cert_item c])).
      cbn [py_bindS p2_bind]. rewrite map_app. reflexivity. }
    destruct ku as [u|]; unfold key_body, enc_key, key_certs; cbn [k_use k_cert opt_str app]; cbv zeta.
    - change (p2_get (PObj [("use", PStr u); ("key_info", PObj [("x509_data", PList [PObj [("x509_certificate", PObj [("text", PStr c)])]])])]) (PStr "use"))
        with (PStr u). cbn [py_bindS p2_bind].
      match goal with |- context [py_bindS ?h (p2_or (p2_get ?K (PStr "key_info")) (PObj [])) ?f] =>
        change (p2_or (p2_get K (PStr "key_info")) (PObj [])) with (PObj [("x509_data", PList [PObj [("x509_certificate", PObj [("text", PStr c)])]])]) end.
      cbn [py_bindS p2_bind].
      match goal with |- context [p2_getitem (p2_or (p2_get ?I (PStr "key_name")) ?D) (PInt 0)] =>
        change (p2_getitem (p2_or (p2_get I (PStr "key_name")) D) (PInt 0)) with (PObj [("text", PNone)]) end.
      cbn [py_bindS p2_bind]. change (p2_get (PObj [("text", PNone)]) (PStr "text")) with PNone. cbn [py_bindS p2_bind].
      match goal with |- context [p2_not_in (PStr "use") ?K] => change (p2_not_in (PStr "use") K) with (PBool false) end.
      rewrite p2_eq_str. change (p2_or (PBool false) (PBool (String.eqb u use))) with (PBool (String.eqb u use)).
      rewrite p2_branch_bool. destruct (String.eqb u use).
      + match goal with |- context [p2_iter_check (p2_or (p2_get ?I (PStr "x509_data")) (PList []))] =>
          change (p2_iter_check (p2_or (p2_get I (PStr "x509_data")) (PList []))) with (PList [PObj [("x509_certificate", PObj [("text", PStr c)])]]) end.
        cbn [py_bindS p2_bind py_iter2]. rewrite Hdat. do 6 eexists. reflexivity.
      + rewrite app_nil_r. do 6 eexists. reflexivity.
    - change (p2_get (PObj [("key_info", PObj [("x509_data", PList [PObj [("x509_certificate", PObj [("text", PStr c)])]])])]) (PStr "use"))
        with PNone. cbn [py_bindS p2_bind].
      match goal with |- context [py_bindS ?h (p2_or (p2_get ?K (PStr "key_info")) (PObj [])) ?f] =>
        change (p2_or (p2_get K (PStr "key_info")) (PObj [])) with (PObj [("x509_data", PList [PObj [("x509_certificate", PObj [("text", PStr c)])]])]) end.
      cbn [py_bindS p2_bind].
      match goal with |- context [p2_getitem (p2_or (p2_get ?I (PStr "key_name")) ?D) (PInt 0)] =>
        change (p2_getitem (p2_or (p2_get I (PStr "key_name")) D) (PInt 0)) with (PObj [("text", PNone)]) end.
      cbn [py_bindS p2_bind]. change (p2_get (PObj [("text", PNone)]) (PStr "text")) with PNone. cbn [py_bindS p2_bind].
      match goal with |- context [p2_not_in (PStr "use") ?K] => change (p2_not_in (PStr "use") K) with (PBool true) end.
      match goal with |- context [p2_branch (p2_or (PBool true) ?B)] => change (p2_branch (p2_or (PBool true) B)) with BTrue end.
      cbv iota.
      match goal with |- context [p2_iter_check (p2_or (p2_get ?I (PStr "x509_data")) (PList []))] =>
        change (p2_iter_check (p2_or (p2_get I (PStr "x509_data")) (PList []))) with (PList [PObj [("x509_certificate", PObj [("text", PStr c)])]]) end.
      cbn [py_bindS p2_bind py_iter2]. rewrite Hdat. do 6 eexists. reflexivity.
  Qed.

  Lemma keys_loop ks : Forall (fun k => cert_ok (k_cert k)) ks -> forall cs j1 j2 j3 j4 j5 j6, exists j1' j2' j3' j4' j5' j6',
    pyfor2 (map enc_key ks) [j1; j2; j3; j4; j5; j6; PList (map cert_item cs)] key_body
    = NextS [j1'; j2'; j3'; j4'; j5'; j6'; PList (map cert_item (cs ++ flat_map key_certs ks))].
  Proof.
    induction ks as [|k r IH]; intros Hok cs j1 j2 j3 j4 j5 j6.
    - cbn. rewrite app_nil_r. do 6 eexists. reflexivity.
    - inversion Hok as [|? ? Hk Hr]; subst. cbn [map pyfor2 flat_map].
      destruct (key_step k cs Hk j1 j2 j3 j4 j5 j6) as [a1 [a2 [a3 [a4 [a5 [a6 Hs]]]]]]. rewrite Hs.
      destruct (IH Hr (cs ++ key_certs k) a1 a2 a3 a4 a5 a6) as [b1 [b2 [b3 [b4 [b5 [b6 Hl]]]]]].
      rewrite Hl, <- app_assoc. do 6 eexists. reflexivity.
  Qed.

  Lemma assoc_optfields key (g : string -> list pyval) names :
    ~ In key names -> assoc_py key (flat_map (fun n => opt_field n (g n)) names) = None.
  Proof.
    induction names as [|n r IH]; intros H; cbn [flat_map]; [reflexivity|].
    assert (Hn : key <> n) by (intros E; apply H; left; symmetry; exact E).
    assert (Hr : ~ In key r) by (intros E; apply H; right; exact E).
    destruct (g n); cbn [opt_field app]; [apply IH, Hr|]. cbn [assoc_py]. apply String.eqb_neq in Hn. rewrite Hn. apply IH, Hr.
  Qed.

  Lemma role_keys r : p2_get3 (enc_role r) (PStr "key_descriptor") (PList []) = PList (map enc_key (r_keys r)).
  Proof.
    unfold enc_role. rewrite p2_get3_dict by reflexivity. cbn [assoc_py]. change (String.eqb "key_descriptor" PSE) with false. cbv iota.
    unfold role_rest. destruct (r_keys r) as [|k ks]; [|reflexivity]. cbn [map opt_field app].
    rewrite assoc_app_none.
    - destruct (r_acs r); reflexivity.
    - apply assoc_optfields. cbn. intuition discriminate.
  Qed.

  Definition certs_ok (rs : list role) : Prop := Forall (fun r => Forall (fun k => cert_ok (k_cert k)) (r_keys r)) rs.

  Lemma srvs_loop rs : certs_ok rs -> forall cs j1 j2 j3 j4 j5 j6, exists j1' j2' j3' j4' j5' j6',
    pyfor2 (map enc_role rs) [j1; j2; j3; j4; j5; j6; PList (map cert_item cs)] srv_body
    = NextS [j1'; j2'; j3'; j4'; j5'; j6'; PList (map cert_item (cs ++ extract_certs use rs))].
  Proof.
    induction rs as [|r l IH]; intros Hok cs j1 j2 j3 j4 j5 j6.
    - cbn. rewrite app_nil_r. do 6 eexists. reflexivity.
    - inversion Hok as [|? ? Hr Hl]; subst. cbn [map pyfor2]. unfold srv_body at 1. cbv zeta.
      rewrite role_keys, p2_iter_check_list. cbn [py_bindS p2_bind py_iter2].
      destruct (keys_loop (r_keys r) Hr cs j1 j2 j3 j4 j5 j6) as [a1 [a2 [a3 [a4 [a5 [a6 Hs]]]]]]. rewrite Hs.
      destruct (IH Hl (cs ++ flat_map key_certs (r_keys r)) a1 a2 a3 a4 a5 a6) as [b1 [b2 [b3 [b4 [b5 [b6 Hq]]]]]].
      rewrite Hq. unfold extract_certs. cbn [flat_map]. rewrite <- app_assoc. do 6 eexists. reflexivity.
  Qed.

  (* certificates are returned as (KeyName or None, repacked text) in document order, filtered by declared use *)
  Theorem src2_extract_certs_is_model : forall rs, certs_ok rs ->
    src2_extract_certs repack_cert (PStr use) (PList (map enc_role rs)) = PList (map cert_item (extract_certs use rs)).
  Proof.
    intros rs Hok. unfold src2_extract_certs. cbv zeta. rewrite p2_iter_check_list. cbn [py_bind py_iter2].
    match goal with |- context [pyfor2 ?L ?S ?B] =>
      let b := eval cbv beta zeta delta [srv_body key_body dat_body] in srv_body in
      let B' := eval cbv beta zeta in B in
      first [constr_eq B' b | fail 2 "the translated loop body is not the one srv_body was copied from"];
      change (pyfor2 L S B) with (pyfor2 L S srv_body) end.
    destruct (srvs_loop rs Hok [] PErr PErr PErr PErr PErr PErr) as [b1 [b2 [b3 [b4 [b5 [b6 Hq]]]]]].
    change (PList []) with (PList (map cert_item [])). rewrite Hq. reflexivity.
  Qed.
End ExtractCerts.

Example extract_certs_hypotheses_satisfiable :
  exists repack_cert rp, forall s, repack_cert (PStr s) = PStr (rp s).
Proof. exists (fun v => v), (fun s => s). reflexivity. Qed.

(* ================================================================== MetaDataMDX: freshness *)
Definition enc_exp_f (l : list (string * Z)) : list (string * pyval) := map (fun kt => (fst kt, PInt (snd kt))) l.
Definition enc_mdx (x : mdx) : pyval :=
  PObj [("__class__", PStr "MetaDataMDX"); ("entity", enc_emap (x_ents x)); ("expiration_date", PObj (enc_exp_f (x_exp x)))].
Definition exp_ok (l : list (string * Z)) : Prop := Forall (fun kt => fst kt <> "__class__") l.

Lemma assoc_exp k l : assoc_py k (enc_exp_f l) = option_map PInt (lookup k l).
Proof.
  induction l as [|[k' t] r IH]; [reflexivity|]. cbn [enc_exp_f map assoc_py lookup fst snd].
  destruct (String.eqb k k'); [reflexivity|exact IH].
Qed.
Lemma exp_is_dict l : exp_ok l -> is_obj (enc_exp_f l) = false.
Proof.
  destruct l as [|[k t] r]; [reflexivity|]. intros H. inversion H as [|? ? Hk _]; subst. cbn in *. apply String.eqb_neq. exact Hk.
Qed.

Lemma remove_key_notin (e : string) (m : emap) : ~ In e (map fst m) -> remove_key e m = m.
Proof.
  induction m as [|[k v] r IH]; [reflexivity|]. cbn [map fst In remove_key]. intros H.
  destruct (String.eqb e k) eqn:E; [apply String.eqb_eq in E; exfalso; apply H; left; symmetry; exact E|].
  rewrite IH; [reflexivity|]. intros Hin. apply H. right. exact Hin.
Qed.
(* dict keys are distinct: popping the key removes the entity *)
Lemma enc_remove_key e m : NoDup (map fst m) -> enc_emap_f (remove_key e m) = del_assoc e (enc_emap_f m).
Proof.
  induction m as [|[k v] r IH]; [reflexivity|]. cbn [map fst]. intros H. inversion H as [|? ? Hnotin Hnd]; subst.
  cbn [remove_key enc_emap_f map del_assoc fst snd]. destruct (String.eqb e k) eqn:E.
  - apply String.eqb_eq in E. subst k. rewrite remove_key_notin by exact Hnotin. reflexivity.
  - cbn [map fst snd]. fold (enc_emap_f (remove_key e r)). fold (enc_emap_f r). rewrite IH by exact Hnd. reflexivity.
Qed.

(* what MetaDataMDX.__getitem__ decides before anything is fetched *)
Inductive mdx_dec := DCached (en : ent) | DNoExp | DFetch (x' : mdx).
Definition mdx_decide (now : Z) (x : mdx) (e : string) : mdx_dec :=
  match lookup e (x_ents x) with
  | None => DFetch x
  | Some en =>
      match lookup e (x_exp x) with
      | None => DNoExp
      | Some t => if (now <=? t)%Z then DCached en
                  else DFetch {| x_ents := remove_key e (x_ents x); x_exp := x_exp x; x_cert := x_cert x; x_period := x_period x |}
      end
  end.
(* ... and Model.mdx_get is exactly that decision followed by Model.mdx_fetch *)
Lemma mdx_get_decide fl now srv x e :
  mdx_get fl x now srv e = match mdx_decide now x e with
                           | DCached en => (x, ROk en)
                           | DNoExp => (x, RKeyErr)
                           | DFetch x' => mdx_fetch fl x' now srv e
                           end.
Proof.
  unfold mdx_get, mdx_decide. destruct (lookup e (x_ents x)); [|reflexivity].
  destruct (lookup e (x_exp x)); [|reflexivity]. destruct (now <=? z)%Z; reflexivity.
Qed.

(* result of the method with `returns_state`: [value or exception; self]; a type confusion stays PErr *)
Definition ret (v s : pyval) : pyval := match v with PErr => PErr | _ => PList [v; s] end.

Section Mdx.
  Variable now : Z.
  Variable before : pyval -> pyval.
  Variable fetch : pyval -> pyval -> pyval.
  (* time_util.before on an expiration date (time stamps are abstract integers here) *)
  Hypothesis H_before : forall t, before (PInt t) = PBool (now <=? t)%Z.

  Theorem src2_is_fresh_is_model : forall x e, exp_ok (x_exp x) ->
    src2_is_fresh before (enc_mdx x) (PStr e)
    = match lookup e (x_exp x) with Some t => PBool (now <=? t)%Z | None => PExc "KeyError" end.
  Proof.
    intros x e Hx. unfold src2_is_fresh.
    change (p2_attr (enc_mdx x) "expiration_date") with (PObj (enc_exp_f (x_exp x))).
    rewrite p2_getitem_dict by (apply exp_is_dict, Hx). rewrite assoc_exp.
    destruct (lookup e (x_exp x)) as [t|]; cbn [option_map py_bind]; [apply H_before|reflexivity].
  Qed.

  Lemma ret_bind v s :
    py_bindh (fun n => PList [PExc n; s]) v (fun v' => py_bindh (fun n => PList [PExc n; s]) v' (fun r => PList [r; s])) = ret v s.
  Proof. destruct v; reflexivity. Qed.

  Theorem src2_mdx_getitem_is_model : forall x e,
    ids_ok (x_ents x) -> NoDup (map fst (x_ents x)) -> exp_ok (x_exp x) ->
    src2_mdx_getitem fetch (src2_is_fresh before) (enc_mdx x) (PStr e)
    = match mdx_decide now x e with
      | DCached en => PList [enc_ent en; enc_mdx x]
      | DNoExp => PList [PExc "KeyError"; enc_mdx x]
      | DFetch x' => ret (fetch (enc_mdx x') (PStr e)) (enc_mdx x')
      end.
  Proof.
    intros x e Hm Hnd Hx. unfold src2_mdx_getitem. cbv zeta. cbn [py_bind].
    rewrite src2_is_fresh_is_model by exact Hx. unfold mdx_decide.
    change (p2_attr (enc_mdx x) "entity") with (PObj (enc_emap_f (x_ents x))).
    unfold p2_not_in. rewrite p2_in_dict by (apply emap_is_dict, Hm). rewrite assoc_emap.
    destruct (lookup e (x_ents x)) as [en|] eqn:El; cbn [option_map]; rewrite p2_not_bool, p2_branch_bool; cbn [negb].
    - destruct (lookup e (x_exp x)) as [t|]; [|reflexivity].
      rewrite p2_not_bool, p2_branch_bool. destruct (now <=? t)%Z; cbn [negb].
      + rewrite p2_getitem_dict by (apply emap_is_dict, Hm). rewrite assoc_emap, El. reflexivity.
      + rewrite py_bindh_good by reflexivity. rewrite py_bindh_good by reflexivity.
        unfold p2_pop_val1. rewrite p2_getitem_dict by (apply emap_is_dict, Hm). rewrite assoc_emap, El. cbn [option_map].
        rewrite py_bindh_good by reflexivity.
        assert (Hpop : p2_pop_rest (PObj (enc_emap_f (x_ents x))) (PStr e) = PObj (enc_emap_f (remove_key e (x_ents x)))).
        { unfold p2_pop_rest. rewrite s2_good by reflexivity. rewrite (emap_is_dict _ Hm). cbn [key_of].
          rewrite enc_remove_key by exact Hnd. reflexivity. }
        rewrite Hpop.
        change (p2_setattr (enc_mdx x) "entity" (PObj (enc_emap_f (remove_key e (x_ents x)))))
          with (enc_mdx {| x_ents := remove_key e (x_ents x); x_exp := x_exp x; x_cert := x_cert x; x_period := x_period x |}).
        rewrite py_bindh_good by reflexivity. apply ret_bind.
    - apply ret_bind.
  Qed.
End Mdx.

Example mdx_hypotheses_satisfiable : exists before, forall t, before (PInt t) = PBool (100 <=? t)%Z.
Proof. exists (fun v => match v with PInt t => PBool (100 <=? t)%Z | _ => PErr end). reflexivity. Qed.

(* ================================================================== MetadataStore.__getitem__ *)
(* the store's metadata dict: source key -> source; a static source is encoded by its entity dict
   (InMemoryMetaData.__getitem__ is self.entity[item]); keys only need to be distinct strings *)
Fixpoint tally (n : nat) : string := match n with O => "" | S m => String "|" (tally m) end.
Definition key_name (k : key) : string := match k with KS s => "s:" ++ s | KI n => "i:" ++ tally n end.
Definition enc_srcs (l : list (key * emap)) : list (string * pyval) :=
  map (fun km => (key_name (fst km), enc_emap (snd km))) l.
Definition enc_store (l : list (key * emap)) : pyval :=
  PObj [("__class__", PStr "MetadataStore"); ("metadata", PObj (enc_srcs l))].
Definition static_sources (l : list (key * emap)) : sources := map (fun km => (fst km, SStatic (snd km))) l.
Definition enc_res (r : res ent) : pyval :=
  match r with ROk en => enc_ent en | RKeyErr => PExc "KeyError" | RRaise => PExc "Exception" end.

Lemma srcs_is_dict l : is_obj (enc_srcs l) = false.
Proof. destruct l as [|[[n|s] m] r]; reflexivity. Qed.

Definition store_body (v_item : pyval) : list pyval -> pyval -> ctl2 := fun st x => match st with [] =>
  (let v__md := x in
   (py_bindS (fun n => (if exc_matches n ["KeyError"]
      then (NextS [])
      else (ExcS n []))) (p2_getitem v__md v_item) (fun r =>
   (RetS r))))
  | _ => RetS PErr end.

Lemma enc_ent_good en : is_bad (enc_ent en) = false.
Proof. reflexivity. Qed.

Section StoreGetitem.
  Variables (fl : flags) (now : Z) (srv : server).

  Lemma store_loop e l : Forall (fun km => ids_ok (snd km)) l ->
    pyfor2 (map snd (enc_srcs l)) [] (store_body (PStr e))
    = match snd (store_get fl now srv (static_sources l) e) with
      | ROk en => RetS (enc_ent en)
      | _ => NextS []
      end.
  Proof.
    induction l as [|[k m] r IH]; intros Hok; [reflexivity|]. inversion Hok as [|? ? Hm Hr]; subst. cbn [snd] in Hm.
    cbn [enc_srcs map snd fst pyfor2 static_sources store_get src_get]. fold (enc_srcs r). fold (static_sources r).
    unfold store_body at 1. cbv zeta. unfold enc_emap at 1. rewrite p2_getitem_dict by (apply emap_is_dict, Hm).
    rewrite assoc_emap. destruct (lookup e m) as [en|]; cbn [option_map].
    - reflexivity.
    - cbn [py_bindS p2_bind]. change (exc_matches "KeyError" ["KeyError"]) with true. cbv iota.
      rewrite (IH Hr). destruct (store_get fl now srv (static_sources r) e) as [r' a]. reflexivity.
  Qed.

  Lemma store_get_static_no_raise e l : snd (store_get fl now srv (static_sources l) e) <> RRaise.
  Proof.
    induction l as [|[k m] r IH]; [discriminate|]. cbn [static_sources map fst snd store_get src_get]. fold (static_sources r).
    destruct (lookup e m); [discriminate|]. destruct (store_get fl now srv (static_sources r) e) as [r' a]. exact IH.
  Qed.

  (* the first configured source that has the entity answers; KeyError when none has it *)
  Theorem src2_store_getitem_is_model : forall l e, Forall (fun km => ids_ok (snd km)) l ->
    src2_store_getitem (enc_store l) (PStr e) = enc_res (snd (store_get fl now srv (static_sources l) e)).
  Proof.
    intros l e Hok. unfold src2_store_getitem.
    change (p2_attr (enc_store l) "metadata") with (PObj (enc_srcs l)).
    assert (Hv : p2_values (PObj (enc_srcs l)) = PList (map snd (enc_srcs l))).
    { unfold p2_values, dict_view. rewrite s1_good by reflexivity. rewrite srcs_is_dict. reflexivity. }
    rewrite Hv, p2_iter_check_list. cbn [py_bind py_iter2].
    match goal with |- context [pyfor2 ?L ?S ?B] =>
      let b := eval cbv beta zeta delta [store_body] in (store_body (PStr e)) in
      let B' := eval cbv beta zeta in B in
      first [constr_eq B' b | fail 2 "the translated loop body is not the one store_body was copied from"];
      change (pyfor2 L S B) with (pyfor2 L S (store_body (PStr e))) end.
    rewrite (store_loop e l Hok). pose proof (store_get_static_no_raise e l) as Hnr.
    destruct (snd (store_get fl now srv (static_sources l) e)); [reflexivity|reflexivity|contradiction].
  Qed.
End StoreGetitem.

(* ================================================================== MetadataStore.reload *)
Definition store_obj (md : pyval) (ii : Z) : pyval :=
  PObj [("__class__", PStr "MetadataStore"); ("metadata", md); ("ii", PInt ii)].

(* [imp] is any function of (self, spec): what self.imp(spec) returns or raises when started on the store with an
   EMPTY metadata dict.  Its effect on self is outside the embedding (value semantics), so the success line says
   only that reload returns None; the failure line is complete for the metadata dict: the old one is put back and
   the SAME exception goes on, whatever its class (Model.reload: st_srcs st is kept when imp fails). *)
Theorem src2_reload_is_model : forall (imp : pyval -> pyval -> pyval) md ii spec,
  is_bad md = false -> is_bad spec = false ->
  src2_reload imp (store_obj md ii) spec
  = match imp (store_obj (PObj []) ii) spec with
    | PExc n => PList [PExc n; store_obj md ii]
    | PErr => PErr
    | _ => PList [PNone; store_obj (PObj []) ii]
    end.
Proof.
  intros imp md ii spec Hmd Hspec. unfold src2_reload. cbv zeta.
  change (p2_attr (store_obj md ii) "metadata") with md. rewrite py_bindh_good by exact Hmd.
  change (p2_setattr (store_obj md ii) "metadata" (PObj [])) with (store_obj (PObj []) ii).
  rewrite py_bindh_good by reflexivity. rewrite (py_bind_good spec) by exact Hspec.
  destruct (imp (store_obj (PObj []) ii) spec) eqn:E; try reflexivity.
  cbn [py_bindh p2_bind]. rewrite py_bindh_good by exact Hmd.
  assert (Hset : p2_setattr (store_obj (PObj []) ii) "metadata" md = store_obj md ii).
  { unfold p2_setattr. rewrite s2_good by (exact Hmd || reflexivity). reflexivity. }
  rewrite Hset. reflexivity.
Qed.

Lemma model_reload_failure fl ns now st items :
  snd (imp fl ns now {| st_srcs := []; st_ii := st_ii st |} items) = false ->
  st_srcs (fst (reload fl ns now st items)) = st_srcs st /\ snd (reload fl ns now st items) = false.
Proof.
  unfold reload. destruct (imp fl ns now {| st_srcs := []; st_ii := st_ii st |} items) as [st1 ok]. cbn [snd].
  intros ->. split; reflexivity.
Qed.

(* ================================================================== InMemoryMetaData.signed *)
(* the two attributes parse() leaves behind: entities_descr is set for an EntitiesDescriptor document (None
   otherwise), entity_descr for an EntityDescriptor document *)
Definition sig_val (sg : sigstate) : pyval := if is_signed sg then PObj [("__class__", PStr "Signature")] else PNone.
Definition enc_parsed (p : payload) (sg : sigstate) : pyval :=
  PObj [("__class__", PStr "InMemoryMetaData");
        ("entities_descr", match p with
                           | D (Group _ _) => PObj [("__class__", PStr "EntitiesDescriptor"); ("signature", sig_val sg)]
                           | _ => PNone
                           end);
        ("entity_descr", match p with
                         | D (Single _) => PObj [("__class__", PStr "EntityDescriptor"); ("signature", sig_val sg)]
                         | _ => PNone
                         end)].

Theorem src2_signed_is_model : forall p sg, src2_signed (enc_parsed p sg) = PBool (payload_signed p sg).
Proof. intros [| |[e|vu es]] sg; destruct sg; reflexivity. Qed.
