(* C11/Corr.v — correspondence runner: model output vs observed output, spec on the observed output *)
From Coq Require Import String List Bool ZArith.
From Verif Require Import Base.Str Base.Run C11.Model C11.Dec C11.Spec C11.Tokens.
Import ListNotations.
Open Scope string_scope.
Open Scope list_scope.

Definition bR := BINDING_HTTP_REDIRECT.
Definition bP := BINDING_HTTP_POST.
Definition bS := "urn:oasis:names:tc:SAML:2.0:bindings:SOAP".
Definition p11 := "urn:oasis:names:tc:SAML:1.1:protocol".
Definition p10 := "urn:oasis:names:tc:SAML:1.0:protocol".
Definition sv := Svc.
Definition rl := Role.
(* a role descriptor whose protocolSupportEnumeration is given as the attribute VALUE (Tokens.rp splits it at blanks,
   as do_entity_descriptor does) *)
Definition rp := Tokens.rp.
Definition ky := Key.
Definition mkent := Ent.
Definition mksp k key cert cv node period scv viaimp : srcspec :=
  {| sp_kind := k; sp_key := key; sp_cert := cert; sp_cv := cv; sp_node := node; sp_period := period;
     sp_scv := scv; sp_imp := viaimp |}.


(* string table of the generators' alphabets (mirrors harness/c11_names.json): keeps case files small *)
Definition L1_1 := "https://h1.example.org/1".
Definition L1_10 := "https://h1.example.org/10".
Definition L1_11 := "https://h1.example.org/11".
Definition L1_12 := "https://h1.example.org/12".
Definition L1_13 := "https://h1.example.org/13".
Definition L1_14 := "https://h1.example.org/14".
Definition L1_15 := "https://h1.example.org/15".
Definition L1_16 := "https://h1.example.org/16".
Definition L1_17 := "https://h1.example.org/17".
Definition L1_18 := "https://h1.example.org/18".
Definition L1_19 := "https://h1.example.org/19".
Definition L1_2 := "https://h1.example.org/2".
Definition L1_20 := "https://h1.example.org/20".
Definition L1_21 := "https://h1.example.org/21".
Definition L1_22 := "https://h1.example.org/22".
Definition L1_23 := "https://h1.example.org/23".
Definition L1_24 := "https://h1.example.org/24".
Definition L1_25 := "https://h1.example.org/25".
Definition L1_26 := "https://h1.example.org/26".
Definition L1_27 := "https://h1.example.org/27".
Definition L1_28 := "https://h1.example.org/28".
Definition L1_29 := "https://h1.example.org/29".
Definition L1_3 := "https://h1.example.org/3".
Definition L1_30 := "https://h1.example.org/30".
Definition L1_31 := "https://h1.example.org/31".
Definition L1_32 := "https://h1.example.org/32".
Definition L1_33 := "https://h1.example.org/33".
Definition L1_34 := "https://h1.example.org/34".
Definition L1_35 := "https://h1.example.org/35".
Definition L1_36 := "https://h1.example.org/36".
Definition L1_37 := "https://h1.example.org/37".
Definition L1_38 := "https://h1.example.org/38".
Definition L1_39 := "https://h1.example.org/39".
Definition L1_4 := "https://h1.example.org/4".
Definition L1_40 := "https://h1.example.org/40".
Definition L1_5 := "https://h1.example.org/5".
Definition L1_6 := "https://h1.example.org/6".
Definition L1_7 := "https://h1.example.org/7".
Definition L1_8 := "https://h1.example.org/8".
Definition L1_9 := "https://h1.example.org/9".
Definition L2_1 := "https://h2.example.org/1".
Definition L2_10 := "https://h2.example.org/10".
Definition L2_11 := "https://h2.example.org/11".
Definition L2_12 := "https://h2.example.org/12".
Definition L2_13 := "https://h2.example.org/13".
Definition L2_14 := "https://h2.example.org/14".
Definition L2_15 := "https://h2.example.org/15".
Definition L2_16 := "https://h2.example.org/16".
Definition L2_17 := "https://h2.example.org/17".
Definition L2_18 := "https://h2.example.org/18".
Definition L2_19 := "https://h2.example.org/19".
Definition L2_2 := "https://h2.example.org/2".
Definition L2_20 := "https://h2.example.org/20".
Definition L2_21 := "https://h2.example.org/21".
Definition L2_22 := "https://h2.example.org/22".
Definition L2_23 := "https://h2.example.org/23".
Definition L2_24 := "https://h2.example.org/24".
Definition L2_25 := "https://h2.example.org/25".
Definition L2_26 := "https://h2.example.org/26".
Definition L2_27 := "https://h2.example.org/27".
Definition L2_28 := "https://h2.example.org/28".
Definition L2_29 := "https://h2.example.org/29".
Definition L2_3 := "https://h2.example.org/3".
Definition L2_30 := "https://h2.example.org/30".
Definition L2_31 := "https://h2.example.org/31".
Definition L2_32 := "https://h2.example.org/32".
Definition L2_33 := "https://h2.example.org/33".
Definition L2_34 := "https://h2.example.org/34".
Definition L2_35 := "https://h2.example.org/35".
Definition L2_36 := "https://h2.example.org/36".
Definition L2_37 := "https://h2.example.org/37".
Definition L2_38 := "https://h2.example.org/38".
Definition L2_39 := "https://h2.example.org/39".
Definition L2_4 := "https://h2.example.org/4".
Definition L2_40 := "https://h2.example.org/40".
Definition L2_5 := "https://h2.example.org/5".
Definition L2_6 := "https://h2.example.org/6".
Definition L2_7 := "https://h2.example.org/7".
Definition L2_8 := "https://h2.example.org/8".
Definition L2_9 := "https://h2.example.org/9".
Definition L3_1 := "https://h3.example.org/1".
Definition L3_10 := "https://h3.example.org/10".
Definition L3_11 := "https://h3.example.org/11".
Definition L3_12 := "https://h3.example.org/12".
Definition L3_13 := "https://h3.example.org/13".
Definition L3_14 := "https://h3.example.org/14".
Definition L3_15 := "https://h3.example.org/15".
Definition L3_16 := "https://h3.example.org/16".
Definition L3_17 := "https://h3.example.org/17".
Definition L3_18 := "https://h3.example.org/18".
Definition L3_19 := "https://h3.example.org/19".
Definition L3_2 := "https://h3.example.org/2".
Definition L3_20 := "https://h3.example.org/20".
Definition L3_21 := "https://h3.example.org/21".
Definition L3_22 := "https://h3.example.org/22".
Definition L3_23 := "https://h3.example.org/23".
Definition L3_24 := "https://h3.example.org/24".
Definition L3_25 := "https://h3.example.org/25".
Definition L3_26 := "https://h3.example.org/26".
Definition L3_27 := "https://h3.example.org/27".
Definition L3_28 := "https://h3.example.org/28".
Definition L3_29 := "https://h3.example.org/29".
Definition L3_3 := "https://h3.example.org/3".
Definition L3_30 := "https://h3.example.org/30".
Definition L3_31 := "https://h3.example.org/31".
Definition L3_32 := "https://h3.example.org/32".
Definition L3_33 := "https://h3.example.org/33".
Definition L3_34 := "https://h3.example.org/34".
Definition L3_35 := "https://h3.example.org/35".
Definition L3_36 := "https://h3.example.org/36".
Definition L3_37 := "https://h3.example.org/37".
Definition L3_38 := "https://h3.example.org/38".
Definition L3_39 := "https://h3.example.org/39".
Definition L3_4 := "https://h3.example.org/4".
Definition L3_40 := "https://h3.example.org/40".
Definition L3_5 := "https://h3.example.org/5".
Definition L3_6 := "https://h3.example.org/6".
Definition L3_7 := "https://h3.example.org/7".
Definition L3_8 := "https://h3.example.org/8".
Definition L3_9 := "https://h3.example.org/9".
Definition a_cn := "cn".
Definition a_mail := "mail".
Definition a_sn := "sn".
Definition a_uid := "uid".
Definition c_idp := "idp".
Definition c_idp2 := "idp2".
Definition c_idpenc := "idpenc".
Definition c_other := "other".
Definition c_sp := "sp".
Definition cat1 := "http://cat.example.org/1".
Definition cat2 := "http://cat.example.org/2".
Definition cat3 := "http://cat.example.org/3".
Definition cat4 := "http://cat.example.org/4".
Definition cat9 := "http://cat.example.org/9".
Definition e1 := "urn:e1".
Definition e2 := "urn:e2".
Definition e3 := "urn:e3".
Definition i0 := "0".
Definition i1 := "1".
Definition i2 := "2".
Definition i3 := "3".
Definition inst1 := "2013-06-15T18:15:03Z".
Definition l_en := "en".
Definition l_sv := "sv".
Definition nx := "urn:nx".
Definition oattr := "urn:other:attr".
Definition pol1 := "http://ra.example.org/pol1".
Definition pol2 := "http://ra.example.org/pol2".
Definition pol3 := "http://ra.example.org/pol3".
Definition px := "urn:x:proto".
Definition ra1 := "http://ra1.example.org".
Definition ra2 := "http://ra2.example.org".
Definition s_false := "false".
Definition s_true := "true".
Definition u_enc := "encryption".
Definition u_sig := "signing".
Definition v1 := "v1".
Definition v2 := "v2".
Definition v3 := "v3".

(* the fixed query set; mirrors harness/c11.py ask_all *)
Definition service_queries : list (string * string * option string) :=
  [(K_IDPSSO, N_SSO, None); (K_IDPSSO, N_SSO, Some bR); (K_IDPSSO, N_SSO, Some bP); (K_IDPSSO, N_SSO, Some bS);
   (K_SPSSO, N_ACS, None); (K_SPSSO, N_ACS, Some bR); (K_SPSSO, N_ACS, Some bP); (K_SPSSO, N_ACS, Some bS);
   (K_IDPSSO, N_SLO, None); (K_IDPSSO, N_SLO, Some bS); (K_SPSSO, N_SLO, Some bR);
   (K_AA, N_ATTR, None); (K_AA, N_ATTR, Some bS); (K_PDP, N_AUTHZ, Some bS); (K_AUTHN, N_AUTHNQ, Some bS)].
Definition cert_queries : list (string * string) :=
  [("any", "signing"); ("any", "encryption"); (K_IDPSSO, "signing"); (K_SPSSO, "encryption"); (K_AA, "signing")].
Definition with_kinds := [K_IDPSSO; K_SPSSO; K_AA; K_PDP; K_AUTHN; K_AFFIL].

Definition queries_for (e : string) : list query :=
  QGet e :: map (fun q => QService e (fst (fst q)) (snd (fst q)) (snd q)) service_queries
  ++ [QSso e None; QAcs e None]
  ++ map (fun q => QCerts e (fst q) (snd q)) cert_queries
  ++ [QAttrReq e None; QAttrReq e (Some "1"); QCats e; QReg e].
Definition queries (U : list string) : list query :=
  flat_map queries_for U ++ [QKeys] ++ map QWith with_kinds.

(* t0, universe, steps: operation, its flag (load / reload only), and the answers to the query set
   put after it, run-length coded.  None = "the same answer as after the previous step". *)
Definition cstep := (op * list answer * list (nat * option answer))%type.
(* run-length coding of the answer lists, and names for the frequent entries (keeps the case files small) *)
Definition unrle {A} (l : list (nat * A)) : list A := flat_map (fun p => repeat (snd p) (fst p)) l.
Definition oS : option answer := None.            (* same as after the previous step *)
Definition oU := Some AUnknown.
Definition oK := Some AKeyErr.
Definition oX := Some AUnsupported.
Definition oN := Some ANone.
Definition oR := Some ARaise.
Definition oT0 := Some (ACats []).
Definition oG0 := Some (AReg None None []).
(* t0, universe, ORDER in which the query set is put after every step (indices into [queries U]; [] = the
   listed order), steps.  The order matters: a lookup on an MDQ entity that is not cached fetches it. *)
Definition case := (Z * list (Z * Z * Z) * list string * list nat * list cstep)%type.
Definition c_t0 (c : case) : Z := fst (fst (fst (fst c))).
(* the daylight-saving gaps of the zone the implementation ran in ([] for most cases).  The model of the code now
   does not take them; they serve to recognise a regression of 7137d601 (class 8) *)
Definition c_gaps (c : case) : list (Z * Z * Z) := snd (fst (fst (fst c))).
Definition c_uni (c : case) : list string := snd (fst (fst c)).
Definition c_order (c : case) : list nat := snd (fst c).
Definition ordered (U : list string) (order : list nat) : list query :=
  match order with
  | [] => queries U
  | _ => map (fun i => nth i (queries U) QKeys) order
  end.

Definition expand (U : list string) (order : list nat) (steps : list cstep) : list op :=
  flat_map (fun s => fst (fst s) :: map OQuery (ordered U order)) steps.

Fixpoint resolve (prev : list answer) (qs : list (option answer)) : list answer :=
  match qs with
  | [] => []
  | o :: r =>
      let p := match prev with x :: _ => x | [] => ANone end in
      match o with Some a => a | None => p end :: resolve (tl prev) r
  end.
Fixpoint unfold_obs (prev : list answer) (steps : list cstep) : list answer :=
  match steps with
  | [] => []
  | (_, fl, qs) :: r => let cur := resolve prev (unrle qs) in fl ++ cur ++ unfold_obs cur r
  end.

Definition observed (c : case) : list answer := unfold_obs [] (snd c).
Definition history (c : case) : list op := expand (c_uni c) (c_order c) (snd c).
(* the code now (9be4974e) splits every enumeration with str.split(): Tokens.run_now = the model on the re-split history *)
Definition model_out (c : case) : list answer := run cur (init (c_t0 c)) (canon_hist (history c)).
(* what the code before 7137d601 answers in the case's zone *)
Definition model_out_zone_v0 (c : case) : list answer := run (zone_v0 (c_gaps c)) (init (c_t0 c)) (canon_hist (history c)).
(* what the code before 9be4974e answers: the enumerations split at blanks only *)
Definition model_out_items_v0 (c : case) : list answer := run cur (init (c_t0 c)) (history c).

Definition agrees (c : case) : bool := answers_eqb (model_out c) (observed c).
(* the property, evaluated on what the IMPLEMENTATION answered.  The reference reads every protocolSupportEnumeration
   as the list of its ITEMS (Tokens.canon_hist: separated by any XML white space) *)
Definition history_x (c : case) : list op := canon_hist (history c).
Definition verdict (c : case) : nat := let w := rinit (c_t0 c) in check w [r_srv w] (history_x c) (observed c).
(* the same with the enumerations split at blanks only (the code's reading) *)
Definition verdict_sp (c : case) : nat := let w := rinit (c_t0 c) in check w [r_srv w] (history c) (observed c).
Definition holds (c : case) : bool := Nat.eqb (verdict c) 0.
(* finding classes (first failing position of the history):
     1 service() fell through to a later source although an earlier one has the entity
     2 with_descriptor() returned a later source's descriptor (dict.update: last wins)
     3 an unsigned document was served although a verification certificate is configured
     4 an MDQ source shows what a failed fetch parsed (unverified / foreign entity)
     5 a malformed / badly signed MDQ answer escapes as an exception: later sources are not consulted
     6 an inline source given as list-style item (text, cert) is never verified
     7 an EntitiesDescriptor MDQ answer that is expired / lacks a required attribute escapes as TooOld / MustValueError
     8 (repaired by 7137d601) the process zone has a daylight-saving gap and the implementation answered exactly what the
       model of the code BEFORE the commit answers with that gap (an MDQ entry served past its freshness period
       because add_duration went through the local calendar), which fails the zone-free reference.
     9 (repaired by 9be4974e) an enumeration whose items are separated by a tab / line feed / carriage return (character reference):
       the implementation did what the reference does when it splits at blanks only (a SAML 2.0 role is not served;
       the converse cannot happen: a piece that equals the name holds none of these characters and is an item), which
       fails the reference on items.
   Classes 1-9 are repaired in /repo (status "fixed"): they are still recognised, so that a regression is
   reported with its class and the failing input. *)
Definition cls (c : case) : nat :=
  if negb (clean_hist (history c)) && Nat.eqb (verdict_sp c) 0 then 9 else
  match c_gaps c with
  | _ :: _ => if answers_eqb (model_out_zone_v0 c) (observed c) then 8
              else let v := verdict c in if Nat.leb v 7 then v else 0
  | [] => let v := verdict c in if Nat.leb v 7 then v else 0
  end.
Definition run := run_cases agrees holds cls.

(* debugging: first position where model and implementation differ *)
Fixpoint first_diff (i : nat) (qs : list op) (a b : list answer) : option (nat * option op * option answer * option answer) :=
  match a, b with
  | [], [] => None
  | x :: a', y :: b' => if answer_eqb x y then first_diff (S i) (tl qs) a' b' else Some (i, hd_error qs, Some x, Some y)
  | x :: _, [] => Some (i, hd_error qs, Some x, None)
  | [], y :: _ => Some (i, hd_error qs, None, Some y)
  end.
Definition answering (h : list op) : list op :=
  filter (fun o => match o with OTick _ | OServer _ => false | _ => true end) h.
Definition brief (o : option op) : option query := match o with Some (OQuery q) => Some q | _ => None end.
Definition explain (c : case) :=
  match first_diff 0 (answering (history c)) (model_out c) (observed c) with
  | Some (i, o, m, a) => Some (i, brief o, m, a)
  | None => None
  end.
Definition where_model (c : case) :=
  match first_diff 0 (answering (history c)) (model_out c) (observed c) with
  | Some (i, o, m, a) => Some (i, brief o)
  | None => None
  end.

(* first position where the implementation's output departs from the reference store *)
Fixpoint spec_diff (i : nat) (w : rworld) (h : list op) (obs : list answer) : option (nat * option query * option answer * option answer) :=
  match h with
  | [] => None
  | OTick dt :: r => spec_diff i {| r_srcs := r_srcs w; r_now := (r_now w + dt)%Z; r_srv := r_srv w |} r obs
  | OServer t :: r => spec_diff i {| r_srcs := r_srcs w; r_now := r_now w; r_srv := t |} r obs
  | OLoad ns sp f :: r =>
      match obs with
      | AFlag true :: obs' => match ref_load1 ns (r_now w) (r_srcs w) sp f with
                              | Some s => spec_diff (S i) (with_srcs w s) r obs'
                              | None => Some (i, None, Some (AFlag true), Some (AFlag false))
                              end
      | _ :: obs' => spec_diff (S i) w r obs'
      | [] => None
      end
  | OReload ns items :: r =>
      match obs with
      | AFlag true :: obs' => match ref_imp ns (r_now w) [] items with
                              | Some s => spec_diff (S i) (with_srcs w s) r obs'
                              | None => Some (i, None, Some (AFlag true), Some (AFlag false))
                              end
      | _ :: obs' => spec_diff (S i) w r obs'
      | [] => None
      end
  | OQuery q :: r =>
      match obs with
      | a :: obs' =>
          let ra := ref_answer (r_now w) (r_srv w) (r_srcs w) q in
          if answer_eqb (norm a) (norm (snd ra)) then spec_diff (S i) (with_srcs w (fst ra)) r obs'
          else Some (i, Some q, Some a, Some (snd ra))
      | [] => None
      end
  end.
(* (position, query, implementation's answer, reference answer) *)
Definition where_spec (c : case) := spec_diff 0 (rinit (c_t0 c)) (history_x c) (observed c).
Definition where_ (c : case) := (verdict c, match where_spec c with Some (i, q, _, _) => Some (i, q) | None => None end, where_model c).
