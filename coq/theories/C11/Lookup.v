(* C11/Lookup.v — what a lookup returns for an entity is exactly what the loaded document says
   (Spec.v part 1): soundness and completeness of every per-entity projection, for all documents. *)
From Coq Require Import String List Bool ZArith Arith Lia.
From Verif Require Import Base.Str C11.Model C11.Dec C11.Spec C11.Proofs.
Import ListNotations.
Open Scope string_scope.
Open Scope list_scope.

(* ------------------------------------------------------------------ role descriptors that are kept *)
Lemma in_roles_prune e0 r' :
  In r' (e_roles (prune e0)) <-> exists r, In r (e_roles e0) /\ saml2 r /\ r' = norm_role r.
Proof.
  cbn [prune e_roles]. rewrite in_map_iff. split.
  - intros [r [<- Hin]]. apply filter_In in Hin as [Hin Hs]. exists r. split; [exact Hin|]. split; [|reflexivity].
    apply supports_saml2_iff; exact Hs.
  - intros [r [Hin [Hs ->]]]. exists r. split; [reflexivity|]. apply filter_In. split; [exact Hin|].
    apply supports_saml2_iff; exact Hs.
Qed.

Lemma in_roles_of en typ r : In r (roles_of en typ) <-> In r (e_roles en) /\ r_kind r = typ.
Proof. unfold roles_of. rewrite filter_In, String.eqb_eq. tauto. Qed.

(* the served role descriptors of kind [typ]: the SAML 2.0 capable ones of the document, nothing else *)
Lemma served_roles e0 typ r' :
  In r' (roles_of (prune e0) typ) <->
  exists r, In r (e_roles e0) /\ r_kind r = typ /\ saml2 r /\ r' = norm_role r.
Proof.
  rewrite in_roles_of, in_roles_prune. split.
  - intros [[r [H1 [H2 ->]]] H3]. exists r. cbn in H3. auto.
  - intros [r [H1 [H2 [H3 ->]]]]. split; [exists r; auto|exact H2].
Qed.

(* ------------------------------------------------------------------ endpoints *)
Definition srvs_of (en : ent) (typ name : string) : list svc :=
  flat_map (fun r => filter (fun s => String.eqb (s_name s) name) (r_svcs r)) (roles_of en typ).

Lemma in_srvs_of en typ name s :
  In s (srvs_of en typ name) <-> exists r, In r (e_roles en) /\ r_kind r = typ /\ In s (r_svcs r) /\ s_name s = name.
Proof.
  unfold srvs_of. rewrite in_flat_map. split.
  - intros [r [Hr Hs]]. apply in_roles_of in Hr as [Hr Hk]. apply filter_In in Hs as [Hs Hn].
    apply String.eqb_eq in Hn. exists r. auto.
  - intros [r [Hr [Hk [Hs Hn]]]]. exists r. split; [apply in_roles_of; auto|].
    apply filter_In. split; [exact Hs|apply String.eqb_eq; exact Hn].
Qed.

Lemma ent_service_unfold en typ name b :
  ent_service en typ name b =
  match roles_of en typ with
  | [] => SNone
  | _ => match srvs_of en typ name with
         | [] => SEmpty
         | srvs => match b with
                   | Some bd => if is_empty bd then SDict (group_by_binding srvs [])
                                else SList (filter (fun s => String.eqb (s_binding s) bd) srvs)
                   | None => SDict (group_by_binding srvs [])
                   end
         end
  end.
Proof. unfold ent_service, srvs_of. destruct (roles_of en typ); reflexivity. Qed.

Lemma is_empty_false s : s <> "" -> is_empty s = false.
Proof. destruct s; [contradiction|reflexivity]. Qed.

(* service(entity, typ, name, binding) on one entity: exactly the endpoints of that role kind, service and binding *)
Lemma ent_service_list en typ name b l :
  ent_service en typ name (Some b) = SList l ->
  forall s, In s l <-> exists r, In r (e_roles en) /\ r_kind r = typ /\ In s (r_svcs r) /\ s_name s = name /\ s_binding s = b.
Proof.
  rewrite ent_service_unfold. destruct (roles_of en typ) as [|r0 rs0]; [discriminate|].
  destruct (srvs_of en typ name) as [|x srvs] eqn:Es; [discriminate|].
  destruct (is_empty b); [discriminate|]. cbv zeta. rewrite <- Es. intros H. assert (Hl : l = filter (fun s => String.eqb (s_binding s) b) (srvs_of en typ name)) by congruence.
  subst l. clear H. intros s.
  rewrite filter_In, in_srvs_of, String.eqb_eq. split.
  - intros [[r [H1 [H2 [H3 H4]]]] H5]. exists r. auto.
  - intros [r [H1 [H2 [H3 [H4 H5]]]]]. split; [exists r; auto|exact H5].
Qed.

Lemma ent_service_list_complete en typ name b s r :
  b <> "" -> In r (e_roles en) -> r_kind r = typ -> In s (r_svcs r) -> s_name s = name -> s_binding s = b ->
  exists l, ent_service en typ name (Some b) = SList l /\ In s l.
Proof.
  intros Hb H1 H2 H3 H4 H5. rewrite ent_service_unfold.
  assert (Hr : In r (roles_of en typ)) by (apply in_roles_of; auto).
  destruct (roles_of en typ) as [|r0 rs0]; [contradiction|].
  assert (Hs : In s (srvs_of en typ name)) by (apply in_srvs_of; exists r; auto).
  destruct (srvs_of en typ name) as [|x srvs] eqn:Es; [contradiction|].
  rewrite (is_empty_false b Hb). eexists. split; [reflexivity|].
  apply filter_In. split; [exact Hs|apply String.eqb_eq; exact H5].
Qed.

(* the dictionary form (no binding given): per binding, the endpoints in document order *)
Lemma group_lookup b : forall l acc,
  lookup b (group_by_binding l acc) =
  let fl := filter (fun s => String.eqb (s_binding s) b) l in
  match lookup b acc with
  | Some x => Some (x ++ fl)
  | None => match fl with [] => None | _ => Some fl end
  end.
Proof.
  induction l as [|s r IH]; intros acc; cbn [group_by_binding filter].
  - cbn. destruct (lookup b acc); [rewrite app_nil_r|]; reflexivity.
  - rewrite IH. cbn zeta. destruct (String.eqb (s_binding s) b) eqn:E.
    + apply String.eqb_eq in E. subst b. rewrite lookup_upsert_same.
      destruct (lookup (s_binding s) acc) as [x|]; [rewrite <- app_assoc|]; reflexivity.
    + apply String.eqb_neq in E. rewrite lookup_upsert_other by congruence. reflexivity.
Qed.

Lemma ent_service_dict en typ name d :
  ent_service en typ name None = SDict d ->
  forall b s, (exists l, lookup b d = Some l /\ In s l) <->
              exists r, In r (e_roles en) /\ r_kind r = typ /\ In s (r_svcs r) /\ s_name s = name /\ s_binding s = b.
Proof.
  rewrite ent_service_unfold. destruct (roles_of en typ) as [|r0 rs0]; [discriminate|].
  destruct (srvs_of en typ name) as [|x srvs] eqn:Es; [discriminate|]. cbv zeta. rewrite <- Es. intros H.
  assert (Hd : d = group_by_binding (srvs_of en typ name) []) by congruence. subst d. clear H. intros b s.
  rewrite group_lookup. cbn [lookup]. cbv zeta.
  assert (Hf : In s (filter (fun s0 => String.eqb (s_binding s0) b) (srvs_of en typ name)) <->
               exists r, In r (e_roles en) /\ r_kind r = typ /\ In s (r_svcs r) /\ s_name s = name /\ s_binding s = b).
  { rewrite filter_In, in_srvs_of, String.eqb_eq. split.
    - intros [[r [H1 [H2 [H3 H4]]]] H5]. exists r. auto.
    - intros [r [H1 [H2 [H3 [H4 H5]]]]]. split; [exists r; auto|exact H5]. }
  rewrite <- Hf. destruct (filter _ (srvs_of en typ name)) as [|y fl].
  - split; [intros [l [E _]]; discriminate|intros []].
  - split; [intros [l [E Hin]]; inversion E; subst; exact Hin|intros Hin; eexists; split; [reflexivity|exact Hin]].
Qed.

(* ------------------------------------------------------------------ endpoints, against the document *)
Section Doc.
  Variables (cv : bool) (now : Z) (es : list ent).
  Let served id := lookup id (view cv now es).

  Lemma norm_role_svcs r : r_svcs (norm_role r) = r_svcs r. Proof. reflexivity. Qed.

  Lemma prune_endpoint e0 typ name b s :
    (exists r', In r' (e_roles (prune e0)) /\ r_kind r' = typ /\ In s (r_svcs r') /\ s_name s = name /\ s_binding s = b) <->
    (exists r, In r (e_roles e0) /\ r_kind r = typ /\ saml2 r /\ In s (r_svcs r) /\ s_name s = name /\ s_binding s = b).
  Proof.
    split.
    - intros [r' [H1 [H2 [H3 [H4 H5]]]]]. apply in_roles_prune in H1 as [r [R1 [R2 ->]]]. exists r. cbn in *. auto 8.
    - intros [r [H1 [H2 [H3 [H4 [H5 H6]]]]]]. exists (norm_role r). split; [apply in_roles_prune; exists r; auto|]. cbn. auto.
  Qed.

  (* soundness: every endpoint returned is in the document, for that entity, role, service and binding *)
  Theorem service_sound id en typ name b l s :
    served id = Some en -> ent_service en typ name (Some b) = SList l -> In s l ->
    says_endpoint cv now es id typ name b s.
  Proof.
    intros Hs Hl Hin. apply view_chosen in Hs as [e0 [Hc ->]].
    apply (ent_service_list _ _ _ _ _ Hl) in Hin. apply prune_endpoint in Hin as [r [H1 [H2 [H3 [H4 [H5 H6]]]]]].
    exists e0, r. auto 8.
  Qed.

  (* completeness: everything the document says is returned *)
  Theorem service_complete id typ name b s :
    b <> "" -> says_endpoint cv now es id typ name b s ->
    exists en l, served id = Some en /\ ent_service en typ name (Some b) = SList l /\ In s l.
  Proof.
    intros Hb [e0 [r [Hc [H1 [H2 [H3 [H4 [H5 H6]]]]]]]].
    assert (Hs : served id = Some (prune e0)) by (apply view_chosen; exists e0; auto).
    assert (Hp : exists r', In r' (e_roles (prune e0)) /\ r_kind r' = typ /\ In s (r_svcs r') /\ s_name s = name /\ s_binding s = b)
      by (apply prune_endpoint; exists r; auto 8).
    destruct Hp as [r' [P1 [P2 [P3 [P4 P5]]]]].
    destruct (ent_service_list_complete (prune e0) typ name b s r' Hb P1 P2 P3 P4 P5) as [l [L1 L2]].
    exists (prune e0), l. auto.
  Qed.

  Theorem service_dict_exact id en typ name d b s :
    served id = Some en -> ent_service en typ name None = SDict d ->
    ((exists l, lookup b d = Some l /\ In s l) <-> says_endpoint cv now es id typ name b s).
  Proof.
    intros Hs Hd. rewrite (ent_service_dict _ _ _ _ Hd b s).
    pose proof Hs as Hs'. apply view_chosen in Hs' as [e0 [Hc ->]]. rewrite prune_endpoint. split.
    - intros [r [H1 [H2 [H3 [H4 [H5 H6]]]]]]. exists e0, r. auto 8.
    - intros [e1 [r [Hc1 H]]]. assert (E : Some (prune e1) = Some (prune e0)).
      { rewrite <- Hs. symmetry. apply view_chosen. exists e1. auto. }
      (* both are the chosen descriptor of [id]: the same served entity *)
      assert (Hp : exists r', In r' (e_roles (prune e1)) /\ r_kind r' = typ /\ In s (r_svcs r') /\ s_name s = name /\ s_binding s = b)
        by (apply prune_endpoint; exists r; exact H).
      assert (E' : prune e1 = prune e0) by congruence. rewrite E' in Hp. apply prune_endpoint in Hp. exact Hp.
  Qed.

  (* nothing is served for an entity that has no current, SAML 2.0 capable descriptor in the document *)
  Theorem not_served id :
    served id = None <-> forall e, In e es -> e_id e = id -> ~ eligible cv now e.
  Proof. apply view_none. Qed.

  (* ---------------------------------------------------------------- certificates *)
  Lemma in_extract_certs use rs c :
    In c (extract_certs use rs) <->
    exists r k, In r rs /\ In k (r_keys r) /\ (k_use k = None \/ k_use k = Some use) /\ k_cert k = c.
  Proof.
    unfold extract_certs. rewrite in_flat_map. split.
    - intros [r [Hr Hc]]. apply in_flat_map in Hc as [k [Hk Hc]]. exists r, k. split; [exact Hr|]. split; [exact Hk|].
      destruct (k_use k) as [u|] eqn:Eu.
      + destruct (String.eqb u use) eqn:E; [|contradiction]. apply String.eqb_eq in E. subst u.
        destruct Hc as [<-|[]]. auto.
      + destruct Hc as [<-|[]]. auto.
    - intros [r [k [Hr [Hk [Hu Hc]]]]]. exists r. split; [exact Hr|]. apply in_flat_map. exists k. split; [exact Hk|].
      destruct Hu as [Hu|Hu]; rewrite Hu; [left; exact Hc|]. rewrite String.eqb_refl. left; exact Hc.
  Qed.

  Lemma prune_cert e0 typ use c :
    (exists r' k, In r' (roles_of (prune e0) typ) /\ In k (r_keys r') /\ (k_use k = None \/ k_use k = Some use) /\ k_cert k = c) <->
    (exists r k, In r (e_roles e0) /\ r_kind r = typ /\ saml2 r /\ In k (r_keys r) /\ (k_use k = None \/ k_use k = Some use) /\ k_cert k = c).
  Proof.
    split.
    - intros [r' [k [H1 [H2 [H3 H4]]]]]. apply served_roles in H1 as [r [R1 [R2 [R3 ->]]]]. exists r, k. cbn in *. auto 8.
    - intros [r [k [H1 [H2 [H3 [H4 [H5 H6]]]]]]]. exists (norm_role r), k. split; [apply served_roles; exists r; auto|]. cbn. auto.
  Qed.

  Theorem certs_exact id en typ use l c :
    served id = Some en -> typ <> "any" -> ent_certs en typ use = ACerts l ->
    (In c l <-> says_cert cv now es id typ use c).
  Proof.
    intros Hs Hany. unfold ent_certs. destruct (String.eqb typ "any") eqn:E; [apply String.eqb_eq in E; contradiction|].
    destruct (roles_of en typ) as [|r0 rs0] eqn:Er; [discriminate|]. rewrite <- Er. intros H.
    assert (Hl : l = extract_certs use (roles_of en typ)) by congruence. subst l. clear H.
    rewrite in_extract_certs. pose proof Hs as Hs'. apply view_chosen in Hs' as [e0 [Hc ->]]. rewrite prune_cert. split.
    - intros [r [k H]]. exists e0, r, k. tauto.
    - intros [e1 [r [k [Hc1 H]]]]. assert (E1 : prune e1 = prune e0).
      { assert (Some (prune e1) = Some (prune e0)) as X; [|congruence].
        rewrite <- Hs. symmetry. apply view_chosen. exists e1. auto. }
      apply prune_cert. rewrite <- E1. apply prune_cert. exists r, k. tauto.
  Qed.

  Theorem certs_complete id typ use c :
    typ <> "any" -> says_cert cv now es id typ use c ->
    exists en l, served id = Some en /\ ent_certs en typ use = ACerts l /\ In c l.
  Proof.
    intros Hany [e0 [r [k [Hc H]]]].
    assert (Hs : served id = Some (prune e0)) by (apply view_chosen; exists e0; auto).
    assert (Hp : exists r' k, In r' (roles_of (prune e0) typ) /\ In k (r_keys r') /\ (k_use k = None \/ k_use k = Some use) /\ k_cert k = c)
      by (apply prune_cert; exists r, k; tauto).
    exists (prune e0). unfold ent_certs.
    destruct (String.eqb typ "any") eqn:E; [apply String.eqb_eq in E; contradiction|].
    destruct Hp as [r' [k' [P1 P2]]].
    destruct (roles_of (prune e0) typ) as [|r0 rs0] eqn:Er; [contradiction|]. rewrite <- Er.
    eexists. split; [exact Hs|]. split; [reflexivity|]. apply in_extract_certs. exists r', k'. rewrite Er. auto.
  Qed.

  (* descriptor "any": the certificates of all role kinds the dict form has *)
  Theorem certs_any_exact id en use l c :
    served id = Some en -> ent_certs en "any" use = ACerts l ->
    (In c l <-> exists typ, In typ PROTO_KINDS /\ says_cert cv now es id typ use c).
  Proof.
    intros Hs. unfold ent_certs. cbn [String.eqb Ascii.eqb Bool.eqb]. intros H.
    assert (Hl : l = extract_certs use (fp en)) by congruence. subst l. clear H.
    rewrite in_extract_certs. pose proof Hs as Hs'. apply view_chosen in Hs' as [e0 [Hc ->]]. unfold fp. split.
    - intros [r' [k [H1 H2]]]. apply in_flat_map in H1 as [typ [Ht H1]]. exists typ. split; [exact Ht|].
      assert (Hp : exists r k, In r (e_roles e0) /\ r_kind r = typ /\ saml2 r /\ In k (r_keys r) /\ (k_use k = None \/ k_use k = Some use) /\ k_cert k = c)
        by (apply prune_cert; exists r', k; tauto).
      destruct Hp as [r [k0 Hp]]. exists e0, r, k0. tauto.
    - intros [typ [Ht [e1 [r [k [Hc1 H]]]]]]. assert (E1 : prune e1 = prune e0).
      { assert (Some (prune e1) = Some (prune e0)) as X; [|congruence].
        rewrite <- Hs. symmetry. apply view_chosen. exists e1. auto. }
      assert (Hp : exists r' k, In r' (roles_of (prune e1) typ) /\ In k (r_keys r') /\ (k_use k = None \/ k_use k = Some use) /\ k_cert k = c)
        by (apply prune_cert; exists r, k; tauto).
      rewrite E1 in Hp. destruct Hp as [r' [k' [P1 P2]]]. exists r', k'. split; [|exact P2].
      apply in_flat_map. exists typ. auto.
  Qed.
End Doc.

Section Doc2.
  Variables (cv : bool) (now : Z) (es : list ent).
  Let served id := lookup id (view cv now es).

  Lemma served_chosen id en e1 : served id = Some en -> chosen cv now es id e1 -> en = prune e1.
  Proof.
    intros Hs Hc. assert (X : served id = Some (prune e1)) by (apply view_chosen; exists e1; auto). congruence.
  Qed.

  (* ---------------------------------------------------------------- requested attributes *)
  Definition isreq (a : reqattr) : bool := match ra_req a with Some t => String.eqb t "true" | None => false end.
  Definition acs_attrs (en : ent) (index : option string) : list reqattr :=
    flat_map (fun r => flat_map (fun a => match index with
                                          | Some i => if String.eqb (ac_index a) i then ac_attrs a else []
                                          | None => ac_attrs a
                                          end) (r_acs r)) (roles_of en K_SPSSO).

  Lemma ent_attr_req_unfold en index :
    ent_attr_req en index = AReq (map ra_name (filter isreq (acs_attrs en index)))
                                 (map ra_name (filter (fun a => negb (isreq a)) (acs_attrs en index))).
  Proof. reflexivity. Qed.

  Lemma isreq_iff q : isreq q = true <-> ra_req q = Some "true".
  Proof.
    unfold isreq. destruct (ra_req q) as [t|]; [|split; discriminate].
    rewrite String.eqb_eq. split; congruence.
  Qed.

  Lemma in_acs_attrs en index q :
    In q (acs_attrs en index) <->
    exists r a, In r (roles_of en K_SPSSO) /\ In a (r_acs r) /\ (forall i, index = Some i -> ac_index a = i) /\ In q (ac_attrs a).
  Proof.
    unfold acs_attrs. rewrite in_flat_map. split.
    - intros [r [Hr Hq]]. apply in_flat_map in Hq as [a [Ha Hq]]. exists r, a. split; [exact Hr|]. split; [exact Ha|].
      destruct index as [i|].
      + destruct (String.eqb (ac_index a) i) eqn:E; [|contradiction]. apply String.eqb_eq in E.
        split; [intros i' Hi; inversion Hi; subst; reflexivity|exact Hq].
      + split; [intros i' Hi; discriminate|exact Hq].
    - intros [r [a [Hr [Ha [Hi Hq]]]]]. exists r. split; [exact Hr|]. apply in_flat_map. exists a. split; [exact Ha|].
      destruct index as [i|]; [|exact Hq]. rewrite (Hi i eq_refl), String.eqb_refl. exact Hq.
  Qed.

  Lemma says_reqattr_served id e0 index required n :
    chosen cv now es id e0 ->
    (says_reqattr cv now es id index required n <->
     exists q, In q (acs_attrs (prune e0) index) /\ ra_name q = n /\ (required = true <-> ra_req q = Some "true")).
  Proof.
    intros Hc. split.
    - intros [e1 [r [a [q [Hc1 [H1 [H2 [H3 [H4 [H5 [H6 [H7 H8]]]]]]]]]]]].
      assert (E : prune e1 = prune e0).
      { assert (X : served id = Some (prune e1)) by (apply view_chosen; exists e1; auto).
        assert (Y : served id = Some (prune e0)) by (apply view_chosen; exists e0; auto). congruence. }
      exists q. split; [|auto]. rewrite <- E. apply in_acs_attrs. exists (norm_role r), a.
      split; [apply served_roles; exists r; auto|]. cbn. auto.
    - intros [q [Hq [Hn Hr]]]. apply in_acs_attrs in Hq as [r' [a [R1 [R2 [R3 R4]]]]].
      apply served_roles in R1 as [r [S1 [S2 [S3 ->]]]]. exists e0, r, a, q. cbn in R2. auto 12.
  Qed.

  Theorem attr_req_exact id en index req opt n :
    served id = Some en -> ent_attr_req en index = AReq req opt ->
    (In n req <-> says_reqattr cv now es id index true n) /\ (In n opt <-> says_reqattr cv now es id index false n).
  Proof.
    intros Hs. rewrite ent_attr_req_unfold. intros H.
    assert (Hr : req = map ra_name (filter isreq (acs_attrs en index))) by congruence.
    assert (Ho : opt = map ra_name (filter (fun a => negb (isreq a)) (acs_attrs en index))) by congruence.
    subst req opt. clear H. pose proof Hs as Hs'. apply view_chosen in Hs' as [e0 [Hc ->]].
    rewrite !(says_reqattr_served id e0 _ _ _ Hc), !in_map_iff. split; split.
    - intros [q [Hn Hq]]. apply filter_In in Hq as [Hq Hi]. exists q. split; [exact Hq|]. split; [exact Hn|].
      apply isreq_iff in Hi. tauto.
    - intros [q [Hq [Hn Hi]]]. exists q. split; [exact Hn|]. apply filter_In. split; [exact Hq|].
      apply isreq_iff. apply Hi. reflexivity.
    - intros [q [Hn Hq]]. apply filter_In in Hq as [Hq Hi]. exists q. split; [exact Hq|]. split; [exact Hn|].
      apply negb_true_iff in Hi. split; [discriminate|]. intros X. apply isreq_iff in X. congruence.
    - intros [q [Hq [Hn Hi]]]. exists q. split; [exact Hn|]. apply filter_In. split; [exact Hq|].
      apply negb_true_iff. destruct (isreq q) eqn:E; [|reflexivity]. apply isreq_iff in E. apply Hi in E. discriminate.
  Qed.

  (* ---------------------------------------------------------------- entity categories, registration *)
  Theorem categories_exact id en c :
    served id = Some en -> (In c (ent_cats en) <-> says_category cv now es id c).
  Proof.
    intros Hs. pose proof Hs as Hs'. apply view_chosen in Hs' as [e0 [Hc ->]].
    unfold ent_cats. cbn [prune e_attrs]. rewrite in_flat_map. split.
    - intros [[n vals] [Hin Hv]]. cbn [fst snd] in Hv.
      destruct (String.eqb n ENTITY_CATEGORY) eqn:E; [|contradiction]. apply String.eqb_eq in E. subst n.
      exists e0, vals. auto.
    - intros [e1 [vals [Hc1 [Hin Hv]]]].
      assert (E : prune e1 = prune e0) by (rewrite <- (served_chosen id _ e1 Hs Hc1); reflexivity).
      assert (Ea : e_attrs e1 = e_attrs e0) by (change (e_attrs (prune e1) = e_attrs (prune e0)); rewrite E; reflexivity).
      exists (ENTITY_CATEGORY, vals). rewrite <- Ea. split; [exact Hin|]. cbn [fst snd]. rewrite String.eqb_refl. exact Hv.
  Qed.

  Theorem registration_exact id en auth inst :
    served id = Some en ->
    ((exists pols, ent_reg en = AReg (Some auth) inst pols) <-> says_registration cv now es id auth inst).
  Proof.
    intros Hs. pose proof Hs as Hs'. apply view_chosen in Hs' as [e0 [Hc ->]].
    unfold ent_reg. cbn [prune e_regs]. split.
    - intros [pols H]. destruct (e_regs e0) as [|g rest] eqn:Eg; [discriminate|]. inversion H; subst.
      exists e0, g, rest. auto.
    - intros [e1 [g [rest [Hc1 [Hg [Ha Hi]]]]]].
      assert (E : prune e1 = prune e0) by (rewrite <- (served_chosen id _ e1 Hs Hc1); reflexivity).
      assert (Er : e_regs e1 = e_regs e0) by (change (e_regs (prune e1) = e_regs (prune e0)); rewrite E; reflexivity).
      rewrite <- Er, Hg. subst. eexists. reflexivity.
  Qed.

  (* the first eligible descriptor is the only one that counts: repeated entityIDs are not served *)
  Theorem repeated_id_not_served id e1 e2 : chosen cv now es id e1 -> chosen cv now es id e2 -> prune e1 = prune e2.
  Proof.
    intros H1 H2.
    assert (X : served id = Some (prune e1)) by (apply view_chosen; exists e1; auto).
    assert (Y : served id = Some (prune e2)) by (apply view_chosen; exists e2; auto). congruence.
  Qed.
End Doc2.
