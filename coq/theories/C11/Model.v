(* C11/Model.v — the metadata store, as coded in /repo/src/saml2/mdstore.py (after a8da97db).

   The five repairs d8b1d2a4 (service: first source that has the entity answers), 18964551
   (with_descriptor: first source wins), fafdf54c (unsigned document under a certificate refused),
   254349bd (MDQ: scratch map, only the asked entity, unusable answer = KeyError), a8da97db (inline /
   file sources of list-style items verify) and ab8ae013 (an EntitiesDescriptor MDQ answer on which parse()
   raises TooOld / MustValueError is a KeyError too) are each switched by one field of [flags]: [cur] (all false)
   is the code as it is now, [v0] (all true) the code before them; any mixture is the code with
   exactly those commits reverse-applied.

   Mirrors: InMemoryMetaData.do_entity_descriptor / parse / service / attribute_requirement /
   signed / parse_and_check_signature, MetaData.certs / with_descriptor, MetaDataFile /
   MetaDataExtern / MetaDataMDX load, _fetch_metadata, __getitem__, MetadataStore.load / imp /
   reload / service / __getitem__ / keys / with_descriptor / attribute_requirement /
   entity_attributes / entity_categories / registration_info / single_sign_on_service /
   assertion_consumer_service, mdie.to_dict (through the abstraction: an entity descriptor is
   the record [ent]).  Quirks that are kept:
     - parse_and_check_signature parses BEFORE verifying (harmless now: a static source is registered
       only after a successful load, an MDQ fetch parses into a scratch map);
     - MetadataStore.service looks the entity up twice in the source that has it;
     - validUntil is looked at when the document is parsed, never again. *)
From Coq Require Import String List Bool ZArith Arith.
From Verif Require Import Base.Str.
Import ListNotations.
Open Scope string_scope.
Open Scope list_scope.

Definition NS_SAML2P := "urn:oasis:names:tc:SAML:2.0:protocol".
Definition BINDING_HTTP_REDIRECT := "urn:oasis:names:tc:SAML:2.0:bindings:HTTP-Redirect".
Definition BINDING_HTTP_POST := "urn:oasis:names:tc:SAML:2.0:bindings:HTTP-POST".
Definition ENTITY_CATEGORY := "http://macedir.org/entity-category".
Definition K_SPSSO := "spsso_descriptor".
Definition K_IDPSSO := "idpsso_descriptor".
Definition K_ROLE := "role_descriptor".
Definition K_AUTHN := "authn_authority_descriptor".
Definition K_AA := "attribute_authority_descriptor".
Definition K_PDP := "pdp_descriptor".
Definition K_AFFIL := "affiliation_descriptor".
Definition N_SSO := "single_sign_on_service".
Definition N_ACS := "assertion_consumer_service".
Definition N_SLO := "single_logout_service".
Definition N_ARS := "artifact_resolution_service".
Definition N_ATTR := "attribute_service".
Definition N_AUTHZ := "authz_service".
Definition N_AUTHNQ := "authn_query_service".

(* kinds looked at by do_entity_descriptor's protocol filter, and by certs(..., "any") *)
Definition PROTO_KINDS := [K_SPSSO; K_IDPSSO; K_ROLE; K_AUTHN; K_AA; K_PDP].

(* which repairs are REVERTED (true = behaviour before the commit) *)
Record flags := { f_fall : bool;       (* d8b1d2a4 *)
                  f_last : bool;       (* 18964551 *)
                  f_unsigned : bool;   (* fafdf54c *)
                  f_mdq : bool;        (* 254349bd *)
                  f_inline : bool;     (* a8da97db *)
                  f_group : bool;      (* ab8ae013 *)
                  (* 7137d601 (add_duration normalised through the local calendar).  None = the code now: the
                     expiration date of an MDQ entry is computed in UTC and no property of the process time zone
                     enters.  Some gaps = before the commit, in a process whose zone has the given daylight-saving
                     gaps, as (start, length, shift) over "UTC broken-down time read as local wall-clock time": an
                     instant t with start <= t < start + length does not exist as local time, and libc's
                     localtime(mktime(t, isdst=-1)) answers t + shift ([] = UTC, any fixed offset).  The table is
                     data of the case, measured through libc by the harness. *)
                  f_zone : option (list (Z * Z * Z)) }.
Definition cur : flags :=
  {| f_fall := false; f_last := false; f_unsigned := false; f_mdq := false; f_inline := false; f_group := false;
     f_zone := None |}.
Definition v0 : flags :=
  {| f_fall := true; f_last := true; f_unsigned := true; f_mdq := true; f_inline := true; f_group := true;
     f_zone := Some [] |}.
(* only 7137d601 reverted: the code before it, in a process whose time zone has the given daylight-saving gaps *)
Definition zone_v0 (g : list (Z * Z * Z)) : flags :=
  {| f_fall := false; f_last := false; f_unsigned := false; f_mdq := false; f_inline := false; f_group := false;
     f_zone := Some g |}.
(* before 7137d601 time_util.add_duration ended with time.localtime(time.mktime((y, m, d, H, M, S, 0, 0, -1))): the
   broken-down UTC time it had computed went through the LOCAL calendar and back, which is the identity except inside
   a gap; now it ends with time.gmtime(calendar.timegm(...)), the identity everywhere *)
Fixpoint zone_fix (gaps : list (Z * Z * Z)) (t : Z) : Z :=
  match gaps with
  | [] => t
  | (a, len, sh) :: r => if ((a <=? t) && (t <? a + len))%Z then (t + sh)%Z else zone_fix r t
  end.
(* MetaDataMDX.expiration_date[item] = add_duration(now, freshness_period) *)
Definition expiry (fl : flags) (now period : Z) : Z :=
  match f_zone fl with Some g => zone_fix g (now + period) | None => (now + period)%Z end.

(* ---------------------------------------------------------------- abstract documents *)
Record svc := Svc { s_name : string; s_binding : string; s_loc : string; s_index : option string }.
Record keyd := Key { k_use : option string; k_cert : string }.
Record reqattr := RA { ra_name : string; ra_req : option string }.
Record acsv := ACS { ac_index : string; ac_attrs : list reqattr }.
Record role := Role { r_kind : string;             (* "<kind>_descriptor" *)
                      r_protos : list string;      (* protocolSupportEnumeration.split(" ") *)
                      r_svcs : list svc; r_keys : list keyd; r_acs : list acsv }.
Record reginfo := Reg { rg_auth : string; rg_inst : option string; rg_pols : list (string * string) }.
Record ent := Ent { e_id : string; e_vu : option Z; e_roles : list role; e_affil : bool;
                    e_attrs : list (string * list string);    (* mdattr:EntityAttributes *)
                    e_regs : list reginfo }.                  (* mdrpi:RegistrationInfo elements *)
Inductive doc := Single (e : ent) | Group (vu : option Z) (es : list ent).

(* what a source yields when read *)
Inductive payload := Garbage | WrongRoot | D (d : doc).
Inductive sigstate := Unsigned | SigValid | SigTampered | SigWrongKey.
Inductive fetched := FMissing | FBody (p : payload) (sg : sigstate).

(* ---------------------------------------------------------------- small dict helpers *)
Definition emap := list (string * ent).

Fixpoint lookup {A} (k : string) (l : list (string * A)) : option A :=
  match l with
  | [] => None
  | (k', v) :: r => if String.eqb k k' then Some v else lookup k r
  end.

Definition has_key {A} (k : string) (l : list (string * A)) : bool :=
  match lookup k l with Some _ => true | None => false end.

Fixpoint remove_key {A} (k : string) (l : list (string * A)) : list (string * A) :=
  match l with
  | [] => []
  | (k', v) :: r => if String.eqb k k' then remove_key k r else (k', v) :: remove_key k r
  end.

(* d[k] = v : position of an existing key is kept *)
Fixpoint upsert {A} (k : string) (v : A) (l : list (string * A)) : list (string * A) :=
  match l with
  | [] => [(k, v)]
  | (k', v') :: r => if String.eqb k k' then (k, v) :: r else (k', v') :: upsert k v r
  end.

(* ---------------------------------------------------------------- do_entity_descriptor *)
(* r_kind ranges over the role-descriptor keys of the dict form, which are exactly the kinds the
   protocol filter iterates over (PROTO_KINDS); AffiliationDescriptor is the flag e_affil *)
Definition supports_saml2 (r : role) : bool := mem NS_SAML2P (r_protos r).

(* role descriptors that stay: the SAML2-capable ones, with the enumeration rewritten *)
Definition norm_role (r : role) : role := Role (r_kind r) [NS_SAML2P] (r_svcs r) (r_keys r) (r_acs r).
Definition prune (e : ent) : ent :=
  Ent (e_id e) (e_vu e) (map norm_role (filter supports_saml2 (e_roles e))) (e_affil e) (e_attrs e) (e_regs e).
(* "flag": some kind kept a SAML2 descriptor, or there is an AffiliationDescriptor *)
Definition flag (e : ent) : bool := existsb supports_saml2 (e_roles e) || e_affil e.

(* time_util.valid(validUntil) = now <= validUntil; absent = valid *)
Definition expired (now : Z) (vu : option Z) : bool :=
  match vu with Some t => (t <? now)%Z | None => false end.

Definition do_entity (cv : bool) (now : Z) (m : emap) (e : ent) : emap :=
  if cv && expired now (e_vu e) then m
  else if has_key (e_id e) m then m
  else if flag e then m ++ [(e_id e, prune e)] else m.

(* validate.valid_instance on an EntitiesDescriptor, restricted to what the documents of the
   quantifier can get wrong.  The first defect in traversal order decides:
     - a required XML attribute is missing (index of an indexed endpoint): MustValueError,
       which is NOT a NotValid and escapes from parse();
     - a cardinality defect (role descriptor without its mandatory endpoint,
       AttributeConsumingService without RequestedAttribute): NotValid, which parse() logs
       and swallows (nothing is loaded, load() "succeeds").
   Traversal: entities in document order; per entity the role kinds in c_children order;
   per role descriptor the endpoint lists in c_children order, then AttributeConsumingService. *)
Inductive schk := CkOk | CkNotValid | CkMust.
Definition ck_then (a b : schk) : schk := match a with CkOk => b | _ => a end.
Definition ck_all {A} (f : A -> schk) (l : list A) : schk := fold_right (fun x acc => ck_then (f x) acc) CkOk l.

Definition mandatory (kind : string) : option string :=
  if String.eqb kind K_IDPSSO then Some N_SSO
  else if String.eqb kind K_SPSSO then Some N_ACS
  else if String.eqb kind K_AA then Some N_ATTR
  else if String.eqb kind K_PDP then Some N_AUTHZ
  else if String.eqb kind K_AUTHN then Some N_AUTHNQ
  else None.
Definition indexed (name : string) : bool := String.eqb name N_ACS || String.eqb name N_ARS.
Definition SVC_ORDER := [N_ARS; N_SLO; N_SSO; N_ACS; N_ATTR; N_AUTHZ; N_AUTHNQ].
Definition VALID_KIND_ORDER := [K_ROLE; K_IDPSSO; K_SPSSO; K_AUTHN; K_AA; K_PDP].

Definition svc_ck (s : svc) : schk :=
  if indexed (s_name s) then match s_index s with Some _ => CkOk | None => CkMust end else CkOk.
Definition svclist_ck (r : role) (n : string) : schk :=
  match filter (fun s => String.eqb (s_name s) n) (r_svcs r) with
  | [] => match mandatory (r_kind r) with
          | Some m => if String.eqb m n then CkNotValid else CkOk
          | None => CkOk
          end
  | l => ck_all svc_ck l
  end.
Definition role_ck (r : role) : schk :=
  ck_then (ck_all (svclist_ck r) SVC_ORDER)
          (ck_all (fun a => match ac_attrs a with [] => CkNotValid | _ => CkOk end) (r_acs r)).
Definition ent_ck (e : ent) : schk :=
  ck_all (fun k => ck_all role_ck (filter (fun r => String.eqb (r_kind r) k) (e_roles e))) VALID_KIND_ORDER.
Definition schema_check (es : list ent) : schk := ck_all ent_ck es.

(* InMemoryMetaData.parse: None = exception (SAMLError / TooOld) *)
Definition parse (cv : bool) (now : Z) (m : emap) (p : payload) : option emap :=
  match p with
  | Garbage => None
  | WrongRoot => Some m
  | D (Single e) => Some (do_entity cv now m e)
  | D (Group vu es) =>
      match schema_check es with
      | CkMust => None                              (* MustValueError *)
      | CkNotValid => Some m                        (* NotValid is logged, nothing loaded *)
      | CkOk => if cv && expired now vu then None   (* TooOld *)
                else Some (fold_left (do_entity cv now) es m)
      end
  end.

(* ---------------------------------------------------------------- signature gate *)
Inductive skind := KInline | KFile | KRemote | KMdq.
(* sp_cv: the source's own check_validity setting AS SPELLED in its specification (None = the key is not
   given: the ordinary way to configure a source); sp_scv: MetadataStore.check_validity of the store the
   source is loaded into (the constructor's argument, default True); sp_imp: the specification went
   through MetadataStore.imp() (always so for list-style items and for reload()), not straight to load() *)
Record srcspec := { sp_kind : skind; sp_key : string; sp_cert : bool; sp_cv : option bool;
                    sp_node : option bool;       (* node_name: Some true = EntitiesDescriptor *)
                    sp_period : Z; sp_scv : bool; sp_imp : bool }.

Definition is_signed (sg : sigstate) : bool := match sg with Unsigned => false | _ => true end.
Definition is_group (p : payload) : bool := match p with D (Group _ _) => true | _ => false end.
(* InMemoryMetaData.signed() on a freshly parsed document *)
Definition payload_signed (p : payload) (sg : sigstate) : bool :=
  match p with D _ => is_signed sg | _ => false end.
(* security.verify_signature(txt, node_name, cert_file): crypto is data of the case *)
Definition verify (fl : flags) (k : skind) (node : option bool) (p : payload) (sg : sigstate) : bool :=
  match k, f_inline fl with
  | KFile, true => false         (* before a8da97db: no security context, AttributeError *)
  | _, _ => match sg with
            | SigValid => match node with None => true | Some g => Bool.eqb g (is_group p) end
            | _ => false
            end
  end.
(* rest of parse_and_check_signature after parse(): true = returns True, false = raises.
   A document without signature under a certificate is refused (fafdf54c) unless nothing was parsed
   as metadata at all (foreign root element). *)
Definition sig_gate (fl : flags) (cert : bool) (k : skind) (node : option bool) (p : payload) (sg : sigstate) : bool :=
  if negb cert then true
  else if negb (payload_signed p sg) then
         (if f_unsigned fl then true else match p with D _ => false | _ => true end)
  else verify fl k node p sg.

(* what reaches the source object.  newstyle = built by a list-style imp() item:
     load("inline", text) / load("local", file) pass no cert, the list style does (before a8da97db
     InMemoryMetaData swallowed it); the list style passes neither check_validity nor node_name to
     MetaDataExtern *)
Definition eff_cert (fl : flags) (ns : bool) (sp : srcspec) : bool :=
  match sp_kind sp with
  | KInline => if f_inline fl then false else ns && sp_cert sp
  | KFile => ns && sp_cert sp
  | _ => sp_cert sp
  end.
(* check_validity as it reaches the source object: only load("remote", **kw) forwards the key, and only
   when it is given (otherwise the class default True applies); imp() writes check_validity=False into every
   dict-valued item of an old-style specification when the STORE's check_validity is off (overriding what
   the item says); no other route passes the setting on (list-style items, inline, local: always True) *)
Definition eff_cv (ns : bool) (sp : srcspec) : bool :=
  match sp_kind sp with
  | KRemote => if ns then true
               else if sp_imp sp && negb (sp_scv sp) then false
               else match sp_cv sp with Some b => b | None => true end
  | _ => true
  end.
Definition eff_node (ns : bool) (sp : srcspec) : option bool :=
  match sp_kind sp with KRemote => if ns then None else sp_node sp | KMdq => Some false | _ => None end.

(* MetaDataFile / MetaDataExtern / InMemoryMetaData .load(): None = exception *)
Definition load_static (fl : flags) (ns : bool) (sp : srcspec) (now : Z) (f : fetched) : option emap :=
  match f with
  | FMissing => None                         (* FileNotFoundError / SourceNotFound *)
  | FBody p sg =>
      match parse (eff_cv ns sp) now [] p with
      | None => None
      | Some m => if sig_gate fl (eff_cert fl ns sp) (sp_kind sp) (eff_node ns sp) p sg then Some m else None
      end
  end.

(* ---------------------------------------------------------------- MetaDataMDX *)
Record mdx := { x_ents : emap; x_exp : list (string * Z); x_cert : bool; x_period : Z }.
Inductive res (A : Type) := ROk (a : A) | RKeyErr | RRaise.
Arguments ROk {A} a. Arguments RKeyErr {A}. Arguments RRaise {A}.

Definition server := list (string * fetched).
Definition ask (srv : server) (e : string) : fetched :=
  match lookup e srv with Some f => f | None => FMissing end.

(* _fetch_metadata before 254349bd: parse straight into the source's map, verify afterwards;
   SAMLError / SignatureError escape *)
Definition mdx_fetch_v0 (fl : flags) (x : mdx) (now : Z) (srv : server) (e : string) : mdx * res ent :=
  match ask srv e with
  | FMissing => (x, RKeyErr)                                   (* status != 200 *)
  | FBody p sg =>
      match parse true now (x_ents x) p with
      | None => (x, RRaise)
      | Some m =>
          let x1 := {| x_ents := m; x_exp := x_exp x; x_cert := x_cert x; x_period := x_period x |} in
          if sig_gate fl (x_cert x) KMdq (Some false) p sg then
            let x2 := {| x_ents := m; x_exp := upsert e (expiry fl now (x_period x)) (x_exp x);
                         x_cert := x_cert x; x_period := x_period x |} in
            match lookup e m with
            | Some en => (x2, ROk en)
            | None => (x2, RKeyErr)
            end
          else (x1, RRaise)                                     (* SignatureError *)
      end
  end.

(* _fetch_metadata now: the answer is parsed into a scratch map; SAMLError / SignatureError become
   KeyError, and since ab8ae013 so do TooOld and MustValueError (which only an EntitiesDescriptor answer can
   cause); the expiration date is set, then the asked entity (only) is stored *)
Definition mdx_fetch (fl : flags) (x : mdx) (now : Z) (srv : server) (e : string) : mdx * res ent :=
  if f_mdq fl then mdx_fetch_v0 fl x now srv e else
  match ask srv e with
  | FMissing => (x, RKeyErr)
  | FBody p sg =>
      match parse true now [] p with
      | None => (x, if f_group fl then match p with D (Group _ _) => RRaise | _ => RKeyErr end   (* before ab8ae013 *)
                    else RKeyErr)
      | Some m =>
          if sig_gate fl (x_cert x) KMdq (Some false) p sg then
            let ex := upsert e (expiry fl now (x_period x)) (x_exp x) in
            match lookup e m with
            | Some en => ({| x_ents := upsert e en (x_ents x); x_exp := ex; x_cert := x_cert x; x_period := x_period x |}, ROk en)
            | None => ({| x_ents := x_ents x; x_exp := ex; x_cert := x_cert x; x_period := x_period x |}, RKeyErr)
            end
          else (x, RKeyErr)
      end
  end.

Definition mdx_get (fl : flags) (x : mdx) (now : Z) (srv : server) (e : string) : mdx * res ent :=
  match lookup e (x_ents x) with
  | None => mdx_fetch fl x now srv e
  | Some en =>
      match lookup e (x_exp x) with
      | None => (x, RKeyErr)                                    (* expiration_date[item] *)
      | Some t =>
          if (now <=? t)%Z then (x, ROk en)
          else mdx_fetch fl {| x_ents := remove_key e (x_ents x); x_exp := x_exp x;
                            x_cert := x_cert x; x_period := x_period x |} now srv e
      end
  end.

(* ---------------------------------------------------------------- sources and the store *)
Inductive source := SStatic (m : emap) | SMdx (x : mdx).
Inductive key := KI (n : nat) | KS (s : string).
Definition key_eqb (a b : key) : bool :=
  match a, b with
  | KI n, KI m => Nat.eqb n m
  | KS s, KS t => String.eqb s t
  | _, _ => false
  end.
Definition sources := list (key * source).
Record store := { st_srcs : sources; st_ii : nat }.

Fixpoint kupsert (k : key) (v : source) (l : sources) : sources :=
  match l with
  | [] => [(k, v)]
  | (k', v') :: r => if key_eqb k k' then (k, v) :: r else (k', v') :: kupsert k v r
  end.

Definition ents_of (s : source) : emap := match s with SStatic m => m | SMdx x => x_ents x end.

Definition src_get (fl : flags) (now : Z) (srv : server) (s : source) (e : string) : source * res ent :=
  match s with
  | SStatic m => (s, match lookup e m with Some en => ROk en | None => RKeyErr end)
  | SMdx x => let '(x', r) := mdx_get fl x now srv e in (SMdx x', r)
  end.

(* MetadataStore.load(typ, ...) for one source.  newstyle = the source comes from a
   list-style imp() item (key of an inline source is then the text itself).
   Result: store afterwards, and whether the call returned (true) or raised (false). *)
Definition load1 (fl : flags) (newstyle : bool) (now : Z) (st : store) (sp : srcspec) (f : fetched) : store * bool :=
  let ii' := match sp_kind sp with KInline => if newstyle then st_ii st else S (st_ii st) | _ => st_ii st end in
  let k := match sp_kind sp with KInline => if newstyle then KS (sp_key sp) else KI ii' | _ => KS (sp_key sp) end in
  match sp_kind sp with
  | KMdq =>
      if newstyle then ({| st_srcs := st_srcs st; st_ii := ii' |}, false)   (* MetaDataMDX(attrc, url): raises *)
      else ({| st_srcs := kupsert k (SMdx {| x_ents := []; x_exp := []; x_cert := sp_cert sp;
                                               x_period := sp_period sp |}) (st_srcs st);
                st_ii := ii' |}, true)
  | _ => match load_static fl newstyle sp now f with
         | Some m => ({| st_srcs := kupsert k (SStatic m) (st_srcs st); st_ii := ii' |}, true)
         | None => ({| st_srcs := st_srcs st; st_ii := ii' |}, false)
         end
  end.

Fixpoint imp (fl : flags) (newstyle : bool) (now : Z) (st : store) (items : list (srcspec * fetched)) : store * bool :=
  match items with
  | [] => (st, true)
  | (sp, f) :: r =>
      let '(st1, ok) := load1 fl newstyle now st sp f in
      if ok then imp fl newstyle now st1 r else (st1, false)
  end.

Definition reload (fl : flags) (newstyle : bool) (now : Z) (st : store) (items : list (srcspec * fetched)) : store * bool :=
  let '(st1, ok) := imp fl newstyle now {| st_srcs := []; st_ii := st_ii st |} items in
  if ok then (st1, true) else ({| st_srcs := st_srcs st; st_ii := st_ii st1 |}, false).

(* ---------------------------------------------------------------- lookups *)
Definition roles_of (en : ent) (typ : string) : list role :=
  filter (fun r => String.eqb (r_kind r) typ) (e_roles en).

Fixpoint group_by_binding (l : list svc) (acc : list (string * list svc)) : list (string * list svc) :=
  match l with
  | [] => acc
  | s :: r =>
      let cur := match lookup (s_binding s) acc with Some x => x | None => [] end in
      group_by_binding r (upsert (s_binding s) (cur ++ [s]) acc)
  end.

Inductive sres := SNone | SEmpty | SList (l : list svc) | SDict (d : list (string * list svc)).

(* InMemoryMetaData.service once self[entity_id] is known *)
Definition ent_service (en : ent) (typ name : string) (b : option string) : sres :=
  match roles_of en typ with
  | [] => SNone                                    (* KeyError on [typ] *)
  | rs =>
      match flat_map (fun r => filter (fun s => String.eqb (s_name s) name) (r_svcs r)) rs with
      | [] => SEmpty
      | srvs =>
          match b with
          | Some bd => if is_empty bd then SDict (group_by_binding srvs [])
                       else SList (filter (fun s => String.eqb (s_binding s) bd) srvs)
          | None => SDict (group_by_binding srvs [])
          end
      end
  end.

(* canonical listing of an entity's role descriptors: what the dict form retains *)
Definition fp (en : ent) : list role := flat_map (roles_of en) (PROTO_KINDS).

Inductive answer :=
| ARaise                                           (* an exception that is not a KeyError *)
| AKeyErr
| AUnknown | AUnsupported                          (* UnknownSystemEntity / UnsupportedBinding *)
| ANone
| AFlag (ok : bool)                                (* load / reload returned (true) or raised *)
| AEnt (e_affil : bool) (roles : list role)
| ASvcs (l : list svc)
| ADict (d : list (string * list svc))
| ACerts (l : list string)
| AReq (required optional : list string)
| ACats (l : list string)
| AReg (auth inst : option string) (pols : list (string * string))
| AKeys (l : list string)
| AWith (l : list (string * list string)).      (* entity id, locations of all its endpoints *)

Fixpoint store_get (fl : flags) (now : Z) (srv : server) (srcs : sources) (e : string) : sources * res ent :=
  match srcs with
  | [] => ([], RKeyErr)
  | (k, s) :: r =>
      let '(s', g) := src_get fl now srv s e in
      match g with
      | RKeyErr => let '(r', a) := store_get fl now srv r e in ((k, s') :: r', a)
      | _ => ((k, s') :: r, g)
      end
  end.

(* the answer of ONE source that has the entity *)
Definition svc_answer (en : ent) (typ name : string) (b : option string) : answer :=
  match ent_service en typ name b with
  | SList (x :: l) => ASvcs (x :: l)
  | SDict (x :: d) => ADict (x :: d)
  | SNone => AUnknown
  | _ => AUnsupported
  end.

(* MetadataStore.service before d8b1d2a4: every source is asked, the first non-empty answer wins *)
Fixpoint store_service_v0 (fl : flags) (now : Z) (srv : server) (srcs : sources) (e typ name : string) (b : option string)
         (known : bool) : sources * answer :=
  match srcs with
  | [] => ([], if known then AUnsupported else AUnknown)
  | (k, s) :: r =>
      let '(s', g) := src_get fl now srv s e in
      match g with
      | RRaise => ((k, s') :: r, ARaise)
      | RKeyErr => let '(r', a) := store_service_v0 fl now srv r e typ name b known in ((k, s') :: r', a)
      | ROk en =>
          match ent_service en typ name b with
          | SList (x :: l) => ((k, s') :: r, ASvcs (x :: l))
          | SDict (x :: d) => ((k, s') :: r, ADict (x :: d))
          | SNone => let '(r', a) := store_service_v0 fl now srv r e typ name b known in ((k, s') :: r', a)
          | _ => let '(r', a) := store_service_v0 fl now srv r e typ name b true in ((k, s') :: r', a)
          end
      end
  end.

(* MetadataStore.service now: `_md[entity_id]` decides whether the source has the entity; the first one
   that has it answers (its own service() looks the entity up a second time) and the walk stops *)
Fixpoint store_service_new (fl : flags) (now : Z) (srv : server) (srcs : sources) (e typ name : string) (b : option string)
  : sources * answer :=
  match srcs with
  | [] => ([], AUnknown)
  | (k, s) :: r =>
      let '(s1, g1) := src_get fl now srv s e in
      match g1 with
      | RRaise => ((k, s1) :: r, ARaise)
      | RKeyErr => let '(r', a) := store_service_new fl now srv r e typ name b in ((k, s1) :: r', a)
      | ROk _ =>
          let '(s2, g2) := src_get fl now srv s1 e in
          ((k, s2) :: r, match g2 with
                         | ROk en => svc_answer en typ name b
                         | RKeyErr => AUnknown
                         | RRaise => ARaise
                         end)
      end
  end.

Definition store_service (fl : flags) (now : Z) (srv : server) (srcs : sources) (e typ name : string) (b : option string)
  : sources * answer :=
  if f_fall fl then store_service_v0 fl now srv srcs e typ name b false
  else store_service_new fl now srv srcs e typ name b.

(* MetaData.certs *)
Definition extract_certs (use : string) (rs : list role) : list string :=
  flat_map (fun r => flat_map (fun k => match k_use k with
                                        | None => [k_cert k]
                                        | Some u => if String.eqb u use then [k_cert k] else []
                                        end) (r_keys r)) rs.
Definition ent_certs (en : ent) (descriptor use : string) : answer :=
  if String.eqb descriptor "any" then ACerts (extract_certs use (fp en))
  else match roles_of en descriptor with
       | [] => AKeyErr
       | rs => ACerts (extract_certs use rs)
       end.

(* InMemoryMetaData.attribute_requirement *)
Definition ent_attr_req (en : ent) (index : option string) : answer :=
  let attrs := flat_map (fun r => flat_map (fun a =>
                   match index with
                   | Some i => if String.eqb (ac_index a) i then ac_attrs a else []
                   | None => ac_attrs a
                   end) (r_acs r)) (roles_of en K_SPSSO) in
  let isreq a := match ra_req a with Some t => String.eqb t "true" | None => false end in
  AReq (map ra_name (filter isreq attrs)) (map ra_name (filter (fun a => negb (isreq a)) attrs)).

Definition ent_cats (en : ent) : list string :=
  flat_map (fun nv => if String.eqb (fst nv) ENTITY_CATEGORY then snd nv else []) (e_attrs en).

Definition ent_reg (en : ent) : answer :=
  match e_regs en with
  | [] => AReg None None []
  | r :: _ => AReg (Some (rg_auth r)) (rg_inst r)
                   (fold_left (fun acc lt => upsert (fst lt) (snd lt) acc) (rg_pols r) [])
  end.

Definition has_descriptor (en : ent) (kind : string) : bool :=
  existsb (fun r => String.eqb (r_kind r) kind) (e_roles en) || (String.eqb kind K_AFFIL && e_affil en).

(* what is observed of a descriptor returned by with_descriptor: all its endpoint locations *)
Definition locs (en : ent) : list string := flat_map (fun r => map s_loc (r_svcs r)) (fp en).
Definition src_with (s : source) (kind : string) : list (string * list string) :=
  map (fun ke => (fst ke, locs (snd ke))) (filter (fun ke => has_descriptor (snd ke) kind) (ents_of s)).

(* MetadataStore.attribute_requirement: first source that CONTAINS the id (no fetch), then self[id] *)
Fixpoint store_attr_req (fl : flags) (now : Z) (srv : server) (srcs : sources) (e : string) (index : option string)
  : sources * answer :=
  match srcs with
  | [] => ([], ANone)
  | (k, s) :: r =>
      if has_key e (ents_of s) then
        let '(s', g) := src_get fl now srv s e in
        ((k, s') :: r, match g with ROk en => ent_attr_req en index | RKeyErr => AKeyErr | RRaise => ARaise end)
      else let '(r', a) := store_attr_req fl now srv r e index in ((k, s) :: r', a)
  end.

Inductive query :=
| QGet (e : string)
| QService (e typ name : string) (b : option string)
| QSso (e : string) (b : option string)
| QAcs (e : string) (b : option string)
| QCerts (e descriptor use : string)
| QAttrReq (e : string) (index : option string)
| QCats (e : string)
| QReg (e : string)
| QKeys
| QWith (kind : string).

Definition via_get (fl : flags) (now : Z) (srv : server) (srcs : sources) (e : string) (onkey : answer) (f : ent -> answer)
  : sources * answer :=
  let '(srcs', g) := store_get fl now srv srcs e in
  (srcs', match g with ROk en => f en | RKeyErr => onkey | RRaise => ARaise end).

Definition dflt (b : option string) (d : string) : option string :=
  match b with None => Some d | Some _ => b end.

(* MetadataStore.with_descriptor before 18964551: dict.update over the sources (last wins) *)
Definition with_v0 (srcs : sources) (kind : string) : list (string * list string) :=
  fold_left (fun acc ks => fold_left (fun acc' kv => upsert (fst kv) (snd kv) acc') (src_with (snd ks) kind) acc) srcs [].
(* ... and now: every entity from the first source that has it *)
Fixpoint with_new (srcs : sources) (seen : list string) (kind : string) : list (string * list string) :=
  match srcs with
  | [] => []
  | (k, s) :: r =>
      map (fun ke => (fst ke, locs (snd ke)))
          (filter (fun ke => negb (mem (fst ke) seen) && has_descriptor (snd ke) kind) (ents_of s))
      ++ with_new r (seen ++ map fst (ents_of s)) kind
  end.

Definition answer_query (fl : flags) (now : Z) (srv : server) (srcs : sources) (q : query) : sources * answer :=
  match q with
  | QGet e => via_get fl now srv srcs e AKeyErr (fun en => AEnt (e_affil en) (fp en))
  | QService e typ name b => store_service fl now srv srcs e typ name b
  | QSso e b => store_service fl now srv srcs e K_IDPSSO N_SSO (dflt b BINDING_HTTP_REDIRECT)
  | QAcs e b => store_service fl now srv srcs e K_SPSSO N_ACS (dflt b BINDING_HTTP_POST)
  | QCerts e d u => via_get fl now srv srcs e AKeyErr (fun en => ent_certs en d u)
  | QAttrReq e i => store_attr_req fl now srv srcs e i
  | QCats e => via_get fl now srv srcs e (ACats []) (fun en => ACats (ent_cats en))
  | QReg e => via_get fl now srv srcs e (AReg None None []) ent_reg
  | QKeys => (srcs, AKeys (flat_map (fun ks => map fst (ents_of (snd ks))) srcs))
  | QWith kind => (srcs, AWith (if f_last fl then with_v0 srcs kind else with_new srcs [] kind))
  end.

(* ---------------------------------------------------------------- operations / histories *)
Inductive op :=
| OLoad (newstyle : bool) (sp : srcspec) (f : fetched)
| OReload (newstyle : bool) (items : list (srcspec * fetched))
| OTick (dt : Z)
| OServer (tbl : server)
| OQuery (q : query).

Record world := { w_store : store; w_now : Z; w_srv : server }.

Definition step (fl : flags) (w : world) (o : op) : world * list answer :=
  match o with
  | OLoad ns sp f =>
      let '(st, ok) := load1 fl ns (w_now w) (w_store w) sp f in
      ({| w_store := st; w_now := w_now w; w_srv := w_srv w |}, [AFlag ok])
  | OReload ns items =>
      let '(st, ok) := reload fl ns (w_now w) (w_store w) items in
      ({| w_store := st; w_now := w_now w; w_srv := w_srv w |}, [AFlag ok])
  | OTick dt => ({| w_store := w_store w; w_now := (w_now w + dt)%Z; w_srv := w_srv w |}, [])
  | OServer t => ({| w_store := w_store w; w_now := w_now w; w_srv := t |}, [])
  | OQuery q =>
      let '(srcs, a) := answer_query fl (w_now w) (w_srv w) (st_srcs (w_store w)) q in
      ({| w_store := {| st_srcs := srcs; st_ii := st_ii (w_store w) |}; w_now := w_now w; w_srv := w_srv w |}, [a])
  end.

Fixpoint run (fl : flags) (w : world) (h : list op) : list answer :=
  match h with
  | [] => []
  | o :: r => let '(w', out) := step fl w o in out ++ run fl w' r
  end.

Definition init (now : Z) : world := {| w_store := {| st_srcs := []; st_ii := 0 |}; w_now := now; w_srv := [] |}.
