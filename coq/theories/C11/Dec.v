(* C11/Dec.v — boolean equality of the observable answers (evaluated by vm_compute) and its correctness *)
From Coq Require Import String List Bool ZArith.
From Verif Require Import Base.Str C11.Model.
Import ListNotations.

Definition ostr_eqb := opt_eqb String.eqb.
Lemma ostr_eqb_eq a b : ostr_eqb a b = true <-> a = b.
Proof.
  destruct a, b; cbn; try (split; congruence).
  rewrite String.eqb_eq. split; congruence.
Qed.

Definition pair_eqb {A B} (fa : A -> A -> bool) (fb : B -> B -> bool) (x y : A * B) : bool :=
  fa (fst x) (fst y) && fb (snd x) (snd y).
Lemma pair_eqb_eq {A B} (fa : A -> A -> bool) (fb : B -> B -> bool) :
  (forall x y, fa x y = true <-> x = y) -> (forall x y, fb x y = true <-> x = y) ->
  forall x y, pair_eqb fa fb x y = true <-> x = y.
Proof.
  intros Ha Hb [a b] [c d]. unfold pair_eqb. cbn. rewrite andb_true_iff, Ha, Hb.
  split; [intros [-> ->]; reflexivity|intros E; inversion E; auto].
Qed.

Definition svc_eqb (a b : svc) : bool :=
  String.eqb (s_name a) (s_name b) && String.eqb (s_binding a) (s_binding b)
  && String.eqb (s_loc a) (s_loc b) && ostr_eqb (s_index a) (s_index b).
Lemma svc_eqb_eq a b : svc_eqb a b = true <-> a = b.
Proof.
  destruct a, b. unfold svc_eqb. cbn. rewrite !andb_true_iff, !String.eqb_eq, ostr_eqb_eq.
  split; [intros [[[-> ->] ->] ->]; reflexivity|intros E; inversion E; auto].
Qed.

Definition keyd_eqb (a b : keyd) : bool := ostr_eqb (k_use a) (k_use b) && String.eqb (k_cert a) (k_cert b).
Lemma keyd_eqb_eq a b : keyd_eqb a b = true <-> a = b.
Proof.
  destruct a, b. unfold keyd_eqb. cbn. rewrite !andb_true_iff, !String.eqb_eq, ostr_eqb_eq.
  split; [intros [-> ->]; reflexivity|intros E; inversion E; auto].
Qed.

Definition reqattr_eqb (a b : reqattr) : bool := String.eqb (ra_name a) (ra_name b) && ostr_eqb (ra_req a) (ra_req b).
Lemma reqattr_eqb_eq a b : reqattr_eqb a b = true <-> a = b.
Proof.
  destruct a, b. unfold reqattr_eqb. cbn. rewrite !andb_true_iff, !String.eqb_eq, ostr_eqb_eq.
  split; [intros [-> ->]; reflexivity|intros E; inversion E; auto].
Qed.

Definition acsv_eqb (a b : acsv) : bool :=
  String.eqb (ac_index a) (ac_index b) && list_eqb reqattr_eqb (ac_attrs a) (ac_attrs b).
Lemma acsv_eqb_eq a b : acsv_eqb a b = true <-> a = b.
Proof.
  destruct a, b. unfold acsv_eqb. cbn. rewrite !andb_true_iff, !String.eqb_eq, (list_eqb_eq _ reqattr_eqb_eq).
  split; [intros [-> ->]; reflexivity|intros E; inversion E; auto].
Qed.

Definition role_eqb (a b : role) : bool :=
  String.eqb (r_kind a) (r_kind b) && list_eqb String.eqb (r_protos a) (r_protos b)
  && list_eqb svc_eqb (r_svcs a) (r_svcs b) && list_eqb keyd_eqb (r_keys a) (r_keys b)
  && list_eqb acsv_eqb (r_acs a) (r_acs b).
Lemma role_eqb_eq a b : role_eqb a b = true <-> a = b.
Proof.
  destruct a, b. unfold role_eqb. cbn.
  rewrite !andb_true_iff, !String.eqb_eq, (list_eqb_eq _ String.eqb_eq), (list_eqb_eq _ svc_eqb_eq),
    (list_eqb_eq _ keyd_eqb_eq), (list_eqb_eq _ acsv_eqb_eq).
  split; [intros [[[[-> ->] ->] ->] ->]; reflexivity|intros E; inversion E; auto 6].
Qed.

Definition strs_eqb := list_eqb String.eqb.
Lemma strs_eqb_eq a b : strs_eqb a b = true <-> a = b.
Proof. apply list_eqb_eq, String.eqb_eq. Qed.
Definition svcs_eqb := list_eqb svc_eqb.
Lemma svcs_eqb_eq a b : svcs_eqb a b = true <-> a = b.
Proof. apply list_eqb_eq, svc_eqb_eq. Qed.
Definition roles_eqb := list_eqb role_eqb.
Lemma roles_eqb_eq a b : roles_eqb a b = true <-> a = b.
Proof. apply list_eqb_eq, role_eqb_eq. Qed.
Definition sspairs_eqb := list_eqb (pair_eqb String.eqb String.eqb).
Lemma sspairs_eqb_eq a b : sspairs_eqb a b = true <-> a = b.
Proof. apply list_eqb_eq, pair_eqb_eq; apply String.eqb_eq. Qed.
Definition dict_eqb := list_eqb (pair_eqb String.eqb svcs_eqb).
Lemma dict_eqb_eq a b : dict_eqb a b = true <-> a = b.
Proof. apply list_eqb_eq, pair_eqb_eq; [apply String.eqb_eq|apply svcs_eqb_eq]. Qed.
Definition with_eqb := list_eqb (pair_eqb String.eqb strs_eqb).
Lemma with_eqb_eq a b : with_eqb a b = true <-> a = b.
Proof. apply list_eqb_eq, pair_eqb_eq; [apply String.eqb_eq|apply strs_eqb_eq]. Qed.

Definition answer_eqb (a b : answer) : bool :=
  match a, b with
  | ARaise, ARaise | AKeyErr, AKeyErr | AUnknown, AUnknown | AUnsupported, AUnsupported | ANone, ANone => true
  | AFlag x, AFlag y => Bool.eqb x y
  | AEnt f r, AEnt g s => Bool.eqb f g && roles_eqb r s
  | ASvcs l, ASvcs m => svcs_eqb l m
  | ADict d, ADict e => dict_eqb d e
  | ACerts l, ACerts m => strs_eqb l m
  | AReq r o, AReq s p => strs_eqb r s && strs_eqb o p
  | ACats l, ACats m => strs_eqb l m
  | AReg a i p, AReg b j q => ostr_eqb a b && ostr_eqb i j && sspairs_eqb p q
  | AKeys l, AKeys m => strs_eqb l m
  | AWith l, AWith m => with_eqb l m
  | _, _ => false
  end.

Lemma answer_eqb_eq a b : answer_eqb a b = true <-> a = b.
Proof.
  destruct a, b; cbn [answer_eqb]; try (split; [discriminate|discriminate]); try (split; reflexivity).
  - rewrite Bool.eqb_true_iff. split; congruence.
  - rewrite andb_true_iff, Bool.eqb_true_iff, roles_eqb_eq. split; [intros [-> ->]; reflexivity|intros E; inversion E; auto].
  - rewrite svcs_eqb_eq. split; congruence.
  - rewrite dict_eqb_eq. split; congruence.
  - rewrite strs_eqb_eq. split; congruence.
  - rewrite andb_true_iff, !strs_eqb_eq. split; [intros [-> ->]; reflexivity|intros E; inversion E; auto].
  - rewrite strs_eqb_eq. split; congruence.
  - rewrite !andb_true_iff, !ostr_eqb_eq, sspairs_eqb_eq.
    split; [intros [[-> ->] ->]; reflexivity|intros E; inversion E; auto].
  - rewrite strs_eqb_eq. split; congruence.
  - rewrite with_eqb_eq. split; congruence.
Qed.

Definition answers_eqb := list_eqb answer_eqb.
Lemma answers_eqb_iff a b : answers_eqb a b = true <-> a = b.
Proof. apply list_eqb_eq, answer_eqb_eq. Qed.
