(* C18/Key.v — the cache key of Eptid.get after 331c8f06, "__".join(f"{len(part)}:{part}" ...), determines the
   call: eptid_key is injective (decimal length prefix, length counted in code points). *)
From Coq Require Import Decimal DecimalString DecimalNat.
From Coq Require Import String Ascii List Bool Arith Lia.
From Verif Require Import Base.Str C18.Model C18.Codec.
Import ListNotations.
Open Scope string_scope.

(* ------------------------------------------------------------------ strings *)
Lemma sapp_inv_head (a b c : string) : a ++ b = a ++ c -> b = c.
Proof. induction a as [|x a IH]; cbn; [auto|]. intros H. inversion H. auto. Qed.

Lemma sapp_inv_len (a a' b b' : string) :
  a ++ b = a' ++ b' -> String.length b = String.length b' -> a = a' /\ b = b'.
Proof.
  revert a'. induction a as [|x a IH]; intros a' H Hl; destruct a' as [|y a']; cbn [append] in H.
  - auto.
  - exfalso. rewrite H in Hl. cbn [String.length] in Hl. rewrite slength_app in Hl. lia.
  - exfalso. rewrite <- H in Hl. cbn [String.length] in Hl. rewrite slength_app in Hl. lia.
  - inversion H as [[Hx Hr]]. destruct (IH a' Hr Hl) as [-> ->]. auto.
Qed.

Lemma sapp_inv_tail (a b c : string) : a ++ c = b ++ c -> a = b.
Proof. intros H. apply (sapp_inv_len a b c c H eq_refl). Qed.

(* ------------------------------------------------------------------ the cache key of Eptid.get is injective *)
Lemma split_at_char c a a' b b' :
  no_char c a = true -> no_char c a' = true -> a ++ String c b = a' ++ String c b' -> a = a' /\ b = b'.
Proof.
  revert a'. induction a as [|x a IH]; intros a' Ha Ha' E; destruct a' as [|y a']; cbn [append] in E.
  - inversion E. auto.
  - exfalso. inversion E; subst. cbn [no_char all_chars] in Ha'. rewrite Ascii.eqb_refl in Ha'. discriminate.
  - exfalso. inversion E; subst. cbn [no_char all_chars] in Ha. rewrite Ascii.eqb_refl in Ha. discriminate.
  - inversion E; subst. cbn [no_char all_chars] in Ha, Ha'.
    apply andb_true_iff in Ha as [_ Ha]. apply andb_true_iff in Ha' as [_ Ha'].
    destruct (IH a' Ha Ha' H1) as [-> ->]. auto.
Qed.

Lemma uint_no_colon d : no_char ":"%char (NilEmpty.string_of_uint d) = true.
Proof. induction d; cbn [NilEmpty.string_of_uint no_char all_chars]; try reflexivity; exact IHd. Qed.

Lemma dec_no_colon n : no_char ":"%char (dec n) = true.
Proof. apply uint_no_colon. Qed.

Lemma dec_injective n m : dec n = dec m -> n = m.
Proof.
  unfold dec. intros H. apply (f_equal NilEmpty.uint_of_string) in H. rewrite !NilEmpty.usu in H.
  inversion H as [H1]. apply (f_equal Nat.of_uint) in H1. rewrite !DecimalNat.Unsigned.of_to in H1. exact H1.
Qed.

Lemma ulen_app a b : ulen (a ++ b) = ulen a + ulen b.
Proof. induction a as [|c a IH]; cbn [append ulen]; [reflexivity|]. destruct (is_cont c); rewrite IH; reflexivity. Qed.

Lemma sapp_prefix (p p' t t' : string) :
  p ++ t = p' ++ t' -> exists x, (p' = p ++ x /\ t = x ++ t') \/ (p = p' ++ x /\ t' = x ++ t).
Proof.
  revert p'. induction p as [|c p IH]; intros p' E.
  - exists p'. left. auto.
  - destruct p' as [|c' p'].
    + exists (String c p). right. auto.
    + cbn [append] in E. inversion E; subst. destruct (IH p' H1) as (x & [[-> ->]|[-> ->]]); exists x; auto.
Qed.

(* what follows one part of the key: nothing, or the separator *)
Definition sep_tail (t : string) : Prop := t = "" \/ exists r, t = String "_"%char r.

Lemma ulen0_tail x t t' : ulen x = 0 -> sep_tail t -> t = x ++ t' -> x = "".
Proof.
  intros Hx Ht E. destruct x as [|c x]; [reflexivity|]. exfalso. cbn [ulen] in Hx.
  destruct (is_cont c) eqn:Ec; [|discriminate]. destruct Ht as [->|[r ->]]; [discriminate|].
  cbn [append] in E. inversion E; subst. discriminate Ec.
Qed.

Lemma key_part_inj p p' t t' :
  sep_tail t -> sep_tail t' -> key_part p ++ t = key_part p' ++ t' -> p = p' /\ t = t'.
Proof.
  intros Ht Ht' E. unfold key_part in E. rewrite !sapp_assoc in E.
  change (":" ++ p ++ t) with (String ":"%char (p ++ t)) in E.
  change (":" ++ p' ++ t') with (String ":"%char (p' ++ t')) in E.
  apply split_at_char in E; [|apply dec_no_colon|apply dec_no_colon]. destruct E as [En E].
  apply dec_injective in En.
  destruct (sapp_prefix p p' t t' E) as (x & [[-> ->]|[-> ->]]).
  - rewrite ulen_app in En. assert (x = "") by (apply (ulen0_tail x (x ++ t') t'); [lia|exact Ht|reflexivity]).
    subst x. rewrite sapp_nil_r. auto.
  - rewrite ulen_app in En. assert (x = "") by (apply (ulen0_tail x (x ++ t) t); [lia|exact Ht'|reflexivity]).
    subst x. rewrite sapp_nil_r. auto.
Qed.

Definition encl (l : list string) : string := join "__" (map key_part l).
Definition tail_of (l : list string) : string := match l with [] => "" | _ => "__" ++ encl l end.

Lemma encl_cons a l : encl (a :: l) = key_part a ++ tail_of l.
Proof. unfold encl, tail_of. destruct l as [|b l]; cbn [map join]; [rewrite sapp_nil_r|]; reflexivity. Qed.

Lemma tail_of_sep l : sep_tail (tail_of l).
Proof. destruct l; [left; reflexivity|right; eexists; reflexivity]. Qed.

Lemma encl_injective l1 : forall l2, l1 <> [] -> l2 <> [] -> encl l1 = encl l2 -> l1 = l2.
Proof.
  induction l1 as [|a l1 IH]; intros l2 H1 H2 E; [congruence|]. destruct l2 as [|b l2]; [congruence|].
  rewrite !encl_cons in E. apply key_part_inj in E; [|apply tail_of_sep|apply tail_of_sep].
  destruct E as [-> E]. f_equal. destruct l1 as [|a1 l1], l2 as [|b1 l2]; try reflexivity; try discriminate.
  cbn [tail_of] in E. apply sapp_inv_head in E. apply IH; [discriminate|discriminate|exact E].
Qed.

Theorem eptid_key_injective x y : eptid_key x = eptid_key y -> x = y.
Proof.
  unfold eptid_key. intros E. apply encl_injective in E; [|discriminate|discriminate].
  destruct x, y; simpl in E. inversion E. reflexivity.
Qed.

