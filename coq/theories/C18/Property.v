(* C18/Property.v — property theorems only. *)
From Coq Require Import String List Bool.
From Verif Require Import Base.Str C18.Model C18.ModelV0 C18.Spec C18.Codec C18.Key C18.Reflect C18.Proofs.
Import ListNotations.

(* C18, identifier store (code after 331c8f06 / afb60e41 / 9057a062): for EVERY history of IdentDB operations
   from the empty store (any length, any users / requesters / qualifiers / formats / NameID arguments over
   arbitrary byte strings) that satisfies the hypotheses of the property (wf: user names disjoint from
   identifier values, generated identifiers fresh, the low-level store() is not handed a second persistent
   identifier for a triple), persistent identifiers are stable, pairwise distinct and map back exactly;
   issued identifiers have a value; transient identifiers are fresh; NewID / Terminate are local; the store
   is consistent after every step; what is issued is what the store holds; the reverse lookup answers the
   current store.  No guard. *)
Theorem c18_ident : forall cfg is_user ops, ident_spec cfg is_user (mtrace cfg [] ops).
Proof. exact ident_holds. Qed.
Print Assumptions c18_ident.

(* the parts, by name *)
Theorem c18_persistent_stable : forall cfg is_user ops,
  wf cfg is_user (mtrace cfg [] ops) -> all_pairs (stable_pair cfg) (mtrace cfg [] ops).
Proof. exact persistent_stable. Qed.
Print Assumptions c18_persistent_stable.

Theorem c18_pairwise_distinct : forall cfg is_user ops,
  wf cfg is_user (mtrace cfg [] ops) -> all_pairs (distinct_pair cfg) (mtrace cfg [] ops).
Proof. exact pairwise_distinct. Qed.
Print Assumptions c18_pairwise_distinct.

Theorem c18_reverse_exact : forall cfg is_user ops,
  wf cfg is_user (mtrace cfg [] ops) -> all_pairs (reverse_pair cfg) (mtrace cfg [] ops).
Proof. exact reverse_exact. Qed.
Print Assumptions c18_reverse_exact.

Theorem c18_transient_fresh : forall cfg is_user ops,
  wf cfg is_user (mtrace cfg [] ops) -> all_events (transient_event cfg) (mtrace cfg [] ops).
Proof. exact transient_fresh. Qed.
Print Assumptions c18_transient_fresh.

Theorem c18_manage_local : forall cfg is_user ops,
  wf cfg is_user (mtrace cfg [] ops) -> all_events manage_event (mtrace cfg [] ops).
Proof. exact manage_local. Qed.
Print Assumptions c18_manage_local.

(* (strengthening round 2) what an issuing operation hands out is what the store holds: the answered NameID is
   of the format and for the requester / qualifier asked for, maps back to the user in the state the operation
   leaves behind, and its encoding is one of the elements stored for that user *)
Theorem c18_issued_is_stored : forall cfg is_user ops,
  wf cfg is_user (mtrace cfg [] ops) -> all_events (issued_event cfg) (mtrace cfg [] ops).
Proof. exact issued_is_stored. Qed.
Print Assumptions c18_issued_is_stored.

(* (strengthening round 2) find_local_id answers the reverse entry of the CURRENT store, nothing else *)
Theorem c18_findlocal_is_store : forall cfg is_user ops,
  wf cfg is_user (mtrace cfg [] ops) -> all_events findlocal_event (mtrace cfg [] ops).
Proof. exact findlocal_is_store. Qed.
Print Assumptions c18_findlocal_is_store.

(* the two new parts are independent of the former seven (observed traces of a stale memo / stale reverse cache) *)
Theorem c18_new_parts_independent :
  (wf ex_cfg ex_user ex_stale
   /\ ident_spec_parts_b ex_cfg ex_user ex_stale = [true; true; true; true; true; true; true; false; true]
   /\ ~ ident_spec ex_cfg ex_user ex_stale)
  /\ (wf ex_cfg ex_user ex_stale_rev
      /\ ident_spec_parts_b ex_cfg ex_user ex_stale_rev = [true; true; true; true; true; true; true; true; false]
      /\ ~ ident_spec ex_cfg ex_user ex_stale_rev).
Proof. exact new_parts_independent. Qed.
Print Assumptions c18_new_parts_independent.

(* invariant of every reachable state: each stored identifier has its reverse entry and vice versa *)
Theorem c18_reachable_inv : forall cfg is_user ops,
  wf cfg is_user (mtrace cfg [] ops) ->
  forward_ok is_user (final_state cfg [] ops) /\ reverse_ok is_user (final_state cfg [] ops).
Proof. exact reachable_inv. Qed.
Print Assumptions c18_reachable_inv.

(* the boolean spec / class guards that Coq evaluates on the implementation's recorded traces are the stated ones *)
Theorem c18_ident_reflect : forall cfg is_user tr, ident_spec_b cfg is_user tr = true <-> ident_spec cfg is_user tr.
Proof. exact ident_spec_b_iff. Qed.
Print Assumptions c18_ident_reflect.

Theorem c18_guards_reflect : forall cfg tr,
  (qualified_b cfg tr = true <-> qualified cfg tr) /\ (single_valued_b cfg tr = true <-> single_valued cfg tr).
Proof. exact guards_reflect. Qed.
Print Assumptions c18_guards_reflect.

(* the pinned snapshot (ModelV0) violated the property: finding classes 2 and 3, both repaired *)
Theorem c18_class2_v0_refuted :
  exists cfg is_user ops, qualified cfg (V0.mtrace cfg [] ops) /\ wf cfg is_user (V0.mtrace cfg [] ops)
                          /\ ~ ident_spec cfg is_user (V0.mtrace cfg [] ops).
Proof. exact class2_v0_refuted. Qed.
Print Assumptions c18_class2_v0_refuted.

Theorem c18_class3_v0_refuted :
  exists cfg is_user ops, single_valued cfg (V0.mtrace cfg [] ops) /\ wf cfg is_user (V0.mtrace cfg [] ops)
                          /\ ~ ident_spec cfg is_user (V0.mtrace cfg [] ops).
Proof. exact class3_v0_refuted. Qed.
Print Assumptions c18_class3_v0_refuted.

(* C18, encoding: decode after code is the identity up to "empty = absent", for all five-field
   identifiers over arbitrary byte strings; code is injective (collision-free) up to the same *)
Theorem c18_decode_code : forall n, decode (code n) = Some (norm n).
Proof. exact decode_code. Qed.
Print Assumptions c18_decode_code.

Theorem c18_code_injective : forall n m, code n = code m <-> norm n = norm m.
Proof. exact code_injective_iff. Qed.
Print Assumptions c18_code_injective.

Theorem c18_codec : forall l, codec_spec (map (fun n => (n, code n, decode (code n))) l).
Proof. exact codec_holds. Qed.
Print Assumptions c18_codec.

Theorem c18_codec_reflect : forall items, codec_spec_b items = true <-> codec_spec items.
Proof. exact codec_spec_b_iff. Qed.
Print Assumptions c18_codec_reflect.

(* C18, targeted id: the cache key determines the call, so in EVERY history the answer is the answer of a
   fresh instance, for any hash function (no guard) *)
Theorem c18_eptid_key_injective : forall x y, eptid_key x = eptid_key y -> x = y.
Proof. exact eptid_key_injective. Qed.
Print Assumptions c18_eptid_key_injective.

Theorem c18_eptid_deterministic : forall md5hex secret h,
  eptid_run md5hex secret [] h = map (emake md5hex secret) h.
Proof. exact eptid_deterministic. Qed.
Print Assumptions c18_eptid_deterministic.

(* with an injective fixed-length hash the ids are distinct for distinct requester / user pairs, for every
   history whose calls carry the same extra arguments (guard of the open finding class 4) *)
Theorem c18_eptid : forall md5hex,
  (forall a b, md5hex a = md5hex b -> a = b) ->
  (forall a b, String.length (md5hex a) = String.length (md5hex b)) ->
  forall secret h, same_extras h -> eptid_spec (eptid_obs md5hex secret h).
Proof. exact eptid_holds. Qed.
Print Assumptions c18_eptid.

(* class 4 (open): Eptid.make concatenates its arguments without separator — for EVERY hash function *)
Theorem c18_eptid_make_refuted : forall md5hex, exists secret h, ~ eptid_spec (eptid_obs md5hex secret h).
Proof. exact eptid_make_refuted. Qed.
Print Assumptions c18_eptid_make_refuted.

(* class 1 (repaired): the old cache key sp ++ "__" ++ user — for EVERY hash function, same extra arguments *)
Theorem c18_eptid_v0_refuted : forall md5hex, exists secret h, same_extras h /\ ~ eptid_spec (eptid_obs_v0 md5hex secret h).
Proof. exact eptid_v0_refuted. Qed.
Print Assumptions c18_eptid_v0_refuted.

Theorem c18_eptid_reflect : forall obs h,
  (eptid_spec_b obs = true <-> eptid_spec obs) /\ (key_collision_b h = false <-> no_key_collision h)
  /\ (same_extras_b h = true <-> same_extras h).
Proof. exact eptid_reflect. Qed.
Print Assumptions c18_eptid_reflect.
