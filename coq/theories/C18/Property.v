(* C18/Property.v — property theorems only. *)
From Coq Require Import String List Bool.
From Verif Require Import Base.Str C18.Model C18.Spec C18.Codec C18.Proofs.

Theorem c18_decode_code : forall n, decode (code n) = Some (norm n).
Proof. exact decode_code. Qed.
Print Assumptions c18_decode_code.
