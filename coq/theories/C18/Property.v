(* C18/Property.v — property theorems only. *)
From Coq Require Import String List Bool.
From Verif Require Import Base.Str Base.Py Base.Py2 C18.Model C18.ModelV0 C18.Spec C18.Codec C18.Key C18.Reflect C18.Proofs C18.Source2.
From VerifGen Require Import C18Src2.
Import ListNotations.

(* C18, identifier store (code after 331c8f06 / afb60e41 / 9057a062): for EVERY history of IdentDB operations
   from the empty store (any length, any users / requesters / qualifiers / formats / NameID arguments over
   arbitrary byte strings) that satisfies the hypotheses of the property (wf: user names disjoint from
   identifier values, generated identifiers fresh, the low-level store() is not handed a second persistent
   identifier for a triple), persistent identifiers are stable, pairwise distinct and map back exactly;
   issued identifiers have a value; transient identifiers are fresh; NewID / Terminate are local; the store
   is consistent after every step; what is issued is what the store holds; the reverse lookup answers the
   current store; find answers exactly the stored identifiers matching the whole filter; a lookup answers what
   the store holds; NewID / Terminate take effect (twelve parts).  No guard. *)
Theorem c18_ident : forall cfg is_user ops, ident_spec cfg is_user (mtrace cfg [] ops).
Proof. exact ident_holds. Qed.
Print Assumptions c18_ident.

(* the parts, by name *)
Theorem c18_persistent_stable : forall cfg is_user ops,
  wf cfg is_user (mtrace cfg [] ops) -> all_pairs (stable_pair cfg) (mtrace cfg [] ops).
Proof. exact persistent_stable. Qed.
Print Assumptions c18_persistent_stable.

Theorem c18_pairwise_distinct : forall cfg is_user ops,
  wf cfg is_user (mtrace cfg [] ops) -> all_pairs (distinct_pair cfg) (mtrace cfg [] ops).
Proof. exact pairwise_distinct. Qed.
Print Assumptions c18_pairwise_distinct.

Theorem c18_reverse_exact : forall cfg is_user ops,
  wf cfg is_user (mtrace cfg [] ops) -> all_pairs (reverse_pair cfg) (mtrace cfg [] ops).
Proof. exact reverse_exact. Qed.
Print Assumptions c18_reverse_exact.

Theorem c18_transient_fresh : forall cfg is_user ops,
  wf cfg is_user (mtrace cfg [] ops) -> all_events (transient_event cfg) (mtrace cfg [] ops).
Proof. exact transient_fresh. Qed.
Print Assumptions c18_transient_fresh.

Theorem c18_manage_local : forall cfg is_user ops,
  wf cfg is_user (mtrace cfg [] ops) -> all_events manage_event (mtrace cfg [] ops).
Proof. exact manage_local. Qed.
Print Assumptions c18_manage_local.

(* (strengthening round 2) what an issuing operation hands out is what the store holds: the answered NameID is
   of the format and for the requester / qualifier asked for, maps back to the user in the state the operation
   leaves behind, and its encoding is one of the elements stored for that user *)
Theorem c18_issued_is_stored : forall cfg is_user ops,
  wf cfg is_user (mtrace cfg [] ops) -> all_events (issued_event cfg) (mtrace cfg [] ops).
Proof. exact issued_is_stored. Qed.
Print Assumptions c18_issued_is_stored.

(* (strengthening round 2) find_local_id answers the reverse entry of the CURRENT store, nothing else *)
Theorem c18_findlocal_is_store : forall cfg is_user ops,
  wf cfg is_user (mtrace cfg [] ops) -> all_events findlocal_event (mtrace cfg [] ops).
Proof. exact findlocal_is_store. Qed.
Print Assumptions c18_findlocal_is_store.

(* the two new parts are independent of the former seven (observed traces of a stale memo / stale reverse cache) *)
Theorem c18_new_parts_independent :
  (wf ex_cfg ex_user ex_stale
   /\ ident_spec_parts_b ex_cfg ex_user ex_stale = [true; true; true; true; true; true; true; false; true; true; true; true]
   /\ ~ ident_spec ex_cfg ex_user ex_stale)
  /\ (wf ex_cfg ex_user ex_stale_rev
      /\ ident_spec_parts_b ex_cfg ex_user ex_stale_rev = [true; true; true; true; true; true; true; true; false; true; true; true]
      /\ ~ ident_spec ex_cfg ex_user ex_stale_rev).
Proof. exact new_parts_independent. Qed.
Print Assumptions c18_new_parts_independent.

(* (strengthening round 4) find_nameid answers exactly the identifiers stored for the user at that moment that match
   EVERY field of the filter, in store order, each as the store holds it *)
Theorem c18_find_is_filter : forall cfg is_user ops,
  wf cfg is_user (mtrace cfg [] ops) -> all_events find_event (mtrace cfg [] ops).
Proof. exact find_is_filter. Qed.
Print Assumptions c18_find_is_filter.

(* (strengthening round 4) match_local_id, when it answers, answers a persistent identifier the store holds for that
   user (whole NameID) and for the requester / qualifier asked for *)
Theorem c18_lookup_is_stored : forall cfg is_user ops,
  wf cfg is_user (mtrace cfg [] ops) -> all_events lookup_event (mtrace cfg [] ops).
Proof. exact lookup_is_stored. Qed.
Print Assumptions c18_lookup_is_stored.

(* (strengthening round 4) NewID / NewEncryptedID / Terminate presented with an identifier the store holds are answered
   with that identifier carrying the SPProvidedID asked for, and afterwards it is the one stored under that value *)
Theorem c18_manage_takes_effect : forall cfg is_user ops,
  wf cfg is_user (mtrace cfg [] ops) -> all_events effect_event (mtrace cfg [] ops).
Proof. exact manage_takes_effect. Qed.
Print Assumptions c18_manage_takes_effect.

(* the three parts of round 4 are independent of the former nine (observed traces of a filter loop in which the last
   field decides / of a NameID object shared between lookups / of a handler refusing a NewID for a stored identifier) *)
Theorem c18_round4_parts_independent :
  (wf ex_cfg ex_user ex_lastfield
   /\ ident_spec_parts_b ex_cfg ex_user ex_lastfield = [true; true; true; true; true; true; true; true; true; false; true; true]
   /\ ~ ident_spec ex_cfg ex_user ex_lastfield)
  /\ (wf ex_cfg ex_user ex_shared
      /\ ident_spec_parts_b ex_cfg ex_user ex_shared = [true; true; true; true; true; true; true; true; true; true; false; true]
      /\ ~ ident_spec ex_cfg ex_user ex_shared)
  /\ (wf ex_cfg ex_user ex_refused
      /\ ident_spec_parts_b ex_cfg ex_user ex_refused = [true; true; true; true; true; true; true; true; true; true; true; false]
      /\ ~ ident_spec ex_cfg ex_user ex_refused).
Proof. exact round4_parts_independent. Qed.
Print Assumptions c18_round4_parts_independent.

(* invariant of every reachable state: each stored identifier has its reverse entry and vice versa *)
Theorem c18_reachable_inv : forall cfg is_user ops,
  wf cfg is_user (mtrace cfg [] ops) ->
  forward_ok is_user (final_state cfg [] ops) /\ reverse_ok is_user (final_state cfg [] ops).
Proof. exact reachable_inv. Qed.
Print Assumptions c18_reachable_inv.

(* the boolean spec / class guards that Coq evaluates on the implementation's recorded traces are the stated ones *)
Theorem c18_ident_reflect : forall cfg is_user tr, ident_spec_b cfg is_user tr = true <-> ident_spec cfg is_user tr.
Proof. exact ident_spec_b_iff. Qed.
Print Assumptions c18_ident_reflect.

Theorem c18_guards_reflect : forall cfg tr,
  (qualified_b cfg tr = true <-> qualified cfg tr) /\ (single_valued_b cfg tr = true <-> single_valued cfg tr).
Proof. exact guards_reflect. Qed.
Print Assumptions c18_guards_reflect.

(* the pinned snapshot (ModelV0) violated the property: finding classes 2 and 3, both repaired *)
Theorem c18_class2_v0_refuted :
  exists cfg is_user ops, qualified cfg (V0.mtrace cfg [] ops) /\ wf cfg is_user (V0.mtrace cfg [] ops)
                          /\ ~ ident_spec cfg is_user (V0.mtrace cfg [] ops).
Proof. exact class2_v0_refuted. Qed.
Print Assumptions c18_class2_v0_refuted.

Theorem c18_class3_v0_refuted :
  exists cfg is_user ops, single_valued cfg (V0.mtrace cfg [] ops) /\ wf cfg is_user (V0.mtrace cfg [] ops)
                          /\ ~ ident_spec cfg is_user (V0.mtrace cfg [] ops).
Proof. exact class3_v0_refuted. Qed.
Print Assumptions c18_class3_v0_refuted.

(* C18, encoding: decode after code is the identity up to "empty = absent", for all five-field
   identifiers over arbitrary byte strings; code is injective (collision-free) up to the same *)
Theorem c18_decode_code : forall n, decode (code n) = Some (norm n).
Proof. exact decode_code. Qed.
Print Assumptions c18_decode_code.

Theorem c18_code_injective : forall n m, code n = code m <-> norm n = norm m.
Proof. exact code_injective_iff. Qed.
Print Assumptions c18_code_injective.

Theorem c18_codec : forall l, codec_spec (map (fun n => (n, code n, decode (code n))) l).
Proof. exact codec_holds. Qed.
Print Assumptions c18_codec.

Theorem c18_codec_reflect : forall items, codec_spec_b items = true <-> codec_spec items.
Proof. exact codec_spec_b_iff. Qed.
Print Assumptions c18_codec_reflect.

(* C18, targeted id: the cache key determines the call, so in EVERY history the answer is the answer of a
   fresh instance, for any hash function (no guard) *)
Theorem c18_eptid_key_injective : forall x y, eptid_key x = eptid_key y -> x = y.
Proof. exact eptid_key_injective. Qed.
Print Assumptions c18_eptid_key_injective.

Theorem c18_eptid_deterministic : forall md5hex secret h,
  eptid_run md5hex secret [] h = map (emake md5hex secret) h.
Proof. exact eptid_deterministic. Qed.
Print Assumptions c18_eptid_deterministic.

(* with an injective fixed-length hash the ids are distinct for distinct requester / user pairs, for every
   history whose calls carry the same extra arguments (guard of the open finding class 4) *)
Theorem c18_eptid : forall md5hex,
  (forall a b, md5hex a = md5hex b -> a = b) ->
  (forall a b, String.length (md5hex a) = String.length (md5hex b)) ->
  forall secret h, same_extras h -> eptid_spec (eptid_obs md5hex secret h).
Proof. exact eptid_holds. Qed.
Print Assumptions c18_eptid.

(* class 4 (open): Eptid.make concatenates its arguments without separator — for EVERY hash function *)
Theorem c18_eptid_make_refuted : forall md5hex, exists secret h, ~ eptid_spec (eptid_obs md5hex secret h).
Proof. exact eptid_make_refuted. Qed.
Print Assumptions c18_eptid_make_refuted.

(* class 1 (repaired): the old cache key sp ++ "__" ++ user — for EVERY hash function, same extra arguments *)
Theorem c18_eptid_v0_refuted : forall md5hex, exists secret h, same_extras h /\ ~ eptid_spec (eptid_obs_v0 md5hex secret h).
Proof. exact eptid_v0_refuted. Qed.
Print Assumptions c18_eptid_v0_refuted.

Theorem c18_eptid_reflect : forall obs h,
  (eptid_spec_b obs = true <-> eptid_spec obs) /\ (key_collision_b h = false <-> no_key_collision h)
  /\ (same_extras_b h = true <-> same_extras h).
Proof. exact eptid_reflect. Qed.
Print Assumptions c18_eptid_reflect.

(* ==================================================================================================
   Source tie, translator v2: coq/gen/C18Src2.v is re-translated from the CURRENT text of /repo/src/saml2/ident.py on
   every run (harness/c18.py:regenerate_tables).  Each theorem: the translated function applied to the encoding of a
   model input is the encoding of what the model function it mirrors yields, for ALL inputs of the stated domain.
   Calls of functions that are not translated in place are arguments with the stated hypotheses (C18/Source2.v shows
   each set satisfiable); db_ok: the dict has no key "__class__" (the embedding's mark of an object). *)

Theorem c18_source2_code : forall n, src2_code quote_f (enc_nid n) = PStr (code n).
Proof. exact src2_code_is_model. Qed.
Print Assumptions c18_source2_code.

Theorem c18_source2_decode : forall txt,
  decodable txt = true -> src2_decode unquote_f (PStr txt) = enc_decoded (decode txt).
Proof. exact src2_decode_is_model. Qed.
Print Assumptions c18_source2_decode.

Theorem c18_source2_store : forall cfg d u n t,
  db_ok d = true -> u <> "__class__"%string -> t <> "__class__"%string -> txt n = Some t ->
  src2_store quote_f (enc_self cfg d) (PStr u) (enc_nid n) = PList [PNone; enc_self cfg (store_db d u n t)].
Proof. exact src2_store_is_model. Qed.
Print Assumptions c18_source2_store.

Theorem c18_source2_find_local_id : forall cfg d n,
  db_ok d = true -> src2_find_local_id (enc_self cfg d) (enc_nid n) = enc_found (find_local_id d n).
Proof. exact src2_find_local_id_is_model. Qed.
Print Assumptions c18_source2_find_local_id.

Theorem c18_source2_match_local_id : forall decode_ : pyval -> pyval,
  (forall s, decode_ (PStr s) = enc_decoded (decode s)) ->
  forall cfg d u spq_arg nq_arg,
    db_ok d = true ->
    src2_match_local_id decode_ (enc_self cfg d) (PStr u) (enc_opt spq_arg) (enc_opt nq_arg)
    = enc_res (match_local_id d u spq_arg nq_arg).
Proof. exact src2_match_local_id_is_model. Qed.
Print Assumptions c18_source2_match_local_id.

Theorem c18_source2_handle_name_id_mapping_request :
  forall (decode_ : pyval -> pyval) (construct_ : pyval -> pyval -> pyval -> pyval) cfg d p fresh,
  (forall s, decode_ (PStr s) = enc_decoded (decode s)) ->
  (forall id, construct_ (enc_self cfg d) (PStr id) (enc_pol p)
              = enc_out (snd (construct_nameid cfg d id None None (Some p) None fresh))) ->
  forall n,
    db_ok d = true ->
    src2_name_id_mapping decode_ construct_ (enc_self cfg d) (enc_nid n) (enc_pol p)
    = enc_out (snd (name_id_mapping cfg d n p fresh)).
Proof. exact src2_name_id_mapping_is_model. Qed.
Print Assumptions c18_source2_handle_name_id_mapping_request.

Theorem c18_source2_nim_args : forall lp_format : pyval -> pyval -> pyval,
  (forall f requester, lp_format (enc_lp (Some f)) requester = PStr f) ->
  forall cfg d lp spq_arg pol nq_arg,
    src2_nim_args lp_format (enc_self cfg d) (enc_lp lp) (enc_opt spq_arg) (enc_pol_opt pol) (enc_opt nq_arg)
    = enc_args (resolve cfg lp spq_arg pol nq_arg).
Proof. exact src2_nim_args_is_model. Qed.
Print Assumptions c18_source2_nim_args.

(* remove_remote / store are ARBITRARY functions: the handler hands them exactly these arguments, in this order *)
Theorem c18_source2_handle_manage_name_id_request :
  forall (remove_ : pyval -> pyval -> pyval) (store_ : pyval -> pyval -> pyval -> pyval) cfg d n newid enc term,
    db_ok d = true ->
    src2_manage_name_id remove_ store_ (enc_self cfg d) (enc_nid n) (enc_newid newid)
      (enc_flag "NewEncryptedID" enc) (enc_flag "Terminate" term)
    = match manage_target n newid enc term with
      | None => enc_nid n
      | Some n' =>
          py_bind (remove_ (enc_self cfg d) (enc_nid n)) (fun _ =>
          py_bind (store_ (enc_self cfg d) (enc_found (find_local_id d n)) (enc_nid n')) (fun _ => enc_nid n'))
      end.
Proof. exact src2_manage_name_id_is_model. Qed.
Print Assumptions c18_source2_handle_manage_name_id_request.

Theorem c18_source2_handle_manage_name_id_request_answer :
  forall (remove_ : pyval -> pyval -> pyval) (store_ : pyval -> pyval -> pyval -> pyval) cfg d n,
  remove_ (enc_self cfg d) (enc_nid n) = match remove_remote d n with Ok _ => PNone | Err e => PExc (exc_name e) end ->
  (forall u n', store_ (enc_self cfg d) (PStr u) (enc_nid n') = PNone) ->
  forall newid enc term,
    db_ok d = true ->
    src2_manage_name_id remove_ store_ (enc_self cfg d) (enc_nid n) (enc_newid newid)
      (enc_flag "NewEncryptedID" enc) (enc_flag "Terminate" term)
    = enc_out (snd (manage_name_id d n newid enc term)).
Proof. exact src2_manage_name_id_answer. Qed.
Print Assumptions c18_source2_handle_manage_name_id_request_answer.

(* store is an ARBITRARY function: the new NameID is handed to it together with the user it was asked for *)
Theorem c18_source2_get_nameid :
  forall (decode_ : pyval -> pyval) (create_ : pyval -> pyval -> pyval -> pyval -> pyval)
         (store_ : pyval -> pyval -> pyval -> pyval) fresh,
  (forall s, decode_ (PStr s) = enc_decoded (decode s)) ->
  (forall self f q s, create_ self f q s = PStr fresh) ->
  forall cfg d u f spq_arg nq_arg,
    db_ok d = true ->
    src2_get_nameid decode_ create_ store_ (enc_self cfg d) (PStr u) (PStr f) (enc_opt spq_arg) (enc_opt nq_arg)
    = if String.eqb f NF_PERSISTENT
      then match match_local_id d u spq_arg nq_arg with
           | Err e => PExc (exc_name e)
           | Ok (Some n) => enc_nid n
           | Ok None => issue_call store_ (enc_self cfg d) u (snd (issue cfg d u f spq_arg nq_arg fresh))
           end
      else issue_call store_ (enc_self cfg d) u (snd (issue cfg d u f spq_arg nq_arg fresh)).
Proof. exact src2_get_nameid_is_model. Qed.
Print Assumptions c18_source2_get_nameid.

Theorem c18_source2_get_nameid_answer :
  forall (decode_ : pyval -> pyval) (create_ : pyval -> pyval -> pyval -> pyval -> pyval)
         (store_ : pyval -> pyval -> pyval -> pyval) fresh,
  (forall s, decode_ (PStr s) = enc_decoded (decode s)) ->
  (forall self f q s, create_ self f q s = PStr fresh) ->
  (forall self u n, store_ self (PStr u) (enc_nid n) = PNone) ->
  forall cfg d u f spq_arg nq_arg,
    db_ok d = true ->
    src2_get_nameid decode_ create_ store_ (enc_self cfg d) (PStr u) (PStr f) (enc_opt spq_arg) (enc_opt nq_arg)
    = enc_out (snd (get_nameid cfg d u f spq_arg nq_arg fresh)).
Proof. exact src2_get_nameid_answer. Qed.
Print Assumptions c18_source2_get_nameid_answer.

Theorem c18_source2_transient_nameid :
  forall (decode_ : pyval -> pyval) (create_ : pyval -> pyval -> pyval -> pyval -> pyval)
         (store_ : pyval -> pyval -> pyval -> pyval) fresh,
  (forall s, decode_ (PStr s) = enc_decoded (decode s)) ->
  (forall self f q s, create_ self f q s = PStr fresh) ->
  (forall self u n, store_ self (PStr u) (enc_nid n) = PNone) ->
  forall cfg d u spq_arg nq_arg,
    db_ok d = true ->
    src2_transient_nameid decode_ create_ store_ (enc_self cfg d) (PStr u) (enc_opt spq_arg) (enc_opt nq_arg)
    = enc_out (snd (transient_nameid cfg d u spq_arg nq_arg fresh)).
Proof. exact src2_transient_nameid_answer. Qed.
Print Assumptions c18_source2_transient_nameid.

Theorem c18_source2_persistent_nameid :
  forall (decode_ : pyval -> pyval) (create_ : pyval -> pyval -> pyval -> pyval -> pyval)
         (store_ : pyval -> pyval -> pyval -> pyval) fresh,
  (forall s, decode_ (PStr s) = enc_decoded (decode s)) ->
  (forall self f q s, create_ self f q s = PStr fresh) ->
  (forall self u n, store_ self (PStr u) (enc_nid n) = PNone) ->
  forall cfg d u spq_arg nq_arg,
    db_ok d = true ->
    src2_persistent_nameid decode_ create_ store_ (enc_self cfg d) (PStr u) (enc_opt spq_arg) (enc_opt nq_arg)
    = enc_out (snd (persistent_nameid cfg d u spq_arg nq_arg fresh)).
Proof. exact src2_persistent_nameid_answer. Qed.
Print Assumptions c18_source2_persistent_nameid.
