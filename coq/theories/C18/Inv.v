(* C18/Inv.v — the state invariant of the identifier store and what each of the three dict actions
   (store one identifier, remove one identifier, remove-and-store = manage) does to it and to the
   facts that are tracked through a history (an identifier is stored / who owns an identifier). *)
From Coq Require Import String Ascii List Bool Arith Lia.
From Verif Require Import Base.Str Base.Percent C18.Model C18.Spec C18.Codec C18.Maps C18.Reflect.
Import ListNotations.
Open Scope string_scope.

(* ------------------------------------------------------------------ lists *)

Lemma nodup_map_inj {A B} (f : A -> B) l a b :
  NoDup (map f l) -> In a l -> In b l -> f a = f b -> a = b.
Proof.
  induction l as [|x r IH]; [intros _ []|]. cbn [map]. intros Hnd Ha Hb E.
  inversion Hnd as [|y ys Hx Hr]; subst.
  destruct Ha as [<-|Ha], Hb as [<-|Hb].
  - reflexivity.
  - exfalso. apply Hx. rewrite E. apply in_map. exact Hb.
  - exfalso. apply Hx. rewrite <- E. apply in_map. exact Ha.
  - apply IH; assumption.
Qed.

Lemma nodup_map_remove_first {B} (f : string -> B) x l :
  NoDup (map f l) -> NoDup (map f (remove_first x l)).
Proof.
  induction l as [|y r IH]; cbn [remove_first map]; [auto|]. intros Hnd.
  inversion Hnd as [|z zs Hy Hr]; subst. destruct (String.eqb x y); [exact Hr|].
  cbn [map]. constructor; [|apply IH; exact Hr].
  intros Hin. apply Hy. apply in_map_iff in Hin as (w & Hw1 & Hw2). apply in_map_iff.
  exists w. split; [exact Hw1|]. apply in_remove_first in Hw2. exact Hw2.
Qed.

Lemma nodup_remove_first_notin {B} (f : string -> B) x y l :
  NoDup (map f l) -> In x l -> In y (remove_first x l) -> f y <> f x.
Proof.
  induction l as [|z r IH]; [intros _ []|]. cbn [map remove_first]. intros Hnd Hx Hy.
  inversion Hnd as [|w ws Hz Hr]; subst. destruct (String.eqb x z) eqn:E.
  - apply String.eqb_eq in E. subst z. intros Ef. apply Hz. rewrite <- Ef. apply in_map. exact Hy.
  - apply String.eqb_neq in E. destruct Hx as [Hx|Hx]; [congruence|].
    destruct Hy as [<-|Hy].
    + intros Ef. apply Hz. rewrite Ef. apply in_map. exact Hx.
    + apply IH; assumption.
Qed.

Lemma NoDup_app_one {A} (l : list A) x : NoDup l -> ~ In x l -> NoDup (l ++ [x]).
Proof.
  induction l as [|y r IH]; cbn [app]; intros Hnd Hx.
  - constructor; [intros []|constructor].
  - inversion Hnd as [|z zs Hy Hr]; subst. constructor.
    + rewrite in_app_iff. intros [H|[H|[]]]; [contradiction|]. subst. apply Hx. left; reflexivity.
    + apply IH; [exact Hr|]. intros H. apply Hx. right; exact H.
Qed.

(* ------------------------------------------------------------------ what a stored code says *)

(* the stored identifier is of persistent format: what match_local_id looks at *)
Definition pers (c : string) : bool :=
  match decode c with Some n => eq_arg (fmt n) (Some NF_PERSISTENT) | None => false end.

Definition ckey (c : string) : option string * option string :=
  match decode c with Some n => (normo (spq n), normo (nq n)) | None => (None, None) end.

Lemma normo_idem o : normo (normo o) = normo o.
Proof. destruct o as [[|a s]|]; reflexivity. Qed.

Lemma eq_arg_normo_fmt o f : f <> "" -> eq_arg (normo o) (Some f) = eq_arg o (Some f).
Proof.
  intros Hf. destruct o as [[|a s]|]; try reflexivity. cbn. destruct f; [congruence|reflexivity].
Qed.

Lemma pers_code n : pers (code n) = eq_arg (fmt n) (Some NF_PERSISTENT).
Proof.
  unfold pers. rewrite decode_code. cbn [norm fmt]. rewrite eq_arg_normo_fmt by discriminate. reflexivity.
Qed.

Lemma ckey_code n : ckey (code n) = (normo (spq n), normo (nq n)).
Proof. unfold ckey. rewrite decode_code. cbn [norm spq nq]. rewrite !normo_idem. reflexivity. Qed.

Lemma truthy_some t : t <> "" -> truthy (Some t) = true.
Proof. destruct t; [congruence|reflexivity]. Qed.

Lemma ctext_code_some n t : txt n = Some t -> t <> "" -> ctext (code n) = Some t.
Proof. intros E Ht. rewrite ctext_code, E. apply truthy_normo. apply truthy_some. exact Ht. Qed.

Lemma decode_empty : decode "" = Some empty_nid.
Proof. reflexivity. Qed.

Definition part (o a : option string) : bool :=
  (truthy o && eq_arg o a) || (negb (truthy o) && negb (truthy a)).

Lemma part_iff o a : part o a = true <-> normo o = normo a.
Proof.
  unfold part. destruct o as [[|x s]|], a as [[|y r]|];
    cbn [truthy normo eq_arg opt_eqb negb andb orb]; try (split; [reflexivity|reflexivity]);
    try (split; [discriminate|discriminate]).
  rewrite orb_false_r, String.eqb_eq.
  split; [intros ->; reflexivity|intros E; inversion E; reflexivity].
Qed.

Lemma nid_matches_part n s q : nid_matches n s q = part (spq n) s && part (nq n) q.
Proof.
  unfold nid_matches, part.
  destruct (truthy (spq n) && eq_arg (spq n) s) eqn:E1; cbn [orb andb].
  - reflexivity.
  - destruct (negb (truthy (spq n)) && negb (truthy s)); reflexivity.
Qed.

Lemma nid_matches_iff n s q :
  nid_matches n s q = true <-> normo (spq n) = normo s /\ normo (nq n) = normo q.
Proof. rewrite nid_matches_part, andb_true_iff, !part_iff. tauto. Qed.

Lemma same_q_normo a b : same_q a b <-> normo a = normo b.
Proof.
  unfold same_q. destruct a as [[|x s]|], b as [[|y r]|]; cbn; split; intros H;
    try reflexivity; try (left; split; reflexivity); try (right; reflexivity);
    try (destruct H as [[H1 H2]|H]; discriminate); try discriminate.
  - destruct H as [[H1 H2]|H]; [discriminate|]. exact H.
  - right. exact H.
Qed.

(* first_match: what its answers mean *)
Lemma first_match_none l s q :
  first_match l s q = Ok None ->
  forall c, In c l -> exists m, decode c = Some m /\ (eq_arg (fmt m) (Some NF_PERSISTENT) = false \/ nid_matches m s q = false).
Proof.
  induction l as [|c0 r IH]; [intros _ c []|]. cbn [first_match].
  destruct (decode c0) as [m0|] eqn:Ed; [|discriminate].
  destruct (eq_arg (fmt m0) (Some NF_PERSISTENT)) eqn:Et; cbn [negb].
  - destruct (nid_matches m0 s q) eqn:Em; [discriminate|].
    intros H c [<-|Hc]; [exists m0; auto|apply IH; assumption].
  - intros H c [<-|Hc]; [exists m0; auto|apply IH; assumption].
Qed.

Lemma first_match_some l s q m :
  first_match l s q = Ok (Some m) ->
  exists c, In c l /\ decode c = Some m /\ eq_arg (fmt m) (Some NF_PERSISTENT) = true /\ nid_matches m s q = true.
Proof.
  induction l as [|c0 r IH]; [discriminate|]. cbn [first_match].
  destruct (decode c0) as [m0|] eqn:Ed; [|discriminate].
  destruct (eq_arg (fmt m0) (Some NF_PERSISTENT)) eqn:Et; cbn [negb].
  - destruct (nid_matches m0 s q) eqn:Em.
    + intros H. inversion H; subst. exists c0. repeat split; auto. left; reflexivity.
    + intros H. destruct (IH H) as (c & Hc & Hr). exists c. split; [right; exact Hc|exact Hr].
  - intros H. destruct (IH H) as (c & Hc & Hr). exists c. split; [right; exact Hc|exact Hr].
Qed.

Lemma in_elements_fw d u v c : lookup u d = Some v -> In c (elements v) -> c = "" \/ In c (fw d u).
Proof.
  intros Hv Hc. unfold fw. rewrite Hv. destruct c as [|a s]; [left; reflexivity|right].
  apply filter_In. split; [exact Hc|reflexivity].
Qed.

Lemma fw_in_elements d u c : In c (fw d u) -> exists v, lookup u d = Some v /\ In c (elements v) /\ c <> "".
Proof.
  unfold fw. destruct (lookup u d) as [v|]; [|intros []]. intros H. apply filter_In in H as [H1 H2].
  exists v. repeat split; [exact H1|]. apply nonempty_iff. exact H2.
Qed.

(* decoding every element: the spec's [decoded] and the model's [decode_all] *)
Lemma decoded_decode_all l :
  (forall c, In c l -> exists n, decode c = Some n) -> exists all, decoded l = Some all /\ decode_all l = Ok all.
Proof.
  induction l as [|c r IH]; intros H; [exists []; split; reflexivity|].
  destruct (H c (or_introl eq_refl)) as (n & Hn).
  destruct IH as (all & H1 & H2); [intros c' Hc'; apply H; right; exact Hc'|].
  exists (n :: all). cbn [decoded decode_all]. rewrite Hn, H1, H2. split; reflexivity.
Qed.

(* ------------------------------------------------------------------ the invariant *)
Section Inv.
  Variable is_user : string -> bool.

  Record Inv (seen : list string) (d : db) : Prop := {
    inv_codes : forall u c, is_user u = true -> In c (fw d u) ->
                exists n t, c = code n /\ txt n = Some t /\ t <> "" /\ is_user t = false;
    inv_fwd : forward_ok is_user d;
    inv_rev : reverse_ok is_user d;
    inv_keys : forall k v, is_user k = false -> lookup k d = Some v -> In k seen /\ k <> "";
    inv_nodup : forall u, is_user u = true -> NoDup (map ctext (fw d u));
    inv_single : forall u c1 c2, is_user u = true -> In c1 (fw d u) -> In c2 (fw d u) ->
                 pers c1 = true -> pers c2 = true -> ckey c1 = ckey c2 -> c1 = c2;
    inv_noempty : forall u v x, is_user u = true -> lookup u d = Some v -> In x (elements v) -> x <> ""
  }.

  Lemma inv_init : Inv [] [].
  Proof.
    constructor.
    - intros u c _ [].
    - intros u c _ [].
    - intros t u _ H. discriminate.
    - intros k v _ H. discriminate.
    - intros u _. constructor.
    - intros u c1 c2 _ [].
    - intros u v x _ H. discriminate.
  Qed.

  Lemma inv_weaken seen seen' d : Inv seen d -> incl seen seen' -> Inv seen' d.
  Proof.
    intros [H1 H2 H3 H4 H5 H6 H7] Hi. constructor; try assumption.
    intros k v Hk Hl. destruct (H4 k v Hk Hl) as [Ha Hb]. split; [apply Hi; exact Ha|exact Hb].
  Qed.

  (* everything the invariant says about one stored identifier *)
  Lemma inv_entry seen d u c :
    Inv seen d -> is_user u = true -> In c (fw d u) ->
    exists n t, c = code n /\ txt n = Some t /\ t <> "" /\ is_user t = false
                /\ ctext c = Some t /\ lookup t d = Some u /\ In t seen.
  Proof.
    intros HI Hu Hc. destruct (inv_codes _ _ HI u c Hu Hc) as (n & t & -> & Ht & Hne & Htu).
    pose proof (ctext_code_some n t Ht Hne) as Hct.
    destruct (inv_fwd _ _ HI u _ Hu Hc) as (t' & Ht' & Hl). rewrite Hct in Ht'. inversion Ht'; subst t'.
    exists n, t. repeat split; try assumption. apply (inv_keys _ _ HI t u Htu Hl).
  Qed.

  (* in a reachable state a user's entry has no empty element: the stored identifiers are its elements *)
  Lemma inv_fw_elements seen d u v : Inv seen d -> is_user u = true -> lookup u d = Some v -> fw d u = elements v.
  Proof.
    intros HI Hu Hv. unfold fw. rewrite Hv.
    assert (H : forall l : list string, (forall x, In x l -> x <> "") -> filter nonempty l = l).
    { induction l as [|x r IH]; [reflexivity|]. intros Hx. cbn [filter].
      destruct x as [|a x]; [exfalso; apply (Hx ""); [left; reflexivity|reflexivity]|].
      cbn [nonempty is_empty_str negb]. f_equal. apply IH. intros y Hy. apply Hx. right. exact Hy. }
    apply H. intros x Hx. apply (inv_noempty _ _ HI u v x Hu Hv Hx).
  Qed.

  Lemma inv_unique seen d u c1 c2 :
    Inv seen d -> is_user u = true -> In c1 (fw d u) -> In c2 (fw d u) -> ctext c1 = ctext c2 -> c1 = c2.
  Proof. intros HI Hu H1 H2 E. exact (nodup_map_inj ctext _ _ _ (inv_nodup _ _ HI u Hu) H1 H2 E). Qed.

  Lemma inv_fresh seen d t : Inv seen d -> is_user t = false -> ~ In t seen -> lookup t d = None.
  Proof.
    intros HI Ht Hn. destruct (lookup t d) as [v|] eqn:E; [|reflexivity].
    exfalso. apply Hn. apply (inv_keys _ _ HI t v Ht E).
  Qed.

  (* the text of an identifier stored for a user has been mentioned *)
  Lemma stored_text_seen seen d u v c m t :
    Inv seen d -> is_user u = true -> lookup u d = Some v -> In c (elements v) ->
    decode c = Some m -> txt m = Some t ->
    In c (fw d u) /\ ctext c = Some t /\ In t seen.
  Proof.
    intros HI Hu Hv Hc Hd Ht. destruct (in_elements_fw d u v c Hv Hc) as [->|Hin].
    - rewrite decode_empty in Hd. inversion Hd; subst. discriminate.
    - destruct (inv_entry _ _ u c HI Hu Hin) as (n & t' & _ & _ & _ & _ & Hct & _ & Hs).
      unfold ctext in Hct. rewrite Hd, Ht in Hct. inversion Hct; subst t'.
      repeat split; try assumption. unfold ctext. rewrite Hd. exact Ht.
  Qed.

  (* ---------------------------------------------------------------- tracked facts *)
  Definition Has (d : db) (u t : string) : Prop := exists c, In c (fw d u) /\ ctext c = Some t.

  Definition Owner (d : db) (t u : string) (k : option string * option string) (b : bool) : Prop :=
    forall u' c, is_user u' = true -> In c (fw d u') -> ctext c = Some t -> u' = u /\ ckey c = k /\ pers c = b.

  Lemma owner_of seen d u c t :
    Inv seen d -> is_user u = true -> In c (fw d u) -> ctext c = Some t -> Owner d t u (ckey c) (pers c).
  Proof.
    intros HI Hu Hc Ht u' c' Hu' Hc' Ht'.
    destruct (inv_entry _ _ u c HI Hu Hc) as (_ & t1 & _ & _ & _ & _ & E1 & L1 & _).
    destruct (inv_entry _ _ u' c' HI Hu' Hc') as (_ & t2 & _ & _ & _ & _ & E2 & L2 & _).
    rewrite Ht in E1. rewrite Ht' in E2. inversion E1; inversion E2; subst t1 t2.
    assert (u' = u) by congruence. subst u'.
    assert (c' = c) by (apply (inv_unique _ _ u c' c HI Hu Hc' Hc); congruence). subst c'. auto.
  Qed.

  Lemma has_lookup seen d u t : Inv seen d -> is_user u = true -> Has d u t -> lookup t d = Some u.
  Proof.
    intros HI Hu (c & Hc & Ht).
    destruct (inv_entry _ _ u c HI Hu Hc) as (_ & t1 & _ & _ & _ & _ & E1 & L1 & _). congruence.
  Qed.

  (* ---------------------------------------------------------------- store one identifier *)
  Definition single_cond (d : db) (u : string) (n : nameid) : Prop :=
    pers (code n) = true -> forall c, In c (fw d u) -> pers c = true -> ckey c <> ckey (code n).

  Section Store.
    Variables (d : db) (u : string) (n : nameid) (t : string).
    Hypothesis Hu : is_user u = true.
    Hypothesis Ht : txt n = Some t.
    Hypothesis Hne : t <> "".
    Hypothesis Htu : is_user t = false.

    Let d' := store_db d u n t.

    Lemma store_tu : t <> u.
    Proof. intros E. subst. congruence. Qed.

    Lemma store_fw_u : fw d' u = (fw d u ++ [code n])%list.
    Proof. apply fw_store_db; [apply store_tu|rewrite Ht; apply truthy_some; exact Hne]. Qed.

    Lemma store_fw_other k : is_user k = true -> k <> u -> fw d' k = fw d k.
    Proof. intros Hk Hku. apply fw_store_db_other; [exact Hku|]. intros E. subst. congruence. Qed.

    Lemma store_fw_in k c : is_user k = true -> In c (fw d' k) -> In c (fw d k) \/ (k = u /\ c = code n).
    Proof.
      intros Hk Hc. destruct (string_dec k u) as [->|Hku].
      - rewrite store_fw_u in Hc. apply in_app_iff in Hc as [Hc|[<-|[]]]; auto.
      - rewrite store_fw_other in Hc by assumption. auto.
    Qed.

    Lemma store_fw_incl k c : is_user k = true -> In c (fw d k) -> In c (fw d' k).
    Proof.
      intros Hk Hc. destruct (string_dec k u) as [->|Hku].
      - rewrite store_fw_u. apply in_app_iff. auto.
      - rewrite store_fw_other by assumption. exact Hc.
    Qed.

    Lemma store_lookup_text k : is_user k = false -> k <> t -> lookup k d' = lookup k d.
    Proof. intros Hk Hkt. apply lookup_store_db; [|exact Hkt]. intros E. subst. congruence. Qed.

    Lemma store_new_in : In (code n) (fw d' u).
    Proof. rewrite store_fw_u. apply in_app_iff. right. left. reflexivity. Qed.

    Lemma store_inv seen seen' :
      Inv seen d -> lookup t d = None -> incl seen seen' -> In t seen' -> single_cond d u n -> Inv seen' d'.
    Proof.
      intros HI Hfresh Hincl Hseen Hsingle.
      pose proof (ctext_code_some n t Ht Hne) as Hct.
      constructor.
      - intros k c Hk Hc. destruct (store_fw_in k c Hk Hc) as [Hc'|[-> ->]].
        + apply (inv_codes _ _ HI k c Hk Hc').
        + exists n, t. auto.
      - intros k c Hk Hc. destruct (store_fw_in k c Hk Hc) as [Hc'|[-> ->]].
        + destruct (inv_entry _ _ k c HI Hk Hc') as (_ & t0 & _ & _ & _ & Ht0u & Hc0 & Hl0 & _).
          exists t0. split; [exact Hc0|]. rewrite store_lookup_text; [exact Hl0|exact Ht0u|congruence].
        + exists t. split; [exact Hct|apply lookup_store_db_text].
      - intros t0 k Ht0 Hl. destruct (string_dec t0 t) as [->|Hne0].
        + unfold d' in Hl. rewrite lookup_store_db_text in Hl. inversion Hl; subst k.
          split; [exact Hu|]. exists (code n). split; [apply store_new_in|exact Hct].
        + rewrite store_lookup_text in Hl by assumption.
          destruct (inv_rev _ _ HI t0 k Ht0 Hl) as (Hk & c & Hc & Hc2).
          split; [exact Hk|]. exists c. split; [apply store_fw_incl; assumption|exact Hc2].
      - intros k v Hk Hl. destruct (string_dec k t) as [->|Hkt].
        + auto.
        + rewrite store_lookup_text in Hl by assumption.
          destruct (inv_keys _ _ HI k v Hk Hl) as [Ha Hb]. split; [apply Hincl; exact Ha|exact Hb].
      - intros k Hk. destruct (string_dec k u) as [->|Hku].
        + rewrite store_fw_u, map_app. cbn [map]. rewrite Hct.
          apply NoDup_app_one; [apply (inv_nodup _ _ HI u Hu)|].
          intros Hin. apply in_map_iff in Hin as (c & Hc1 & Hc2).
          destruct (inv_entry _ _ u c HI Hu Hc2) as (_ & t0 & _ & _ & _ & _ & E & L & _). congruence.
        + rewrite store_fw_other by assumption. apply (inv_nodup _ _ HI k Hk).
      - intros k c1 c2 Hk H1 H2 N1 N2 Ek.
        destruct (store_fw_in k c1 Hk H1) as [H1'|[E1 E1c]]; destruct (store_fw_in k c2 Hk H2) as [H2'|[E2 E2c]].
        + apply (inv_single _ _ HI k c1 c2 Hk H1' H2' N1 N2 Ek).
        + subst k c2. exfalso. exact (Hsingle N2 c1 H1' N1 Ek).
        + subst k c1. exfalso. apply (Hsingle N1 c2 H2' N2). symmetry. exact Ek.
        + subst c1 c2. reflexivity.
      - intros k v x Hk Hl Hx. destruct (string_dec k u) as [->|Hku].
        + unfold d' in Hl. rewrite store_db_fw, lookup_set_neq, lookup_set_eq in Hl by (intros E; subst; congruence).
          assert (Ev : v = join " " (fw d u ++ [code n])) by congruence. subst v. rewrite elements_join in Hx.
          * apply in_app_iff in Hx as [Hx|[<-|[]]].
            -- unfold fw in Hx. destruct (lookup u d); [|destruct Hx]. apply filter_In in Hx as [_ Hx].
               apply nonempty_iff. exact Hx.
            -- apply code_nonempty. rewrite Ht. apply truthy_some. exact Hne.
          * destruct (fw d u); discriminate.
          * intros y Hy. apply in_app_iff in Hy as [Hy|[<-|[]]]; [apply (fw_no_space d u y Hy)|apply code_no_space].
        + unfold d' in Hl. rewrite lookup_store_db in Hl; [|exact Hku|intros E; subst; congruence].
          apply (inv_noempty _ _ HI k v x Hk Hl Hx).
    Qed.

    Lemma store_has k t0 : is_user k = true -> Has d k t0 -> Has d' k t0.
    Proof. intros Hk (c & Hc & E). exists c. split; [apply store_fw_incl; assumption|exact E]. Qed.

    Lemma store_owner t0 k key b : t0 <> t -> Owner d t0 k key b -> Owner d' t0 k key b.
    Proof.
      intros Hne0 Ho k' c Hk' Hc E. destruct (store_fw_in k' c Hk' Hc) as [Hc'|[-> ->]].
      - apply (Ho k' c Hk' Hc' E).
      - rewrite (ctext_code_some n t Ht Hne) in E. congruence.
    Qed.
  End Store.

  (* ---------------------------------------------------------------- remove one identifier *)
  Lemma remove_inv seen d n d1 t :
    Inv seen d -> remove_remote d n = Ok d1 -> txt n = Some t -> is_user t = false ->
    exists id, lookup t d = Some id /\ is_user id = true /\ In (code n) (fw d id) /\ t <> ""
      /\ Inv seen d1 /\ lookup t d1 = None
      /\ fw d1 id = remove_first (code n) (fw d id)
      /\ (forall k, k <> id -> k <> t -> lookup k d1 = lookup k d)
      /\ (forall k, is_user k = true -> k <> id -> fw d1 k = fw d k).
  Proof.
    intros HI Hr Ht Htu.
    destruct (remove_remote_ok d n d1 Hr) as (t' & id & Ht' & Hl & Hcase).
    rewrite Ht in Ht'. inversion Ht'; subst t'. clear Ht'.
    destruct (inv_keys _ _ HI t id Htu Hl) as [Hseen Hne].
    destruct (inv_rev _ _ HI t id Htu Hl) as (Hid & c0 & Hc0 & Hc0t).
    destruct (fw_in_key d id c0 Hc0) as [v Hv].
    destruct Hcase as [[Hnone _]|(v' & Hv' & Hin & ->)]; [congruence|].
    rewrite Hv in Hv'. inversion Hv'; subst v'. clear Hv'.
    assert (Hcne : code n <> "") by (apply code_nonempty; rewrite Ht; apply truthy_some; exact Hne).
    assert (Hcin : In (code n) (fw d id)).
    { destruct (in_elements_fw d id v (code n) Hv Hin) as [E|H]; [contradiction|exact H]. }
    assert (Htid : t <> id) by (intros E; subst; congruence).
    pose proof (ctext_code_some n t Ht Hne) as Hct.
    set (d0 := put_rest id (remove_first (code n) (elements v)) d).
    assert (Hfw_id : fw (del t d0) id = remove_first (code n) (fw d id)).
    { rewrite fw_del_other by congruence. unfold d0. apply fw_remove; assumption. }
    assert (Hlk : forall k, k <> id -> k <> t -> lookup k (del t d0) = lookup k d).
    { intros k H1 H2. rewrite lookup_del_neq by exact H2. unfold d0. apply lookup_put_rest. exact H1. }
    assert (Hfw_o : forall k, is_user k = true -> k <> id -> fw (del t d0) k = fw d k).
    { intros k Hk Hkid. rewrite fw_del_other by (intros E; subst; congruence).
      unfold d0. apply fw_put_rest_other. exact Hkid. }
    assert (Hsub : forall k c, is_user k = true -> In c (fw (del t d0) k) -> In c (fw d k)).
    { intros k c Hk Hc. destruct (string_dec k id) as [->|Hkid].
      - rewrite Hfw_id in Hc. apply in_remove_first in Hc. exact Hc.
      - rewrite Hfw_o in Hc by assumption. exact Hc. }
    exists id. split; [exact Hl|]. split; [exact Hid|]. split; [exact Hcin|]. split; [exact Hne|].
    split; [|split; [apply lookup_del_eq|split; [exact Hfw_id|split; [exact Hlk|exact Hfw_o]]]].
    - (* Inv *)
      constructor.
      + intros k c Hk Hc. apply (inv_codes _ _ HI k c Hk (Hsub k c Hk Hc)).
      + intros k c Hk Hc.
        destruct (inv_entry _ _ k c HI Hk (Hsub k c Hk Hc)) as (_ & t0 & _ & _ & _ & Ht0u & Hc0' & Hl0 & _).
        exists t0. split; [exact Hc0'|].
        assert (Ht0 : t0 <> t).
        { intros ->. assert (k = id) by congruence. subst k. rewrite Hfw_id in Hc.
          apply (nodup_remove_first_notin ctext (code n) c (fw d id) (inv_nodup _ _ HI id Hid) Hcin Hc). congruence. }
        rewrite Hlk; [exact Hl0| |exact Ht0]. intros E. subst. congruence.
      + intros t0 k Ht0 Hl0.
        assert (Ht0t : t0 <> t) by (intros ->; rewrite lookup_del_eq in Hl0; discriminate).
        rewrite Hlk in Hl0; [| intros E; subst; congruence | exact Ht0t].
        destruct (inv_rev _ _ HI t0 k Ht0 Hl0) as (Hk & c & Hc & Hc2). split; [exact Hk|].
        exists c. split; [|exact Hc2]. destruct (string_dec k id) as [->|Hkid].
        * rewrite Hfw_id. apply in_remove_first_other; [exact Hc|]. intros ->. congruence.
        * rewrite Hfw_o by assumption. exact Hc.
      + intros k v0 Hk Hl0.
        assert (Hkt : k <> t) by (intros ->; rewrite lookup_del_eq in Hl0; discriminate).
        rewrite Hlk in Hl0; [| intros E; subst; congruence | exact Hkt].
        apply (inv_keys _ _ HI k v0 Hk Hl0).
      + intros k Hk. destruct (string_dec k id) as [->|Hkid].
        * rewrite Hfw_id. apply nodup_map_remove_first. apply (inv_nodup _ _ HI id Hk).
        * rewrite Hfw_o by assumption. apply (inv_nodup _ _ HI k Hk).
      + intros k c1 c2 Hk H1 H2. apply (inv_single _ _ HI k c1 c2 Hk (Hsub k c1 Hk H1) (Hsub k c2 Hk H2)).
      + intros k v0 x Hk Hl0 Hx. destruct (string_dec k id) as [->|Hkid].
        * rewrite lookup_del_neq in Hl0 by (intros E; subst; congruence). unfold d0, put_rest in Hl0.
          destruct (remove_first (code n) (elements v)) as [|a r] eqn:Er.
          -- rewrite lookup_del_eq in Hl0. discriminate.
          -- rewrite lookup_set_eq in Hl0. assert (Ev0 : v0 = join " " (a :: r)) by congruence. subst v0.
             rewrite <- Er in Hx.
             rewrite elements_join in Hx.
             ++ apply in_remove_first in Hx. apply (inv_noempty _ _ HI id v x Hk Hv Hx).
             ++ rewrite Er. discriminate.
             ++ intros y Hy. apply in_remove_first in Hy. apply (elements_no_space v y Hy).
        * rewrite Hlk in Hl0; [|exact Hkid|intros E; subst; congruence].
          apply (inv_noempty _ _ HI k v0 x Hk Hl0 Hx).
  Qed.

  (* identifiers that differ in sp_provided_id only *)
  Lemma code_same_view n n' :
    nq n' = nq n -> spq n' = spq n -> fmt n' = fmt n -> txt n' = txt n ->
    ckey (code n') = ckey (code n) /\ pers (code n') = pers (code n) /\ ctext (code n') = ctext (code n).
  Proof.
    intros E1 E2 E3 E4. rewrite !ckey_code, !pers_code, !ctext_code, E1, E2, E3, E4. auto.
  Qed.
End Inv.
