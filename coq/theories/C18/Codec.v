(* C18/Codec.v — code() / decode(): the fast quote/unquote of the model are Percent.quote/unquote;
   decode (code n) = Some (norm n) and code is injective up to norm, for ALL five-field
   identifiers over arbitrary byte strings. *)
From Coq Require Import String Ascii List Bool Arith NArith ZArith Lia.
From Verif Require Import Base.Str Base.Percent C18.Model C18.Spec.
Import ListNotations.
Open Scope string_scope.

(* ------------------------------------------------------------------ quote_f = quote, unquote_f = unquote *)

Lemma quote_char_f_eq : forall c, quote_char_f c = quote_char safe_slash c.
Proof.
  intros c. apply String.eqb_eq. revert c.
  apply (all_ascii (fun c => String.eqb (quote_char_f c) (quote_char safe_slash c))).
  vm_compute. reflexivity.
Qed.

Lemma quote_f_eq s : quote_f s = quote s.
Proof.
  unfold quote. induction s as [|c r IH]; cbn [quote_f quote_with]; [reflexivity|].
  rewrite quote_char_f_eq, IH. reflexivity.
Qed.

Definition all_chars256 : list ascii := map ascii_of_nat (seq 0 256).

Definition hex_pair_ok (a b : ascii) : bool :=
  match hexval_f a, hexval_f b, hexval a, hexval b with
  | Some x, Some y, Some x', Some y' => Ascii.eqb (ascii_of_N (16 * x + y)) (ascii_of_nat (16 * x' + y'))
  | None, _, None, _ => true
  | Some _, None, Some _, None => true
  | _, _, _, _ => false
  end.

Lemma hex_pair_all : forall a b, hex_pair_ok a b = true.
Proof.
  assert (H : forall a, forallb (hex_pair_ok a) all_chars256 = true).
  { apply (all_ascii (fun a => forallb (hex_pair_ok a) all_chars256)). vm_compute. reflexivity. }
  intros a b. specialize (H a). rewrite forallb_forall in H. apply H.
  unfold all_chars256. rewrite <- (ascii_nat_embedding b). apply in_map. apply in_seq.
  pose proof (nat_ascii_bounded b). lia.
Qed.

Lemma unquote_f_eq_len : forall n s, String.length s <= n -> unquote_f s = unquote s.
Proof.
  induction n as [|n IH]; intros s Hl.
  - destruct s; [reflexivity|cbn in Hl; lia].
  - destruct s as [|c r]; [reflexivity|]. cbn [String.length] in Hl.
    cbn [unquote_f unquote]. change pct_char with "%"%char.
    destruct (Ascii.eqb c "%") eqn:Ec.
    + destruct r as [|a [|b r2]].
      * reflexivity.
      * rewrite (IH (String a "")) by (cbn in *; lia). reflexivity.
      * pose proof (hex_pair_all a b) as Hp. unfold hex_pair_ok in Hp.
        cbn [String.length] in Hl.
        destruct (hexval_f a) as [x|], (hexval_f b) as [y|], (hexval a) as [x'|], (hexval b) as [y'|];
          try discriminate;
          try (rewrite (IH (String a (String b r2))) by (cbn in *; lia); reflexivity).
        apply Ascii.eqb_eq in Hp. rewrite Hp. rewrite (IH r2) by lia. reflexivity.
    + rewrite (IH r) by lia. reflexivity.
Qed.

Lemma unquote_f_eq s : unquote_f s = unquote s.
Proof. apply (unquote_f_eq_len (String.length s)). lia. Qed.

Lemma unquote_quote_f s : unquote_f (quote_f s) = s.
Proof. rewrite unquote_f_eq, quote_f_eq. apply unquote_quote. Qed.

(* ------------------------------------------------------------------ characters of a quoted value *)

Definition no_char (sep : ascii) (s : string) : bool := all_chars (fun c => negb (Ascii.eqb c sep)) s.

Lemma all_chars_impl (p q : ascii -> bool) s :
  (forall c, p c = true -> q c = true) -> all_chars p s = true -> all_chars q s = true.
Proof.
  intros H. induction s as [|c r IH]; cbn; [reflexivity|].
  intros Hp. apply andb_true_iff in Hp as [H1 H2]. rewrite (H c H1), (IH H2). reflexivity.
Qed.

Lemma quoted_excludes : forall c, quoted_alphabet safe_slash c = true ->
  negb (Ascii.eqb c comma_char) && negb (Ascii.eqb c eq_char) && negb (Ascii.eqb c space_char) = true.
Proof.
  assert (H : forall c, implb (quoted_alphabet safe_slash c)
     (negb (Ascii.eqb c comma_char) && negb (Ascii.eqb c eq_char) && negb (Ascii.eqb c space_char)) = true).
  { apply (all_ascii (fun c => implb (quoted_alphabet safe_slash c)
     (negb (Ascii.eqb c comma_char) && negb (Ascii.eqb c eq_char) && negb (Ascii.eqb c space_char)))).
    vm_compute. reflexivity. }
  intros c Hc. specialize (H c). rewrite Hc in H. exact H.
Qed.

Lemma quote_f_no sep s :
  (sep = comma_char \/ sep = eq_char \/ sep = space_char) -> no_char sep (quote_f s) = true.
Proof.
  intros Hs. rewrite quote_f_eq. unfold no_char, quote.
  apply (all_chars_impl (quoted_alphabet safe_slash)); [|apply quote_with_alphabet].
  intros c Hc. apply quoted_excludes in Hc.
  apply andb_true_iff in Hc as [Hc H3]. apply andb_true_iff in Hc as [H1 H2].
  destruct Hs as [->|[->| ->]]; assumption.
Qed.

(* ------------------------------------------------------------------ split / join *)

Lemma no_char_app sep a b : no_char sep (a ++ b) = no_char sep a && no_char sep b.
Proof. apply all_chars_app. Qed.

Lemma split_on_none sep s : no_char sep s = true -> split_on sep s = [s].
Proof.
  induction s as [|c r IH]; cbn [split_on no_char all_chars]; [reflexivity|].
  intros H. apply andb_true_iff in H as [H1 H2]. apply negb_true_iff in H1. rewrite H1.
  unfold no_char in IH. rewrite (IH H2). reflexivity.
Qed.

Lemma split_on_app_sep sep a b :
  no_char sep a = true -> split_on sep (a ++ String sep b) = a :: split_on sep b.
Proof.
  induction a as [|c r IH]; cbn [append split_on no_char all_chars].
  - intros _. rewrite Ascii.eqb_refl. reflexivity.
  - intros H. apply andb_true_iff in H as [H1 H2]. apply negb_true_iff in H1. rewrite H1.
    unfold no_char in IH. rewrite (IH H2). reflexivity.
Qed.

Lemma split_on_join sep l :
  l <> [] -> (forall x, In x l -> no_char sep x = true) ->
  split_on sep (join (String sep EmptyString) l) = l.
Proof.
  induction l as [|a l IH]; [congruence|]. intros _ Hall.
  destruct l as [|b l].
  - cbn [join]. apply split_on_none. apply Hall. left; reflexivity.
  - rewrite join_cons. cbn [append].
    rewrite split_on_app_sep by (apply Hall; left; reflexivity).
    rewrite IH; [reflexivity|discriminate|]. intros x Hx. apply Hall. right; exact Hx.
Qed.

Lemma split_on_parts_no_sep sep s : forall x, In x (split_on sep s) -> no_char sep x = true.
Proof.
  induction s as [|c r IH]; cbn [split_on].
  - intros x [<-|[]]. reflexivity.
  - destruct (Ascii.eqb c sep) eqn:E.
    + intros x [<-|Hx]; [reflexivity|apply IH; exact Hx].
    + pose proof (split_on_nonempty sep r) as Hne.
      destruct (split_on sep r) as [|f fs]; [contradiction|].
      intros x [<-|Hx].
      * cbn [no_char all_chars]. rewrite E. cbn. apply IH. left; reflexivity.
      * apply IH. right; exact Hx.
Qed.

Lemma sapp_assoc (a b c : string) : (a ++ b) ++ c = a ++ b ++ c.
Proof. induction a as [|x a IH]; cbn; [reflexivity|]. rewrite IH. reflexivity. Qed.

Lemma sapp_nil_r (a : string) : a ++ "" = a.
Proof. induction a as [|x a IH]; cbn; [reflexivity|]. rewrite IH. reflexivity. Qed.

Lemma slength_app (a b : string) : String.length (a ++ b) = String.length a + String.length b.
Proof. induction a as [|x a IH]; cbn; [reflexivity|]. rewrite IH. reflexivity. Qed.

Lemma join_app_last sep l c : l <> [] -> join sep (l ++ [c]) = join sep l ++ sep ++ c.
Proof.
  induction l as [|a l IH]; [congruence|]. intros _.
  destruct l as [|b l].
  - reflexivity.
  - change ((a :: b :: l) ++ [c])%list with (a :: (b :: l) ++ [c])%list.
    cbn [app]. rewrite !join_cons. rewrite <- app_comm_cons in IH. rewrite IH by discriminate.
    rewrite !sapp_assoc. reflexivity.
Qed.

(* ------------------------------------------------------------------ decode (code n) *)

Definition upd (k : Z) (v : option string) (m : nameid) : nameid :=
  if truthy v then match v with Some s => set_field k s m | None => m end else m.

Definition idx_ok (i : string) (k : Z) : Prop :=
  no_char eq_char i = true /\ no_char comma_char i = true /\ no_char space_char i = true /\ py_int i = Some k.

Lemma idx_ok_0 : idx_ok "0" 0. Proof. repeat split; reflexivity. Qed.
Lemma idx_ok_1 : idx_ok "1" 1. Proof. repeat split; reflexivity. Qed.
Lemma idx_ok_2 : idx_ok "2" 2. Proof. repeat split; reflexivity. Qed.
Lemma idx_ok_3 : idx_ok "3" 3. Proof. repeat split; reflexivity. Qed.
Lemma idx_ok_4 : idx_ok "4" 4. Proof. repeat split; reflexivity. Qed.

Lemma decode_part i k s rest m :
  idx_ok i k ->
  decode_parts ((i ++ "=" ++ quote_f s) :: rest) m = decode_parts rest (set_field k s m).
Proof.
  intros (Hi & _ & _ & Hk). cbn [decode_parts].
  change (i ++ "=" ++ quote_f s) with (i ++ String eq_char (quote_f s)).
  rewrite split_on_app_sep by exact Hi.
  rewrite split_on_none by (apply quote_f_no; auto).
  rewrite Hk, unquote_quote_f. reflexivity.
Qed.

Lemma decode_field i k v rest m :
  idx_ok i k -> decode_parts (field_code i v ++ rest) m = decode_parts rest (upd k v m).
Proof.
  intros Hi. unfold field_code, upd. destruct (truthy v) eqn:Ht; [|reflexivity].
  destruct v as [s|]; [|discriminate]. cbn [app]. apply decode_part. exact Hi.
Qed.

Lemma field_code_no sep i k v :
  idx_ok i k -> (sep = comma_char \/ sep = space_char) ->
  forall x, In x (field_code i v) -> no_char sep x = true.
Proof.
  intros (H1 & H2 & H3 & _) Hs x. unfold field_code. destruct (truthy v); [|intros []].
  destruct v as [s|]; [|intros []]. intros [<-|[]].
  rewrite !no_char_app. rewrite quote_f_no by (destruct Hs; auto).
  destruct Hs as [-> | ->]; [rewrite H2|rewrite H3]; reflexivity.
Qed.

Lemma code_parts_no sep n :
  (sep = comma_char \/ sep = space_char) -> forall x, In x (code_parts n) -> no_char sep x = true.
Proof.
  intros Hs x. unfold code_parts. rewrite !in_app_iff.
  intros [H|[H|[H|[H|H]]]]; revert H; eapply field_code_no; eauto using idx_ok_0, idx_ok_1, idx_ok_2, idx_ok_3, idx_ok_4.
Qed.

Lemma decode_code_parts n : decode (code n) = decode_parts (code_parts n) empty_nid.
Proof.
  unfold decode, code. destruct (code_parts n) as [|a l] eqn:E; [reflexivity|].
  change "," with (String comma_char EmptyString).
  rewrite split_on_join; [reflexivity|discriminate|].
  rewrite <- E. apply code_parts_no. left; reflexivity.
Qed.

Theorem decode_code n : decode (code n) = Some (norm n).
Proof.
  rewrite decode_code_parts. unfold code_parts.
  rewrite (decode_field "0" 0) by apply idx_ok_0.
  rewrite (decode_field "1" 1) by apply idx_ok_1.
  rewrite (decode_field "2" 2) by apply idx_ok_2.
  rewrite (decode_field "3" 3) by apply idx_ok_3.
  rewrite <- (app_nil_r (field_code "4" (txt n))).
  rewrite (decode_field "4" 4) by apply idx_ok_4.
  cbn [decode_parts]. f_equal. unfold norm, upd, normo.
  destruct n as [a b c d e]; cbn [nq spq fmt spid txt].
  destruct a as [[|? ?]|], b as [[|? ?]|], c as [[|? ?]|], d as [[|? ?]|], e as [[|? ?]|]; reflexivity.
Qed.

Theorem code_injective n m : code n = code m -> norm n = norm m.
Proof.
  intros H. pose proof (decode_code n) as Hn. rewrite H, decode_code in Hn. congruence.
Qed.

Lemma norm_idem n : norm (norm n) = norm n.
Proof.
  destruct n as [a b c d e]. unfold norm, normo; cbn [nq spq fmt spid txt].
  destruct a as [[|? ?]|], b as [[|? ?]|], c as [[|? ?]|], d as [[|? ?]|], e as [[|? ?]|]; reflexivity.
Qed.

(* code depends on the normal form only *)
Lemma code_norm n : code (norm n) = code n.
Proof.
  destruct n as [a b c d e]. unfold code, code_parts, norm, normo, field_code; cbn [nq spq fmt spid txt].
  destruct a as [[|? ?]|], b as [[|? ?]|], c as [[|? ?]|], d as [[|? ?]|], e as [[|? ?]|]; reflexivity.
Qed.

Theorem code_injective_iff n m : code n = code m <-> norm n = norm m.
Proof.
  split; [apply code_injective|]. intros H. rewrite <- (code_norm n), <- (code_norm m), H. reflexivity.
Qed.

Lemma code_no_space n : no_char space_char (code n) = true.
Proof.
  unfold code. pose proof (code_parts_no space_char n (or_intror eq_refl)) as H.
  induction (code_parts n) as [|a l IH]; [reflexivity|].
  destruct l as [|b l].
  - cbn [join]. apply H. left; reflexivity.
  - rewrite join_cons, !no_char_app. rewrite (H a) by (left; reflexivity).
    rewrite IH by (intros x Hx; apply H; right; exact Hx). reflexivity.
Qed.

Lemma ctext_code n : ctext (code n) = normo (txt n).
Proof. unfold ctext. rewrite decode_code. reflexivity. Qed.

Lemma truthy_normo o : truthy o = true -> normo o = o.
Proof. unfold normo. intros ->. reflexivity. Qed.

Lemma code_nonempty n : truthy (txt n) = true -> code n <> "".
Proof.
  intros Ht Hc. pose proof (ctext_code n) as H. rewrite Hc in H. rewrite truthy_normo in H by exact Ht.
  cbn in H. rewrite <- H in Ht. discriminate.
Qed.
