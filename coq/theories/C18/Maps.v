(* C18/Maps.v — the dict as a finite map; boolean equalities; forward-entry algebra. *)
From Coq Require Import String Ascii List Bool Arith Lia.
From Verif Require Import Base.Str Base.Percent C18.Model C18.Spec C18.Codec.
Import ListNotations.
Open Scope string_scope.

(* ------------------------------------------------------------------ get / set / del *)

Lemma lookup_set_eq k v d : lookup k (set k v d) = Some v.
Proof.
  induction d as [|[k' v'] r IH]; cbn [set lookup].
  - rewrite String.eqb_refl. reflexivity.
  - destruct (String.eqb k k') eqn:E; cbn [lookup]; rewrite E; [reflexivity|exact IH].
Qed.

Lemma lookup_set_neq k k0 v d : k0 <> k -> lookup k0 (set k v d) = lookup k0 d.
Proof.
  intros Hne. induction d as [|[k' v'] r IH]; cbn [set lookup].
  - apply String.eqb_neq in Hne. rewrite Hne. reflexivity.
  - destruct (String.eqb k k') eqn:E; cbn [lookup].
    + apply String.eqb_eq in E. subst k'. apply String.eqb_neq in Hne. rewrite Hne. reflexivity.
    + rewrite IH. reflexivity.
Qed.

Lemma lookup_del_eq k d : lookup k (del k d) = None.
Proof.
  induction d as [|[k' v'] r IH]; cbn [del lookup]; [reflexivity|].
  destruct (String.eqb k k') eqn:E; [exact IH|]. cbn [lookup]. rewrite E. exact IH.
Qed.

Lemma lookup_del_neq k k0 d : k0 <> k -> lookup k0 (del k d) = lookup k0 d.
Proof.
  intros Hne. induction d as [|[k' v'] r IH]; cbn [del lookup]; [reflexivity|].
  destruct (String.eqb k k') eqn:E; cbn [lookup].
  - apply String.eqb_eq in E. subst k'. apply String.eqb_neq in Hne. rewrite Hne. exact IH.
  - rewrite IH. reflexivity.
Qed.

Lemma lookup_set k k0 v d : lookup k0 (set k v d) = if String.eqb k0 k then Some v else lookup k0 d.
Proof.
  destruct (String.eqb k0 k) eqn:E.
  - apply String.eqb_eq in E. subst. apply lookup_set_eq.
  - apply String.eqb_neq in E. apply lookup_set_neq. exact E.
Qed.

Lemma lookup_del k k0 d : lookup k0 (del k d) = if String.eqb k0 k then None else lookup k0 d.
Proof.
  destruct (String.eqb k0 k) eqn:E.
  - apply String.eqb_eq in E. subst. apply lookup_del_eq.
  - apply String.eqb_neq in E. apply lookup_del_neq. exact E.
Qed.

Lemma lookup_none_notin k d : ~ In k (map fst d) -> lookup k d = None.
Proof.
  induction d as [|[k' v'] r IH]; cbn [lookup map fst In]; [reflexivity|].
  intros H. destruct (String.eqb k k') eqn:E.
  - apply String.eqb_eq in E. subst. exfalso. apply H. left; reflexivity.
  - apply IH. intros Hin. apply H. right; exact Hin.
Qed.

(* ------------------------------------------------------------------ boolean equalities *)

Lemma ostr_eqb_eq a b : ostr_eqb a b = true <-> a = b.
Proof.
  destruct a as [x|], b as [y|]; cbn; try (split; [discriminate|discriminate]).
  - rewrite String.eqb_eq. split; [intros ->; reflexivity|intros E; inversion E; reflexivity].
  - split; reflexivity.
Qed.

Lemma ostr_eqb_refl a : ostr_eqb a a = true.
Proof. apply ostr_eqb_eq. reflexivity. Qed.

Lemma ostr_eqb_neq a b : ostr_eqb a b = false <-> a <> b.
Proof.
  split.
  - intros H E. apply ostr_eqb_eq in E. congruence.
  - intros H. destruct (ostr_eqb a b) eqn:E; [|reflexivity]. apply ostr_eqb_eq in E. contradiction.
Qed.

Lemma nameid_eqb_eq a b : nameid_eqb a b = true <-> a = b.
Proof.
  unfold nameid_eqb. rewrite !andb_true_iff, !ostr_eqb_eq.
  destruct a as [a1 a2 a3 a4 a5], b as [b1 b2 b3 b4 b5]; cbn [nq spq fmt spid txt]. split.
  - intros [[[[-> ->] ->] ->] ->]. reflexivity.
  - intros E. inversion E. auto.
Qed.

Lemma exc_eqb_eq a b : exc_eqb a b = true <-> a = b.
Proof. destruct a, b; cbn; split; congruence. Qed.

Lemma out_eqb_eq a b : out_eqb a b = true <-> a = b.
Proof.
  destruct a, b; cbn [out_eqb]; try (split; [discriminate|discriminate]).
  - split; reflexivity.
  - rewrite nameid_eqb_eq. split; [intros ->; reflexivity|intros E; inversion E; reflexivity].
  - rewrite (list_eqb_eq nameid_eqb nameid_eqb_eq). split; [intros ->; reflexivity|intros E; inversion E; reflexivity].
  - rewrite String.eqb_eq. split; [intros ->; reflexivity|intros E; inversion E; reflexivity].
  - rewrite exc_eqb_eq. split; [intros ->; reflexivity|intros E; inversion E; reflexivity].
Qed.

Lemma db_eqb_iff a b : db_eqb a b = true <-> same_map a b.
Proof.
  unfold db_eqb, same_map. rewrite forallb_forall. split.
  - intros H k. destruct (in_dec string_dec k (map fst (a ++ b))) as [Hin|Hnot].
    + apply in_map_iff in Hin as [[k' v] [<- Hin]]. specialize (H _ Hin). apply ostr_eqb_eq in H. exact H.
    + rewrite map_app, in_app_iff in Hnot.
      rewrite !lookup_none_notin by tauto. reflexivity.
  - intros H kv _. apply ostr_eqb_eq. apply H.
Qed.

Lemma same_map_refl d : same_map d d.
Proof. intros k. reflexivity. Qed.

(* ------------------------------------------------------------------ elements of a forward entry *)

Lemma elements_nonempty v : elements v <> [].
Proof. apply split_on_nonempty. Qed.

Lemma elements_no_space v : forall x, In x (elements v) -> no_char space_char x = true.
Proof. apply split_on_parts_no_sep. Qed.

Lemma elements_join l :
  l <> [] -> (forall x, In x l -> no_char space_char x = true) -> elements (join " " l) = l.
Proof. intros H1 H2. unfold elements. change " " with (String space_char EmptyString). apply split_on_join; assumption. Qed.

Lemma join_elements v : join " " (elements v) = v.
Proof. unfold elements. change " " with (String space_char EmptyString). apply join_split. Qed.

Lemma filter_remove_first (p : string -> bool) x l :
  p x = false -> filter p (remove_first x l) = filter p l.
Proof.
  intros Hx. induction l as [|y r IH]; cbn [remove_first filter]; [reflexivity|].
  destruct (String.eqb x y) eqn:E.
  - apply String.eqb_eq in E. subst y. rewrite Hx. reflexivity.
  - cbn [filter]. rewrite IH. reflexivity.
Qed.

Lemma filter_remove_first_comm (p : string -> bool) x l :
  p x = true -> filter p (remove_first x l) = remove_first x (filter p l).
Proof.
  intros Hx. induction l as [|y r IH]; cbn [remove_first filter]; [reflexivity|].
  destruct (String.eqb x y) eqn:E.
  - apply String.eqb_eq in E. subst y. rewrite Hx. cbn [remove_first]. rewrite String.eqb_refl. reflexivity.
  - cbn [filter]. destruct (p y); [|exact IH]. cbn [remove_first]. rewrite E, IH. reflexivity.
Qed.

Lemma in_remove_first x y l : In y (remove_first x l) -> In y l.
Proof.
  induction l as [|z r IH]; cbn [remove_first]; [intros []|].
  destruct (String.eqb x z); [intros H; right; exact H|].
  intros [<-|H]; [left; reflexivity|right; apply IH; exact H].
Qed.

Lemma in_remove_first_other x y l : In y l -> y <> x -> In y (remove_first x l).
Proof.
  intros Hin Hne. induction l as [|z r IH]; [destruct Hin|]. cbn [remove_first].
  destruct (String.eqb x z) eqn:E.
  - apply String.eqb_eq in E. subst z. destruct Hin as [<-|H]; [congruence|exact H].
  - destruct Hin as [<-|H]; [left; reflexivity|right; apply IH; exact H].
Qed.

Lemma remove_first_subset x l : forall y, In y (remove_first x l) -> In y l.
Proof. intros y. apply in_remove_first. Qed.

Lemma nonempty_iff s : nonempty s = true <-> s <> "".
Proof. destruct s; cbn; split; congruence. Qed.

(* the stored identifiers after writing back a list of elements *)
Lemma fw_set_same d u l :
  (forall x, In x l -> no_char space_char x = true) ->
  fw (set u (join " " l) d) u = filter nonempty l.
Proof.
  intros Hl. unfold fw. rewrite lookup_set_eq.
  destruct l as [|a l]; [reflexivity|].
  rewrite elements_join; [reflexivity|discriminate|exact Hl].
Qed.

Lemma fw_set_other d k v u : u <> k -> fw (set k v d) u = fw d u.
Proof. intros H. unfold fw. rewrite lookup_set_neq by exact H. reflexivity. Qed.

Lemma fw_del_other d k u : u <> k -> fw (del k d) u = fw d u.
Proof. intros H. unfold fw. rewrite lookup_del_neq by exact H. reflexivity. Qed.

Definition stored_elements (d : db) (u : string) : list string :=
  match lookup u d with Some v => elements v | None => [] end.

Lemma fw_stored d u : fw d u = filter nonempty (stored_elements d u).
Proof. unfold fw, stored_elements. destruct (lookup u d); reflexivity. Qed.

Lemma stored_no_space d u : forall x, In x (stored_elements d u) -> no_char space_char x = true.
Proof. unfold stored_elements. destruct (lookup u d); [apply elements_no_space|intros x []]. Qed.

Lemma filter_idem {A} (p : A -> bool) l : filter p (filter p l) = filter p l.
Proof.
  induction l as [|x r IH]; cbn [filter]; [reflexivity|].
  destruct (p x) eqn:E; cbn [filter]; [rewrite E, IH|rewrite IH]; reflexivity.
Qed.

Lemma store_db_fw d u n t : store_db d u n t = set t u (set u (join " " (fw d u ++ [code n])) d).
Proof. unfold store_db, fw. destruct (lookup u d); reflexivity. Qed.

Lemma fw_no_space d u : forall x, In x (fw d u) -> no_char space_char x = true.
Proof. intros x Hx. rewrite fw_stored in Hx. apply filter_In in Hx as [Hx _]. apply (stored_no_space d u x Hx). Qed.

(* store(): the user's identifiers gain one element at the end *)
Lemma fw_store_db d u n t :
  t <> u -> truthy (txt n) = true ->
  fw (store_db d u n t) u = (fw d u ++ [code n])%list.
Proof.
  intros Htu Ht. rewrite store_db_fw. rewrite fw_set_other by congruence.
  rewrite fw_set_same.
  - rewrite filter_app. cbn [filter]. rewrite fw_stored, filter_idem.
    assert (Hc : nonempty (code n) = true) by (apply nonempty_iff, code_nonempty; exact Ht).
    rewrite Hc. reflexivity.
  - intros x Hx. apply in_app_iff in Hx as [Hx|[<-|[]]]; [apply (fw_no_space d u); exact Hx|apply code_no_space].
Qed.

Lemma lookup_store_db d u n t k :
  k <> u -> k <> t -> lookup k (store_db d u n t) = lookup k d.
Proof. intros H1 H2. rewrite store_db_fw. rewrite !lookup_set_neq by assumption. reflexivity. Qed.

Lemma lookup_store_db_text d u n t : lookup t (store_db d u n t) = Some u.
Proof. rewrite store_db_fw. apply lookup_set_eq. Qed.

Lemma fw_store_db_other d u n t k : k <> u -> k <> t -> fw (store_db d u n t) k = fw d k.
Proof. intros H1 H2. unfold fw. rewrite lookup_store_db by assumption. reflexivity. Qed.

(* remove_remote(): the forward entry is rewritten, or deleted when nothing is left *)
Definition put_rest (id : string) (rest : list string) (d : db) : db :=
  match rest with [] => del id d | _ => set id (join " " rest) d end.

(* remove_remote(): what a successful removal does *)
Lemma remove_remote_ok d n d' :
  remove_remote d n = Ok d' ->
  exists t id, txt n = Some t /\ lookup t d = Some id
    /\ ((lookup id d = None /\ d' = del t d)
        \/ (exists v, lookup id d = Some v /\ In (code n) (elements v)
                      /\ d' = del t (put_rest id (remove_first (code n) (elements v)) d))).
Proof.
  unfold remove_remote. destruct (txt n) as [t|]; [|discriminate].
  destruct (lookup t d) as [id|] eqn:Ht; [|discriminate].
  destruct (lookup id d) as [v|] eqn:Hv.
  - destruct (mem (code n) (elements v)) eqn:Hm; [|discriminate].
    intros E. inversion E. exists t, id. split; [reflexivity|]. split; [exact Ht|].
    right. exists v. split; [exact Hv|]. split; [apply mem_In; exact Hm|reflexivity].
  - intros E. inversion E. exists t, id. split; [reflexivity|]. split; [exact Ht|].
    left. split; [exact Hv|reflexivity].
Qed.

Lemma remove_remote_err d n e : remove_remote d n = Err e -> e = KeyErr \/ e = ValueErr.
Proof.
  unfold remove_remote. destruct (txt n) as [t|]; [|intros E; inversion E; auto].
  destruct (lookup t d) as [id|]; [|intros E; inversion E; auto].
  destruct (lookup id d) as [v|]; [|discriminate].
  destruct (mem (code n) (elements v)); [discriminate|intros E; inversion E; auto].
Qed.

Lemma lookup_put_rest id rest d k : k <> id -> lookup k (put_rest id rest d) = lookup k d.
Proof.
  intros H. unfold put_rest. destruct rest; [apply lookup_del_neq|apply lookup_set_neq]; exact H.
Qed.

Lemma fw_put_rest_other id rest d k : k <> id -> fw (put_rest id rest d) k = fw d k.
Proof. intros H. unfold fw. rewrite lookup_put_rest by exact H. reflexivity. Qed.

Lemma fw_remove d id v c :
  lookup id d = Some v -> c <> "" ->
  fw (put_rest id (remove_first c (elements v)) d) id = remove_first c (fw d id).
Proof.
  intros Hv Hc.
  assert (Hf : filter nonempty (remove_first c (elements v)) = remove_first c (fw d id)).
  { unfold fw. rewrite Hv. apply filter_remove_first_comm. apply nonempty_iff. exact Hc. }
  unfold put_rest. destruct (remove_first c (elements v)) as [|a r] eqn:Er.
  - rewrite <- Hf. unfold fw. rewrite lookup_del_eq. reflexivity.
  - rewrite <- Hf, <- Er. apply fw_set_same.
    intros x Hx. apply in_remove_first in Hx. apply (elements_no_space v). exact Hx.
Qed.
