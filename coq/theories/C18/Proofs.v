(* C18/Proofs.v — placeholder while the main proofs are being developed *)
From Coq Require Import String List Bool.
From Verif Require Import Base.Str C18.Model C18.Spec C18.Codec C18.Maps C18.Plan.
